(* Co-simulation driver: replays the labels of implementation traces on the
   extracted Coq model (gen/model.ml) and compares observations, snapshots and
   blocked sets.  Parsing and printing only; all semantics is in Model.step. *)
open Model

let rec nat_of_int n = if n <= 0 then O else S (nat_of_int (n - 1))
let rec int_of_nat = function O -> 0 | S n -> 1 + int_of_nat n

let rec int_of_pos = function
  | XH -> 1
  | XO p -> 2 * int_of_pos p
  | XI p -> 2 * int_of_pos p + 1

let z_of_small n : z = if n >= 0 then Z.of_nat (nat_of_int n) else Z.opp (Z.of_nat (nat_of_int (-n)))
let z10 = z_of_small 10

(* decimal string (possibly huge, possibly negative) -> z *)
let z_of_string s : z =
  let neg, s = if String.length s > 0 && s.[0] = '-' then true, String.sub s 1 (String.length s - 1) else false, s in
  if s = "" then failwith "z_of_string: empty";
  let acc = ref Z0 in
  String.iter (fun ch ->
    if ch < '0' || ch > '9' then failwith ("z_of_string: " ^ s);
    acc := Z.add (Z.mul !acc z10) (z_of_small (Char.code ch - 48))) s;
  if neg then Z.opp !acc else !acc

let rec pos_bits = function XH -> 1 | XO p | XI p -> 1 + pos_bits p
let string_of_z = function
  | Z0 -> "0"
  | Zpos p -> if pos_bits p > 60 then "BIG" else string_of_int (int_of_pos p)
  | Zneg p -> if pos_bits p > 60 then "-BIG" else string_of_int (- (int_of_pos p))

let split_on c s = List.filter (fun x -> x <> "") (String.split_on_char c s)

let parse_keys s = if s = "-" then [] else List.map (fun x -> nat_of_int (int_of_string x)) (split_on ',' s)

exception Bad of string

let parse_shape = function
  | "b" -> ShBlocking | "a" -> ShAsync | "t" -> ShTry | "ta" -> ShTryAsync
  | s -> raise (Bad ("shape " ^ s))

(* Guard names. The harness numbers guards in the order they are created, the model in the order its steps create
   them; when steps of other agents are placed before or after a critical section that was interrupted the two orders
   can differ. Guards are therefore identified by the observation that announces them (same observation, same key),
   not by their number: [m2i]/[i2m] is the bijection built up that way, labels are translated on the way in,
   observations on the way out. *)
let m2i : (int, int) Hashtbl.t = Hashtbl.create 64
let i2m : (int, int) Hashtbl.t = Hashtbl.create 64
let gin (s : string) : nat =
  let i = int_of_string s in
  match Hashtbl.find_opt i2m i with Some m -> nat_of_int m | None -> nat_of_int (100000 + i)

let parse_label (toks : string list) : label =
  let n s = nat_of_int (int_of_string s) in
  match toks with
  | ["start"; a; "lock"; sh; k; lim] ->
      let l = int_of_string lim in
      LStart (n a, CLock (parse_shape sh, n k, if l = 0 then None else Some (nat_of_int l)))
  | ["start"; a; "drop"; g] -> LStart (n a, CDrop (gin g))
  | ["start"; a; "expire"; d] -> LStart (n a, CExpire (z_of_string d))
  | ["start"; a; "stream"] -> LStart (n a, CStream)
  | ["start"; a; "count"] -> LStart (n a, CCount)
  | ["start"; a; "keys"] -> LStart (n a, CKeys)
  | ["resume"; a] -> LResume (n a, [])
  | ["resume"; a; o] -> LResume (n a, parse_keys o)
  | ["sub"; a; k] -> LSub (n a, n k, [])
  | ["sub"; a; k; o] -> LSub (n a, n k, parse_keys o)
  | ["pollend"; a] -> LPollEnd (n a)
  | ["cancel"; a] -> LCancel (n a)
  | ["gop"; g; "ins"; v] -> LGuardOp (gin g, GInsert (z_of_string v))
  | ["gop"; g; "rem"] -> LGuardOp (gin g, GRemove)
  | ["gop"; g; "set"; v] -> LGuardOp (gin g, GSet (z_of_string v))
  | ["gop"; g; "tryins"; v] -> LGuardOp (gin g, GTryInsert (z_of_string v))
  | ["gop"; g; "getins"; v] -> LGuardOp (gin g, GGetOrInsert (z_of_string v))
  | ["gop"; g; "read"] -> LGuardOp (gin g, GRead)
  | ["gop"; g; "cpanic"] -> LGuardOp (gin g, GClosurePanic)
  | ["cbret"; a; r; h] ->
      let r = (match r with "ok" -> CbOk | "err" -> CbErr | "panic" -> CbPanic | s -> raise (Bad ("cbres " ^ s))) in
      let h = (match h with "hold" -> true | "table" -> false | s -> raise (Bad ("hold " ^ s))) in
      LCbReturn (n a, r, h)
  | ["tick"; d] -> LTick (z_of_string d)
  | ["consume"] -> LConsume []
  | ["consume"; o] -> LConsume (parse_keys o)
  | _ -> raise (Bad ("label: " ^ String.concat " " toks))

let sk k = string_of_int (int_of_nat k)
let sv = function None -> "-" | Some z -> string_of_z z
let overlay : (int * int) list ref = ref []     (* candidate bindings of the comparison in progress *)
let sg g =
  let g = int_of_nat g in
  match List.assoc_opt g !overlay with
  | Some i -> string_of_int i
  | None -> (match Hashtbl.find_opt m2i g with Some i -> string_of_int i | None -> "m" ^ string_of_int g)
let sgkv l = if l = [] then "-" else String.concat "," (List.map (fun ((g, k), v) -> sg g ^ ":" ^ sk k ^ ":" ^ string_of_z v) l)
let skeys l = if l = [] then "-" else String.concat "," (List.map sk l)

let string_of_obs ~sorted = function
  | ONothing -> "-"
  | OGuard (g, k, v) -> Printf.sprintf "guard %s %s %s" (sg g) (sk k) (sv v)
  | OTryFail -> "tryfail"
  | OErr -> "err"
  | OPanicked -> "panicked"
  | OUnit -> "unit"
  | OCancelled -> "cancelled"
  | OOffered l -> "offered " ^ sgkv l
  | OExpired l -> "expired " ^ sgkv l
  | OStream ks -> "stream " ^ skeys ks
  | OItem (g, k, v) -> Printf.sprintf "item %s %s %s" (sg g) (sk k) (string_of_z v)
  | OPending -> "pending"
  | OEnd -> "end"
  | OCount n -> "count " ^ sk n
  | OKeys l ->
      let l = List.map int_of_nat l in
      let l = if sorted then List.sort compare l else l in
      "keys " ^ (if l = [] then "-" else String.concat "," (List.map string_of_int l))
  | OVal v -> "val " ^ sv v
  | OExists -> "exists"
  | OConsumed l ->
      let l = List.map (fun (k, v) -> (int_of_nat k, string_of_z v)) l in
      let l = List.sort compare l in
      "consumed " ^ (if l = [] then "-" else String.concat "," (List.map (fun (k, v) -> string_of_int k ^ ":" ^ v) l))

(* canonical form of the implementation's observation text *)
let canon_impl_obs (s : string) : string =
  match split_on ' ' s with
  | ["keys"; l] when l <> "-" ->
      let l = List.sort compare (List.map int_of_string (split_on ',' l)) in
      "keys " ^ String.concat "," (List.map string_of_int l)
  | ["consumed"; l] when l <> "-" ->
      let l = List.map (fun x -> match split_on ':' x with [k; v] -> (int_of_string k, v) | _ -> raise (Bad x)) (split_on ',' l) in
      let l = List.sort compare l in
      "consumed " ^ String.concat "," (List.map (fun (k, v) -> string_of_int k ^ ":" ^ v) l)
  | toks -> String.concat " " toks

(* does the model's observation equal the implementation's, up to the names of the guards it announces?  New guards
   are paired by key; the pairing is kept only if the observations agree. *)
let obs_matches (o : obs) (impl : string) : bool =
  let announced = (match o with
    | OGuard (g, k, _) | OItem (g, k, _) -> [(int_of_nat g, int_of_nat k)]
    | OOffered l | OExpired l -> List.map (fun ((g, k), _) -> (int_of_nat g, int_of_nat k)) l
    | _ -> []) in
  let impl_pairs = (match split_on ' ' impl with
    | ("guard" | "item") :: g :: k :: _ -> (try [(int_of_string g, int_of_string k)] with _ -> [])
    | ("offered" | "expired") :: l :: _ when l <> "-" ->
        List.filter_map (fun x -> match String.split_on_char ':' x with
          | g :: k :: _ -> (try Some (int_of_string g, int_of_string k) with _ -> None) | _ -> None) (split_on ',' l)
    | _ -> []) in
  let cand = List.filter_map (fun (mg, k) ->
    if Hashtbl.mem m2i mg then None else
    match List.find_opt (fun (ig, ik) -> ik = k && not (Hashtbl.mem i2m ig)) impl_pairs with
    | Some (ig, _) -> Some (mg, ig) | None -> None) announced in
  overlay := cand;
  let ok = (string_of_obs ~sorted:true o = impl) in
  overlay := [];
  if ok then List.iter (fun (mg, ig) -> Hashtbl.replace m2i mg ig; Hashtbl.replace i2m ig mg) cand;
  ok

type isnap = { ik : int; iv : string; ist : string; il : string; ir : int }

let parse_snap (s : string) : isnap list =
  List.map (fun x -> match String.split_on_char ':' x with
    | [k; v; st; l; r] -> { ik = int_of_string k; iv = v; ist = st; il = l; ir = int_of_string r }
    | _ -> raise (Bad ("snap " ^ x))) (split_on ' ' s)

let model_snap (s : state) : isnap list =
  List.map (fun sn -> { ik = int_of_nat sn.sn_key; iv = sv sn.sn_val; ist = string_of_z sn.sn_stamp;
                        il = (if sn.sn_locked then "1" else "0"); ir = int_of_nat sn.sn_repl }) (snapshot s)

let show_snap l = String.concat " " (List.map (fun e -> Printf.sprintf "%d:%s:%s:%s:%d" e.ik e.iv e.ist e.il e.ir) l)

(* fields excluded from the comparison (--ignore=order,stamp,value,repl) *)
let ign_order = ref false and ign_stamp = ref false and ign_value = ref false and ign_repl = ref false

(* returns None if equal, Some description otherwise *)
let compare_snap ~lru (impl : isnap list) (model : isnap list) : string option =
  let impl, model = if lru && not !ign_order then impl, model
    else List.sort (fun a b -> compare a.ik b.ik) impl, List.sort (fun a b -> compare a.ik b.ik) model in
  if List.map (fun e -> e.ik) impl <> List.map (fun e -> e.ik) model then
    Some (Printf.sprintf "keys/order impl=[%s] model=[%s]" (show_snap impl) (show_snap model))
  else
    let bad = List.filter (fun (i, m) ->
      i.il <> m.il || (not !ign_repl && i.ir <> m.ir)
      || (not !ign_value && i.iv <> "?" && i.iv <> m.iv)
      || (lru && not !ign_stamp && i.ist <> "?" && i.iv <> "?" && i.iv <> "-" && i.ist <> m.ist)) (List.combine impl model) in
    match bad with
    | [] -> None
    | (i, _) :: _ -> Some (Printf.sprintf "entry %d impl=[%s] model=[%s]" i.ik (show_snap impl) (show_snap model))

type verdict = VOk | VMismatch of int * string * string (* step index, kind, detail *)

(* statistics *)
let n_traces = ref 0 and n_ok = ref 0 and n_mis = ref 0 and n_labels = ref 0
let n_snap = ref 0 and n_obs = ref 0 and n_blk = ref 0
let kinds : (string, int) Hashtbl.t = Hashtbl.create 32
let bump k = Hashtbl.replace kinds k (1 + try Hashtbl.find kinds k with Not_found -> 0)

(* model transition coverage: which (where the acting call was, what the model's step did) pairs the
   co-simulated traces exercised.  Key: "<pc before>><pc after or done>/<observation kind>". *)
let n_fine_cont = ref 0
let trans : (string, int) Hashtbl.t = Hashtbl.create 64
let bump_t k = Hashtbl.replace trans k (1 + try Hashtbl.find trans k with Not_found -> 0)
let pc_name = function
  | PEnter (_, _, None) -> "Enter" | PEnter (_, _, Some _) -> "EnterLim" | PInCb _ -> "InCb" | PKeyTry _ -> "KeyTry"
  | PKeyWait _ -> "KeyWait" | PQueued _ -> "Queued" | PCleanup _ -> "Cleanup" | PCancel _ -> "Cancel"
  | PDrops (_, ADoneUnit) -> "Drops" | PDrops (_, ADoneErr) -> "DropsErr" | PDrops (_, ADonePanicked) -> "DropsPanic"
  | PDrops (_, AReenter _) -> "DropsReenter" | PScan _ -> "Scan" | PStreamEnter -> "StreamEnter"
  | PStream _ -> "Stream" | PStreamDrop _ -> "StreamDrop" | PCount -> "Count" | PKeys -> "Keys"
let obs_name = function
  | ONothing -> "-" | OGuard (_, _, None) -> "guardNone" | OGuard (_, _, Some _) -> "guardSome" | OTryFail -> "tryfail"
  | OErr -> "err" | OPanicked -> "panicked" | OUnit -> "unit" | OCancelled -> "cancelled" | OOffered _ -> "offered"
  | OExpired [] -> "expired0" | OExpired _ -> "expired" | OStream _ -> "stream" | OItem _ -> "item" | OPending -> "pending"
  | OEnd -> "end" | OCount _ -> "count" | OKeys _ -> "keys" | OVal None -> "valNone" | OVal (Some _) -> "valSome"
  | OExists -> "exists" | OConsumed _ -> "consumed"
let label_aid = function
  | LStart (a, _) | LResume (a, _) | LSub (a, _, _) | LPollEnd a | LCancel a | LCbReturn (a, _, _) -> Some a
  | _ -> None
let sub_name st = function
  | LSub (a, k, _) ->
      (match aget a st.s_ops with
       | Some (PStream subs) | Some (PStreamDrop subs) ->
           (match aget k subs with Some SInit -> ":init" | Some SQueued -> ":queued" | Some (SUnlocking _) -> ":unlocking" | None -> ":none")
       | _ -> "")
  | LCbReturn (_, r, h) -> (match r with CbOk -> ":ok" | CbErr -> ":err" | CbPanic -> ":panic") ^ (if h then ":hold" else ":table")
  | _ -> ""
let pc_at st a = match aget a st.s_ops with Some p -> pc_name p | None -> "none"
let n_deferred = ref 0
let n_scan_pauses = ref 0
let distinct : (int, unit) Hashtbl.t = Hashtbl.create 4096
let maxlen = ref 0

let process_trace (id : string) (backend : string) (lines : (char * string) list) : verdict =
  let lru = backend = "L" in
  let c : cfg = lru in
  Hashtbl.reset m2i; Hashtbl.reset i2m;
  let st = ref init in
  let idx = ref 0 in
  let result = ref VOk in
  let pending_model_obs = ref None in
  let h = ref 0 in
  let nl = ref 0 in
  (* fine-grained traces: [marker] = the segment being read ends with that agent parked in the middle of a
     critical section; [mid] = the agent that is there now, with the observation the model produced when
     the whole critical section was applied at its first half (the linearisation point, DESIGN section 4.7) *)
  let marker = ref None in
  let marker_site = ref 0 in
  let mid = ref None in
  let entering = ref false in
  (* sites 1 (_unlock after the key mutex was released) and 3 (PendingLock::drop after the waiting future was
     dropped): the critical section takes effect at its first half (others can see the release at once);
     sites 4 (after the look-up) and 7 (entry of the clean-up after a failed try): nothing another thread can
     see without the global lock has happened yet, the critical section takes effect at its second half *)
  let early site = (site = 1 || site = 3) in
  (* [between]: agents parked at a Between site (after a failed try of the key mutex, outside any critical section):
     the model made the step when the try ran; the agent's next segment only walks to the next site *)
  let between = ref [] in
  let between_new = ref [] in
  (* a scan under the global lock (site 5: before each try of a key mutex while the lock is held) takes effect at
     its end; a step another agent makes in the middle of it belongs before the scan if the model, not having made
     the scan yet, agrees with what the implementation observed, and after it otherwise (then it saw a key the scan
     had already locked): [deferred] holds the latter, replayed right after the scan's own step *)
  let mid_scan = ref false in
  let tentative = ref None in
  let deferred = ref [] in
  let deferred_agents = ref [] in
  let flush_after_obs = ref false in
  let n_deferred_local = ref 0 in
  (try
    List.iter (fun (tag, rest) ->
      match tag with
      | 'n' ->
          (match split_on ' ' rest with
           | a :: _ -> between_new := int_of_string a :: !between_new
           | _ -> ())
      | 'l' when (match label_aid (parse_label (split_on ' ' rest)) with
                  | Some x -> List.mem (int_of_nat x) !between | None -> false) ->
          incr idx; incr n_labels; incr nl; incr n_fine_cont;
          h := Hashtbl.hash (!h, rest);
          (match label_aid (parse_label (split_on ' ' rest)) with
           | Some x -> between := List.filter (fun a -> a <> int_of_nat x) !between
           | None -> ());
          pending_model_obs := Some (`Obs ONothing)
      | 'm' ->
          (match split_on ' ' rest with
           | a :: site :: _ -> marker := Some (int_of_string a); marker_site := int_of_string site
           | _ -> ())
      | 'l' when (match !mid, label_aid (parse_label (split_on ' ' rest)) with
                  | Some (a, _), Some x -> int_of_nat x = a | _ -> false) ->
          (* second half of a critical section: the model already made the whole step *)
          incr idx; incr n_labels; incr nl; incr n_fine_cont;
          h := Hashtbl.hash (!h, rest);
          (match parse_label (split_on ' ' rest) with
           | LSub _ -> raise Exit   (* streams in the middle of a critical section: not compared *)
           | _ -> ());
          let again = (match !marker, !mid with Some a, Some (a', _) -> a = a' | _ -> false) in
          if again then begin
            (* the agent parks again inside the same critical section (next iteration of a scan, the look-up after it,
               or - with slow_assertions - the checker's own tries before the body): nothing to compare yet *)
            if !marker_site = 5 then (mid_scan := true; incr n_scan_pauses);
            pending_model_obs := Some `Skip;
            (match !mid with
             | Some (a, None) when early !marker_site ->
                 (* it has now reached a point whose effect others can see (key mutex released / waiter gone):
                    the critical section takes effect here *)
                 let lab = parse_label (split_on ' ' rest) in
                 (match step c !st lab with
                  | ROk (s', o) ->
                      (match label_aid lab with
                       | Some x -> bump_t (pc_at !st x ^ sub_name !st lab ^ ">" ^ pc_at s' x ^ "/" ^ obs_name o)
                       | None -> ());
                      st := s'; mid := Some (a, Some o); flush_after_obs := true
                  | RInvalid -> pending_model_obs := Some `Invalid
                  | RPanic site -> pending_model_obs := Some (`Panic (int_of_nat site)))
             | _ -> ())
          end else
          (match !mid with
           | Some (_, Some o) -> pending_model_obs := Some (`Obs o); flush_after_obs := true
           | Some (_, None) ->
               flush_after_obs := true;
               let toks = split_on ' ' rest in
               (match toks with k :: _ -> bump k | [] -> ());
               let lab = parse_label toks in
               (match step c !st lab with
                | ROk (s', o) ->
                    (match label_aid lab with
                     | Some a -> bump_t (pc_at !st a ^ sub_name !st lab ^ ">" ^ pc_at s' a ^ "/" ^ obs_name o)
                     | None -> ());
                    st := s'; pending_model_obs := Some (`Obs o)
                | RInvalid -> pending_model_obs := Some `Invalid
                | RPanic site -> pending_model_obs := Some (`Panic (int_of_nat site)))
           | None -> ());
          if not again then mid := None
      | 'l' ->
          incr idx; incr n_labels; incr nl;
          h := Hashtbl.hash (!h, rest);
          let toks = split_on ' ' rest in
          (match toks with k :: _ -> bump (match toks with "start" :: _ :: c :: _ -> "start-" ^ c | "gop" :: _ :: c :: _ -> "gop-" ^ c | _ -> k) | [] -> ());
          let lab = parse_label toks in
          entering := (match !marker, !mid, label_aid lab with
                       | Some a, None, Some x -> int_of_nat x = a | _ -> false);
          if !entering then (match lab with LSub _ -> raise Exit | _ -> ());
          if !entering && !marker_site = 5 then mid_scan := true;
          if !entering && not (early !marker_site) then pending_model_obs := Some `Late else
          let st_before = !st in
          if !mid_scan && not !entering && (match !mid with Some (_, None) -> true | _ -> false)
          then tentative := Some (st_before, rest) else tentative := None;
          (* an agent one of whose steps was ordered after the scan: its later steps follow it there *)
          if !tentative <> None && (match lab with
               | LSub (x, k, _) ->
                   (* the per-entry futures of a stream are independent of each other: only the same future, or an
                      earlier step of the stream as a whole, pulls this one along *)
                   List.mem (int_of_nat x, Some (int_of_nat k)) !deferred_agents || List.mem (int_of_nat x, None) !deferred_agents
               | _ -> (match label_aid lab with Some x -> List.exists (fun (a, _) -> a = int_of_nat x) !deferred_agents | None -> false))
          then pending_model_obs := Some `ForceDefer else
          (match step c !st lab with
           | ROk (s', o) ->
               (match label_aid lab with
                | Some a -> bump_t (pc_at !st a ^ sub_name !st lab ^ ">" ^ pc_at s' a ^ "/" ^ obs_name o)
                | None -> bump_t ((match toks with k :: _ -> k | [] -> "?") ^ "/" ^ obs_name o));
               st := s'; pending_model_obs := Some (`Obs o)
           | RInvalid -> pending_model_obs := Some `Invalid
           | RPanic site -> pending_model_obs := Some (`Panic (int_of_nat site)))
      | 'o' ->
          incr n_obs;
          let impl = canon_impl_obs rest in
          let impl_panic = String.length impl >= 5 && String.sub impl 0 5 = "PANIC" in
          let impl_hang = String.length impl >= 4 && String.sub impl 0 4 = "HANG" in
          let defer () =
            (match !tentative with
             | Some (st0, lab) ->
                 st := st0; deferred := (lab, impl) :: !deferred; incr n_deferred_local; incr n_deferred; tentative := None;
                 (match parse_label (split_on ' ' lab) with
                  | LSub (x, k, _) -> deferred_agents := (int_of_nat x, Some (int_of_nat k)) :: !deferred_agents
                  | l -> (match label_aid l with Some x -> deferred_agents := (int_of_nat x, None) :: !deferred_agents | None -> ()));
                 true
             | None -> false) in
          (match !pending_model_obs with
           | None -> raise (Bad "o line without l line")
           | Some `Skip ->
               if impl <> "-" then begin
                 result := VMismatch (!idx, "obs", Printf.sprintf "impl=[%s] in the middle of a critical section" impl); raise Exit end
           | Some `ForceDefer -> ignore (defer ())
           | Some `Invalid when defer () -> ()
           | Some (`Obs o) when not !entering && not (impl_panic || impl_hang) && !tentative <> None
                                && not (obs_matches o impl) && defer () -> ()
           | Some `Invalid ->
               result := VMismatch (!idx, "model-invalid", "the model does not allow this label here; impl observed: " ^ impl); raise Exit
           | Some (`Panic site) ->
               if not impl_panic then begin
                 result := VMismatch (!idx, "model-panics", Printf.sprintf "model panics at site %d, impl observed: %s" site impl); raise Exit end
               else raise Exit (* both panic: stop comparing this trace *)
           | Some `Late ->
               if impl <> "-" then begin
                 result := VMismatch (!idx, "obs", Printf.sprintf "impl=[%s] in the middle of a critical section" impl); raise Exit end;
               (match !marker with Some a -> mid := Some (a, None) | None -> ());
               entering := false
           | Some (`Obs o) when !entering && not impl_panic && not impl_hang ->
               (* first half: the implementation has nothing to report yet *)
               if impl <> "-" then begin
                 result := VMismatch (!idx, "obs", Printf.sprintf "impl=[%s] in the middle of a critical section" impl); raise Exit end;
               (match !marker with Some a -> mid := Some (a, Some o) | None -> ());
               entering := false
           | Some (`Obs o) ->
               if impl_panic || impl_hang then begin
                 result := VMismatch (!idx, "impl-panic", "impl: " ^ impl ^ " model: " ^ string_of_obs ~sorted:true o); raise Exit end;
               if not (obs_matches o impl) then begin
                 result := VMismatch (!idx, "obs", Printf.sprintf "impl=[%s] model=[%s]" impl (string_of_obs ~sorted:true o)); raise Exit end);
          pending_model_obs := None;
          tentative := None;
          if !flush_after_obs then begin
            flush_after_obs := false; mid_scan := false;
            List.iter (fun (lab, impl) ->
              match step c !st (parse_label (split_on ' ' lab)) with
              | ROk (s', o) ->
                  let m = string_of_obs ~sorted:true o in
                  if not (obs_matches o impl) then begin
                    result := VMismatch (!idx, "obs", Printf.sprintf "[%s] ran in the middle of a scan: impl=[%s], model before the scan disagrees and after the scan says [%s]" lab impl m); raise Exit end;
                  st := s'
              | RInvalid ->
                  result := VMismatch (!idx, "model-invalid", Printf.sprintf "[%s] ran in the middle of a scan (impl observed %s); the model allows it neither before nor after the scan" lab impl); raise Exit
              | RPanic site ->
                  result := VMismatch (!idx, "model-panics", Printf.sprintf "[%s] after a scan: model panics at site %d" lab (int_of_nat site)); raise Exit)
              (List.rev !deferred);
            deferred := []; deferred_agents := []
          end
      | 'b' -> between := !between_new @ !between; between_new := []
      | 's' when !marker <> None -> marker := None   (* no snapshot can be taken while the global lock is held *)
      | 's' ->
          incr n_snap;
          if String.length rest >= 8 && String.sub rest 0 8 = "POISONED" then begin
            result := VMismatch (!idx, "poisoned", rest); raise Exit end;
          if String.length rest >= 9 && String.sub rest 0 9 = "GLOCKHELD" then begin
            result := VMismatch (!idx, "glock-held", rest); raise Exit end;
          let impl = if rest = "-" then [] else parse_snap rest in
          (match compare_snap ~lru impl (model_snap !st) with
           | None -> ()
           | Some d -> result := VMismatch (!idx, "snapshot", d); raise Exit)
      | 'b' -> (* must be followed by a 'u' line; handled there *) ()
      | _ -> ()) lines;
    (* blocked sets: find pairs (b,u) relative to the labels: done in a second pass below *)
    ()
  with Exit -> ()
     | Bad m -> result := VMismatch (!idx, "parse", m)
     | Failure m -> result := VMismatch (!idx, "parse", m));
  if !nl > !maxlen then maxlen := !nl;
  Hashtbl.replace distinct !h ();
  ignore id; !result

(* The blocked-set comparison needs the model state at the time of the b/u lines, so it is
   done in the same pass; to keep process_trace simple we re-run with a wrapper that checks
   b/u lines using the state after the last label. *)
let process_trace_full id backend (lines : (char * string) list) : verdict =
  let lru = backend = "L" in
  let c : cfg = lru in
  (* first the main comparison *)
  match process_trace id backend lines with
  | VMismatch _ as v -> v
  | VOk ->
    (* second pass for blocked sets (cheap: the traces are short) *)
    let st = ref init in
    let idx = ref 0 in
    let res = ref VOk in
    let last_b = ref None in
    if List.exists (fun (tag, _) -> tag = 'm' || tag = 'n') lines then VOk else begin
    (try
      List.iter (fun (tag, rest) ->
        match tag with
        | 'l' -> incr idx;
            (match step c !st (parse_label (split_on ' ' rest)) with
             | ROk (s', _) -> st := s'
             | _ -> raise Exit)
        | 'b' -> last_b := Some rest
        | 'u' ->
            (match !last_b with
             | None -> ()
             | Some b ->
               incr n_blk;
               let ints s = if s = "-" then [] else List.map int_of_string (split_on ' ' s) in
               let unk = ints rest in
               let impl = List.sort compare (List.filter (fun a -> not (List.mem a unk)) (ints b)) in
               let model = List.sort compare (List.filter (fun a -> not (List.mem a unk)) (List.map int_of_nat (blocked_set !st))) in
               if impl <> model then begin
                 res := VMismatch (!idx, "blocked",
                   Printf.sprintf "impl blocked=[%s] model blocked=[%s]"
                     (String.concat " " (List.map string_of_int impl)) (String.concat " " (List.map string_of_int model)));
                 raise Exit end);
            last_b := None
        | _ -> ()) lines
    with Exit -> ());
    !res end

let () =
  let args = List.tl (Array.to_list Sys.argv) in
  let shard_i = ref 0 and shard_n = ref 1 and seen = ref 0 in
  let args = List.filter (fun a ->
    if String.length a > 8 && String.sub a 0 8 = "--shard=" then begin
      (* --shard=i/n: replay only the traces whose index is i modulo n (check runs the n shards in parallel) *)
      Scanf.sscanf (String.sub a 8 (String.length a - 8)) "%d/%d" (fun i n -> shard_i := i; shard_n := max 1 n);
      false end else true) args in
  let files = List.filter (fun a ->
    if String.length a > 9 && String.sub a 0 9 = "--ignore=" then begin
      List.iter (function "order" -> ign_order := true | "stamp" -> ign_stamp := true
                        | "value" -> ign_value := true | "repl" -> ign_repl := true | _ -> ())
        (String.split_on_char ',' (String.sub a 9 (String.length a - 9)));
      false end else true) args in
  if files = [] then (prerr_endline "usage: cosim <trace files...>"; exit 2);
  let first_mis = ref [] in
  List.iter (fun file ->
    let ic = open_in file in
    let cur_id = ref "" and cur_backend = ref "H" and cur = ref [] and in_trace = ref false in
    (try
      while true do
        let line = input_line ic in
        let line = String.trim line in
        if line = "" || line.[0] = '#' then ()
        else if not !in_trace && line.[0] <> 't' then ()      (* another shard's trace *)
        else begin
          let toks = split_on ' ' line in
          match toks with
          | "trace" :: id :: backend :: _ ->
              incr seen;
              cur_id := id; cur_backend := backend; cur := []; in_trace := ((!seen - 1) mod !shard_n = !shard_i)
          | "end" :: _ when !in_trace ->
              in_trace := false;
              incr n_traces;
              (match process_trace_full !cur_id !cur_backend (List.rev !cur) with
               | VOk -> incr n_ok
               | VMismatch (i, kind, detail) ->
                   incr n_mis;
                   Printf.printf "MISMATCH trace=%s backend=%s step=%d kind=%s %s\n" !cur_id !cur_backend i kind detail;
                   if List.length !first_mis < 20 then first_mis := !cur_id :: !first_mis)
          | _ when !in_trace && String.length line >= 2 && line.[1] = ' ' ->
              cur := (line.[0], String.sub line 2 (String.length line - 2)) :: !cur
          | _ when !in_trace && String.length line = 1 ->
              cur := (line.[0], "") :: !cur
          | _ -> ()
        end
      done
    with End_of_file -> close_in ic)) files;
  if !shard_n > 1 then
    Printf.printf "HASHES %s\n" (String.concat " " (Hashtbl.fold (fun k () acc -> string_of_int k :: acc) distinct []));
  let kinds_s = String.concat "," (List.sort compare (Hashtbl.fold (fun k v acc -> Printf.sprintf "\"%s\":%d" k v :: acc) kinds [])) in
  let trans_s = String.concat "," (List.sort compare (Hashtbl.fold (fun k v acc -> Printf.sprintf "\"%s\":%d" k v :: acc) trans [])) in
  Printf.printf "SUMMARY {\"traces\":%d,\"ok\":%d,\"mismatch\":%d,\"labels\":%d,\"obs_compared\":%d,\"snapshots_compared\":%d,\"blocked_sets_compared\":%d,\"distinct_label_sequences\":%d,\"max_labels\":%d,\"label_kinds\":{%s},\"mid_cs_continuations\":%d,\"scan_pauses\":%d,\"steps_ordered_after_a_scan\":%d,\"model_transitions\":{%s}}\n"
    !n_traces !n_ok !n_mis !n_labels !n_obs !n_snap !n_blk (Hashtbl.length distinct) !maxlen kinds_s !n_fine_cont !n_scan_pauses !n_deferred trans_s;
  exit (if !n_mis = 0 then 0 else 1)
