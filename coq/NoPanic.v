(* No reachable state lets a step of the model panic (C13 support). *)
From Coq Require Import List Arith ZArith Bool Lia.
From LK Require Import AList AListFacts Model Inv StepInv.
Import ListNotations.

Lemma owner_handles s k e : Inv s -> aget k (s_ents s) = Some e -> e_owner e <> None -> 0 < e_repl e.
Proof.
  intros HI He Ho. pose proof (inv_k _ HI k) as [kmx kg kw kr k2 kp]. rewrite (kr e He). unfold handles.
  destruct (e_owner e) as [[g|a]|] eqn:Eo; [| |congruence].
  - assert (0 < gcount (s_guards s) k); [|lia]. apply gcount_pos. exists g. apply aget_In. apply kg. eauto.
  - assert (0 < ops_handles (s_ops s) k); [|lia]. apply waits_on_handles with (a := a). apply kw. eauto.
Qed.

Lemma Inv_inv2_ok s : Inv s -> inv2_ok (s_ents s) = true.
Proof.
  intros HI. unfold inv2_ok. apply forallb_forall. intros [k e] Hin. cbn.
  assert (He : aget k (s_ents s) = Some e) by (apply In_aget; auto; apply (inv_nd_e _ HI)).
  destruct (Nat.eqb_spec (e_repl e) 0) as [R|R]; auto.
  destruct (e_owner e) eqn:Eo.
  - pose proof (owner_handles s k e HI He). rewrite Eo in H. specialize (H ltac:(discriminate)). lia.
  - destruct (e_val e) eqn:Ev; auto. pose proof (ki_2 _ _ (inv_k _ HI k) e He Ev). lia.
Qed.

Lemma cs_no_panic s r site :
  Inv s -> (forall site', r <> RPanic site') -> (forall s' o, r = ROk s' o -> Inv s') -> cs s r <> RPanic site.
Proof.
  intros HI Hr Hok. unfold cs, check_inv2_after. rewrite (Inv_inv2_ok s HI).
  destruct r as [s1 o1| |site1]; try discriminate.
  - rewrite (Inv_inv2_ok s1 (Hok s1 o1 eq_refl)). discriminate.
  - exfalso. eapply Hr; eauto.
Qed.

Lemma evict_scan_no_panic s order n site :
  Inv s -> evict_scan (s_ents s) order n <> inr site.
Proof.
  intros HI. revert n. induction order as [|k rest IH]; intros n; destruct n; cbn; try discriminate.
  destruct (aget k (s_ents s)) as [e|] eqn:He; [|discriminate].
  destruct (e_owner e) as [ow|] eqn:Eo.
  - assert (0 < e_repl e) by (apply (owner_handles s k e HI He); congruence).
    destruct (e_repl e); [lia|apply IH].
  - destruct (e_val e) eqn:Ev.
    + specialize (IH n). destruct (evict_scan (s_ents s) rest n) as [[l|]|]; try discriminate. congruence.
    + pose proof (ki_2 _ _ (inv_k _ HI k) e He Ev). destruct (e_repl e); [lia|apply IH].
Qed.

Lemma two_agents_handles ops a a' p p' k :
  aget a ops = Some p -> aget a' ops = Some p' -> a <> a' ->
  pc_handles p k + pc_handles p' k <= ops_handles ops k.
Proof.
  induction ops as [|[a0 p0] t IH]; cbn; [discriminate|].
  destruct (Nat.eqb_spec a a0); destruct (Nat.eqb_spec a' a0); intros H1 H2 Hne; subst; try congruence.
  - inv H1. assert (pc_handles p' k <= ops_handles t k); [|lia].
    apply (agent_handles (mkS [] [] t 0%Z 0) a' p' k). auto.
  - inv H2. assert (pc_handles p k <= ops_handles t k); [|lia].
    apply (agent_handles (mkS [] [] t 0%Z 0) a p k). auto.
  - specialize (IH H1 H2 Hne). lia.
Qed.

Lemma agent_handle_ge s a p k e :
  Inv s -> aget a (s_ops s) = Some p -> pc_handles p k = 1 -> aget k (s_ents s) = Some e -> 1 <= e_repl e.
Proof.
  intros HI Ha Hp He. rewrite (ki_r _ _ (inv_k _ HI k) e He). unfold handles.
  pose proof (agent_handles s a p k Ha). lia.
Qed.

(* an agent whose handle is the only one: nobody else waits, nobody holds a guard *)
Lemma sole_handle s a p k e :
  Inv s -> aget a (s_ops s) = Some p -> pc_handles p k = 1 -> aget k (s_ents s) = Some e -> e_repl e = 1 ->
  (forall a', a' <> a -> ~ waits_on s a' k) /\ (forall g, ~ guard_on s g k).
Proof.
  intros HI Ha Hp He H1. pose proof (inv_k _ HI k) as [kmx kg kw kr k2 kp].
  pose proof (kr e He) as Hr. unfold handles in Hr. split.
  - intros a' Hne (p' & Ha' & Hw'). pose proof (pc_waits_handles _ _ Hw') as Hp'.
    pose proof (two_agents_handles (s_ops s) a a' p p' k Ha Ha' ltac:(congruence)). lia.
  - intros g Hg. assert (0 < gcount (s_guards s) k) by (apply gcount_pos; exists g; apply aget_In; auto).
    pose proof (agent_handles s a p k Ha). lia.
Qed.

Lemma cleanup_no_panic s a p k site :
  Inv s -> aget a (s_ops s) = Some p -> pc_handles p k = 1 -> pc_waits p k = false ->
  cleanup_ents (s_ents s) k <> inr site.
Proof.
  intros HI Ha Hp Hw. unfold cleanup_ents. destruct (aget k (s_ents s)) as [e|] eqn:He; [|discriminate].
  destruct (Nat.eqb_spec (e_repl e) 1) as [R|R]; [|discriminate].
  destruct (sole_handle s a p k e HI Ha Hp He R) as [H1 H2].
  pose proof (inv_k _ HI k) as [kmx kg kw kr k2 kp].
  destruct (e_owner e) as [[g|a']|] eqn:Eo.
  - exfalso. apply (H2 g). apply kg. eauto.
  - exfalso. assert (W : waits_on s a' k) by (apply kw; eauto).
    destruct (Nat.eq_dec a' a) as [->|Hne]; [eapply agent_not_waiting; eauto|eapply H1; eauto].
  - destruct (e_val e); discriminate.
Qed.

Lemma cancel_no_panic c s a p k site :
  Inv s -> aget a (s_ops s) = Some p -> pc_handles p k = 1 ->
  cancel_ents c (s_ents s) a k <> inr site.
Proof.
  intros HI Ha Hp. unfold cancel_ents.
  destruct (aget k (s_ents s)) as [e|] eqn:He;
  pose proof (inv_k _ HI k) as [kmx kg kw kr k2 kp].
  - cbn [e_repl set_repl e_owner e_val].
    destruct (Nat.eqb_spec (e_repl e - 1) 0) as [R|R]; [|discriminate].
    pose proof (agent_handle_ge s a p k e HI Ha Hp He) as Hge.
    assert (R1 : e_repl e = 1) by lia.
    destruct (sole_handle s a p k e HI Ha Hp He R1) as [H1 H2].
    destruct (e_owner (mx_cancel e a)) as [[g|a']|] eqn:Eo.
    + exfalso. apply (H2 g). apply kg. exists e. split; auto. apply (mx_cancel_guard e a); auto.
    + exfalso. pose proof (proj1 (mx_cancel_waiters e a a' (kmx e He)) (or_intror Eo)) as [Hne Hq].
      apply (H1 a' Hne). apply kw. eauto.
    + destruct (e_val (mx_cancel e a)); discriminate.
  - exfalso. apply aget_None_keys in He. apply He. apply kp. unfold handles.
    pose proof (agent_handles s a p k Ha). lia.
Qed.

Lemma unlock_no_panic c s g site : Inv s -> unlock_cs c s g <> inr site.
Proof.
  intros HI. unfold unlock_cs. destruct (aget g (s_guards s)) as [k|] eqn:Hg; [|discriminate].
  destruct (Inv_guard_present s g k HI Hg) as (e & He & _). rewrite He.
  destruct (e_val e); [discriminate|]. destruct (Nat.eqb _ 0); discriminate.
Qed.

Lemma consume_no_panic s order site :
  Inv s -> s_ops s = [] -> s_guards s = [] -> consume_list (s_ents s) order <> inr site.
Proof.
  intros HI Eo Eg. induction order as [|k rest IH]; cbn; [discriminate|].
  destruct (aget k (s_ents s)) as [e|] eqn:He; [|discriminate].
  pose proof (inv_k _ HI k) as [kmx kg kw kr k2 kp].
  assert (R : e_repl e = 0).
  { rewrite (kr e He). unfold handles, gcount. rewrite Eo, Eg. reflexivity. }
  rewrite R. cbn. unfold val_of. destruct (e_val e) as [[v st]|] eqn:Ev.
  - destruct (consume_list (s_ents s) rest); [discriminate|auto].
  - pose proof (k2 e He Ev). lia.
Qed.

Theorem step_no_panic c s l site : Inv s -> step c s l <> RPanic site.
Proof.
  intros HI. destruct l; cbn [step].
  - (* start *) unfold do_start. destruct (amem a (s_ops s)); [discriminate|].
    destruct c0; try discriminate.
    + destruct (lim_ok lim); discriminate.
    + destruct (guard_live s g); discriminate.
    + destruct (c_lru c && Z.leb 0 d)%bool; [|discriminate]. destruct (cutoff_of (s_clock s) d); discriminate.
  - (* resume *) unfold do_resume. destruct (aget a (s_ops s)) as [p|] eqn:Ha; [|discriminate].
    destruct p; try discriminate.
    + apply cs_no_panic; auto; [|intros; eapply do_enter_inv; eauto].
      intros site'. unfold do_enter.
      assert (L : do_lookup c s a sh k <> RPanic site').
      { unfold do_lookup. destruct (aget k (s_ents s)); [discriminate|]. destruct (new_guard s k). discriminate. }
      destruct lim as [n|]; auto. destruct (length (s_ents s) - (n - 1)); auto.
      destruct (iter_order c s o); [|discriminate].
      pose proof (evict_scan_no_panic s l (S n0)) as Hs.
      destruct (evict_scan (s_ents s) l (S n0)) as [[[|k1 ks]|]|site1]; auto; try discriminate.
      * destruct (lock_keys s (k1 :: ks)). discriminate.
      * exfalso. eapply Hs; eauto.
    + unfold do_key_try. destruct (aget k (s_ents s)) as [e|]; [|discriminate].
      destruct (e_owner e); [discriminate|]. destruct (new_guard s k). discriminate.
    + unfold do_key_wait. destruct (aget k (s_ents s)) as [e|]; [|discriminate].
      destruct (e_owner e); [discriminate|]. destruct (new_guard s k). discriminate.
    + unfold do_queued. destruct (aget k (s_ents s)) as [e|]; [|discriminate].
      destruct (own_is_waiter (e_owner e) a); [|discriminate]. destruct (new_guard s k). discriminate.
    + apply cs_no_panic; auto; [|intros; eapply do_cleanup_inv; eauto].
      intros site'. unfold do_cleanup.
      pose proof (cleanup_no_panic s a (PCleanup sh k) k) as Hc.
      destruct (cleanup_ents (s_ents s) k) as [[ents|]|site1]; try discriminate.
      exfalso. eapply Hc; eauto; cbn; rewrite ?Nat.eqb_refl; auto.
    + apply cs_no_panic; auto.
      * intros site'. pose proof (cancel_no_panic c s a (PCancel k) k) as Hc.
        destruct (cancel_ents c (s_ents s) a k) as [[ents|]|site1]; try discriminate.
        exfalso. eapply Hc; eauto; cbn; rewrite ?Nat.eqb_refl; auto.
      * intros s' o' H. destruct (cancel_ents c (s_ents s) a k) as [[ents|]|] eqn:Hc; try discriminate. inv H.
        eapply do_pcancel_inv; eauto.
    + apply cs_no_panic; auto; [|intros; eapply do_drops_inv; eauto].
      intros site'. unfold do_drops. destruct gs as [|g rest]; [discriminate|].
      pose proof (unlock_no_panic c s g) as Hu.
      destruct (unlock_cs c s g) as [[s1|]|site1]; try discriminate.
      * destruct rest; [destruct af|]; discriminate.
      * exfalso. eapply Hu; eauto.
    + apply cs_no_panic; auto; [|intros; eapply do_scan_inv; eauto].
      intros site'. unfold do_scan. destruct (iter_order c s o); [|discriminate].
      destruct (lock_keys s _). discriminate.
    + apply cs_no_panic; auto; [|intros; eapply do_stream_enter_inv; eauto].
      intros site'. unfold do_stream_enter. destruct (iter_order c s o); discriminate.
    + apply cs_no_panic; auto; [discriminate|].
      intros s' o' H. inv H. apply (pc_change_inv s a PCount None); auto; solve_pc.
    + apply cs_no_panic; auto.
      * intros site'. destruct (iter_order c s o); discriminate.
      * intros s' o' H. destruct (iter_order c s o); [|discriminate]. inv H.
        apply (pc_change_inv s a PKeys None); auto; solve_pc.
  - (* sub *) unfold do_sub. destruct (aget a (s_ops s)) as [p|] eqn:Ha; [|discriminate].
    destruct p; try discriminate.
    + assert (P : forall site', do_sub_poll c s a subs k <> RPanic site').
      { intros site'. unfold do_sub_poll. destruct (aget k subs) as [st|] eqn:Hs; [|discriminate].
        destruct (aget k (s_ents s)) as [e|]; [|discriminate].
        destruct st.
        - destruct (e_owner e); [discriminate|]. destruct (new_guard s k). destruct (val_of e); discriminate.
        - destruct (own_is_waiter (e_owner e) a); [|discriminate]. destruct (new_guard s k). destruct (val_of e); discriminate.
        - pose proof (unlock_no_panic c s g) as Hu.
          destruct (unlock_cs c s g) as [[s1|]|site1]; try discriminate. exfalso. eapply Hu; eauto. }
      destruct (aget k subs) as [[| |g]|]; auto.
      apply cs_no_panic; auto. intros; eapply do_sub_poll_inv; eauto.
    + apply cs_no_panic; auto; [|intros; eapply do_sub_drop_inv; eauto].
      intros site'. unfold do_sub_drop. destruct (aget k subs) as [st|] eqn:Hs; [|discriminate].
      pose proof (cancel_no_panic c s a (PStreamDrop subs) k) as Hc.
      destruct st; try discriminate;
        (destruct (cancel_ents c (s_ents s) a k) as [[ents|]|site1]; try discriminate;
         [destruct (adel k subs); discriminate
         |exfalso; eapply Hc; eauto; cbn; unfold sub_handles; rewrite Hs; auto]).
  - unfold do_pollend. destruct (aget a (s_ops s)) as [[]|]; try discriminate. destruct subs; discriminate.
  - unfold do_cancel. destruct (aget a (s_ops s)) as [[]|]; try discriminate.
    + destruct (sh_is_async sh); discriminate.
    + destruct (sh_is_async sh); discriminate.
    + destruct (existsb _ subs); [discriminate|]. destruct subs; discriminate.
  - unfold do_guard_op. destruct (negb (guard_live s g)); [discriminate|].
    destruct (aget g (s_guards s)) as [k|]; [|discriminate].
    destruct (aget k (s_ents s)) as [e|]; [|discriminate].
    destruct op; try discriminate; destruct (e_val e) as [[]|]; discriminate.
  - unfold do_cbreturn. destruct (aget a (s_ops s)) as [[]|]; try discriminate.
    destruct hold.
    + destruct offered; [discriminate|]. destruct (all_live s _ && _)%bool; discriminate.
    + destruct r; discriminate.
  - destruct (Z.leb 0 d); discriminate.
  - unfold do_consume. destruct (s_ops s) eqn:Eo; [|discriminate]. destruct (s_guards s) eqn:Eg; [|discriminate].
    rewrite (Inv_inv2_ok s HI). cbn. destruct (iter_order c s o); [|discriminate].
    pose proof (consume_no_panic s l site HI Eo Eg) as Hc.
    destruct (consume_list (s_ents s) l); [discriminate|]. congruence.
Qed.
