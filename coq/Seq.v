(* C05 support: sequential (run-to-completion) behaviour of a lock call and of guard operations. *)
From Coq Require Import List Arith ZArith Bool Lia.
From LK Require Import AList AListFacts Model Inv StepInv NoPanic PropLemmas.
Import ListNotations.

(* the plain-map meaning of the guard operations: new value of the key, and what the call returns *)
Definition spec_gop (op : gop) (m : option Z) : option Z * obs :=
  match op with
  | GInsert v => (Some v, OVal m)
  | GRemove => (None, OVal m)
  | GSet v => match m with Some _ => (Some v, OVal (Some v)) | None => (None, OVal None) end
  | GTryInsert v => match m with Some _ => (m, OExists) | None => (Some v, OVal (Some v)) end
  | GGetOrInsert v => match m with Some v0 => (m, OVal (Some v0)) | None => (Some v, OVal (Some v)) end
  | GRead => (m, OVal m)
  | GClosurePanic => match m with Some v0 => (m, OVal (Some v0)) | None => (None, OPanicked) end
  end.

Theorem guard_op_refines c s g op s' o k :
  step c s (LGuardOp g op) = ROk s' o -> aget g (s_guards s) = Some k ->
  (vof s' k, o) = spec_gop op (vof s k) /\
  s_guards s' = s_guards s /\ s_ops s' = s_ops s /\ akeys (s_ents s') = akeys (s_ents s).
Proof.
  cbn. unfold do_guard_op. intros H Hg. destruct (negb (guard_live s g)); [discriminate|].
  rewrite Hg in H. destruct (aget k (s_ents s)) as [e|] eqn:He; [|discriminate].
  unfold vof, vof_e. rewrite He. unfold val_of.
  destruct op; destruct (e_val e) as [[v0 st]|] eqn:Ev; inv H; cbn;
    rewrite ?aget_aset_eq, ?He; cbn; unfold val_of; rewrite ?Ev; repeat split; auto;
    try (eapply akeys_aset_present; eauto).
Qed.

(* a guard operation is enabled on every live guard *)
Theorem guard_op_enabled c s g op k :
  Inv s -> aget g (s_guards s) = Some k -> guard_busy s g = false ->
  exists s' o, step c s (LGuardOp g op) = ROk s' o.
Proof.
  intros HI Hg Hb. cbn. unfold do_guard_op, guard_live, amem. rewrite Hg, Hb. cbn.
  destruct (Inv_guard_present s g k HI Hg) as (e & He & _). rewrite He.
  destruct op; destruct (e_val e) as [[v0 st]|]; eauto.
Qed.

(* run a lock call without limit to completion, as a single-threaded caller would *)
Definition then_ (r : result) (f : state -> result) : result :=
  match r with ROk s ONothing => f s | _ => r end.

Definition seq_lock (c : cfg) (s : state) (a : aid) (sh : shape) (k : key) : result :=
  then_ (step c s (LStart a (CLock sh k None))) (fun s1 =>
  then_ (step c s1 (LResume a [])) (fun s2 =>
  then_ (step c s2 (LResume a [])) (fun s3 => step c s3 (LResume a [])))).

Definition key_free (s : state) (k : key) : Prop :=
  match aget k (s_ents s) with Some e => e_owner e = None | None => True end.

(* the state after a successful sequential lock of a free key: independent of the call's shape *)
Definition locked_state (c : cfg) (s : state) (k : key) : state :=
  let g := s_gid s in
  match aget k (s_ents s) with
  | None => mkS (aset k (mkE None (Some (OwnG g)) [] 1) (s_ents s)) ((g, k) :: s_guards s) (s_ops s) (s_clock s) (S g)
  | Some e =>
      mkS (aset k (set_owner (set_repl e (S (e_repl e))) (Some (OwnG g))) (promote_if_lru c k (s_ents s)))
          ((g, k) :: s_guards s) (s_ops s) (s_clock s) (S g)
  end.

Lemma start_lock c s a sh k : aget a (s_ops s) = None ->
  step c s (LStart a (CLock sh k None)) = ROk (set_pc s a (PEnter sh k None)) ONothing.
Proof. intros Ha. cbn. unfold do_start, amem. rewrite Ha. reflexivity. Qed.

Lemma resume_cs_lookup c s a sh k :
  Inv s -> aget a (s_ops s) = Some (PEnter sh k None) ->
  step c s (LResume a []) = do_lookup c s a sh k.
Proof.
  intros HI Ha. cbn. unfold do_resume. rewrite Ha. cbn [do_enter].
  destruct (do_lookup c s a sh k) as [s1 o1| |] eqn:E.
  - apply cs_intro; auto. eapply do_lookup_inv; eauto.
  - unfold cs. rewrite (Inv_inv2_ok s HI). reflexivity.
  - exfalso. unfold do_lookup in E. destruct (aget k (s_ents s)); [discriminate|]. destruct (new_guard s k). discriminate.
Qed.

Theorem seq_lock_free c s a sh k :
  Inv s -> aget a (s_ops s) = None -> key_free s k ->
  seq_lock c s a sh k = ROk (locked_state c s k) (OGuard (s_gid s) k (vof s k)).
Proof.
  intros HI Ha Hf. unfold seq_lock. rewrite (start_lock c s a sh k Ha). cbn [then_].
  set (s1 := set_pc s a (PEnter sh k None)).
  assert (HI1 : Inv s1) by (apply start_inv; auto; intros; cbn; auto).
  assert (Ha1 : aget a (s_ops s1) = Some (PEnter sh k None)) by (cbn; apply aget_aset_eq).
  rewrite (resume_cs_lookup c s1 a sh k HI1 Ha1).
  unfold do_lookup, locked_state, key_free, vof, vof_e in *. cbn [s_ents s1 set_pc with_ops].
  destruct (aget k (s_ents s)) as [e|] eqn:He.
  - (* present and unlocked *)
    cbn [then_].
    set (ents2 := aset k (set_repl e (S (e_repl e))) (promote_if_lru c k (s_ents s))).
    set (p2 := if sh_is_try sh then PKeyTry sh k else PKeyWait sh k).
    set (s2 := set_pc (with_ents s1 ents2) a p2).
    assert (He2 : aget k (s_ents s2) = Some (set_repl e (S (e_repl e)))) by (cbn; apply aget_aset_eq).
    assert (Ha2 : aget a (s_ops s2) = Some p2) by (cbn; apply aget_aset_eq).
    assert (E3 : step c s2 (LResume a []) =
                 ROk (mkS (aset k (set_owner (set_repl e (S (e_repl e))) (Some (OwnG (s_gid s)))) ents2)
                          ((s_gid s, k) :: s_guards s) (s_ops s) (s_clock s) (S (s_gid s)))
                     (OGuard (s_gid s) k (val_of e))).
    { cbn [step]. unfold do_resume. rewrite Ha2. unfold p2.
      destruct (sh_is_try sh); [unfold do_key_try|unfold do_key_wait]; rewrite He2; cbn [e_owner set_repl];
        rewrite Hf; cbn [new_guard]; unfold fin, with_ents, with_ops, with_guards, with_gid, set_pc; cbn;
        rewrite aset_aset, adel_aset_absent; auto. }
    rewrite E3. cbn [then_]. unfold ents2. rewrite aset_aset. reflexivity.
  - (* absent: the look-up inserts a pre-locked placeholder *)
    cbn [new_guard then_]. unfold fin, with_ents, with_ops, with_guards, with_gid, set_pc. cbn.
    rewrite adel_aset_absent; auto.
Qed.

(* the eight acquisition variants are interchangeable on a free key (borrowed/owned is not a model notion) *)
Theorem seq_lock_shape_independent c s a sh1 sh2 k :
  Inv s -> aget a (s_ops s) = None -> key_free s k ->
  seq_lock c s a sh1 k = seq_lock c s a sh2 k.
Proof. intros HI Ha Hf. rewrite !seq_lock_free; auto. Qed.

(* a try on a key that is locked (or handed to a pending acquisition) returns None and changes nothing
   a plain map + locked set can see *)
Theorem seq_try_fails_when_locked c s a sh k e :
  Inv s -> aget a (s_ops s) = None -> sh_is_try sh = true ->
  aget k (s_ents s) = Some e -> e_owner e <> None ->
  exists s', seq_lock c s a sh k = ROk s' OTryFail /\
    s_guards s' = s_guards s /\ s_ops s' = s_ops s /\ (forall k', vof s' k' = vof s k') /\
    (forall k', In k' (akeys (s_ents s')) <-> In k' (akeys (s_ents s))) /\
    (forall k' e', aget k' (s_ents s') = Some e' -> exists e0, aget k' (s_ents s) = Some e0 /\ e_owner e' = e_owner e0).
Proof.
  intros HI Ha Hsh He Ho. unfold seq_lock. rewrite (start_lock c s a sh k Ha). cbn [then_].
  set (s1 := set_pc s a (PEnter sh k None)).
  assert (HI1 : Inv s1) by (apply start_inv; auto; intros; cbn; auto).
  assert (Ha1 : aget a (s_ops s1) = Some (PEnter sh k None)) by (cbn; apply aget_aset_eq).
  rewrite (resume_cs_lookup c s1 a sh k HI1 Ha1).
  unfold do_lookup. cbn [s_ents s1 set_pc with_ops]. rewrite He, Hsh. cbn [then_].
  set (e2 := set_repl e (S (e_repl e))).
  set (ents2 := aset k e2 (promote_if_lru c k (s_ents s))).
  set (s2 := set_pc (with_ents s1 ents2) a (PKeyTry sh k)).
  assert (E2 : do_lookup c s1 a sh k = ROk s2 ONothing).
  { unfold do_lookup. cbn [s_ents s1 set_pc with_ops]. rewrite He, Hsh. reflexivity. }
  pose proof (do_lookup_inv c s1 a sh k None s2 ONothing HI1 Ha1 E2) as HI2.
  assert (He2 : aget k (s_ents s2) = Some e2) by (cbn; apply aget_aset_eq).
  assert (Ha2 : aget a (s_ops s2) = Some (PKeyTry sh k)) by (cbn; apply aget_aset_eq).
  assert (E3 : step c s2 (LResume a []) = ROk (set_pc s2 a (PCleanup sh k)) ONothing).
  { cbn [step]. unfold do_resume. rewrite Ha2. unfold do_key_try. rewrite He2. cbn [e_owner e2 set_repl].
    destruct (e_owner e); [reflexivity|congruence]. }
  rewrite E3. cbn [then_].
  set (s3 := set_pc s2 a (PCleanup sh k)).
  pose proof (step_inv c s2 _ _ _ HI2 E3) as HI3.
  assert (Ha3 : aget a (s_ops s3) = Some (PCleanup sh k)) by (cbn; apply aget_aset_eq).
  destruct (resume_enabled c s3 a (PCleanup sh k) [] HI3 Ha3 eq_refl) as (s4 & ob & E4); [discriminate|].
  rewrite E4. pose proof (cleanup_reports_fail c s3 a sh k [] s4 ob Ha3 E4) as ->.
  exists s4. split; auto.
  (* what the cleanup did *)
  pose proof E4 as E4'. cbn in E4'. unfold do_resume in E4'. rewrite Ha3 in E4'. apply cs_ok in E4'.
  unfold do_cleanup in E4'. cbn [s_ents s3 s2 set_pc with_ents with_ops] in E4'.
  assert (R2 : 2 <= e_repl e2).
  { assert (0 < e_repl e) by (apply (owner_handles s k e HI He Ho)). unfold e2. cbn [e_repl set_repl]. lia. }
  assert (Hc : cleanup_ents ents2 k = inl (Some (aset k (set_repl e2 (e_repl e2 - 1)) ents2))).
  { unfold cleanup_ents. unfold ents2 at 1. rewrite aget_aset_eq.
    destruct (Nat.eqb_spec (e_repl e2) 1); [lia|reflexivity]. }
  rewrite Hc in E4'. inv E4'.
  unfold fin, with_ents, with_ops, set_pc. cbn [s_ents s_guards s_ops s1 set_pc with_ops].
  assert (Hops : adel a (aset a (PCleanup sh k) (aset a (PKeyTry sh k) (aset a (PEnter sh k None) (s_ops s)))) = s_ops s).
  { rewrite !aset_aset. apply adel_aset_absent; auto. }
  assert (G : forall k', aget k' (aset k (set_repl e2 (e_repl e2 - 1)) ents2) =
                         if Nat.eqb k' k then Some e else aget k' (s_ents s)).
  { intros k'. unfold ents2. rewrite aset_aset, aget_aset, promote_if_lru_get.
    destruct (Nat.eqb k' k); auto. f_equal. unfold e2. destruct e as [v0 ow q r]; unfold set_repl; cbn.
    replace (r - 0) with r by lia. reflexivity. }
  split; [reflexivity|]. split; [exact Hops|]. split; [|split].
  - intros k'. unfold vof, vof_e. cbn. rewrite G. destruct (Nat.eqb_spec k' k); [subst; rewrite He|]; auto.
  - intros k'. cbn. rewrite !keys_aget_iff, G. destruct (Nat.eqb_spec k' k); [subst; rewrite He|]; split; eauto.
  - intros k' e'. cbn. rewrite G. destruct (Nat.eqb_spec k' k); [subst|]; intros H; inv H; eauto.
Qed.
