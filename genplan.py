#!/usr/bin/env python3
"""Generates plan.json (what each property's check runs) and MANIFEST.json."""
import json, os
ROOT = os.path.dirname(os.path.abspath(__file__))

def fam(f, b, n, mode="cosim"): return dict(family=f, backend=b, count=n, mode=mode)

TRUSTED = [
 "Coq 8.16.1 kernel (coqc); vm_compute only in Example lemmas (witness runs); no native_compute",
 "axioms: none (Print Assumptions reports 'Closed under the global context' for every property theorem)",
 "extraction: ExtrOcamlBasic only (bool, option, unit, list, prod, sumbool, sumor mapped to OCaml types); nat, positive, Z stay extracted inductives; OCaml 4.13.1; ocaml/cosim.ml (parsing/printing/comparison)",
 "correspondence: the hand-written model coq/Model.v is tied to /repo by co-simulation on explored executions only: harness (Rust, /verif/harness) drives the real crate built with features verif_hooks,slow_assertions under a one-thread-at-a-time scheduler; hooks in /repo/src/verif_hooks.rs define the atomic segments",
 "modelled, not verified: tokio::sync::Mutex as a FIFO hand-off mutex, std::sync::Mutex, Arc strong counts, lru::LruCache order, std HashMap iteration order (oracle, validated as a permutation), FuturesUnordered (oracle: which per-entry future ran), tokio Instant arithmetic floor, Rust drop order/unwinding",
 "second correspondence (C01, C02, C04, C05, C06, C13, C14): coq/ExtractSpec.v extracts SeqRefine.spec_call / seq_call (same ExtrOcamlBasic directives) to spec.ml; ocaml/lincheck.ml (parsing, Wing-Gong search, comparison) decides whether recorded real-thread histories of the crate built WITHOUT hooks (smoke lin: stamps from one global atomic counter) are linearisable w.r.t. spec_call and replays the witness on seq_call; sampled histories only",
 "executed only by /verif/smoke (ordinary multi-threaded tests of the crate built without the hooks feature), never by the harness: tokio's blocking wait in ReplicaArc::blocking_lock_owned and RealTime::now",
 "not modelled separately (only exercised through the harness): public wrapper methods of lockable_hash_map.rs / lockable_lru_cache.rs / lockpool.rs, SyncLimit/AsyncLimit enums, borrowed vs owned variants, Never/InfallibleUnwrap, Debug impls",
]
ASSUME = [
 "every execution of the implementation is an interleaving of the atomic segments delimited by the hook sites (all shared state is behind the global std::sync::Mutex, a per-key tokio mutex, or an Arc counter)",
 "that the implementation's executions are runs of the model is checked on the explored executions, not proved",
 "real-time behaviour (thread parking, wake-up latency, OS scheduling, memory ordering) is outside the model",
]

P = {}
def prop(pid, theorems, monitors, quick, thorough, **kw):
    P[pid] = dict(theorems=theorems, monitors=monitors, plan=dict(quick=quick, thorough=thorough), **kw)

prop("C01",
     ["C01_mutex", "C01_mutex_fine_grained", "C01_try_fails_while_held", "C01_failed_try_reports_none", "C01_wait_enqueues_while_held", "C01_waiter_blocked_while_held", "C01_reacquisition_needs_release", "C01_witness"],
     ["C01."],
     [fam("nolimit","H",1500), fam("nolimit","L",1500), fam("pool","P",1000), fam("dfs-lock2","H",4000), fam("dfs-cancel","H",4000),
      fam("evict","L",800,"monitor"), fam("stream","H",800,"monitor"), fam("expiry","L",800,"monitor"), fam("fine-nolimit","H",1500), fam("fine-nolimit","L",1500), fam("wide","H",600)],
     [fam("nolimit","H",40000), fam("nolimit","L",40000), fam("pool","P",20000), fam("dfs-lock2","H",80000), fam("dfs-lock3","L",80000),
      fam("dfs-cancel","H",80000), fam("evict","L",20000,"monitor"), fam("stream","H",20000,"monitor"), fam("expiry","L",20000,"monitor"), fam("mix","L",20000,"monitor"), fam("fine-nolimit","H",40000), fam("fine-nolimit","L",40000), fam("fine-mix","H",40000), fam("wide","H",20000), fam("wide","L",20000)],
     cosim_ignore="order,stamp",
     smoke=True,
     lin="locks")
prop("C02",
     ["C02_only_guard_ops_change_values", "C02_guard_op_is_local", "C02_new_guard_shows_stored_value", "C02_value_history", "C02_next_guard_sees_what_was_left", "C02_value_untouched_while_unlocked", "C02_witness"],
     ["C02."],
     [fam("nolimit","H",1500), fam("nolimit","L",1500), fam("dfs-lock2","L",4000), fam("evict","H",800,"monitor"), fam("stream","L",800,"monitor"), fam("mix","L",800,"monitor"), fam("scale","L",2,"monitor"), fam("fine-nolimit","L",2000), fam("fine-mix","H",2000), fam("wide","L",600)],
     [fam("nolimit","H",40000), fam("nolimit","L",40000), fam("dfs-lock2","L",80000), fam("dfs-lock3","H",80000), fam("evict","H",20000,"monitor"), fam("stream","L",20000,"monitor"), fam("mix","L",20000,"monitor"), fam("scale","L",16,"monitor"), fam("scale","H",16,"monitor"), fam("fine-nolimit","L",40000), fam("fine-nolimit","H",40000), fam("fine-mix","H",40000), fam("fine-mix","L",40000), fam("wide","L",20000), fam("wide-evict","H",20000)],
     cosim_ignore="order,stamp",
     lin="values")
prop("C04",
     ["C04_keys_exact", "C04_quiescent", "C04_count_reports_keys", "C04_keys_reports_keys", "C04_rest_keys_are_the_maps_keys", "C04_witness"],
     ["C04."],
     [fam("nolimit","H",1500), fam("nolimit","L",1500), fam("pool","P",1000), fam("dfs-cancel","H",4000), fam("mix","H",800,"monitor"), fam("evict","L",800,"monitor"), fam("stream","H",800,"monitor"), fam("scale","L",2,"monitor"), fam("fine-nolimit","H",2000), fam("fine-mix","L",2000), fam("wide","H",600)],
     [fam("nolimit","H",40000), fam("nolimit","L",40000), fam("pool","P",20000), fam("dfs-cancel","H",80000), fam("dfs-lock3","H",100000), fam("mix","H",20000,"monitor"), fam("evict","L",20000,"monitor"), fam("stream","H",20000,"monitor"), fam("fine-nolimit","H",40000), fam("fine-mix","L",40000), fam("fine-stream","H",40000), fam("wide","H",20000), fam("wide-evict","L",20000)],
     cosim_ignore="order,stamp,value",
     smoke=True,
     lin="final")
prop("C12",
     ["C12_consume", "C12_consume_never_panics", "C12_consume_enabled"],
     ["C12.", "C13."],
     [fam("mix","H",1500), fam("mix","L",1500), fam("nolimit","H",1000), fam("stream","L",1000), fam("fine-mix","H",1500), fam("scale","L",2,"monitor"), fam("wide","H",600)],
     [fam("mix","H",40000), fam("mix","L",40000), fam("nolimit","H",20000), fam("stream","L",20000), fam("evict","H",20000), fam("fine-mix","H",40000), fam("fine-mix","L",40000), fam("scale","L",16,"monitor"), fam("scale","H",16,"monitor"), fam("wide","H",20000), fam("wide","L",20000)],
     cosim_ignore="order,stamp",
     smoke=True)
prop("C13",
     ["C13_no_panic", "C13_runs_never_panic", "C13_slow_assertions_hold", "C13_second_half_commutes", "C13_fine_grained_runs_linearise", "C13_fine_grained_states_are_reachable", "C13_second_half_reports_what_was_announced", "C13_cleanup_last_handle_is_alone", "C13_entry_held_by_its_only_handle_is_unreachable", "C13_lockfree_steps_release_nothing", "C13_fine_witness"],
     ["C13."],
     [fam("mix","H",1200), fam("mix","L",1200), fam("nolimit","L",800), fam("evict","H",800), fam("expiry","L",800), fam("stream","H",800), fam("pool","P",600), fam("dfs-cancel","H",3000), fam("dfs-stream","L",3000), fam("fine-mix","H",1500), fam("fine-mix","L",1500), fam("fine-evict","L",1000), fam("scale-stream","L",2,"monitor"), fam("wide","H",600), fam("wide-evict","L",600), fam("fine-wide","L",600)],
     [fam("mix","H",40000), fam("mix","L",40000), fam("nolimit","L",20000), fam("evict","H",20000), fam("evict","L",20000), fam("expiry","L",20000), fam("stream","H",20000), fam("stream","L",20000), fam("pool","P",20000),
      fam("dfs-cancel","H",80000), fam("dfs-stream","L",80000), fam("dfs-evict","L",100000), fam("dfs-expiry","L",100000), fam("dfs-lock3","H",100000), fam("fine-mix","H",40000), fam("fine-mix","L",40000), fam("fine-evict","L",40000), fam("fine-evict","H",40000), fam("fine-stream","L",40000), fam("fine-expiry","L",40000), fam("scale-stream","L",16,"monitor"), fam("scale","L",8,"monitor"), fam("wide","H",20000), fam("wide","L",20000), fam("wide-evict","L",20000), fam("wide-evict","H",20000), fam("fine-wide","L",20000), fam("fine-wide-evict","H",20000)],
     cosim_ignore="order,stamp,value",
     smoke=True,
     lin="panic")


prop("C03",
     ["C03_only_key_waits_block", "C03_drop_always_completes", "C03_stream_drops_valueless_guard", "C03_absent_key_no_wait", "C03_free_key_no_wait", "C03_free_mutex_has_no_waiters",
      "C03_release_hands_over", "C03_handed_waiter_runs", "C03_waiter_never_detached", "C03_blocked_only_by_client_guards", "C03_no_library_deadlock", "C03_never_stuck", "C03_draining_always_terminates", "C03_draining_ends_at_rest", "C03_drain_witness", "C03_witness"],
     ["C14.lost_wakeup", "C03.", "C13.hang", "C03.stream_stall"],
     [fam("evict","H",1500,"monitor"), fam("evict","L",1500,"monitor"), fam("mix","L",1000,"monitor"), fam("dfs-lock3","H",3000), fam("dfs-lock2","L",4000), fam("nolimit","H",1500), fam("nolimit","L",1500), fam("dfs-cancel","H",4000), fam("dfs-stream","L",3000), fam("stream","H",800), fam("scale-stream","L",4,"monitor"), fam("scale-stream","H",4,"monitor"), fam("fine-nolimit","H",1500), fam("wide","H",600,"monitor")],
     [fam("evict","H",40000,"monitor"), fam("evict","L",40000,"monitor"), fam("mix","L",40000,"monitor"), fam("mix","H",40000,"monitor"), fam("dfs-lock3","H",80000), fam("dfs-lock3","L",80000), fam("dfs-lock2","L",80000), fam("nolimit","H",40000), fam("nolimit","L",40000), fam("dfs-cancel","H",80000), fam("dfs-stream","L",80000), fam("stream","H",20000), fam("stream","L",20000), fam("scale-stream","L",64,"monitor"), fam("scale-stream","H",64,"monitor"), fam("fine-nolimit","H",40000), fam("fine-stream","L",40000), fam("wide","H",20000,"monitor"), fam("wide-evict","L",20000,"monitor")],
     cosim_ignore="order,stamp,value",
     smoke=True)
prop("C06",
     ["C06_cancel_pending_lock", "C06_cancel_stream_entry", "C06_cancel_restores_state", "C06_no_residue", "C06_cancelled_call_is_invisible_to_map_and_locks", "C06_witness"],
     ["C04.", "C12.", "C13.", "C06."],
     [fam("dfs-cancel","H",6000), fam("dfs-cancel","L",6000), fam("dfs-stream","L",4000), fam("dfs-stream","H",4000), fam("nolimit","H",1500), fam("stream","L",1500), fam("evict","L",800), fam("mix","L",800), fam("fine-mix","L",1500), fam("fine-stream","H",1500), fam("wide","L",600)],
     [fam("dfs-cancel","H",100000), fam("dfs-cancel","L",100000), fam("dfs-stream","L",100000), fam("dfs-stream","H",100000), fam("nolimit","H",40000), fam("nolimit","L",40000), fam("stream","L",40000), fam("stream","H",40000), fam("evict","L",20000), fam("mix","L",20000), fam("pool","P",20000), fam("fine-mix","L",40000), fam("fine-stream","H",40000), fam("fine-nolimit","L",40000), fam("wide","L",20000), fam("fine-wide","H",20000)],
     cosim_ignore="order,stamp",
     lin="final")
prop("C07",
     ["C07_offered", "C07_no_callback", "C07_no_limit_no_callback", "C07_bound", "C07_cooperative_round", "C07_cooperative_loop_terminates", "C07_cooperative_round_enabled", "C07_cooperative_loop_reaches_lookup", "C07_witness"],
     ["C07."],
     [fam("evict","H",2500), fam("evict","L",2500), fam("dfs-evict","L",4000), fam("dfs-evict","H",4000), fam("fine-evict","H",1500), fam("fine-evict","L",1500), fam("wide-evict","H",800), fam("wide-evict","L",800)],
     [fam("evict","H",60000), fam("evict","L",60000), fam("dfs-evict","L",100000), fam("dfs-evict","H",100000), fam("mix","H",20000,"monitor"), fam("fine-evict","H",40000), fam("fine-evict","L",40000), fam("wide-evict","H",30000), fam("wide-evict","L",30000), fam("fine-wide-evict","L",20000)],
     cosim_ignore="order,stamp")
prop("C08",
     ["C08_all_locked_proceeds", "C08_never_waits", "C08_callback_holds_nothing", "C08_reentrant", "C08_error_propagates", "C08_no_deadlock_at_the_limit", "C08_witness"],
     ["C08.", "C13.", "C07."],
     [fam("evict","H",2500), fam("evict","L",2500), fam("dfs-evict","L",4000), fam("dfs-evict","H",4000), fam("fine-evict","H",1500), fam("fine-evict","L",1500), fam("wide-evict","L",800)],
     [fam("evict","H",60000), fam("evict","L",60000), fam("dfs-evict","L",100000), fam("dfs-evict","H",100000), fam("fine-evict","H",40000), fam("fine-evict","L",40000), fam("wide-evict","L",30000), fam("wide-evict","H",30000)],
     cosim_ignore="order,stamp")
prop("C09",
     ["C09_offer_is_lru_prefix", "C09_lookup_promotes", "C09_only_the_subject_key_moves", "C09_interval_order", "C09_offer_respects_order", "C09_witness"],
     ["C09."],
     [fam("seq","L",4000), fam("evict","L",3000), fam("dfs-evict","L",5000), fam("mix","L",1000), fam("fine-evict","L",1500), fam("wide-evict","L",1000), fam("wide","L",600)],
     [fam("seq","L",150000), fam("evict","L",100000), fam("dfs-evict","L",100000), fam("mix","L",40000), fam("fine-evict","L",40000), fam("fine-mix","L",40000), fam("wide-evict","L",40000), fam("wide","L",20000)])
prop("C10",
     ["C10_call_is_total", "C10_exact", "C10_stamp_is_unlock_time", "C10_tick", "C10_idle_entry_keeps_value_and_stamp", "C10_idle_entry_eventually_returned", "C10_witness", "C10_idle_witness", "C10_witness_max"],
     ["C10.", "C13.panic"],
     [fam("expiry","L",3000), fam("dfs-expiry","L",5000), fam("fine-expiry","L",2000), fam("wide","L",600)],
     [fam("expiry","L",100000), fam("dfs-expiry","L",100000), fam("mix","L",40000), fam("fine-expiry","L",60000), fam("wide","L",30000)],
     smoke=True)
prop("C11",
     ["C11_snapshot", "C11_stream_step", "C11_never_yields_valueless", "C11_end_iff_done", "C11_first_poll_enabled", "C11_handed_poll_enabled", "C11_valueless_guard_is_dropped", "C11_exactly_once", "C11_complete_at_end", "C11_witness", "C11_trace_witness"],
     ["C11.", "C03.stream_stall"],
     [fam("stream","H",2500), fam("stream","L",2500), fam("dfs-stream","L",4000), fam("dfs-stream","H",4000), fam("fine-stream","H",1500), fam("fine-stream","L",1500), fam("scale-stream","L",3,"monitor"), fam("wide","L",600)],
     [fam("stream","H",60000), fam("stream","L",60000), fam("dfs-stream","L",100000), fam("dfs-stream","H",100000), fam("fine-stream","H",40000), fam("fine-stream","L",40000), fam("scale-stream","L",32,"monitor"), fam("scale-stream","H",32,"monitor"), fam("wide","L",20000), fam("wide","H",20000)])
prop("C14",
     ["C14_exclusive", "C14_try_succeeds_when_free", "C14_try_fails_when_held", "C14_waits_for_holder", "C14_reporting",
      "C14_no_values_without_guard_ops", "C14_empty_when_idle", "C14_witness", "C14_try_fails_only_if_held_or_awaited", "C14_every_interleaving_refines_the_locked_set"],
     ["C01.", "C04.", "C12.", "C13.", "C14.", "C05.", "C03.try_waits"],
     [fam("pool","P",5000), fam("fine-pool","P",2000)],
     [fam("pool","P",150000), fam("fine-pool","P",60000), fam("scale","P",8,"monitor")],
     smoke=True,
     lin="locks")
prop("C15",
     ["C15_callback_panic_like_error", "C15_panic_reaches_caller", "C15_closure_panic", "C15_values_are_those_committed", "C15_still_consistent", "C15_witness"],
     ["C02.", "C04.", "C12.", "C13.", "C15.", "C08."],
     [fam("evict","H",2500), fam("evict","L",2500), fam("mix","H",1500), fam("mix","L",1500), fam("fine-evict","L",6000), fam("fine-evict","H",4000), fam("fine-mix","H",1500), fam("wide-evict","H",600)],
     [fam("evict","H",60000), fam("evict","L",60000), fam("mix","H",40000), fam("mix","L",40000), fam("dfs-evict","L",80000), fam("fine-evict","L",40000), fam("fine-evict","H",40000), fam("fine-mix","H",40000), fam("wide-evict","H",20000), fam("wide","L",20000)])


prop("C05",
     ["C05_guard_ops_refine_map", "C05_guard_ops_enabled", "C05_lock_free_key", "C05_variants_interchangeable", "C05_try_fails_when_locked", "C05_drop_sole_guard", "C05_lock_drop_absent_restores", "C05_call_refines", "C05_history_refines", "C05_history_deterministic", "C05_witness", "C05_history_witness", "C05_call_refines_inside_callbacks", "C05_limited_call_refines", "C05_callback_failure_refines", "C05_callback_success_refines", "C05_limit_witness", "C05_every_interleaving_refines", "C05_concurrent_histories_linearise", "C05_try_fails_only_if_locked_or_awaited", "C05_try_succeeds_when_free", "C05_linearisation_witness"],
     ["C02.", "C04.", "C12.", "C05.", "C03.try_waits"],
     [fam("seq","H",3000), fam("seq","L",3000), fam("nocancel","H",1500), fam("nocancel","L",1500), fam("scale","L",2,"monitor"), fam("fine-nolimit","H",2500)],
     [fam("seq","H",100000), fam("seq","L",100000), fam("nocancel","H",40000), fam("nocancel","L",40000), fam("mix","H",20000), fam("fine-nolimit","H",40000), fam("fine-nolimit","L",40000)],
     cosim_obs_is_oracle=True,
     lin="all")

plan = dict(allowed_axioms=[], trusted_base=TRUSTED, assumptions=ASSUME, properties=P)
json.dump(plan, open(os.path.join(ROOT, "plan.json"), "w"), indent=1)

# ---------------------------------------------------------------- MANIFEST
TEXT = {
 "C01": "Theorem over all runs of the Coq model (any number of keys, agents, steps, any schedule, both back-ends): no two live guards share a key; tries fail and waiters stay blocked while a guard is alive. Tied to the code by co-simulation of explored executions (every observation, snapshot, blocked set) plus a model-independent live-guard monitor. Second correspondence without the scheduler: recorded histories of real threads on the crate built without the hooks must be linearisable w.r.t. the abstract machine extracted from Coq (spec_call; Conc.v proves every interleaving of the model refines it) and replay on the model (DESIGN 4.10).",
 "C02": "Theorem: no model step other than an operation on a guard (or consuming the container) changes any stored value, a guard operation only touches its own key, and a new guard reports the stored value; co-simulation compares every value the implementation reports; shadow-map monitor on the implementation. Second correspondence without the scheduler: recorded histories of real threads on the crate built without the hooks must be linearisable w.r.t. the abstract machine extracted from Coq (spec_call; Conc.v proves every interleaving of the model refines it) and replay on the model (DESIGN 4.10).",
 "C04": "Theorem: in every reachable model state the key set equals valued keys + keys with a live guard + keys some in-flight call holds a handle on; quiescent => exactly the valued keys; count/keys report that set. Co-simulation compares the key set and replica counts after every atomic segment; monitor recomputes the expected set from the harness' own bookkeeping.",
 "C12": "Theorem: in a reachable quiescent state into_entries_unordered is enabled, does not panic and returns exactly one pair per valued key with the stored value; co-simulation + multiset monitor on runs that end with consume.",
 "C03": "PARTIAL (protocol level). Theorems: no library-made deadlock as a reachability statement (C03_no_library_deadlock: from every reachable state a run to the state of rest exists that starts and cancels no lock call, so every waiter obtains its key once the guards in front of it are dropped; C03_draining_always_terminates: every run of that draining client is finite under every schedule, and it ends at rest); every in-flight call that is not waiting for a per-key mutex is enabled in every reachable state; free/absent keys are acquired without waiting; a free mutex has no waiters; release hands the key to the oldest waiter; a handed waiter can run; waiters are never detached; if nobody can move, every waiter waits for a client-owned guard. Co-simulation compares the implementation's set of blocked agents with the model's after every segment (lost wake-ups show as a mismatch); watchdog/self-deadlock detection in the harness. Not shown: that the runtime delivers wake-ups in finite time.",
 "C05": "Theorems: every guard operation returns and stores what the plain map would and touches nothing else; a lock call of any shape run to completion on a free key returns a guard with the map's value and a state that does not depend on the shape (variants interchangeable); a try on a locked/reserved key returns None and changes nothing a map + locked set can see; with soft limits (SeqLimit.v) a limited acquisition either suspends in its callback offering exactly what the map + locked set allows (offer_ok) or IS the unlimited acquisition, a failing callback leaves the map + locked set untouched, and calls made inside callbacks refine the abstract machine as before; and beyond the sequential case (Conc.v) every step of every interleaving acts on the plain map + locked set as a short sequence of the abstract machine's own calls returning exactly what was announced, so every concurrent history of the model is linearisable w.r.t. spec_call, and a try fails only on a locked or awaited key and succeeds on a key that is neither. Co-simulation on single-threaded histories (family seq: every call runs to completion, all eight variants incl. borrowed/owned chosen per call) compares every return value with the model; shadow-map monitor. Second correspondence without the scheduler: recorded histories of real threads on the crate built without the hooks must be linearisable w.r.t. the abstract machine extracted from Coq (spec_call; Conc.v proves every interleaving of the model refines it) and replay on the model (DESIGN 4.10).",
 "C06": "Theorems: cancelling a pending async_lock (queued or handed) or dropping any pending per-entry future of a stream is always enabled, panics never, removes the call, reserves nothing, changes no value/guard and re-establishes the invariant; quiescent states contain exactly the valued keys. Co-simulation over exhaustive interleavings of cancel points x the other party's steps; monitors for leaked keys, panics and consume.",
 "C07": "Theorems: the callback is invoked only by a soft-limited call when len >= N, with a non-empty list of at most len-(N-1) distinct, previously unlocked, valued entries (exactly the first ones in iteration order), each now held by the offered guard and reported with its stored value; none without a limit or below it; when the call proceeds the container has at most max(N, non-evictable+1) entries. Co-simulation + callback-argument monitor. A round with a cooperative callback lowers the number of evictable entries and the loop runs at most that many rounds (theorems conditional on the round's label sequence being executed).",
 "C08": "PARTIAL (protocol level, like C03). Theorems: no reachable state is a deadlock among soft-limited and ordinary lockers (C08_no_deadlock_at_the_limit = drain); nothing evictable => proceeds without callback; the eviction step is always enabled; in the callback the call holds no handle and new (re-entrant) calls can start; a callback error ends the call with that error and leaves nothing. Harness: BeforeCallback hook asserts the global lock is not held; DFS over two soft-limited lockers.",
 "C09": "Theorems: what is offered is the prefix of the evictable entries in recency order; a lock call's look-up moves its key to the MRU end; no step moves, adds or removes any key other than its subject key (the key of the lock call / of the guard being unlocked). The interval formulation of the property is the theorem C09_interval_order over a ghost-instrumented run. Co-simulation compares the exact LRU order after every segment and the order of offered guards.",
 "C10": "Theorems: the call is total over all durations; the scan returns exactly the unlocked valued entries with stamp <= cut-off, each once with its value, and leaves every other entry and the order untouched; the stamp is the clock at the start of the guard drop; ticks change nothing. Co-simulation with a mock clock; monitor recomputes the expected set from the harness' own record of drops.",
 "C11": "Theorems: the snapshot is exactly the keys present at the critical section; the pending set never grows; an item is for a pending key, has the stored value, a live guard, and leaves the pending set; valueless guards are never yielded; end is reported iff the pending set is empty. Co-simulation incl. the per-entry sub-steps; stream monitor.",
 "C14": "Instances of the C01/C02/C04 theorems for the hash-map configuration without limits, plus try-lock success/failure and emptiness when idle. The harness drives the real LockPool type. Second correspondence without the scheduler: recorded histories of real threads on the crate built without the hooks must be linearisable w.r.t. the abstract machine extracted from Coq (spec_call; Conc.v proves every interleaving of the model refines it) and replay on the model (DESIGN 4.10).",
 "C15": "Theorems: a panicking eviction callback leaves exactly the state an erroring one leaves; the panic reaches the caller after the guards it owned were released; a panicking value_or_insert_with closure changes nothing; values are untouched by everything the library does; all later states satisfy the invariant. Harness injects panics at callbacks and closures (cbret panic, cpanic) and keeps using the container.",
 "C13": "Theorem: no label makes the model panic in any reachable state (all expect/assert sites and the slow_assertions check at both ends of every critical section are modelled as RPanic); granularity theorem (Fine.v): fine-grained runs in which _unlock / PendingLock::drop are split at the release of the key mutex, with lock-free steps of other agents in between, linearise to runs of the model; co-simulation runs the real crate with slow_assertions and catches panics, poisoning, self-deadlock and hangs.",
}
ids = [json.loads(l)["id"] for l in open(os.path.join(ROOT, "properties.jsonl"))]
NOTE = "Theorems are about the hand-written Coq model; that the code's executions are runs of the model is checked by co-simulation on the explored schedules only (random walks, fine-grained walks with preemption inside critical sections, exhaustive interleavings of small programs), not proved. tokio/std/Arc/lru primitives are modelled, not verified. Axioms: none."
checks = []
for pid in ids:
    if pid in P:
        checks.append(dict(property_id=pid, quick_cmd=f"./check {pid} --tier quick", thorough_cmd=f"./check {pid} --tier thorough",
                           evidence_file=f"/verif/evidence/{pid}.json", replay_cmd_template=f"./check {pid} --replay {{path}}",
                           engine="coq-model+cosim",
                           level_claimed=dict(category="proof", text=TEXT[pid], design_ref="DESIGN.md section 5"),
                           level_note=NOTE,
                           technique="Coq 8.16 proof (inductive invariant over an executable LTS model) + co-simulation correspondence check against the real crate + monitors for the failing-input search"))
manifest = dict(version=1,
    setup_cmd="./setup.sh",
    hooks=dict(guard="cargo feature verif_hooks", enable="harness/Cargo.toml: lockable = { path = \"/repo\", features = [\"verif_hooks\", \"slow_assertions\"] }",
               baseline_off_cmd="cd /repo && cargo nextest run --workspace --no-fail-fast --tool-config-file pb:/w/lib/nextest.toml --profile pb --test-threads 8 --offline",
               source_commits=["700e6dc", "32e6044", "64331bd", "02527b8", "47b7773", "7d0858b"], add_only=True),
    engines=[dict(name="coq-model+cosim", path="/verif/coq, /verif/ocaml, /verif/harness, /verif/check", serves_properties=sorted(P.keys()),
                  kind_free_text="Coq 8.16 model + theorems; extracted OCaml model co-simulated against traces of the real crate produced by a deterministic-scheduler harness")],
    checks=checks,
    notes="see DESIGN.md; known_findings.txt lists the defects that were found and repaired (fix: commits in /repo)",
    not_applicable=[dict(property_id=i, reason="check under construction in this round (theorems not yet registered); see DESIGN.md section 10") for i in ids if i not in P])
json.dump(manifest, open(os.path.join(ROOT, "MANIFEST.json"), "w"), indent=1)
print("plan:", sorted(P.keys()))
