(* Fine-grained interleavings linearise to runs of the model.

   The model's steps are whole critical sections.  In the code the two critical sections that RELEASE a
   per-key mutex -- `_unlock` and `PendingLock::drop` -- make that release visible to other threads in
   the middle (they hold only the global lock for the rest), so other threads can do everything that
   needs no global lock (take the guard that was handed to them, operate on the value, try, enqueue,
   start new calls, return from callbacks ...) between the two halves.  This file defines that
   fine-grained semantics (fstep), and proves that every fine-grained run is a run of the model in which
   each of those critical sections takes effect at its FIRST half: the second half (replica count - 1,
   LRU promotion, removal of a valueless entry nobody refers to, the caller's continuation) commutes with
   every lock-free step of every other agent (pending_commutes).  This is the linearisation the
   co-simulation of the fine-grained families uses (DESIGN 4.7). *)
From Coq Require Import List Arith ZArith Bool Lia.
From LK Require Import AList AListFacts Model Observe Inv StepInv NoPanic PropLemmas Seq DropInv Stream Drain.
Import ListNotations.

(* ------------------------------------------------------------------ *)
(* association lists: updates at different keys commute *)

Section AComm.
  Context {V : Type}.
  Implicit Types m : list (nat * V).

  Lemma aset_comm k1 k2 (v1 v2 : V) m :
    k1 <> k2 -> aget k1 m <> None -> aset k1 v1 (aset k2 v2 m) = aset k2 v2 (aset k1 v1 m).
  Proof.
    intros Hne. induction m as [|[k v] t IH]; cbn; [congruence|]. intros Hp.
    destruct (Nat.eqb_spec k1 k); destruct (Nat.eqb_spec k2 k); subst; cbn; try congruence.
    - rewrite Nat.eqb_refl. destruct (Nat.eqb_spec k2 k); [congruence|]. reflexivity.
    - destruct (Nat.eqb_spec k1 k); [congruence|]. rewrite Nat.eqb_refl. reflexivity.
    - destruct (Nat.eqb_spec k1 k); [congruence|]. destruct (Nat.eqb_spec k2 k); [congruence|].
      f_equal. apply IH. auto.
  Qed.

  Lemma adel_aset_comm k1 k2 (v2 : V) m :
    k1 <> k2 -> adel k1 (aset k2 v2 m) = aset k2 v2 (adel k1 m) \/ aget k2 m = None.
  Proof.
    intros Hne. induction m as [|[k v] t IH]; cbn; [right; auto|].
    destruct (Nat.eqb_spec k2 k); subst.
    - left. cbn. destruct (Nat.eqb_spec k1 k); [congruence|]. cbn. rewrite Nat.eqb_refl. reflexivity.
    - cbn. destruct (Nat.eqb_spec k1 k); subst.
      + destruct IH as [IH|IH]; [left; auto|right; auto].
      + destruct IH as [IH|IH]; [left|right; auto]. cbn. destruct (Nat.eqb_spec k2 k); [congruence|]. f_equal. auto.
  Qed.

  Lemma adel_aset_ne k1 k2 (v2 : V) m :
    k1 <> k2 -> aget k2 m <> None -> adel k1 (aset k2 v2 m) = aset k2 v2 (adel k1 m).
  Proof. intros Hne Hp. destruct (adel_aset_comm k1 k2 v2 m Hne); congruence. Qed.

  Lemma adel_aset_new k1 k2 (v2 : V) m :
    k1 <> k2 -> aget k2 m = None -> adel k1 (aset k2 v2 m) = aset k2 v2 (adel k1 m).
  Proof.
    intros Hne. induction m as [|[k v] t IH]; cbn.
    - intros _. destruct (Nat.eqb_spec k1 k2); [congruence|]. reflexivity.
    - destruct (Nat.eqb_spec k2 k); [discriminate|]. intros Hn. cbn.
      destruct (Nat.eqb_spec k1 k); subst; auto. cbn. destruct (Nat.eqb_spec k2 k); [congruence|]. f_equal. auto.
  Qed.

  Lemma adel_aset_any k1 k2 (v2 : V) m : k1 <> k2 -> adel k1 (aset k2 v2 m) = aset k2 v2 (adel k1 m).
  Proof.
    intros Hne. destruct (aget k2 m) eqn:E; [apply adel_aset_ne; congruence|apply adel_aset_new; auto].
  Qed.

  Lemma aset_new_comm k1 k2 (v1 v2 : V) m :
    k1 <> k2 -> aget k1 m <> None -> aget k2 m = None -> aset k1 v1 (aset k2 v2 m) = aset k2 v2 (aset k1 v1 m).
  Proof.
    intros Hne. induction m as [|[k v] t IH]; cbn; [congruence|]. intros Hp Hn.
    destruct (Nat.eqb_spec k2 k); [discriminate|]. destruct (Nat.eqb_spec k1 k); subst; cbn.
    - rewrite Nat.eqb_refl. destruct (Nat.eqb_spec k2 k); [congruence|]. reflexivity.
    - destruct (Nat.eqb_spec k1 k); [congruence|]. destruct (Nat.eqb_spec k2 k); [congruence|]. f_equal. auto.
  Qed.

  (* either way: a present key and any other key *)
  Lemma aset_comm_any k1 k2 (v1 v2 : V) m :
    k1 <> k2 -> aget k1 m <> None -> aset k1 v1 (aset k2 v2 m) = aset k2 v2 (aset k1 v1 m).
  Proof.
    intros Hne Hp. destruct (aget k2 m) eqn:E; [apply aset_comm; auto|apply aset_new_comm; auto].
  Qed.

  Lemma aset_app_l k (v : V) m1 m2 : aget k m1 <> None -> aset k v (m1 ++ m2) = aset k v m1 ++ m2.
  Proof.
    induction m1 as [|[k' v'] t IH]; cbn; [congruence|]. destruct (Nat.eqb_spec k k'); [reflexivity|].
    intros H. cbn. f_equal. auto.
  Qed.

  Lemma aset_app_r k (v : V) m1 m2 : aget k m1 = None -> aset k v (m1 ++ m2) = m1 ++ aset k v m2.
  Proof.
    induction m1 as [|[k' v'] t IH]; cbn; [reflexivity|]. destruct (Nat.eqb_spec k k'); [discriminate|].
    intros H. f_equal. auto.
  Qed.

  Lemma aget_adel_self k m : aget k (adel k m) = None.
  Proof. apply aget_adel_eq. Qed.

  Lemma apromote_aset_ne k k' (v' : V) m :
    k <> k' -> aget k' m <> None -> apromote k (aset k' v' m) = aset k' v' (apromote k m).
  Proof.
    intros Hne Hp. unfold apromote. rewrite aget_aset_neq by auto.
    destruct (aget k m) as [v|] eqn:E; [|reflexivity].
    rewrite adel_aset_ne by auto. rewrite aset_app_l; [reflexivity|]. rewrite aget_adel_neq by auto. exact Hp.
  Qed.

  Lemma apromote_aset_eq k (v v' : V) m :
    aget k m = Some v -> apromote k (aset k v' m) = adel k m ++ [(k, v')].
  Proof. intros H. unfold apromote. rewrite aget_aset_eq, adel_aset_same. reflexivity. Qed.

  Lemma aset_apromote_eq k (v v' : V) m :
    aget k m = Some v -> aset k v' (apromote k m) = adel k m ++ [(k, v')].
  Proof.
    intros H. unfold apromote. rewrite H. rewrite aset_app_r by apply aget_adel_eq. cbn. rewrite Nat.eqb_refl. reflexivity.
  Qed.
End AComm.

(* ------------------------------------------------------------------ *)
(* entry updates that leave the replica count alone: what lock-free steps do to an entry *)

Record repl_indep (f : entry -> entry) : Prop := {
  ri_comm : forall e r, f (set_repl e r) = set_repl (f e) r;
  ri_repl : forall e, e_repl (f e) = e_repl e
}.

Lemma ri_set_owner o : repl_indep (fun e => set_owner e o).
Proof. constructor; intros; destruct e; reflexivity. Qed.
Lemma ri_set_queue q : repl_indep (fun e => set_queue e q).
Proof. constructor; intros; destruct e; reflexivity. Qed.
Lemma ri_set_val v : repl_indep (fun e => set_val e v).
Proof. constructor; intros; destruct e; reflexivity. Qed.
Lemma ri_id : repl_indep (fun e => e).
Proof. constructor; intros; reflexivity. Qed.
Lemma ri_comp f g : repl_indep f -> repl_indep g -> repl_indep (fun e => f (g e)).
Proof. intros [f1 f2] [g1 g2]. constructor; intros; [rewrite g1, f1|rewrite f2, g2]; reflexivity. Qed.

(* ------------------------------------------------------------------ *)
(* second half of `_unlock`, entries part *)

Definition patch_unlock (c : cfg) (k : key) (wn : bool) (ents : list (key * entry)) : list (key * entry) :=
  match aget k ents with
  | None => ents
  | Some e =>
    let e1 := set_repl e (e_repl e - 1) in
    let ents1 := aset k e1 ents in
    if wn then
      let ents2 := promote_if_lru c k ents1 in
      if Nat.eqb (e_repl e1) 0 then adel k ents2 else ents2
    else ents1
  end.

(* what the patch does to the entry of a key, if it keeps it *)
Definition adj_unlock (k k' : key) (e : entry) : entry :=
  if Nat.eqb k' k then set_repl e (e_repl e - 1) else e.

Lemma patch_unlock_get c k wn ents k' :
  aget k' (patch_unlock c k wn ents) = None \/
  exists e, aget k' ents = Some e /\ aget k' (patch_unlock c k wn ents) = Some (adj_unlock k k' e).
Proof.
  unfold patch_unlock, adj_unlock. destruct (aget k ents) as [e|] eqn:Ek.
  2:{ destruct (aget k' ents) as [e'|] eqn:E'; [right|left; auto]. exists e'. split; auto.
      destruct (Nat.eqb_spec k' k); [subst; congruence|auto]. }
  assert (G : forall m, aget k' m = aget k' (aset k (set_repl e (e_repl e - 1)) ents) ->
              aget k' m = None \/ exists e0, aget k' ents = Some e0 /\
                aget k' m = Some (if Nat.eqb k' k then set_repl e0 (e_repl e0 - 1) else e0)).
  { intros m Hm. rewrite Hm, aget_aset. destruct (Nat.eqb_spec k' k); [subst; right; eauto|].
    destruct (aget k' ents) as [e0|]; [right; eauto|left; auto]. }
  destruct wn; [|apply G; reflexivity].
  destruct (Nat.eqb (e_repl (set_repl e (e_repl e - 1))) 0).
  - destruct (Nat.eqb_spec k' k); [subst; left; apply aget_adel_eq|].
    apply G. rewrite aget_adel_neq by auto. apply promote_if_lru_get.
  - apply G. apply promote_if_lru_get.
Qed.

Lemma promote_if_lru_aset_ne c k k' e' ents :
  k <> k' -> aget k' ents <> None -> promote_if_lru c k (aset k' e' ents) = aset k' e' (promote_if_lru c k ents).
Proof. intros. unfold promote_if_lru. destruct (c_lru c); auto. apply apromote_aset_ne; auto. Qed.

(* the patch commutes with a repl-independent update of a present key *)
Lemma patch_unlock_aset c k wn ents k' e' f :
  repl_indep f -> aget k' ents = Some e' -> aget k' (patch_unlock c k wn ents) <> None ->
  patch_unlock c k wn (aset k' (f e') ents) = aset k' (f (adj_unlock k k' e')) (patch_unlock c k wn ents).
Proof.
  intros [Hc Hr] He' Hp. unfold patch_unlock, adj_unlock in *.
  destruct (Nat.eqb_spec k' k) as [->|Hne].
  - (* same key *)
    rewrite aget_aset_eq. rewrite He' in *. rewrite Hr. cbn [e_repl set_repl] in *.
    rewrite aset_aset. rewrite <- Hc.
    set (e1 := set_repl e' (e_repl e' - 1)) in *.
    destruct wn; [|rewrite aset_aset; reflexivity].
    destruct (Nat.eqb (e_repl e' - 1) 0) eqn:Ez.
    + exfalso. apply Hp. apply aget_adel_eq.
    + unfold promote_if_lru. destruct (c_lru c); [|rewrite aset_aset; reflexivity].
      rewrite (apromote_aset_eq k e' (f e1) ents He').
      rewrite (apromote_aset_eq k e' e1 ents He').
      rewrite aset_app_r by apply aget_adel_eq. cbn. rewrite Nat.eqb_refl. reflexivity.
  - (* different keys *)
    rewrite aget_aset_neq by auto.
    destruct (aget k ents) as [e|] eqn:Ek; [|reflexivity].
    set (e1 := set_repl e (e_repl e - 1)) in *.
    assert (P1 : aget k' ents <> None) by congruence.
    rewrite (aset_comm_any k k' e1 (f e') ents) by (auto; congruence).
    destruct wn; [|reflexivity].
    assert (P2 : aget k' (aset k e1 ents) <> None) by (rewrite aget_aset_neq; auto).
    rewrite promote_if_lru_aset_ne by auto.
    destruct (Nat.eqb (e_repl e1) 0); [|reflexivity].
    apply adel_aset_ne; auto. rewrite promote_if_lru_get. exact P2.
Qed.

(* ------------------------------------------------------------------ *)
(* `on_unlock` of the next guard of a multi-guard drop (part of the second half), entries part *)

Definition stamp_ents (c : cfg) (clk : Z) (ok2 : option key) (ents : list (key * entry)) : list (key * entry) :=
  match ok2 with
  | None => ents
  | Some k2 =>
    if c_lru c then
      match aget k2 ents with
      | Some e => match e_val e with
                  | Some (v, _) => aset k2 (set_val e (Some (v, clk))) ents
                  | None => ents
                  end
      | None => ents
      end
    else ents
  end.

Lemma begin_unlock_stamp c s g :
  begin_unlock c s g = with_ents s (stamp_ents c (s_clock s) (aget g (s_guards s)) (s_ents s)).
Proof.
  unfold begin_unlock, stamp_ents. destruct s as [ents gs ops clk gid]. cbn.
  destruct (c_lru c); [|destruct (aget g gs); reflexivity].
  destruct (aget g gs) as [k|]; [|reflexivity]. destruct (aget k ents) as [e|]; [|reflexivity].
  destruct (e_val e) as [[v st]|]; reflexivity.
Qed.

(* entry updates that leave the value alone *)
Record val_indep (f : entry -> entry) : Prop := {
  vi_comm : forall e v, f (set_val e v) = set_val (f e) v;
  vi_val : forall e, e_val (f e) = e_val e
}.
Lemma vi_set_owner o : val_indep (fun e => set_owner e o).
Proof. constructor; intros; destruct e; reflexivity. Qed.
Lemma vi_set_queue q : val_indep (fun e => set_queue e q).
Proof. constructor; intros; destruct e; reflexivity. Qed.
Lemma vi_set_repl r : val_indep (fun e => set_repl e r).
Proof. constructor; intros; destruct e; reflexivity. Qed.

Definition adj_stamp (c : cfg) (clk : Z) (ok2 : option key) (k' : key) (e : entry) : entry :=
  match ok2 with
  | Some k2 => if Nat.eqb k' k2 && c_lru c then
                 match e_val e with Some (v, _) => set_val e (Some (v, clk)) | None => e end
               else e
  | None => e
  end.

Lemma stamp_ents_get c clk ok2 ents k' :
  aget k' (stamp_ents c clk ok2 ents) = option_map (adj_stamp c clk ok2 k') (aget k' ents).
Proof.
  unfold stamp_ents, adj_stamp. destruct ok2 as [k2|]; [|destruct (aget k' ents); reflexivity].
  destruct (c_lru c); [|rewrite andb_false_r; destruct (aget k' ents); reflexivity]. rewrite andb_true_r.
  destruct (Nat.eqb_spec k' k2) as [->|Hne].
  - destruct (aget k2 ents) as [e|] eqn:E; [|rewrite E; reflexivity].
    destruct (e_val e) as [[v st]|] eqn:Ev; [rewrite aget_aset_eq; cbn; rewrite Ev; reflexivity|rewrite E; cbn; rewrite Ev; reflexivity].
  - assert (I : option_map (fun e : entry => e) (aget k' ents) = aget k' ents) by (destruct (aget k' ents); reflexivity).
    rewrite I. destruct (aget k2 ents) as [e|]; [|reflexivity]. destruct (e_val e) as [[v st]|]; [|reflexivity].
    rewrite aget_aset_neq by auto. reflexivity.
Qed.

(* stamping commutes with an update of a present key that leaves the value alone, or of another key *)
Lemma stamp_ents_aset c clk ok2 ents k' e' f :
  aget k' ents = Some e' -> (ok2 <> Some k' \/ val_indep f) ->
  stamp_ents c clk ok2 (aset k' (f e') ents) = aset k' (f (adj_stamp c clk ok2 k' e')) (stamp_ents c clk ok2 ents).
Proof.
  intros He' Hf. unfold stamp_ents, adj_stamp. destruct ok2 as [k2|]; [|reflexivity].
  destruct (c_lru c); [|rewrite andb_false_r; reflexivity]. rewrite andb_true_r.
  destruct (Nat.eqb_spec k' k2) as [->|Hne].
  - destruct Hf as [Hf|[Hc Hv]]; [congruence|].
    rewrite aget_aset_eq, He', Hv.
    destruct (e_val e') as [[v st]|]; [|reflexivity].
    rewrite !aset_aset. rewrite Hc. reflexivity.
  - rewrite aget_aset_neq by auto.
    destruct (aget k2 ents) as [e|] eqn:E2; [|reflexivity].
    destruct (e_val e) as [[v st]|]; [|reflexivity].
    apply aset_comm_any; auto; congruence.
Qed.

(* ------------------------------------------------------------------ *)
(* what another thread can do while the global lock is held: everything that is not (the start of) a
   critical section; no clock tick between the halves (the harness does not generate one either) *)

Definition lockfree (s : state) (l : label) : bool :=
  match l with
  | LStart _ _ => true      (* runs up to the call's first _entries() *)
  | LResume b _ =>
      match aget b (s_ops s) with
      | Some (PKeyTry _ _) | Some (PKeyWait _ _) | Some (PQueued _ _) => true
      | _ => false
      end
  | LSub b k _ =>
      match aget b (s_ops s) with
      | Some (PStream subs) => match aget k subs with Some SInit | Some SQueued => true | _ => false end
      | _ => false
      end
  | LPollEnd _ | LCancel _ | LGuardOp _ _ | LCbReturn _ _ _ => true
  | LTick _ | LConsume _ => false
  end.

Definition np_drops_b (np : option pc) (g : gid) : bool :=
  match np with Some p => pc_drops p g | None => false end.

Lemma existsb_aset_same {V} (F : nat * V -> bool) a (p p' : V) ops :
  aget a ops = Some p -> F (a, p') = F (a, p) -> existsb F (aset a p' ops) = existsb F ops.
Proof.
  induction ops as [|[b q] t IH]; cbn; [discriminate|].
  destruct (Nat.eqb_spec a b); [subst; intros H; inv H; intros H2; cbn; rewrite H2; reflexivity|].
  intros H1 H2. cbn. rewrite IH; auto.
Qed.

Lemma existsb_adel_false {V} (F : nat * V -> bool) a (p : V) ops :
  NoDup (akeys ops) -> aget a ops = Some p -> F (a, p) = false -> existsb F (adel a ops) = existsb F ops.
Proof.
  induction ops as [|[b q] t IH]; cbn; [discriminate|]. intros Hnd. inversion Hnd; subst.
  destruct (Nat.eqb_spec a b).
  - subst. intros Hq; inv Hq. intros HF. rewrite HF. cbn. rewrite asum_adel_notin; auto.
  - intros Hq HF. cbn. rewrite IH; auto.
Qed.

(* what a lock-free step leaves alone *)
Definition lf_frame (s s' : state) : Prop :=
  NoDup (akeys (s_ops s')) /\ s_clock s' = s_clock s /\
  ((s_guards s' = s_guards s /\ s_gid s' = s_gid s) \/
   (exists kb, s_guards s' = (s_gid s, kb) :: s_guards s /\ s_gid s' = S (s_gid s))).

Section Patch.
  Variable c : cfg.
  Variable a : aid.
  Variable np : option pc.
  Variable E : list (key * entry) -> list (key * entry).
  Variable adj : key -> entry -> entry.
  Variable k2 : option key.

  Hypothesis E_get : forall ents k',
    aget k' (E ents) = None \/ exists e, aget k' ents = Some e /\ aget k' (E ents) = Some (adj k' e).
  Hypothesis E_aset : forall ents k' e' f,
    repl_indep f -> (k2 <> Some k' \/ val_indep f) -> aget k' ents = Some e' -> aget k' (E ents) <> None ->
    0 < e_repl (adj k' e') ->
    E (aset k' (f e') ents) = aset k' (f (adj k' e')) (E ents).
  Hypothesis adj_owner : forall k' e, e_owner (adj k' e) = e_owner e.
  Hypothesis adj_queue : forall k' e, e_queue (adj k' e) = e_queue e.
  Hypothesis adj_val : forall k' e, k2 <> Some k' -> e_val (adj k' e) = e_val e.

  Definition T (s : state) : state := upd_ops (with_ents s (E (s_ents s))) a np.

  Lemma T_guards s : s_guards (T s) = s_guards s.  Proof. unfold T, upd_ops. destruct np; reflexivity. Qed.
  Lemma T_gid s : s_gid (T s) = s_gid s.  Proof. unfold T, upd_ops. destruct np; reflexivity. Qed.
  Lemma T_clock s : s_clock (T s) = s_clock s.  Proof. unfold T, upd_ops. destruct np; reflexivity. Qed.
  Lemma T_ents s : s_ents (T s) = E (s_ents s).  Proof. unfold T, upd_ops. destruct np; reflexivity. Qed.
  Lemma T_ops s : s_ops (T s) = match np with Some p' => aset a p' (s_ops s) | None => adel a (s_ops s) end.
  Proof. unfold T, upd_ops. destruct np; reflexivity. Qed.

  Lemma T_ops_other s b : b <> a -> aget b (s_ops (T s)) = aget b (s_ops s).
  Proof. intros Hne. rewrite T_ops. destruct np; [apply aget_aset_neq|apply aget_adel_neq]; auto. Qed.

  Lemma T_amem_other s b : b <> a -> amem b (s_ops (T s)) = amem b (s_ops s).
  Proof. intros. unfold amem. rewrite T_ops_other; auto. Qed.

  (* T commutes with the primitive updates lock-free steps are made of *)
  Lemma T_set_pc s b p : b <> a -> aget a (s_ops s) <> None -> T (set_pc s b p) = set_pc (T s) b p.
  Proof.
    intros Hne Hp. unfold T, upd_ops, set_pc, fin, with_ops, with_ents. destruct s as [ents gs ops clk gid]; cbn in *.
    destruct np as [p'|]; cbn; f_equal.
    - apply aset_comm_any; auto.
    - apply adel_aset_any; auto.
  Qed.

  Lemma adel_adel_comm {V} k1 k3 (m : list (nat * V)) : adel k1 (adel k3 m) = adel k3 (adel k1 m).
  Proof.
    induction m as [|[k v] t IH]; cbn; auto.
    destruct (Nat.eqb k3 k) eqn:E3; destruct (Nat.eqb k1 k) eqn:E1; cbn; rewrite ?E1, ?E3; auto. f_equal. auto.
  Qed.

  Lemma T_fin s b : b <> a -> T (fin s b) = fin (T s) b.
  Proof.
    intros Hne. unfold T, upd_ops, set_pc, fin, with_ops, with_ents. destruct s as [ents gs ops clk gid]; cbn in *.
    destruct np as [p'|]; cbn; f_equal.
    - symmetry. apply adel_aset_any. auto.
    - apply adel_adel_comm.
  Qed.

  Lemma T_with_guards s gs : T (with_guards s gs) = with_guards (T s) gs.
  Proof. unfold T, upd_ops. destruct s; destruct np; reflexivity. Qed.
  Lemma T_with_gid s n : T (with_gid s n) = with_gid (T s) n.
  Proof. unfold T, upd_ops. destruct s; destruct np; reflexivity. Qed.

  Lemma T_new_guard s k0 : T (fst (new_guard s k0)) = fst (new_guard (T s) k0) /\ snd (new_guard (T s) k0) = snd (new_guard s k0).
  Proof.
    unfold new_guard. cbn [fst snd]. rewrite T_with_gid, T_with_guards, T_guards, T_gid. auto.
  Qed.

  Lemma T_with_ents_aset s k' e' f :
    repl_indep f -> (k2 <> Some k' \/ val_indep f) -> aget k' (s_ents s) = Some e' -> aget k' (E (s_ents s)) <> None ->
    0 < e_repl (adj k' e') ->
    T (with_ents s (aset k' (f e') (s_ents s))) = with_ents (T s) (aset k' (f (adj k' e')) (s_ents (T s))).
  Proof.
    intros Hf Hv He Hp Hr. rewrite T_ents. unfold T, upd_ops. destruct s as [ents gs ops clk gid]; cbn in *.
    rewrite (E_aset ents k' e' f Hf Hv He Hp Hr). destruct np; reflexivity.
  Qed.

  (* reading an entry in T s *)
  Lemma T_entry s k' eT : aget k' (s_ents (T s)) = Some eT ->
    exists e, aget k' (s_ents s) = Some e /\ eT = adj k' e.
  Proof.
    rewrite T_ents. intros H. destruct (E_get (s_ents s) k') as [N|(e & He & Hg)]; [congruence|].
    exists e. split; auto. congruence.
  Qed.

  (* liveness of guards is the same in T s *)
  Lemma T_guard_busy s pa g :
    NoDup (akeys (s_ops s)) -> aget a (s_ops s) = Some pa -> np_drops_b np g = pc_drops pa g ->
    guard_busy (T s) g = guard_busy s g.
  Proof.
    intros Hnd Ha Hd. unfold guard_busy. rewrite T_ops. destruct np as [p'|]; cbn in Hd.
    - apply existsb_aset_same with (p := pa); auto.
    - apply existsb_adel_false with (p := pa); auto.
  Qed.

  Lemma nodup_adel {V} k (m : list (nat * V)) : NoDup (akeys m) -> NoDup (akeys (adel k m)).
  Proof. intros. rewrite akeys_adel. apply remove_nat_NoDup. auto. Qed.

  (* `on_unlock` of a guard whose key is not the one the second half stamps *)
  Lemma T_begin_unlock s g kg :
    aget g (s_guards s) = Some kg -> k2 <> Some kg -> aget kg (E (s_ents s)) <> None ->
    (forall e, aget kg (s_ents s) = Some e -> 0 < e_repl (adj kg e)) ->
    T (begin_unlock c s g) = begin_unlock c (T s) g.
  Proof.
    intros Hg Hk Hp Hr. rewrite !begin_unlock_stamp. rewrite T_guards, T_clock, T_ents, Hg.
    unfold stamp_ents. destruct (c_lru c).
    2:{ unfold T, upd_ops. destruct s; destruct np; reflexivity. }
    destruct (E_get (s_ents s) kg) as [N|(e & He & HeT)]; [congruence|]. rewrite He, HeT.
    rewrite (adj_val kg e Hk).
    destruct (e_val e) as [[v st]|].
    - rewrite <- T_ents.
      apply (T_with_ents_aset s kg e (fun x => set_val x (Some (v, s_clock s)))); auto using ri_set_val.
    - unfold T, upd_ops. destruct s; destruct np; reflexivity.
  Qed.

  Ltac lf_tac FR0 FR1 :=
    first [ solve [ apply FR0; rewrite ?begin_unlock_stamp; cbn; auto using akeys_aset_nodup, nodup_adel ]
          | solve [ eapply FR1; rewrite ?begin_unlock_stamp; cbn; eauto using akeys_aset_nodup, nodup_adel ] ].

  Theorem patch_commutes s y s' o pa :
    lockfree s y = true -> label_agent y <> Some a ->
    aget a (s_ops s) = Some pa -> NoDup (akeys (s_ops s)) ->
    (forall g, amem g (s_guards s) = true -> np_drops_b np g = pc_drops pa g) ->
    (forall k2', k2 = Some k2' -> exists g', aget g' (s_guards s) = Some k2' /\ pc_drops pa g' = true) ->
    Inv (T s) ->
    step c s y = ROk s' o ->
    step c (T s) y = ROk (T s') o /\ lf_frame s s'.
  Proof.
    intros Hlf Hag Ha Hnd Hdr Hk2 HI H.
    assert (FR0 : forall s1, NoDup (akeys (s_ops s1)) -> s_clock s1 = s_clock s -> s_guards s1 = s_guards s ->
                  s_gid s1 = s_gid s -> lf_frame s s1) by (intros; unfold lf_frame; auto).
    assert (FR1 : forall s1 kb, NoDup (akeys (s_ops s1)) -> s_clock s1 = s_clock s ->
                  s_guards s1 = (s_gid s, kb) :: s_guards s -> s_gid s1 = S (s_gid s) -> lf_frame s s1)
      by (intros; unfold lf_frame; eauto 6).
    assert (Hap : aget a (s_ops s) <> None) by congruence.
    (* liveness of guards is the same *)
    assert (LIVE : forall g, guard_live (T s) g = guard_live s g).
    { intros g. unfold guard_live. rewrite T_guards. destruct (amem g (s_guards s)) eqn:Em; [|reflexivity].
      cbn. f_equal. apply T_guard_busy with (pa := pa); auto. }
    (* a live guard is not the one whose key the second half stamps, and its entry is there in T s *)
    assert (K1 : forall g kg, guard_live s g = true -> aget g (s_guards s) = Some kg ->
                 (k2 <> Some kg /\ aget kg (E (s_ents s)) <> None) /\
                 (forall e, aget kg (s_ents s) = Some e -> 0 < e_repl (adj kg e))).
    { intros g kg Hl Hg. assert (HgT : aget g (s_guards (T s)) = Some kg) by (rewrite T_guards; auto).
      destruct (Inv_guard_present (T s) g kg HI HgT) as (eT & HeT & HoT). split; [|
        intros e He; destruct (T_entry s kg eT HeT) as (e0 & He0 & ->); assert (e0 = e) by congruence; subst e0;
        rewrite (ki_r _ _ (inv_k _ HI kg) _ HeT); unfold handles;
        assert (0 < gcount (s_guards (T s)) kg) by (apply gcount_pos; exists g; apply aget_In; auto); lia].
      split.
      - intros Hk. destruct (Hk2 kg Hk) as (g' & Hg' & Hd').
        assert (Hg'T : aget g' (s_guards (T s)) = Some kg) by (rewrite T_guards; auto).
        destruct (Inv_guard_present (T s) g' kg HI Hg'T) as (eT' & HeT' & HoT').
        assert (g = g') by congruence. subst g'.
        unfold guard_live in Hl. apply andb_true_iff in Hl as [_ Hb]. apply negb_true_iff in Hb.
        assert (X : existsb (fun ap : aid * pc => pc_drops (snd ap) g) (s_ops s) = true).
        { apply existsb_exists. exists (a, pa). split; [apply aget_In; auto|auto]. }
        unfold guard_busy in Hb. congruence.
      - rewrite <- T_ents. congruence. }
    (* an entry somebody else can acquire right now is not that key either *)
    assert (K2 : forall k' e, aget k' (s_ents s) = Some e ->
                 (e_owner e = None \/ exists b, e_owner e = Some (OwnW b)) -> k2 <> Some k').
    { intros k' e He Ho Hk. destruct (Hk2 k' Hk) as (g' & Hg' & _).
      assert (Hg'T : aget g' (s_guards (T s)) = Some k') by (rewrite T_guards; auto).
      destruct (Inv_guard_present (T s) g' k' HI Hg'T) as (eT & HeT & HoT).
      destruct (T_entry s k' eT HeT) as (e0 & He0 & ->). rewrite adj_owner in HoT.
      assert (e0 = e) by congruence. subst. destruct Ho as [Ho|[b Ho]]; congruence. }
    (* the entry of a key an agent other than a holds a handle on is present in T s *)
    assert (PRES : forall b p kb, b <> a -> aget b (s_ops s) = Some p -> pc_handles p kb = 1 ->
                   aget kb (E (s_ents s)) <> None /\
                   (forall e, aget kb (s_ents s) = Some e -> 0 < e_repl (adj kb e))).
    { intros b p kb Hne Hb Hh.
      assert (HbT : aget b (s_ops (T s)) = Some p) by (rewrite T_ops_other; auto).
      destruct (handle_present (T s) b p kb HI) as [eT HeT]; auto. split; [rewrite <- T_ents; congruence|].
      intros e He. destruct (T_entry s kb eT HeT) as (e0 & He0 & ->). assert (e0 = e) by congruence. subst e0.
      rewrite (ki_r _ _ (inv_k _ HI kb) _ HeT). unfold handles.
      pose proof (agent_handles (T s) b p kb HbT). lia. }
    (* the acquisition of a key by somebody else *)
    assert (ACQ : forall kb e,
              aget kb (s_ents s) = Some e -> aget kb (E (s_ents s)) <> None -> 0 < e_repl (adj kb e) ->
              T (with_ents (with_gid (with_guards s ((s_gid s, kb) :: s_guards s)) (S (s_gid s)))
                   (aset kb (set_owner e (Some (OwnG (s_gid s)))) (s_ents s))) =
              with_ents (with_gid (with_guards (T s) ((s_gid s, kb) :: s_guards (T s))) (S (s_gid s)))
                (aset kb (set_owner (adj kb e) (Some (OwnG (s_gid s)))) (s_ents (T s)))).
    { intros kb e He Hp Hr.
      pose proof (T_with_ents_aset s kb e (fun x => set_owner x (Some (OwnG (s_gid s))))
                    (ri_set_owner _) (or_intror (vi_set_owner _)) He Hp Hr) as Q.
      rewrite T_guards. unfold T, upd_ops in *. destruct s as [ents gs ops clk gid]; cbn in *.
      destruct np; cbn in *; inversion Q; f_equal; auto. }
    destruct y; cbn [lockfree] in Hlf; try discriminate; cbn [label_agent] in Hag; cbn [step] in *.
    - (* LStart *)
      assert (Hne : a0 <> a) by congruence.
      unfold do_start in *. rewrite (T_amem_other s a0 Hne).
      destruct (amem a0 (s_ops s)) eqn:Em; [discriminate|].
      assert (NDS : forall p, NoDup (akeys (aset a0 p (s_ops s)))) by (intros; apply akeys_aset_nodup; auto).
      destruct c0.
      + destruct (lim_ok lim); inv H. split; [rewrite T_set_pc; auto|lf_tac FR0 FR1].
      + rewrite LIVE. destruct (guard_live s g) eqn:El; inv H.
        assert (exists kg, aget g (s_guards s) = Some kg) as [kg Hg].
        { unfold guard_live, amem in El. destruct (aget g (s_guards s)); [eauto|discriminate]. }
        destruct (K1 g kg El Hg) as [[Kk Kp] Kr].
        split; [|lf_tac FR0 FR1].
        rewrite T_set_pc; [|auto|rewrite begin_unlock_ops; auto].
        rewrite (T_begin_unlock s g kg); auto.
      + rewrite T_clock. destruct (c_lru c && Z.leb 0 d)%bool; [|discriminate].
        destruct (cutoff_of (s_clock s) d); inv H; (split; [rewrite ?T_set_pc; auto|lf_tac FR0 FR1]).
      + inv H. split; [rewrite T_set_pc; auto|lf_tac FR0 FR1].
      + inv H. split; [rewrite T_set_pc; auto|lf_tac FR0 FR1].
      + inv H. split; [rewrite T_set_pc; auto|lf_tac FR0 FR1].
    - (* LResume *)
      assert (Hne : a0 <> a) by congruence.
      unfold do_resume in *. rewrite (T_ops_other s a0 Hne).
      destruct (aget a0 (s_ops s)) as [p|] eqn:Hb; [|discriminate].
      destruct p; try discriminate.
      + (* PKeyTry *)
        unfold do_key_try in *. destruct (aget k (s_ents s)) as [e|] eqn:He; [|discriminate].
        destruct (PRES a0 _ k Hne Hb) as [Hp Hr]; [cbn; rewrite Nat.eqb_refl; auto|].
        destruct (E_get (s_ents s) k) as [N|(e0 & He0 & HeT)]; [congruence|]. rewrite T_ents, HeT.
        assert (e0 = e) by congruence. subst e0. rewrite adj_owner.
        destruct (e_owner e) eqn:Eo.
        * inv H. split; [rewrite T_set_pc; auto|lf_tac FR0 FR1].
        * cbn [new_guard] in *. inv H. split; [|lf_tac FR0 FR1].
          assert (Ev : val_of (adj k e) = val_of e) by (unfold val_of; rewrite adj_val; [reflexivity|eapply K2; eauto]).
          rewrite T_fin by auto. rewrite Ev, T_gid. f_equal. f_equal.
          cbn [s_ents with_gid with_guards]. symmetry. apply (ACQ k e); auto.
      + (* PKeyWait *)
        unfold do_key_wait in *. destruct (aget k (s_ents s)) as [e|] eqn:He; [|discriminate].
        destruct (PRES a0 _ k Hne Hb) as [Hp Hr]; [cbn; rewrite Nat.eqb_refl; auto|].
        destruct (E_get (s_ents s) k) as [N|(e0 & He0 & HeT)]; [congruence|]. rewrite T_ents, HeT.
        assert (e0 = e) by congruence. subst e0. rewrite adj_owner, adj_queue.
        destruct (e_owner e) eqn:Eo.
        * inv H. split; [|lf_tac FR0 FR1].
          rewrite T_set_pc; auto. f_equal. f_equal. rewrite <- T_ents. symmetry.
          apply (T_with_ents_aset s k e (fun x => set_queue x (e_queue e ++ [a0]))); auto using ri_set_queue.
          right. apply vi_set_queue.
        * cbn [new_guard] in *. inv H. split; [|lf_tac FR0 FR1].
          assert (Ev : val_of (adj k e) = val_of e) by (unfold val_of; rewrite adj_val; [reflexivity|eapply K2; eauto]).
          rewrite T_fin by auto. rewrite Ev, T_gid. f_equal. f_equal.
          cbn [s_ents with_gid with_guards]. symmetry. apply (ACQ k e); auto.
      + (* PQueued *)
        unfold do_queued in *. destruct (aget k (s_ents s)) as [e|] eqn:He; [|discriminate].
        destruct (PRES a0 _ k Hne Hb) as [Hp Hr]; [cbn; rewrite Nat.eqb_refl; auto|].
        destruct (E_get (s_ents s) k) as [N|(e0 & He0 & HeT)]; [congruence|]. rewrite T_ents, HeT.
        assert (e0 = e) by congruence. subst e0. rewrite adj_owner.
        destruct (own_is_waiter (e_owner e) a0) eqn:Ow; [|discriminate].
        cbn [new_guard] in *. inv H. split; [|lf_tac FR0 FR1].
        assert (Ho : exists b, e_owner e = Some (OwnW b)).
        { unfold own_is_waiter in Ow. destruct (e_owner e) as [[g|b]|]; try discriminate. eauto. }
        assert (Ev : val_of (adj k e) = val_of e) by (unfold val_of; rewrite adj_val; [reflexivity|eapply K2; eauto]).
        rewrite T_fin by auto. rewrite Ev, T_gid. f_equal. f_equal.
        cbn [s_ents with_gid with_guards]. symmetry. apply (ACQ k e); auto.
    - (* LSub: a per-entry future of somebody else's stream polls its key *)
      assert (Hne : a0 <> a) by congruence.
      unfold do_sub in *. rewrite (T_ops_other s a0 Hne).
      destruct (aget a0 (s_ops s)) as [p|] eqn:Hb; [|discriminate].
      destruct p; try discriminate.
      destruct (aget k subs) as [st|] eqn:Hst; [|discriminate].
      assert (Hh : pc_handles (PStream subs) k = 1) by (cbn; unfold sub_handles; rewrite Hst; destruct st; auto; discriminate).
      destruct (PRES a0 _ k Hne Hb Hh) as [Hp Hr].
      assert (G : do_sub_poll c s a0 subs k = ROk s' o ->
                  do_sub_poll c (T s) a0 subs k = ROk (T s') o /\ lf_frame s s').
      { clear H. intros H. unfold do_sub_poll in *. rewrite Hst in *.
        destruct (aget k (s_ents s)) as [e|] eqn:He; [|discriminate].
        destruct (E_get (s_ents s) k) as [N|(e0 & He0 & HeT)]; [congruence|]. rewrite T_ents, HeT.
        assert (e0 = e) by congruence. subst e0. rewrite adj_owner, adj_queue.
        assert (ACQUIRE : (e_owner e = None \/ exists b, e_owner e = Some (OwnW b)) ->
          (let (s1, g) := new_guard s k in
           let s2 := with_ents s1 (aset k (set_owner e (Some (OwnG g))) (s_ents s1)) in
           match val_of e with
           | Some v => ROk (set_pc s2 a0 (PStream (adel k subs))) (OItem g k v)
           | None => ROk (set_pc s2 a0 (PStream (aset k (SUnlocking g) subs))) ONothing
           end) = ROk s' o ->
          (let (s1, g) := new_guard (T s) k in
           let s2 := with_ents s1 (aset k (set_owner (adj k e) (Some (OwnG g))) (s_ents s1)) in
           match val_of (adj k e) with
           | Some v => ROk (set_pc s2 a0 (PStream (adel k subs))) (OItem g k v)
           | None => ROk (set_pc s2 a0 (PStream (aset k (SUnlocking g) subs))) ONothing
           end) = ROk (T s') o /\ lf_frame s s').
        { intros Ho H1. cbn [new_guard] in *.
          assert (Ev : val_of (adj k e) = val_of e) by (unfold val_of; rewrite adj_val; [reflexivity|eapply K2; eauto]).
          rewrite Ev, T_gid. cbn [s_ents with_gid with_guards] in *.
          destruct (val_of e); inv H1; (split; [|lf_tac FR0 FR1]);
            (rewrite T_set_pc; [|auto|cbn; auto]); f_equal; f_equal; symmetry; apply (ACQ k e); auto. }
        destruct st; try discriminate.
        - destruct (e_owner e) eqn:Eo.
          + inv H. split; [|lf_tac FR0 FR1].
            rewrite T_set_pc; auto. f_equal. f_equal. rewrite <- T_ents. symmetry.
            apply (T_with_ents_aset s k e (fun x => set_queue x (e_queue e ++ [a0]))); auto using ri_set_queue.
            right. apply vi_set_queue.
          + apply ACQUIRE; auto.
        - destruct (own_is_waiter (e_owner e) a0) eqn:Ow; [|discriminate].
          apply ACQUIRE; auto. right. unfold own_is_waiter in Ow. destruct (e_owner e) as [[g|b]|]; try discriminate. eauto. }
      destruct st; try discriminate; apply G; auto.
    - (* LPollEnd *)
      assert (Hne : a0 <> a) by congruence.
      unfold do_pollend in *. rewrite (T_ops_other s a0 Hne).
      destruct (aget a0 (s_ops s)) as [p|]; [|discriminate]. destruct p; try discriminate.
      destruct subs; inv H; (split; [auto|lf_tac FR0 FR1]).
    - (* LCancel *)
      assert (Hne : a0 <> a) by congruence.
      unfold do_cancel in *. rewrite (T_ops_other s a0 Hne).
      destruct (aget a0 (s_ops s)) as [p|]; [|discriminate]. destruct p; try discriminate.
      + destruct (sh_is_async sh); inv H. split; [rewrite T_fin; auto|lf_tac FR0 FR1].
      + destruct (sh_is_async sh); inv H. split; [rewrite T_set_pc; auto|lf_tac FR0 FR1].
      + destruct (existsb _ subs); [discriminate|].
        destruct subs; inv H; (split; [rewrite ?T_fin, ?T_set_pc; auto|lf_tac FR0 FR1]).
    - (* LGuardOp *)
      unfold do_guard_op in *. rewrite LIVE. destruct (guard_live s g) eqn:El; [|discriminate]. cbn [negb] in *.
      rewrite T_guards. destruct (aget g (s_guards s)) as [kg|] eqn:Hg; [|discriminate].
      destruct (K1 g kg El Hg) as [[Kk Kp] Kr].
      destruct (aget kg (s_ents s)) as [e|] eqn:He; [|discriminate].
      destruct (E_get (s_ents s) kg) as [N|(e0 & He0 & HeT)]; [congruence|]. rewrite T_ents, HeT.
      assert (e0 = e) by congruence. subst e0.
      assert (Ev : e_val (adj kg e) = e_val e) by (apply adj_val; auto).
      assert (Evo : val_of (adj kg e) = val_of e) by (unfold val_of; rewrite Ev; reflexivity).
      assert (Now : stamp_now c (T s) = stamp_now c s) by (unfold stamp_now; rewrite T_clock; reflexivity).
      assert (PUT : forall v, T (with_ents s (aset kg (set_val e v) (s_ents s))) =
                              with_ents (T s) (aset kg (set_val (adj kg e) v) (E (s_ents s)))).
      { intros v. rewrite <- T_ents. apply (T_with_ents_aset s kg e (fun x => set_val x v)); auto using ri_set_val. }
      rewrite Now, Evo, Ev.
      destruct op; try (destruct (e_val e) as [[v0 st0]|]); inv H; (split; [|lf_tac FR0 FR1]); rewrite ?PUT; reflexivity.
    - (* LCbReturn *)
      assert (Hne : a0 <> a) by congruence.
      unfold do_cbreturn in *. rewrite (T_ops_other s a0 Hne).
      destruct (aget a0 (s_ops s)) as [p|]; [|discriminate]. destruct p; try discriminate.
      destruct hold.
      + destruct offered as [|g0 rest]; [discriminate|].
        assert (AL : forall gs, all_live (T s) gs = all_live s gs).
        { induction gs as [|x t IH]; cbn; [reflexivity|]. rewrite LIVE, IH. reflexivity. }
        rewrite AL. destruct (all_live s (g0 :: rest) && nodup_nat (g0 :: rest))%bool eqn:Eal; [|discriminate]. inv H.
        apply andb_true_iff in Eal as [Eal _]. cbn [all_live] in Eal. apply andb_true_iff in Eal as [El _].
        assert (exists kg, aget g0 (s_guards s) = Some kg) as [kg Hg].
        { unfold guard_live, amem in El. destruct (aget g0 (s_guards s)); [eauto|discriminate]. }
        destruct (K1 g0 kg El Hg) as [[Kk Kp] Kr].
        split; [|lf_tac FR0 FR1].
        rewrite T_set_pc; [|auto|rewrite begin_unlock_ops; auto].
        rewrite (T_begin_unlock s g0 kg); auto.
      + destruct r; inv H; (split; [rewrite ?T_fin, ?T_set_pc; auto|lf_tac FR0 FR1]).
  Qed.
End Patch.

(* ------------------------------------------------------------------ *)
(* instance 1: second half of `_unlock` *)

Definition E_unlock (c : cfg) (k : key) (wn : bool) (clk : Z) (ok2 : option key) (ents : list (key * entry)) :=
  stamp_ents c clk ok2 (patch_unlock c k wn ents).
Definition adj_un (c : cfg) (k : key) (clk : Z) (ok2 : option key) (k' : key) (e : entry) : entry :=
  adj_stamp c clk ok2 k' (adj_unlock k k' e).

Lemma E_unlock_get c k wn clk ok2 ents k' :
  aget k' (E_unlock c k wn clk ok2 ents) = None \/
  exists e, aget k' ents = Some e /\ aget k' (E_unlock c k wn clk ok2 ents) = Some (adj_un c k clk ok2 k' e).
Proof.
  unfold E_unlock, adj_un. rewrite stamp_ents_get.
  destruct (patch_unlock_get c k wn ents k') as [N|(e & He & Hp)]; [rewrite N; left; reflexivity|].
  right. exists e. split; auto. rewrite Hp. reflexivity.
Qed.

Lemma adj_stamp_repl c clk ok2 k' e : e_repl (adj_stamp c clk ok2 k' e) = e_repl e.
Proof.
  unfold adj_stamp. destruct ok2; auto. destruct (Nat.eqb k' k && c_lru c)%bool; auto.
  destruct (e_val e) as [[v st]|]; reflexivity.
Qed.

Lemma E_unlock_aset c k wn clk ok2 ents k' e' f :
  repl_indep f -> (ok2 <> Some k' \/ val_indep f) -> aget k' ents = Some e' ->
  aget k' (E_unlock c k wn clk ok2 ents) <> None -> 0 < e_repl (adj_un c k clk ok2 k' e') ->
  E_unlock c k wn clk ok2 (aset k' (f e') ents) = aset k' (f (adj_un c k clk ok2 k' e')) (E_unlock c k wn clk ok2 ents).
Proof.
  intros Hf Hv He Hp _. unfold E_unlock, adj_un in *.
  assert (Hp' : aget k' (patch_unlock c k wn ents) <> None).
  { intros N. apply Hp. rewrite stamp_ents_get, N. reflexivity. }
  rewrite (patch_unlock_aset c k wn ents k' e' f Hf He Hp').
  destruct (patch_unlock_get c k wn ents k') as [N|(e & He0 & Hpg)]; [congruence|].
  assert (e = e') by congruence. subst e.
  apply stamp_ents_aset; auto.
Qed.

Lemma adj_un_owner c k clk ok2 k' e : e_owner (adj_un c k clk ok2 k' e) = e_owner e.
Proof.
  unfold adj_un, adj_stamp, adj_unlock. destruct (Nat.eqb k' k); destruct ok2 as [k2|]; cbn; auto;
    destruct (Nat.eqb k' k2 && c_lru c)%bool; auto; cbn; destruct (e_val e) as [[v st]|]; reflexivity.
Qed.
Lemma adj_un_queue c k clk ok2 k' e : e_queue (adj_un c k clk ok2 k' e) = e_queue e.
Proof.
  unfold adj_un, adj_stamp, adj_unlock. destruct (Nat.eqb k' k); destruct ok2 as [k2|]; cbn; auto;
    destruct (Nat.eqb k' k2 && c_lru c)%bool; auto; cbn; destruct (e_val e) as [[v st]|]; reflexivity.
Qed.
Lemma adj_un_val c k clk ok2 k' e : ok2 <> Some k' -> e_val (adj_un c k clk ok2 k' e) = e_val e.
Proof.
  intros Hk. unfold adj_un, adj_stamp, adj_unlock. destruct ok2 as [k2|].
  - destruct (Nat.eqb_spec k' k2); [subst; congruence|]. cbn. destruct (Nat.eqb k' k); reflexivity.
  - destruct (Nat.eqb k' k); reflexivity.
Qed.

(* instance 2: second half of `PendingLock::drop` (`_delete_if_none_and_no_replicas`) *)

Definition patch_cancel (k : key) (ents : list (key * entry)) : list (key * entry) :=
  match aget k ents with
  | Some e =>
    if Nat.eqb (e_repl e) 0 then
      match e_owner e, e_val e with
      | None, None => adel k ents
      | _, _ => ents
      end
    else ents
  | None => ents
  end.

Lemma patch_cancel_get k ents k' :
  aget k' (patch_cancel k ents) = None \/
  exists e, aget k' ents = Some e /\ aget k' (patch_cancel k ents) = Some e.
Proof.
  assert (G : aget k' ents = None \/ exists e, aget k' ents = Some e /\ aget k' ents = Some e)
    by (destruct (aget k' ents); eauto).
  unfold patch_cancel. destruct (aget k ents) as [e|] eqn:Ek; auto.
  destruct (Nat.eqb (e_repl e) 0); auto. destruct (e_owner e); auto. destruct (e_val e); auto.
  destruct (Nat.eqb_spec k' k); [subst; left; apply aget_adel_eq|]. rewrite aget_adel_neq by auto. exact G.
Qed.

Lemma patch_cancel_aset k ents k' e' f :
  repl_indep f -> aget k' ents = Some e' -> aget k' (patch_cancel k ents) <> None -> 0 < e_repl e' ->
  patch_cancel k (aset k' (f e') ents) = aset k' (f e') (patch_cancel k ents).
Proof.
  intros [_ Hr] He Hp Hpos. unfold patch_cancel in *. destruct (Nat.eqb_spec k' k) as [->|Hne].
  - rewrite aget_aset_eq, Hr, He. destruct (Nat.eqb_spec (e_repl e') 0); [lia|reflexivity].
  - rewrite aget_aset_neq by auto. destruct (aget k ents) as [e|] eqn:Ek; [|reflexivity].
    destruct (Nat.eqb (e_repl e) 0); [|reflexivity]. destruct (e_owner e); [reflexivity|].
    destruct (e_val e); [reflexivity|]. apply adel_aset_ne; auto. congruence.
Qed.

(* ------------------------------------------------------------------ *)
(* the fine-grained semantics *)

Inductive mid :=
| MUnlock (a : aid) (k : key) (wn : bool)   (* a released the mutex of k; wn: the entry had no value *)
| MCancel (a : aid) (k : key).              (* a dropped its pending wait for k *)

Definition mid_agent (m : mid) : aid := match m with MUnlock a _ _ | MCancel a _ => a end.

(* first halves: the part of the critical section up to and including the release *)
Definition unlock_first (s : state) (g : gid) : option (state * key * bool) :=
  match aget g (s_guards s) with
  | None => None
  | Some k =>
    match aget k (s_ents s) with
    | None => None
    | Some e =>
      Some (with_guards (with_ents s (aset k (mx_release e) (s_ents s))) (adel g (s_guards s)), k,
            match e_val e with None => true | Some _ => false end)
    end
  end.

Definition cancel_first (s : state) (a : aid) (k : key) : option state :=
  match aget k (s_ents s) with
  | None => None
  | Some e => Some (with_ents s (aset k (set_repl (mx_cancel e a) (e_repl e - 1)) (s_ents s)))
  end.

(* second halves *)
Definition unlock_np (p : pc) : option pc * obs * option gid :=
  match p with
  | PDrops (_ :: g' :: rest') af => (Some (PDrops (g' :: rest') af), ONothing, Some g')
  | PDrops [_] (AReenter sh k0 lim) => (Some (PEnter sh k0 (Some lim)), ONothing, None)
  | PDrops [_] af => (None, after_obs af, None)
  | _ => (None, ONothing, None)
  end.

Definition second (c : cfg) (m : mid) (s : state) : state * obs :=
  match m with
  | MUnlock a k wn =>
    match aget a (s_ops s) with
    | Some p =>
      let '(np, ob, nxt) := unlock_np p in
      let ok2 := match nxt with Some g' => aget g' (s_guards s) | None => None end in
      (T a np (E_unlock c k wn (s_clock s) ok2) s, ob)
    | None => (s, ONothing)
    end
  | MCancel a k => (T a None (patch_cancel k) s, OCancelled)
  end.

Definition fstate := (state * option mid)%type.

(* the state of the model that corresponds to a fine-grained state: the pending second half applied *)
Definition collapse (c : cfg) (fs : fstate) : state :=
  match snd fs with None => fst fs | Some m => fst (second c m (fst fs)) end.

Inductive fkind := FPlain | FFirst (announced : obs) | FOther | FSecond.

Inductive fstep (c : cfg) : fstate -> label -> fkind -> fstate -> obs -> Prop :=
| fs_plain s l s' o :
    step c s l = ROk s' o -> fstep c (s, None) l FPlain (s', None) o
| fs_unlock1 s a orc g rest af s1 k wn :
    aget a (s_ops s) = Some (PDrops (g :: rest) af) -> unlock_first s g = Some (s1, k, wn) ->
    fstep c (s, None) (LResume a orc) (FFirst (snd (second c (MUnlock a k wn) s1))) (s1, Some (MUnlock a k wn)) ONothing
| fs_cancel1 s a orc k s1 :
    aget a (s_ops s) = Some (PCancel k) -> cancel_first s a k = Some s1 ->
    fstep c (s, None) (LResume a orc) (FFirst OCancelled) (s1, Some (MCancel a k)) ONothing
| fs_other s m l s' o :
    lockfree s l = true -> label_agent l <> Some (mid_agent m) -> step c s l = ROk s' o ->
    fstep c (s, Some m) l FOther (s', Some m) o
| fs_second s m orc :
    fstep c (s, Some m) (LResume (mid_agent m) orc) FSecond (fst (second c m s), None) (snd (second c m s)).

(* ------------------------------------------------------------------ *)
(* the two halves make up the model's step *)

Lemma mx_release_repl e : e_repl (mx_release e) = e_repl e.
Proof. unfold mx_release. destruct (e_queue e); reflexivity. Qed.

Lemma unlock_split c s a g rest af s1 k wn s' o :
  aget a (s_ops s) = Some (PDrops (g :: rest) af) -> unlock_first s g = Some (s1, k, wn) ->
  do_drops c s a (g :: rest) af = ROk s' o -> second c (MUnlock a k wn) s1 = (s', o).
Proof.
  intros Ha Hf H. unfold unlock_first in Hf. unfold do_drops, unlock_cs in H.
  destruct (aget g (s_guards s)) as [k0|] eqn:Hg; [|discriminate].
  destruct (aget k0 (s_ents s)) as [e|] eqn:He; [|discriminate]. inv Hf.
  unfold second. cbn [s_ops with_guards with_ents]. rewrite Ha.
  assert (PE : patch_unlock c k (match e_val e with None => true | Some _ => false end)
                 (aset k (mx_release e) (s_ents s)) =
               match e_val e with
               | Some _ => aset k (set_repl (mx_release e) (e_repl e - 1)) (s_ents s)
               | None => let ents2 := promote_if_lru c k (aset k (set_repl (mx_release e) (e_repl e - 1)) (s_ents s)) in
                         if Nat.eqb (e_repl e - 1) 0 then adel k ents2 else ents2
               end).
  { unfold patch_unlock. rewrite aget_aset_eq, mx_release_repl, aset_aset. cbn [e_repl set_repl].
    destruct (e_val e); reflexivity. }
  destruct s as [ents gs ops clk gid]. cbn [s_ents s_guards s_ops s_clock s_gid with_guards with_ents] in *.
  unfold T, upd_ops, E_unlock. cbn [s_ents s_guards s_ops s_clock s_gid with_guards with_ents with_ops set_pc fin].
  rewrite PE. clear PE.
  destruct (e_val e) as [vv|] eqn:Ev.
  - destruct rest as [|g' rest']; [destruct af|]; inv H; cbn [unlock_np];
      rewrite ?begin_unlock_stamp; cbn; reflexivity.
  - cbn [e_repl set_repl] in H.
    destruct (Nat.eqb (e_repl e - 1) 0);
      (destruct rest as [|g' rest']; [destruct af|]; inv H; cbn [unlock_np];
       rewrite ?begin_unlock_stamp; cbn; reflexivity).
Qed.

Lemma cancel_split c s a k s1 ents' :
  cancel_first s a k = Some s1 -> cancel_ents c (s_ents s) a k = inl (Some ents') ->
  second c (MCancel a k) s1 = (fin (with_ents s ents') a, OCancelled).
Proof.
  intros Hf H. unfold cancel_first in Hf. unfold cancel_ents in H.
  destruct (aget k (s_ents s)) as [e|] eqn:He; [|discriminate]. inv Hf.
  unfold second. f_equal. unfold T, upd_ops. destruct s as [ents gs ops clk gid]. cbn in *.
  unfold patch_cancel. rewrite aget_aset_eq. cbn [e_repl set_repl e_owner e_val] in *.
  destruct (Nat.eqb (e_repl e - 1) 0); [|inv H; reflexivity].
  destruct (e_owner (mx_cancel e a)); [discriminate|].
  destruct (e_val (mx_cancel e a)); inv H; reflexivity.
Qed.

(* ------------------------------------------------------------------ *)
(* what is known about a state in the middle of a critical section *)

Definition mid_ok (m : mid) (s : state) : Prop :=
  NoDup (akeys (s_ops s)) /\
  match m with
  | MUnlock a k wn =>
      exists g rest af, aget a (s_ops s) = Some (PDrops (g :: rest) af) /\ aget g (s_guards s) = None /\
                        (forall g0, In g0 (g :: rest) -> g0 < s_gid s)
  | MCancel a k => aget a (s_ops s) = Some (PCancel k)
  end.

Lemma lockfree_not_consume s l : lockfree s l = true -> forall oc, l <> LConsume oc.
Proof. intros H oc ->. discriminate. Qed.

(* a lock-free step of somebody else commutes with the pending second half *)
Theorem pending_commutes c m s l s' o :
  mid_ok m s -> Inv (fst (second c m s)) ->
  lockfree s l = true -> label_agent l <> Some (mid_agent m) -> step c s l = ROk s' o ->
  step c (fst (second c m s)) l = ROk (fst (second c m s')) o /\
  mid_ok m s' /\ snd (second c m s') = snd (second c m s).
Proof.
  intros [Hnd Hm] HI Hlf Hag H.
  pose proof (lockfree_not_consume s l Hlf) as Hnc.
  destruct m as [a k wn|a k]; cbn [mid_agent] in Hag.
  - (* unlock *)
    destruct Hm as (g & rest & af & Ha & Hg & Hlt).
    pose proof (step_ops_other c s l s' o a H Hag Hnc) as Ha'. rewrite Ha in Ha'.
    unfold second in *. rewrite Ha in HI. rewrite Ha, Ha'.
    destruct (unlock_np (PDrops (g :: rest) af)) as [[np ob] nxt] eqn:Enp.
    set (ok2 := match nxt with Some g' => aget g' (s_guards s) | None => None end) in *.
    cbn [fst snd] in *.
    destruct (patch_commutes c a np (E_unlock c k wn (s_clock s) ok2) (adj_un c k (s_clock s) ok2) ok2
                (E_unlock_get c k wn (s_clock s) ok2) (E_unlock_aset c k wn (s_clock s) ok2)
                (adj_un_owner c k (s_clock s) ok2) (adj_un_queue c k (s_clock s) ok2) (adj_un_val c k (s_clock s) ok2)
                s l s' o (PDrops (g :: rest) af) Hlf Hag Ha Hnd) as [Hst Hfr]; auto.
    + (* busy guards are the same for guards that are in the table *)
      intros g0 Hg0. cbn [pc_drops mem_nat].
      assert (g0 <> g) by (intros ->; unfold amem in Hg0; rewrite Hg in Hg0; discriminate).
      destruct (Nat.eqb_spec g0 g); [congruence|]. cbn [orb].
      destruct rest as [|g' rest']; [destruct af|]; inv Enp; cbn; auto.
    + (* the key that gets stamped is the key of a guard a is still dropping *)
      intros k2' Hk. unfold ok2 in Hk. destruct nxt as [g'|]; [|discriminate].
      exists g'. split; auto. destruct rest as [|g'' rest']; [destruct af; inv Enp|]. inv Enp.
      cbn. rewrite Nat.eqb_refl. apply orb_true_r.
    + destruct Hfr as (Hnd' & Hclk & Hgs).
      assert (Hok2 : match nxt with Some g' => aget g' (s_guards s') | None => None end = ok2).
      { unfold ok2. destruct nxt as [g'|]; auto. destruct Hgs as [[-> _]|(kb & -> & _)]; auto.
        assert (g' < s_gid s).
        { apply Hlt. destruct rest as [|g'' rest']; [destruct af; inv Enp|]. inv Enp. right. left. reflexivity. }
        rewrite aget_cons_ne; auto. lia. }
      rewrite Hclk, Hok2. split; [exact Hst|]. split; [|reflexivity].
      split; auto. exists g, rest, af. split; auto. split.
      * destruct Hgs as [[-> _]|(kb & -> & _)]; auto. rewrite aget_cons_ne; auto.
        assert (g < s_gid s) by (apply Hlt; left; reflexivity). lia.
      * intros g0 Hin. specialize (Hlt g0 Hin). destruct Hgs as [[_ ->]|(kb & _ & ->)]; lia.
  - (* cancel *)
    pose proof (step_ops_other c s l s' o a H Hag Hnc) as Ha'. rewrite Hm in Ha'.
    unfold second in *. cbn [fst snd] in *.
    destruct (patch_commutes c a None (patch_cancel k) (fun _ e => e) None
                (patch_cancel_get k)
                (fun ents k' e' f Hf _ He Hp Hr => patch_cancel_aset k ents k' e' f Hf He Hp Hr)
                (fun _ _ => eq_refl) (fun _ _ => eq_refl) (fun _ _ _ => eq_refl)
                s l s' o (PCancel k) Hlf Hag Hm Hnd) as [Hst Hfr]; auto.
    + intros k2' Hk. discriminate.
    + destruct Hfr as (Hnd' & _). split; [exact Hst|]. split; [|reflexivity]. split; auto.
Qed.

(* ------------------------------------------------------------------ *)
(* simulation *)

Definition Rel (c : cfg) (fs : fstate) : Prop :=
  Inv (collapse c fs) /\ DInv (collapse c fs) /\
  match snd fs with Some m => mid_ok m (fst fs) | None => True end.

(* the model's event that corresponds to a fine-grained event: a critical section takes effect, with the
   observation its caller will eventually report, at its first half; the second half is invisible *)
Definition lin_event (l : label) (kd : fkind) (o : obs) : option (label * obs) :=
  match kd with
  | FPlain | FOther => Some (l, o)
  | FFirst announced => Some (l, announced)
  | FSecond => None
  end.

Theorem fine_step_sim c fs l kd fs' o :
  Rel c fs -> fstep c fs l kd fs' o ->
  Rel c fs' /\
  match lin_event l kd o with
  | Some (l', o') => step c (collapse c fs) l' = ROk (collapse c fs') o'
  | None => collapse c fs' = collapse c fs
  end.
Proof.
  intros (HI & HD & Hm) H. destruct H; unfold Rel, collapse in *; cbn [fst snd lin_event] in *.
  - (* plain *)
    split; auto. split; [eapply step_inv; eauto|]. split; [eapply step_dinv; eauto|exact I].
  - (* first half of _unlock *)
    destruct (drop_enabled c s a g rest af orc HI HD H) as (s' & ob & Hst).
    pose proof Hst as Hst'. cbn [step] in Hst'. unfold do_resume in Hst'. rewrite H in Hst'. apply cs_ok in Hst'.
    pose proof (unlock_split c s a g rest af s1 k wn s' ob H H0 Hst') as Hsp. rewrite Hsp. cbn [fst snd].
    split; auto. split; [eapply step_inv; eauto|]. split; [eapply step_dinv; eauto|].
    unfold unlock_first in H0. destruct (aget g (s_guards s)) as [k0|] eqn:Hg; [|discriminate].
    destruct (aget k0 (s_ents s)) as [e|]; [|discriminate]. inv H0.
    split; [cbn; apply (inv_nd_o _ HI)|]. exists g, rest, af. cbn. split; auto. split; [apply aget_adel_eq|].
    intros g0 Hin. apply (inv_gid _ HI). eapply (di_live _ HD); eauto.
  - (* first half of PendingLock::drop *)
    destruct (resume_enabled c s a (PCancel k) orc HI H eq_refl) as (s' & ob & Hst); [intros; discriminate|].
    pose proof Hst as Hst'. cbn [step] in Hst'. unfold do_resume in Hst'. rewrite H in Hst'. apply cs_ok in Hst'.
    destruct (cancel_ents c (s_ents s) a k) as [[ents'|]|] eqn:Hc; inv Hst'.
    rewrite (cancel_split c s a k s1 ents' H0 Hc). cbn [fst snd].
    split; auto. split; [eapply step_inv; eauto|]. split; [eapply step_dinv; eauto|].
    unfold cancel_first in H0. destruct (aget k (s_ents s)); inv H0. split; [cbn; apply (inv_nd_o _ HI)|]. cbn. auto.
  - (* a lock-free step of somebody else *)
    destruct (pending_commutes c m s l s' o Hm HI H H0 H1) as (Hst & Hm' & _).
    split; auto. split; [eapply step_inv; eauto|]. split; [eapply step_dinv; eauto|auto].
  - (* second half *)
    split; auto.
Qed.

(* runs *)
Inductive fruns (c : cfg) : fstate -> list (label * fkind * obs) -> fstate -> Prop :=
| fr_nil fs : fruns c fs [] fs
| fr_cons fs l kd o fs' evs fs'' :
    fstep c fs l kd fs' o -> fruns c fs' evs fs'' -> fruns c fs ((l, kd, o) :: evs) fs''.

Inductive oruns (c : cfg) : state -> list (label * obs) -> state -> Prop :=
| or_nil s : oruns c s [] s
| or_cons s l o s' evs s'' : step c s l = ROk s' o -> oruns c s' evs s'' -> oruns c s ((l, o) :: evs) s''.

Fixpoint lin (evs : list (label * fkind * obs)) : list (label * obs) :=
  match evs with
  | [] => []
  | (l, kd, o) :: t => match lin_event l kd o with Some e => e :: lin t | None => lin t end
  end.

Lemma oruns_steps c s evs s' : oruns c s evs s' -> steps c s (map fst evs) s'.
Proof. induction 1; cbn; econstructor; eauto. Qed.

(* THE THEOREM: every fine-grained run is a run of the model, with every critical section that releases a
   key mutex taking effect at its first half *)
Theorem fine_run_linearises c fs evs fs' :
  Rel c fs -> fruns c fs evs fs' ->
  oruns c (collapse c fs) (lin evs) (collapse c fs') /\ Rel c fs'.
Proof.
  intros HR H. induction H as [fs|fs l kd o fs' evs fs'' Hst Hrun IH]; [split; [constructor|auto]|].
  destruct (fine_step_sim c fs l kd fs' o HR Hst) as [HR' Hs]. destruct (IH HR') as [Ho HR''].
  split; auto. cbn [lin]. destruct (lin_event l kd o) as [[l' o']|].
  - econstructor; eauto.
  - rewrite <- Hs. exact Ho.
Qed.

Corollary fine_runs_reach_model_states c s0 evs s' :
  reachable c s0 -> fruns c (s0, None) evs (s', None) ->
  oruns c s0 (lin evs) s' /\ reachable c s'.
Proof.
  intros Hr H.
  assert (HR : Rel c (s0, None)).
  { split; [eapply reachable_inv; eauto|]. split; [eapply reachable_dinv; eauto|exact I]. }
  destruct (fine_run_linearises c _ _ _ HR H) as [Ho _]. unfold collapse in Ho. cbn in Ho. split; auto.
  destruct Hr as [ls0 H0]. exists (ls0 ++ map fst (lin evs)).
  assert (A : forall s1 l1 s2 l2 s3, steps c s1 l1 s2 -> steps c s2 l2 s3 -> steps c s1 (l1 ++ l2) s3).
  { intros s1 l1 s2 l2 s3 H1. induction H1; cbn; auto. intros. econstructor; eauto. }
  eapply A; eauto. apply oruns_steps; auto.
Qed.

(* between the two halves only lock-free steps of others happen, and they do not change what the second
   half will report: the observation announced at the first half is the one delivered at the second *)
Theorem announced_is_delivered c m s evs s' :
  Rel c (s, Some m) -> fruns c (s, Some m) evs (s', Some m) ->
  Forall (fun ev => snd (fst ev) = FOther) evs ->
  snd (second c m s') = snd (second c m s).
Proof.
  intros HR H Hall.
  assert (G : forall fs evs fs', fruns c fs evs fs' -> forall s s', fs = (s, Some m) -> fs' = (s', Some m) ->
              Rel c fs -> Forall (fun ev => snd (fst ev) = FOther) evs ->
              snd (second c m s') = snd (second c m s)).
  { clear. intros fs evs fs' H. induction H as [fs|fs l kd o fs1 evs fs2 Hst Hrun IH]; intros s s' E1 E2 HR Hall.
    - subst. inv E2. reflexivity.
    - subst. inversion Hall as [|? ? Hk Hall']; subst. cbn in Hk. subst kd.
      pose proof (fine_step_sim c _ _ _ _ _ HR Hst) as [HR1 _].
      inversion Hst; subst.
      destruct HR as (HI & HD & Hm). unfold collapse in HI. cbn [fst snd] in *.
      match goal with
      | Hlf : lockfree s l = true, Hag : label_agent l <> _, Hs : step c s l = ROk ?s1 o |- _ =>
          destruct (pending_commutes c m s l s1 o Hm HI Hlf Hag Hs) as (_ & _ & Hob);
          rewrite <- Hob; apply (IH s1 s'); auto
      end. }
  eapply G; eauto.
Qed.

(* mutual exclusion also holds in the middle of a critical section: the guards the clients hold in a
   fine-grained state are exactly those of its collapsed image, a reachable-like state of the model *)
Lemma second_guards c m s : s_guards (fst (second c m s)) = s_guards s.
Proof.
  unfold second. destruct m as [a k wn|a k]; cbn [fst].
  - destruct (aget a (s_ops s)) as [p|]; [|reflexivity].
    destruct (unlock_np p) as [[np ob] nxt]. cbn [fst]. apply T_guards.
  - apply T_guards.
Qed.

Theorem fine_mutual_exclusion c fs g1 g2 k :
  Rel c fs -> In (g1, k) (s_guards (fst fs)) -> In (g2, k) (s_guards (fst fs)) -> g1 = g2.
Proof.
  intros (HI & _ & _) H1 H2.
  assert (E : s_guards (collapse c fs) = s_guards (fst fs)).
  { unfold collapse. destruct (snd fs); [apply second_guards|reflexivity]. }
  rewrite <- E in H1, H2.
  apply (In_aget _ _ _ (inv_nd_g _ HI)) in H1. apply (In_aget _ _ _ (inv_nd_g _ HI)) in H2.
  destruct (Inv_guard_present _ g1 k HI H1) as (e1 & He1 & Ho1).
  destruct (Inv_guard_present _ g2 k HI H2) as (e2 & He2 & Ho2). congruence.
Qed.
