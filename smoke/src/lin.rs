//! `smoke lin <seed> <histories> <out file>`: small random multi-threaded programs on the crate built WITHOUT the
//! hooks (real threads, real tokio waits), every operation recorded with invocation / response stamps from one
//! global atomic counter. `/verif/build/lincheck` decides whether each history is linearisable with respect to
//! the abstract machine extracted from Coq (plain map + locked set) and replays the witness on the model.
//!
//! Clients follow a lock order (a waiting acquisition only for keys above everything the thread holds), so a
//! history that does not finish is a hang of the library; each history runs under a watchdog.
use lockable::{AsyncLimit, LockPool, Lockable, LockableHashMap, LockableLruCache, SyncLimit};
use std::io::Write;
use std::sync::atomic::{AtomicU64, Ordering};
use std::sync::{mpsc, Arc, Barrier};
use std::time::Duration;

type Key = u64;
type Val = i64;
type HMap = LockableHashMap<Key, Val>;
type LCache = LockableLruCache<Key, Val>;
type Pool = LockPool<Key>;
type HG = <HMap as Lockable<Key, Val>>::Guard<'static>;
type HOG = <HMap as Lockable<Key, Val>>::OwnedGuard;
type LG = <LCache as Lockable<Key, Val>>::Guard<'static>;
type LOG = <LCache as Lockable<Key, Val>>::OwnedGuard;
type PG = <Pool as Lockable<Key, ()>>::Guard<'static>;

trait G: Send {
    fn value(&self) -> Option<Val>;
    fn insert(&mut self, v: Val) -> Option<Val>;
    fn remove(&mut self) -> Option<Val>;
    fn set(&mut self, v: Val) -> Option<Val>;
    fn try_insert(&mut self, v: Val) -> Result<Val, ()>;
    fn value_or_insert(&mut self, v: Val) -> Val;
}

macro_rules! impl_g {
    ($w:ident, $t:ty) => {
        struct $w($t);
        impl G for $w {
            fn value(&self) -> Option<Val> {
                self.0.value().copied()
            }
            fn insert(&mut self, v: Val) -> Option<Val> {
                self.0.insert(v)
            }
            fn remove(&mut self) -> Option<Val> {
                self.0.remove()
            }
            fn set(&mut self, v: Val) -> Option<Val> {
                self.0.value_mut().map(|x| {
                    *x = v;
                    v
                })
            }
            fn try_insert(&mut self, v: Val) -> Result<Val, ()> {
                self.0.try_insert(v).map(|x| *x).map_err(|_| ())
            }
            fn value_or_insert(&mut self, v: Val) -> Val {
                *self.0.value_or_insert(v)
            }
        }
    };
}
impl_g!(WHG, HG);
impl_g!(WHOG, HOG);
impl_g!(WLG, LG);
impl_g!(WLOG, LOG);

/// LockPool guards carry no value; no guard operations are generated for them.
struct WPG(#[allow(dead_code)] PG);
impl G for WPG {
    fn value(&self) -> Option<Val> {
        None
    }
    fn insert(&mut self, _: Val) -> Option<Val> {
        unreachable!()
    }
    fn remove(&mut self) -> Option<Val> {
        unreachable!()
    }
    fn set(&mut self, _: Val) -> Option<Val> {
        unreachable!()
    }
    fn try_insert(&mut self, _: Val) -> Result<Val, ()> {
        unreachable!()
    }
    fn value_or_insert(&mut self, _: Val) -> Val {
        unreachable!()
    }
}

#[derive(Clone, Copy)]
enum Cont {
    H(&'static Arc<HMap>),
    L(&'static Arc<LCache>),
    P(&'static Arc<Pool>),
}

/// The eight acquisition variants: b, bo (owned), a, ao, t, to, ta, tao.
const VARIANTS: [&str; 8] = ["b", "bo", "a", "ao", "t", "to", "ta", "tao"];

fn is_try(v: &str) -> bool {
    v.starts_with('t')
}

fn block_on<F: std::future::Future>(f: F) -> F::Output {
    futures::executor::block_on(f)
}

impl Cont {
    fn lock(self, variant: &str, k: Key) -> Option<Box<dyn G>> {
        match self {
            Cont::H(m) => {
                let r: &'static HMap = m;
                match variant {
                    "b" => Some(Box::new(WHG(r.blocking_lock(k, SyncLimit::no_limit()).unwrap())) as Box<dyn G>),
                    "bo" => Some(Box::new(WHOG(m.blocking_lock_owned(k, SyncLimit::no_limit()).unwrap()))),
                    "a" => Some(Box::new(WHG(block_on(r.async_lock(k, AsyncLimit::no_limit())).unwrap()))),
                    "ao" => Some(Box::new(WHOG(block_on(m.async_lock_owned(k, AsyncLimit::no_limit())).unwrap()))),
                    "t" => r.try_lock(k, SyncLimit::no_limit()).unwrap().map(|g| Box::new(WHG(g)) as Box<dyn G>),
                    "to" => m.try_lock_owned(k, SyncLimit::no_limit()).unwrap().map(|g| Box::new(WHOG(g)) as Box<dyn G>),
                    "ta" => block_on(r.try_lock_async(k, AsyncLimit::no_limit())).unwrap().map(|g| Box::new(WHG(g)) as Box<dyn G>),
                    _ => block_on(m.try_lock_owned_async(k, AsyncLimit::no_limit())).unwrap().map(|g| Box::new(WHOG(g)) as Box<dyn G>),
                }
            }
            Cont::L(m) => {
                let r: &'static LCache = m;
                match variant {
                    "b" => Some(Box::new(WLG(r.blocking_lock(k, SyncLimit::no_limit()).unwrap())) as Box<dyn G>),
                    "bo" => Some(Box::new(WLOG(m.blocking_lock_owned(k, SyncLimit::no_limit()).unwrap()))),
                    "a" => Some(Box::new(WLG(block_on(r.async_lock(k, AsyncLimit::no_limit())).unwrap()))),
                    "ao" => Some(Box::new(WLOG(block_on(m.async_lock_owned(k, AsyncLimit::no_limit())).unwrap()))),
                    "t" => r.try_lock(k, SyncLimit::no_limit()).unwrap().map(|g| Box::new(WLG(g)) as Box<dyn G>),
                    "to" => m.try_lock_owned(k, SyncLimit::no_limit()).unwrap().map(|g| Box::new(WLOG(g)) as Box<dyn G>),
                    "ta" => block_on(r.try_lock_async(k, AsyncLimit::no_limit())).unwrap().map(|g| Box::new(WLG(g)) as Box<dyn G>),
                    _ => block_on(m.try_lock_owned_async(k, AsyncLimit::no_limit())).unwrap().map(|g| Box::new(WLOG(g)) as Box<dyn G>),
                }
            }
            Cont::P(m) => {
                let r: &'static Pool = m;
                match variant {
                    "b" | "bo" => Some(Box::new(WPG(r.blocking_lock(k))) as Box<dyn G>),
                    "a" | "ao" => Some(Box::new(WPG(block_on(r.async_lock(k))))),
                    _ => r.try_lock(k).map(|g| Box::new(WPG(g)) as Box<dyn G>),
                }
            }
        }
    }
    /// A `lock_all_entries` stream, polled without waiting (up to `polls` times) and then dropped with whatever is
    /// still pending; every guard it yields is reported to `f` (key, value) and dropped at once.
    fn stream_sweep(self, polls: u64, f: &mut dyn FnMut(Key, Option<Val>, &mut dyn FnMut())) {
        use futures::future::FutureExt;
        use futures::stream::StreamExt;
        macro_rules! sweep {
            ($m:expr) => {{
                let mut stream = Box::pin($m.lock_all_entries().now_or_never().expect("lock_all_entries waits for nothing"));
                for _ in 0..polls {
                    match stream.next().now_or_never() {
                        Some(Some(g)) => {
                            let (k, v) = (*g.key(), g.value().copied());
                            let mut g = Some(g);
                            f(k, v, &mut || drop(g.take()));
                        }
                        Some(None) => break,
                        None => std::thread::yield_now(),
                    }
                }
            }};
        }
        match self {
            Cont::H(m) => sweep!(m),
            Cont::L(m) => sweep!(m),
            Cont::P(_) => {}
        }
    }
    /// `lock_entries_unlocked_for_at_least(0)` on the cache: every guard is reported to `f` and dropped at once.
    fn idle_sweep(self, f: &mut dyn FnMut(Key, Option<Val>, &mut dyn FnMut())) {
        if let Cont::L(m) = self {
            let guards: Vec<_> = m.lock_entries_unlocked_for_at_least(Duration::ZERO).collect();
            for g in guards {
                let (k, v) = (*g.key(), g.value().copied());
                let mut g = Some(g);
                f(k, v, &mut || drop(g.take()));
            }
        }
    }
    fn keys_at_rest(self) -> (usize, Vec<Key>) {
        let (n, mut ks) = match self {
            Cont::H(m) => (m.num_entries_or_locked(), m.keys_with_entries_or_locked()),
            Cont::L(m) => (m.num_entries_or_locked(), m.keys_with_entries_or_locked()),
            Cont::P(m) => (m.num_locked(), m.locked_keys()),
        };
        ks.sort();
        (n, ks)
    }
    fn tag(self) -> &'static str {
        match self {
            Cont::H(_) => "H",
            Cont::L(_) => "L",
            Cont::P(_) => "P",
        }
    }
}

/// splitmix64
struct Rng(u64);
impl Rng {
    fn next(&mut self) -> u64 {
        self.0 = self.0.wrapping_add(0x9E3779B97F4A7C15);
        let mut z = self.0;
        z = (z ^ (z >> 30)).wrapping_mul(0xBF58476D1CE4E5B9);
        z = (z ^ (z >> 27)).wrapping_mul(0x94D049BB133111EB);
        z ^ (z >> 31)
    }
    fn below(&mut self, n: u64) -> u64 {
        self.next() % n
    }
}

fn opt(v: Option<Val>) -> String {
    v.map(|x| x.to_string()).unwrap_or_else(|| "-".into())
}

fn worker(cont: Cont, th: u64, seed: u64, nkeys: u64, len: u64, clk: &AtomicU64, start: &Barrier) -> Vec<String> {
    let mut rng = Rng(seed);
    let mut out = vec![];
    let mut held: Vec<(u64, Key, Box<dyn G>)> = vec![];
    let mut next_g = 0u64;
    let pool = matches!(cont, Cont::P(_));
    start.wait();
    let mut rec = |out: &mut Vec<String>, inv: u64, text: String| {
        let rsp = clk.fetch_add(1, Ordering::SeqCst);
        out.push(format!("op {} {} {} {}", th, inv, rsp, text));
    };
    for _ in 0..len {
        let choice = rng.below(10);
        if held.is_empty() || (held.len() < 2 && choice < 4) {
            // acquire
            let mut variant = VARIANTS[rng.below(8) as usize];
            let maxheld = held.iter().map(|h| h.1).max().unwrap_or(0);
            let k = 1 + rng.below(nkeys);
            if !is_try(variant) && k <= maxheld {
                // a waiting acquisition below a held key could deadlock the clients: try instead
                variant = ["t", "to", "ta", "tao"][rng.below(4) as usize];
            }
            let g = th * 100 + next_g;
            next_g += 1;
            let inv = clk.fetch_add(1, Ordering::SeqCst);
            let r = cont.lock(variant, k);
            match r {
                Some(guard) => {
                    let v = guard.value();
                    rec(&mut out, inv, format!("lock {} {} {} -> guard {}", variant, k, g, if pool { "-".into() } else { opt(v) }));
                    held.push((g, k, guard));
                }
                None => rec(&mut out, inv, format!("lock {} {} {} -> none", variant, k, g)),
            }
        } else if choice == 9 && !pool && rng.below(2) == 0 {
            // a sweep: a stream over all entries (or, on the cache, the idle-entry scan); every guard obtained is one
            // acquisition somewhere between the start of the sweep and the moment it was handed out, then a drop
            let start = clk.fetch_add(1, Ordering::SeqCst);
            let stream = rng.below(3) != 0 || !matches!(cont, Cont::L(_));
            let polls = 1 + rng.below(6);
            let mut found: Vec<(u64, Key, Option<Val>, u64, u64, u64)> = vec![];
            {
                let mut f = |k: Key, v: Option<Val>, dropit: &mut dyn FnMut()| {
                    let got = clk.fetch_add(1, Ordering::SeqCst);
                    let g = th * 100 + next_g;
                    next_g += 1;
                    let d0 = clk.fetch_add(1, Ordering::SeqCst);
                    dropit();
                    let d1 = clk.fetch_add(1, Ordering::SeqCst);
                    found.push((g, k, v, got, d0, d1));
                };
                if stream {
                    cont.stream_sweep(polls, &mut f);
                } else {
                    cont.idle_sweep(&mut f);
                }
            }
            let end = clk.fetch_add(1, Ordering::SeqCst);
            // while a sweep is in progress its pending per-entry futures (or the scan itself) can own a key's mutex
            // without anybody seeing a guard: a try of another thread may fail on a key nobody visibly holds
            out.push(format!("sweep {} {} {}", th, start, end));
            for (g, k, v, got, d0, d1) in found {
                out.push(format!("op {} {} {} lock {} {} {} -> guard {}", th, start, got, if stream { "a" } else { "t" }, k, g, opt(v)));
                out.push(format!("op {} {} {} drop {} -> unit", th, d0, d1, g));
            }
        } else if choice < 7 && !pool {
            let i = rng.below(held.len() as u64) as usize;
            let v = (th * 1000 + rng.below(900)) as Val;
            let g = held[i].0;
            let which = rng.below(6);
            let inv = clk.fetch_add(1, Ordering::SeqCst);
            let text = match which {
                0 => format!("gop {} insert {} -> val {}", g, v, opt(held[i].2.insert(v))),
                1 => format!("gop {} remove -> val {}", g, opt(held[i].2.remove())),
                2 => format!("gop {} read -> val {}", g, opt(held[i].2.value())),
                3 => format!("gop {} set {} -> val {}", g, v, opt(held[i].2.set(v))),
                4 => match held[i].2.try_insert(v) {
                    Ok(x) => format!("gop {} tryins {} -> val {}", g, v, x),
                    Err(()) => format!("gop {} tryins {} -> exists", g, v),
                },
                _ => format!("gop {} getorins {} -> val {}", g, v, held[i].2.value_or_insert(v)),
            };
            rec(&mut out, inv, text);
        } else {
            let i = rng.below(held.len() as u64) as usize;
            let (g, _, guard) = held.remove(i);
            let inv = clk.fetch_add(1, Ordering::SeqCst);
            drop(guard);
            rec(&mut out, inv, format!("drop {} -> unit", g));
        }
        if rng.below(4) == 0 {
            std::thread::yield_now();
        }
    }
    while let Some((g, _, guard)) = held.pop() {
        let inv = clk.fetch_add(1, Ordering::SeqCst);
        drop(guard);
        rec(&mut out, inv, format!("drop {} -> unit", g));
    }
    out
}

/// One history; `Err` = hang / panic of a worker.
fn history(id: u64, seed: u64) -> Result<Vec<String>, String> {
    let mut rng = Rng(seed ^ 0xA5A5_5A5A_0F0F_F0F0);
    let cont = match id % 3 {
        0 => Cont::H(Box::leak(Box::new(Arc::new(HMap::new())))),
        1 => Cont::L(Box::leak(Box::new(Arc::new(LCache::new())))),
        _ => Cont::P(Box::leak(Box::new(Arc::new(Pool::new())))),
    };
    let nthreads = 2 + rng.below(2);
    let nkeys = 1 + rng.below(3);
    let clk: &'static AtomicU64 = Box::leak(Box::new(AtomicU64::new(0)));
    let start: &'static Barrier = Box::leak(Box::new(Barrier::new(nthreads as usize)));
    let (tx, rx) = mpsc::channel();
    for th in 0..nthreads {
        let tx = tx.clone();
        let wseed = rng.next();
        let len = 3 + rng.below(5);
        std::thread::spawn(move || {
            let r = std::panic::catch_unwind(std::panic::AssertUnwindSafe(|| worker(cont, th, wseed, nkeys, len, clk, start)));
            let _ = tx.send(r.map_err(|p| {
                p.downcast_ref::<String>().cloned().or_else(|| p.downcast_ref::<&str>().map(|s| s.to_string())).unwrap_or_default()
            }));
        });
    }
    let mut lines = vec![format!("hist {} {} {}", id, cont.tag(), nkeys)];
    for _ in 0..nthreads {
        match rx.recv_timeout(Duration::from_secs(20)) {
            Ok(Ok(l)) => lines.extend(l),
            Ok(Err(p)) => return Err(format!("history {} ({}): a worker panicked: {}", id, cont.tag(), p)),
            Err(_) => return Err(format!("history {} ({}): a worker did not finish within 20 s although the clients follow a lock order", id, cont.tag())),
        }
    }
    let (n, ks) = cont.keys_at_rest();
    if n != ks.len() {
        return Err(format!("history {} ({}): at rest the count is {} but {} keys are listed", id, cont.tag(), n, ks.len()));
    }
    lines.push(format!("final {}", ks.iter().map(|k| k.to_string()).collect::<Vec<_>>().join(" ")));
    lines.push("end".into());
    Ok(lines)
}

pub fn main(seed: u64, count: u64, out: &str) -> Result<String, String> {
    let mut f = std::io::BufWriter::new(std::fs::File::create(out).map_err(|e| e.to_string())?);
    let mut ops = 0usize;
    for id in 0..count {
        let lines = history(id, seed.wrapping_mul(1_000_003).wrapping_add(id))?;
        ops += lines.len().saturating_sub(3);
        for l in lines {
            writeln!(f, "{}", l).map_err(|e| e.to_string())?;
        }
    }
    f.flush().map_err(|e| e.to_string())?;
    Ok(format!("{} histories, {} operations", count, ops))
}
