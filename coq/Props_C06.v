(* C06 — cancelling a pending async acquisition leaves no trace. *)
From Coq Require Import List Arith ZArith.
From LK Require Import AList Model Inv StepInv NoPanic PropLemmas Seq DropInv Stream SeqRefine SeqLimit Conc.
Import ListNotations.

(* A pending async_lock (queued or already handed the key) can be dropped in every reachable state:
   the drop (LCancel, then the cancel critical section) succeeds without panic, removes the call,
   leaves the key neither locked nor reserved for it, changes no value and no guard, and ends in a state
   that satisfies the invariant -- so the accounting theorems (C04), the no-panic theorem (C13) and all
   other theorems apply to everything that happens afterwards (eviction, expiry, consume, ...). *)
Theorem C06_cancel_pending_lock : forall c s a sh k o,
  reachable c s -> aget a (s_ops s) = Some (PQueued sh k) -> sh_is_async sh = true ->
  exists s1 s2,
    step c s (LCancel a) = ROk s1 ONothing /\ aget a (s_ops s1) = Some (PCancel k) /\
    s_ents s1 = s_ents s /\ s_guards s1 = s_guards s /\
    step c s1 (LResume a o) = ROk s2 OCancelled /\
    aget a (s_ops s2) = None /\ ~ waits_on s2 a k /\ Inv s2 /\
    (forall k', vof s2 k' = vof s k') /\ s_guards s2 = s_guards s.
Proof. intros c s a sh k o H. exact (cancel_pending_lock c s a sh k o (reachable_inv c s H)). Qed.

(* Dropping a stream: each pending per-entry future (never polled or queued/handed) can be dropped; that
   removes it, changes no value, and the stream is gone when the last one is. *)
Theorem C06_cancel_stream_entry : forall c s a subs k o,
  reachable c s -> aget a (s_ops s) = Some (PStreamDrop subs) ->
  (aget k subs = Some SInit \/ aget k subs = Some SQueued) ->
  exists s' ob, step c s (LSub a k o) = ROk s' ob /\
    (adel k subs = [] -> ob = OCancelled /\ aget a (s_ops s') = None) /\
    (adel k subs <> [] -> ob = ONothing /\ aget a (s_ops s') = Some (PStreamDrop (adel k subs))) /\
    (forall k', vof s' k' = vof s k').
Proof. intros c s a subs k o H. exact (cancel_stream_sub c s a subs k o (reachable_inv c s H)). Qed.

(* "The same lasting effect as never having made the call": an async_lock on a key that is held (or
   reserved for another waiter), run until it is pending and then dropped, ends in exactly the state it
   started from -- same entries, values, stamps, owners, queues, replica counts, guards, calls in flight,
   clock -- except that the key sits at the most-recently-used position, where the call's own look-up
   put it (for the hash map: no difference at all). *)
Theorem C06_cancel_restores_state : forall c s a k e,
  reachable c s -> aget a (s_ops s) = None -> aget k (s_ents s) = Some e -> e_owner e <> None ->
  seq_async_cancel c s a k =
  ROk (mkS (aset k e (promote_if_lru c k (s_ents s))) (s_guards s) (s_ops s) (s_clock s) (s_gid s)) OCancelled.
Proof. intros c s a k e H. exact (async_cancel_roundtrip c s a k e (reachable_inv c s H)). Qed.

(* No residue: whenever no guard and no call is left, exactly the valued keys remain (= C04_quiescent).
   Together with reachable_inv this covers "the counts return to what values and live guards justify". *)
Theorem C06_no_residue : forall c s k, reachable c s -> s_guards s = [] -> s_ops s = [] ->
  (In k (akeys (s_ents s)) <-> valued s k).
Proof. intros c s k H. exact (quiescent_keys s k (reachable_inv c s H)). Qed.

(* The probe scenario P1 (holder of a valueless key releases while an async_lock is pending, then the
   future is dropped): the placeholder is gone, the count is 0, consuming works. *)
(* "The same lasting effect as never having made the call", step by step and under every interleaving: a by-key
   acquisition without limit touches the plain map + locked set of C05 only in the one step that announces its guard.
   Every other step it ever makes -- the look-up of an existing entry, a failed try, queueing behind a holder, the
   clean-up, the cancellation and the critical section after it -- leaves every value, the set of guards and the guard
   names exactly as they were, in every state (no invariant needed).  A call that is cancelled never makes the
   announcing step: nothing it did is visible there. *)
Theorem C06_cancelled_call_is_invisible_to_map_and_locks : forall c s a p l s' o,
  aget a (s_ops s) = Some p -> by_key_pc p = true -> own_label a l -> step c s l = ROk s' o ->
  (forall g k v, o <> OGuard g k v) ->
  s_guards s' = s_guards s /\ s_gid s' = s_gid s /\ (forall k, vof s' k = vof s k).
Proof. exact lock_call_invisible_until_it_gets_its_guard. Qed.

Example C06_witness :
  run (mkCfg false)
    [LStart 0 (CLock ShTry 1 None); LResume 0 []; LStart 1 (CLock ShAsync 1 None); LResume 1 [1]; LResume 1 [1];
     LStart 2 (CDrop 0); LResume 2 [1]; LCancel 1; LResume 1 [1]; LStart 3 CCount; LResume 3 []; LConsume []]
  = RunOk (mkS [] [] [] 0%Z 1)
      [ONothing; OGuard 0 1 None; ONothing; ONothing; ONothing; ONothing; OUnit; ONothing; OCancelled;
       ONothing; OCount 0; OConsumed []].
Proof. vm_compute. reflexivity. Qed.
