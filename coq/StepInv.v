(* Every step of the model preserves the invariant. *)
From Coq Require Import List Arith ZArith Bool Lia.
From LK Require Import AList AListFacts Model Inv.
Import ListNotations.

Ltac inv H := inversion H; subst; clear H.

(* chain of same_at facts through nested state transformers *)
Ltac same_chain :=
  lazymatch goal with
  | |- same_at ?s ?s _ => apply same_at_refl
  | |- same_at ?s (fin ?s1 ?a) _ =>
      eapply same_at_trans; [|eapply same_at_fin; cbn; eauto]; [same_chain|..]
  | |- same_at ?s (set_pc ?s1 ?a ?p) _ =>
      eapply same_at_trans; [|first [eapply same_at_set_pc; cbn; eauto | eapply same_at_start; cbn; eauto]]; [same_chain|..]
  | |- same_at ?s (with_ents ?s1 ?e) _ =>
      eapply same_at_trans; [|eapply same_at_ents; cbn]; [same_chain|..]
  | |- same_at ?s (with_clock ?s1 ?c) _ =>
      eapply same_at_trans; [|eapply same_at_clock]; same_chain
  | |- same_at ?s (with_gid (with_guards ?s1 ((s_gid ?s1, ?k) :: s_guards ?s1)) (S (s_gid ?s1))) _ =>
      eapply same_at_trans; [|apply (same_at_new_guard s1 k)]; [same_chain|..]
  | |- same_at ?s (with_guards ?s1 (adel ?g (s_guards ?s1))) _ =>
      eapply same_at_trans; [|eapply same_at_del_guard; cbn; eauto]; [same_chain|..]
  end.

Lemma pc_handles_bykey_other p k k' :
  match p with
  | PKeyTry _ k0 | PKeyWait _ k0 | PQueued _ k0 | PCleanup _ k0 | PCancel k0 => k0 = k
  | PEnter _ _ _ | PInCb _ _ _ _ | PDrops _ _ | PScan _ | PStreamEnter | PCount | PKeys => True
  | _ => False
  end -> k' <> k -> pc_handles p k' = 0 /\ pc_waits p k' = false.
Proof.
  destruct p; cbn; try tauto; intros -> Hn; destruct (Nat.eqb_spec k' k); try congruence; auto.
Qed.

(* ------------------------------------------------------------------ *)
(* A. acquiring the per-key mutex: the agent's handle moves into a new Guard *)

Definition acq (s : state) (k : key) (e : entry) : state :=
  let (s1, g) := new_guard s k in
  with_ents s1 (aset k (set_owner e (Some (OwnG g))) (s_ents s1)).

(* the agent-side change: either the call finishes or its pc changes *)
Definition upd_ops (s : state) (a : aid) (np : option pc) : state :=
  match np with Some p' => set_pc s a p' | None => fin s a end.

Definition np_handles (np : option pc) k := match np with Some p' => pc_handles p' k | None => 0 end.
Definition np_waits (np : option pc) k := match np with Some p' => pc_waits p' k | None => false end.

Lemma waits_on_upd s a np a' k :
  waits_on (upd_ops s a np) a' k <-> (a' = a /\ np_waits np k = true) \/ (a' <> a /\ waits_on s a' k).
Proof.
  destruct np; cbn; [apply waits_on_set_pc|]. rewrite waits_on_fin. intuition discriminate.
Qed.

Lemma handles_upd s a np p k : NoDup (akeys (s_ops s)) -> aget a (s_ops s) = Some p ->
  handles (upd_ops s a np) k + pc_handles p k = handles s k + np_handles np k.
Proof.
  intros Hnd Ha. destruct np; cbn.
  - pose proof (handles_set_pc s a p0 k Hnd). rewrite Ha in H. lia.
  - pose proof (handles_fin s a k Hnd). rewrite Ha in H. lia.
Qed.

Lemma NoDup_upd s a np : NoDup (akeys (s_ops s)) -> NoDup (akeys (s_ops (upd_ops s a np))).
Proof. destruct np; cbn; [apply NoDup_aset|apply NoDup_adel]. Qed.

Lemma upd_ents s a np : s_ents (upd_ops s a np) = s_ents s. Proof. destruct np; auto. Qed.
Lemma upd_guards s a np : s_guards (upd_ops s a np) = s_guards s. Proof. destruct np; auto. Qed.
Lemma upd_gid s a np : s_gid (upd_ops s a np) = s_gid s. Proof. destruct np; auto. Qed.

Lemma same_at_upd s a p np k :
  NoDup (akeys (s_ops s)) -> aget a (s_ops s) = Some p ->
  pc_handles p k = np_handles np k -> pc_waits p k = np_waits np k ->
  same_at s (upd_ops s a np) k.
Proof.
  intros Hnd Ha Hh Hw. destruct np; cbn in *.
  - eapply same_at_set_pc; eauto.
  - eapply same_at_fin; eauto.
Qed.

Lemma handles_ents s ents k : handles (with_ents s ents) k = handles s k.
Proof. reflexivity. Qed.

Lemma guard_on_new_guard s k0 g' k :
  guard_on (fst (new_guard s k0)) g' k <-> (g' = s_gid s /\ k = k0) \/ (g' <> s_gid s /\ guard_on s g' k).
Proof.
  unfold guard_on. cbn. destruct (Nat.eqb_spec g' (s_gid s)).
  - split; [intros H; inv H; auto|intros [[_ ->]|[H _]]; [auto|congruence]].
  - split; [auto|intros [[H _]|[_ H]]; [congruence|auto]].
Qed.

Lemma same_at_components s s' k :
  aget k (s_ents s') = aget k (s_ents s) ->
  (forall g, guard_on s' g k <-> guard_on s g k) ->
  gcount (s_guards s') k = gcount (s_guards s) k ->
  s_ops s' = s_ops s ->
  same_at s s' k.
Proof.
  intros H1 H2 H3 H4. constructor; auto; unfold waits_on; rewrite H4; tauto.
Qed.

Lemma acquire_core s s2 a p np k e :
  Inv s -> aget a (s_ops s) = Some p -> aget k (s_ents s) = Some e ->
  pc_handles p k = 1 -> np_handles np k = 0 -> np_waits np k = false ->
  (forall k', k' <> k -> pc_handles p k' = np_handles np k' /\ pc_waits p k' = np_waits np k') ->
  (e_owner e = None /\ pc_waits p k = false \/ e_owner e = Some (OwnW a) /\ pc_waits p k = true) ->
  s_ents s2 = aset k (set_owner e (Some (OwnG (s_gid s)))) (s_ents s) ->
  s_guards s2 = (s_gid s, k) :: s_guards s -> s_ops s2 = s_ops s -> s_gid s2 = S (s_gid s) ->
  Inv (upd_ops s2 a np).
Proof.
  intros HI Ha He Hp Hnp Hnw Hoth Hown E1 E2 E3 E4.
  pose proof (Inv_fresh_gid s HI) as Hfresh.
  destruct HI as [nde ndg ndo hgid hk]. pose proof (hk k) as [kmx kg kw kr k2 kp].
  set (g := s_gid s) in *.
  set (e' := set_owner e (Some (OwnG g))) in *.
  assert (Hg1 : forall g' k', guard_on s2 g' k' <-> (g' = g /\ k' = k) \/ (g' <> g /\ guard_on s g' k')).
  { intros g' k'. unfold guard_on. rewrite E2. cbn. destruct (Nat.eqb_spec g' g).
    - split; [intros H; inv H; auto|intros [[_ ->]|[H _]]; [auto|congruence]].
    - split; [auto|intros [[H _]|[_ H]]; [congruence|auto]]. }
  assert (Hw2 : forall a' k', waits_on s2 a' k' <-> waits_on s a' k') by (intros; unfold waits_on; rewrite E3; tauto).
  assert (ndo2 : NoDup (akeys (s_ops s2))) by (rewrite E3; auto).
  assert (Ha2 : aget a (s_ops s2) = Some p) by (rewrite E3; auto).
  constructor.
  - rewrite upd_ents, E1. apply NoDup_aset; auto.
  - rewrite upd_guards, E2. cbn. constructor; auto.
  - apply NoDup_upd. auto.
  - rewrite upd_guards, upd_gid, E2, E4. cbn. intros g' [<-|H]; [lia|]. apply hgid in H. lia.
  - intros k'. destruct (Nat.eq_dec k' k) as [->|Hne].
    + (* the key itself *)
      specialize (kmx e He) as (m1 & m2 & m3).
      assert (Hq : forall a', In a' (e_queue e) <-> (a' <> a /\ waits_on s a' k)).
      { intros a'. rewrite kw. split.
        - intros H. split; [|exists e; auto].
          intros ->. destruct Hown as [[Ho _]|[Ho _]]; [rewrite (m1 Ho) in H; destruct H|apply (m3 a Ho); auto].
        - intros [Hn (e0 & He0 & H)]. rewrite He in He0. inv He0.
          destruct H as [H|H]; auto. destruct Hown as [[Ho _]|[Ho _]]; congruence. }
      assert (Hge : aget k (s_ents (upd_ops s2 a np)) = Some e')
        by (rewrite upd_ents, E1; apply aget_aset_eq).
      assert (Hh : handles (upd_ops s2 a np) k = handles s k).
      { pose proof (handles_upd s2 a np p k ndo2 Ha2) as H.
        assert (handles s2 k = S (handles s k)).
        { unfold handles. rewrite E2, E3, gcount_cons, Nat.eqb_refl. lia. }
        lia. }
      constructor.
      * intros e0. rewrite Hge. intros H; inv H. repeat split; cbn; auto; discriminate.
      * intros g'. unfold guard_on. rewrite upd_guards. fold (guard_on s2 g' k). rewrite Hg1, Hge. split.
        -- intros [[-> _]|[Hn H]]; [eauto|].
           apply kg in H as (e0 & He0 & Ho). rewrite He in He0. inv He0.
           destruct Hown as [[Ho' _]|[Ho' _]]; congruence.
        -- intros (e0 & He0 & Ho). inv He0. cbn in Ho. inv Ho. auto.
      * intros a'. rewrite waits_on_upd, Hge, Hw2. split.
        -- intros [[_ H]|[Hn H]]; [congruence|]. exists e'. split; auto. left. cbn. apply Hq. auto.
        -- intros (e0 & He0 & H). inv He0. cbn in H. destruct H as [H|H]; [|discriminate].
           apply Hq in H. right. auto.
      * intros e0. rewrite Hge, Hh. intros H; inv H. cbn. auto.
      * intros e0. rewrite Hge. intros H; inv H. cbn. auto.
      * intros _. rewrite upd_ents, E1. apply akeys_aset_In. auto.
    + apply (KInv_same s); auto.
      eapply same_at_trans; [|eapply same_at_upd; eauto; apply Hoth; auto].
      apply same_at_components; auto.
      * rewrite E1. apply aget_aset_neq; auto.
      * intros g'. rewrite Hg1. split; [intros [[_ H]|[_ H]]; [congruence|auto]|].
        intros H. right. split; auto. intros ->. apply Hfresh. eapply aget_Some_keys; eauto.
      * rewrite E2, gcount_cons. destruct (Nat.eqb_spec k k'); [congruence|auto].
Qed.

Lemma acquire_inv s a p np k e :
  Inv s -> aget a (s_ops s) = Some p -> aget k (s_ents s) = Some e ->
  pc_handles p k = 1 -> np_handles np k = 0 -> np_waits np k = false ->
  (forall k', k' <> k -> pc_handles p k' = np_handles np k' /\ pc_waits p k' = np_waits np k') ->
  (e_owner e = None /\ pc_waits p k = false \/ e_owner e = Some (OwnW a) /\ pc_waits p k = true) ->
  Inv (upd_ops (acq s k e) a np).
Proof.
  intros. eapply acquire_core; eauto.
Qed.

(* ------------------------------------------------------------------ *)
(* generic frame for a step of agent a that touches only key k *)

Lemma local_step s s2 a p np k :
  Inv s -> aget a (s_ops s) = Some p ->
  s_ops s2 = s_ops s ->
  NoDup (akeys (s_ents s2)) -> NoDup (akeys (s_guards s2)) ->
  (forall g, In g (akeys (s_guards s2)) -> g < s_gid s2) ->
  (forall k', k' <> k ->
     aget k' (s_ents s2) = aget k' (s_ents s) /\
     (forall g, guard_on s2 g k' <-> guard_on s g k') /\
     gcount (s_guards s2) k' = gcount (s_guards s) k') ->
  (forall k', k' <> k -> pc_handles p k' = np_handles np k' /\ pc_waits p k' = np_waits np k') ->
  KInv (upd_ops s2 a np) k ->
  Inv (upd_ops s2 a np).
Proof.
  intros HI Ha E3 N1 N2 N3 Hoth Hp Hk.
  destruct HI as [nde ndg ndo hgid hk].
  constructor.
  - rewrite upd_ents; auto.
  - rewrite upd_guards; auto.
  - apply NoDup_upd. rewrite E3; auto.
  - rewrite upd_guards, upd_gid. auto.
  - intros k'. destruct (Nat.eq_dec k' k) as [->|Hne]; auto.
    apply (KInv_same s); auto.
    destruct (Hoth k' Hne) as (H1 & H2 & H3).
    eapply same_at_trans; [apply (same_at_components s s2); auto|].
    eapply same_at_upd; try apply Hp; auto; rewrite E3; auto.
Qed.

Section LocalFacts.
  Variables (s s2 : state) (a : aid) (p : pc) (np : option pc).
  Hypothesis (HI : Inv s) (Ha : aget a (s_ops s) = Some p) (E3 : s_ops s2 = s_ops s).

  Lemma lf_handles k :
    handles (upd_ops s2 a np) k + pc_handles p k
    = gcount (s_guards s2) k + ops_handles (s_ops s) k + np_handles np k.
  Proof.
    assert (N : NoDup (akeys (s_ops s2))) by (rewrite E3; apply (inv_nd_o _ HI)).
    assert (A : aget a (s_ops s2) = Some p) by (rewrite E3; auto).
    pose proof (handles_upd s2 a np p k N A). unfold handles in *. rewrite E3 in *. lia.
  Qed.

  Lemma lf_waits a' k :
    waits_on (upd_ops s2 a np) a' k <-> (a' = a /\ np_waits np k = true) \/ (a' <> a /\ waits_on s a' k).
  Proof. rewrite waits_on_upd. unfold waits_on. rewrite E3. tauto. Qed.

  Lemma lf_guard g k : guard_on (upd_ops s2 a np) g k <-> guard_on s2 g k.
  Proof. unfold guard_on. rewrite upd_guards. tauto. Qed.

  Lemma lf_ents k : aget k (s_ents (upd_ops s2 a np)) = aget k (s_ents s2).
  Proof. rewrite upd_ents. auto. Qed.
End LocalFacts.

Lemma waits_on_handles s a k : waits_on s a k -> 0 < ops_handles (s_ops s) k.
Proof.
  intros (p & Ha & Hw). apply ops_handles_pos. exists a, p. split; [apply aget_In; auto|].
  rewrite (pc_waits_handles _ _ Hw). lia.
Qed.

Lemma agent_handles s a p k : aget a (s_ops s) = Some p -> pc_handles p k <= ops_handles (s_ops s) k.
Proof.
  intros Ha. apply aget_In in Ha. induction (s_ops s) as [|[a' p'] t IH]; [destruct Ha|].
  cbn. destruct Ha as [H|H]; [inv H; lia|]. specialize (IH H). lia.
Qed.

(* ------------------------------------------------------------------ *)
(* per-key mutex facts *)

Lemma mx_release_wf e g : mx_wf e -> e_owner e = Some (OwnG g) -> mx_wf (mx_release e).
Proof.
  intros (m1 & m2 & m3) Ho. unfold mx_release. destruct (e_queue e) as [|a q] eqn:Eq; cbn.
  - repeat split; cbn; auto; [rewrite Eq; constructor|discriminate].
  - inversion m2; subst. repeat split; cbn; auto; [discriminate|]. intros a' H; inv H. auto.
Qed.

Lemma mx_release_waiters e a' :
  (In a' (e_queue (mx_release e)) \/ e_owner (mx_release e) = Some (OwnW a')) <-> In a' (e_queue e).
Proof.
  unfold mx_release. destruct (e_queue e) as [|a q] eqn:Eq; cbn.
  - rewrite Eq. intuition discriminate.
  - split; [intros [H|H]; [auto|inv H; auto]|intros [->|H]; auto].
Qed.

Lemma mx_release_not_guard e g : e_owner (mx_release e) <> Some (OwnG g).
Proof. unfold mx_release. destruct (e_queue e); cbn; discriminate. Qed.

Lemma mx_release_val e : e_val (mx_release e) = e_val e.
Proof. unfold mx_release. destruct (e_queue e); auto. Qed.
Lemma mx_release_repl e : e_repl (mx_release e) = e_repl e.
Proof. unfold mx_release. destruct (e_queue e); auto. Qed.

Lemma mx_release_free e : e_owner (mx_release e) = None -> e_queue (mx_release e) = [].
Proof. unfold mx_release. destruct (e_queue e) eqn:E; cbn; [auto|discriminate]. Qed.

Lemma mx_cancel_val e a : e_val (mx_cancel e a) = e_val e.
Proof.
  unfold mx_cancel. destruct (e_owner e) as [[|a']|]; auto.
  destruct (Nat.eqb a a'); auto. apply mx_release_val.
Qed.
Lemma mx_cancel_repl e a : e_repl (mx_cancel e a) = e_repl e.
Proof.
  unfold mx_cancel. destruct (e_owner e) as [[|a']|]; auto.
  destruct (Nat.eqb a a'); auto. apply mx_release_repl.
Qed.

Lemma mx_cancel_wf e a : mx_wf e -> mx_wf (mx_cancel e a).
Proof.
  intros (m1 & m2 & m3). unfold mx_cancel.
  destruct (e_owner e) as [[g|a']|] eqn:Eo.
  - repeat split; cbn; try congruence. apply remove_nat_NoDup; auto.
  - destruct (Nat.eqb_spec a a').
    + subst. unfold mx_release. destruct (e_queue e) as [|a2 q] eqn:Eq; cbn.
      * repeat split; cbn; auto; [rewrite Eq; constructor|discriminate].
      * inversion m2; subst. repeat split; cbn; auto; [discriminate|]. intros a3 H; inv H. auto.
    + repeat split; cbn; try congruence; [apply remove_nat_NoDup; auto|].
      intros a3 H. rewrite Eo in H. inv H. rewrite remove_nat_In. intros [H _]. apply (m3 a3); auto.
  - repeat split; cbn; try congruence.
    + intros _. rewrite (m1 eq_refl). auto.
    + apply remove_nat_NoDup; auto.
Qed.

Lemma mx_cancel_waiters e a a' : mx_wf e ->
  (In a' (e_queue (mx_cancel e a)) \/ e_owner (mx_cancel e a) = Some (OwnW a')) <->
  (a' <> a /\ (In a' (e_queue e) \/ e_owner e = Some (OwnW a'))).
Proof.
  intros (m1 & m2 & m3). unfold mx_cancel.
  destruct (e_owner e) as [[g|a0]|] eqn:Eo.
  - cbn. rewrite remove_nat_In, Eo. intuition discriminate.
  - destruct (Nat.eqb_spec a a0).
    + subst a0. rewrite mx_release_waiters. split.
      * intros H. split; auto. intros ->. apply (m3 a); auto.
      * intros [Hn [H|H]]; auto. congruence.
    + cbn. rewrite remove_nat_In, Eo. split.
      * intros [[H Hn]|H]; [auto|]. inv H. split; auto.
      * intros [Hn [H|H]]; auto.
  - cbn. rewrite remove_nat_In, Eo. intuition discriminate.
Qed.

Lemma mx_cancel_guard e a g : e_owner (mx_cancel e a) = Some (OwnG g) <-> e_owner e = Some (OwnG g).
Proof.
  unfold mx_cancel. destruct (e_owner e) as [[g0|a0]|] eqn:Eo; cbn; try (rewrite Eo; tauto).
  destruct (Nat.eqb a a0); cbn; [|rewrite Eo; tauto].
  split; [intros H; exfalso; eapply mx_release_not_guard; eauto|discriminate].
Qed.

Lemma mx_cancel_free e a : mx_wf e -> e_owner (mx_cancel e a) = None -> e_queue (mx_cancel e a) = [].
Proof. intros H. apply (mx_cancel_wf e a H). Qed.

(* agent-free variant of local_step *)
Lemma local_step0 s s2 k :
  Inv s -> s_ops s2 = s_ops s ->
  NoDup (akeys (s_ents s2)) -> NoDup (akeys (s_guards s2)) ->
  (forall g, In g (akeys (s_guards s2)) -> g < s_gid s2) ->
  (forall k', k' <> k ->
     aget k' (s_ents s2) = aget k' (s_ents s) /\
     (forall g, guard_on s2 g k' <-> guard_on s g k') /\
     gcount (s_guards s2) k' = gcount (s_guards s) k') ->
  KInv s2 k -> Inv s2.
Proof.
  intros HI E3 N1 N2 N3 Hoth Hk. destruct HI as [nde ndg ndo hgid hk].
  constructor; auto; [rewrite E3; auto|].
  intros k'. destruct (Nat.eq_dec k' k) as [->|Hne]; auto.
  apply (KInv_same s); auto. destruct (Hoth k' Hne) as (H1 & H2 & H3).
  apply same_at_components; auto.
Qed.

(* a pure change of program counter that keeps handles and waits *)
Lemma pc_change_inv s a p np :
  Inv s -> aget a (s_ops s) = Some p ->
  (forall k, pc_handles p k = np_handles np k /\ pc_waits p k = np_waits np k) ->
  Inv (upd_ops s a np).
Proof.
  intros HI Ha H. pose proof HI as [nde ndg ndo hgid hk].
  constructor.
  - rewrite upd_ents; auto.
  - rewrite upd_guards; auto.
  - apply NoDup_upd; auto.
  - rewrite upd_guards, upd_gid; auto.
  - intros k. apply (KInv_same s); auto. eapply same_at_upd; eauto; apply H.
Qed.

(* a new agent that holds nothing *)
Lemma start_inv s a p' :
  Inv s -> aget a (s_ops s) = None -> (forall k, pc_handles p' k = 0 /\ pc_waits p' k = false) ->
  Inv (set_pc s a p').
Proof.
  intros HI Ha H. pose proof HI as [nde ndg ndo hgid hk].
  constructor; cbn; auto.
  - apply NoDup_aset; auto.
  - intros k. apply (KInv_same s); auto. apply same_at_start; auto; apply H.
Qed.

Lemma agent_not_waiting s a p k : aget a (s_ops s) = Some p -> pc_waits p k = false -> ~ waits_on s a k.
Proof. intros Ha Hw (p' & Ha' & Hw'). congruence. Qed.

Lemma agent_waiting s a p k : aget a (s_ops s) = Some p -> pc_waits p k = true -> waits_on s a k.
Proof. intros Ha Hw. exists p. auto. Qed.

(* ------------------------------------------------------------------ *)
(* B. lookup of an existing entry: the agent gains a handle *)

Lemma gain_core s s2 a p np k e ents0 :
  Inv s -> aget a (s_ops s) = Some p -> aget k (s_ents s) = Some e ->
  pc_handles p k = 0 -> np_handles np k = 1 -> pc_waits p k = false -> np_waits np k = false ->
  (forall k', k' <> k -> pc_handles p k' = np_handles np k' /\ pc_waits p k' = np_waits np k') ->
  NoDup (akeys ents0) -> (forall k', aget k' ents0 = aget k' (s_ents s)) ->
  s_ents s2 = aset k (set_repl e (S (e_repl e))) ents0 ->
  s_guards s2 = s_guards s -> s_ops s2 = s_ops s -> s_gid s2 = s_gid s ->
  Inv (upd_ops s2 a np).
Proof.
  intros HI Ha He Hp Hnp Hpw Hnw Hoth N0 H0 E1 E2 E3 E4.
  pose proof HI as [nde ndg ndo hgid hk]. pose proof (hk k) as [kmx kg kw kr k2 kp].
  eapply (local_step s s2 a p np k); eauto.
  - rewrite E1. apply NoDup_aset; auto.
  - rewrite E2; auto.
  - rewrite E2, E4; auto.
  - intros k' Hne. rewrite E1, E2. unfold guard_on. rewrite E2. rewrite aget_aset_neq, H0 by auto. tauto.
  - assert (Hge : aget k (s_ents (upd_ops s2 a np)) = Some (set_repl e (S (e_repl e))))
      by (rewrite upd_ents, E1; apply aget_aset_eq).
    pose proof (lf_handles s s2 a p np HI Ha E3 k) as Hh. rewrite E2 in Hh. fold (handles s k) in Hh.
    constructor.
    + intros e0. rewrite Hge. intros H; inv H. apply (kmx e He).
    + intros g. rewrite lf_guard. unfold guard_on. rewrite E2. fold (guard_on s g k). rewrite kg, Hge, He.
      split; intros (e0 & H1 & H2); inv H1; eauto.
    + intros a'. rewrite (lf_waits s s2 a np E3), Hge. split.
      * intros [[_ H]|[_ H]]; [congruence|]. apply kw in H as (e0 & H1 & H2). rewrite He in H1. inv H1. eauto.
      * intros (e0 & H1 & H2). inv H1. cbn in H2. right.
        assert (W : waits_on s a' k) by (apply kw; eauto). split; auto.
        intros ->. eapply agent_not_waiting; eauto.
    + intros e0. rewrite Hge. intros H; inv H. cbn. rewrite (kr e He). lia.
    + intros e0. rewrite Hge. intros H; inv H. cbn. lia.
    + intros _. rewrite upd_ents, E1. apply akeys_aset_In. auto.
Qed.

(* C. lookup of an absent key: insert a pre-locked placeholder *)

Lemma absent_no_handles s k : Inv s -> aget k (s_ents s) = None -> handles s k = 0.
Proof.
  intros HI H. destruct (Nat.eq_dec (handles s k) 0); auto.
  exfalso. apply aget_None_keys in H. apply H. apply (ki_p _ _ (inv_k _ HI k)). lia.
Qed.

Lemma insert_core s s2 a p k :
  Inv s -> aget a (s_ops s) = Some p -> aget k (s_ents s) = None ->
  (forall k', pc_handles p k' = 0 /\ pc_waits p k' = false) ->
  s_ents s2 = aset k (mkE None (Some (OwnG (s_gid s))) [] 1) (s_ents s) ->
  s_guards s2 = (s_gid s, k) :: s_guards s -> s_ops s2 = s_ops s -> s_gid s2 = S (s_gid s) ->
  Inv (upd_ops s2 a None).
Proof.
  intros HI Ha He Hp E1 E2 E3 E4.
  pose proof (Inv_fresh_gid s HI) as Hfresh.
  pose proof (absent_no_handles s k HI He) as Hz.
  pose proof HI as [nde ndg ndo hgid hk]. pose proof (hk k) as [kmx kg kw kr k2 kp].
  set (g := s_gid s) in *.
  assert (Hg1 : forall g' k', guard_on s2 g' k' <-> (g' = g /\ k' = k) \/ (g' <> g /\ guard_on s g' k')).
  { intros g' k'. unfold guard_on. rewrite E2. cbn. destruct (Nat.eqb_spec g' g).
    - split; [intros H; inv H; auto|intros [[_ ->]|[H _]]; [auto|congruence]].
    - split; [auto|intros [[H _]|[_ H]]; [congruence|auto]]. }
  eapply (local_step s s2 a p None k); eauto.
  - rewrite E1. apply NoDup_aset; auto.
  - rewrite E2. cbn. constructor; auto.
  - rewrite E2, E4. cbn. intros g' [<-|H]; [lia|]. apply hgid in H. lia.
  - intros k' Hne. rewrite E1. rewrite aget_aset_neq by auto. split; auto. split.
    + intros g'. rewrite Hg1. split; [intros [[_ H]|[_ H]]; [congruence|auto]|].
      intros H. right. split; auto. intros ->. apply Hfresh. eapply aget_Some_keys; eauto.
    + rewrite E2, gcount_cons. destruct (Nat.eqb_spec k k'); [congruence|auto].
  - assert (Hge : aget k (s_ents (upd_ops s2 a None)) = Some (mkE None (Some (OwnG g)) [] 1))
      by (rewrite upd_ents, E1; apply aget_aset_eq).
    pose proof (lf_handles s s2 a p None HI Ha E3 k) as Hh.
    rewrite E2, gcount_cons, Nat.eqb_refl in Hh. cbn [np_handles] in Hh.
    destruct (Hp k) as [Hp1 Hp2]. unfold handles in Hz.
    constructor.
    + intros e0. rewrite Hge. intros H; inv H. repeat split; cbn; auto; try constructor; try discriminate.
    + intros g'. rewrite lf_guard, Hg1, Hge. split.
      * intros [[-> _]|[_ H]]; [eauto|]. apply kg in H as (e0 & H1 & _). congruence.
      * intros (e0 & H1 & H2). inv H1. cbn in H2. inv H2. auto.
    + intros a'. rewrite (lf_waits s s2 a None E3), Hge. split.
      * intros [[_ H]|[_ H]]; [discriminate|]. apply kw in H as (e0 & H1 & _). congruence.
      * intros (e0 & H1 & [H2|H2]); inv H1; cbn in H2; [destruct H2|discriminate].
    + intros e0. rewrite Hge. intros H; inv H. cbn [e_repl]. lia.
    + intros e0. rewrite Hge. intros H; inv H. cbn [e_repl]. lia.
    + intros _. rewrite upd_ents, E1. apply akeys_aset_In. auto.
Qed.

(* D. first poll of a wait on a held mutex: enqueue *)

Lemma enqueue_core s s2 a p np k e :
  Inv s -> aget a (s_ops s) = Some p -> aget k (s_ents s) = Some e ->
  e_owner e <> None ->
  pc_handles p k = 1 -> np_handles np k = 1 -> pc_waits p k = false -> np_waits np k = true ->
  (forall k', k' <> k -> pc_handles p k' = np_handles np k' /\ pc_waits p k' = np_waits np k') ->
  s_ents s2 = aset k (set_queue e (e_queue e ++ [a])) (s_ents s) ->
  s_guards s2 = s_guards s -> s_ops s2 = s_ops s -> s_gid s2 = s_gid s ->
  Inv (upd_ops s2 a np).
Proof.
  intros HI Ha He Ho Hp Hnp Hpw Hnw Hoth E1 E2 E3 E4.
  pose proof HI as [nde ndg ndo hgid hk]. pose proof (hk k) as [kmx kg kw kr k2 kp].
  pose proof (agent_not_waiting s a p k Ha Hpw) as Hnwait.
  eapply (local_step s s2 a p np k); eauto.
  - rewrite E1. apply NoDup_aset; auto.
  - rewrite E2; auto.
  - rewrite E2, E4; auto.
  - intros k' Hne. rewrite E1, E2. unfold guard_on. rewrite E2. rewrite aget_aset_neq by auto. tauto.
  - set (e' := set_queue e (e_queue e ++ [a])).
    assert (Hge : aget k (s_ents (upd_ops s2 a np)) = Some e')
      by (rewrite upd_ents, E1; apply aget_aset_eq).
    pose proof (lf_handles s s2 a p np HI Ha E3 k) as Hh. rewrite E2 in Hh. fold (handles s k) in Hh.
    specialize (kmx e He) as (m1 & m2 & m3).
    assert (Hna : ~ In a (e_queue e)) by (intros H; apply Hnwait; apply kw; eauto).
    constructor.
    + intros e0. rewrite Hge. intros H; inv H. repeat split; cbn.
      * intros H; congruence.
      * apply NoDup_app_snoc; auto.
      * intros a' H. rewrite in_app_iff. cbn. intros [H1|[H1|[]]].
        -- apply (m3 a'); auto.
        -- subst. apply Hnwait. apply kw. eauto.
    + intros g. rewrite lf_guard. unfold guard_on. rewrite E2. fold (guard_on s g k). rewrite kg, Hge, He.
      split; intros (e0 & H1 & H2); inv H1; eauto.
    + intros a'. rewrite (lf_waits s s2 a np E3), Hge. split.
      * intros [[-> _]|[_ H]].
        -- exists e'. split; auto. left. cbn. rewrite in_app_iff. cbn. auto.
        -- apply kw in H as (e0 & H1 & H2). rewrite He in H1. inv H1. exists e'. split; auto.
           cbn. rewrite in_app_iff. tauto.
      * intros (e0 & H1 & H2). inv H1. cbn in H2. rewrite in_app_iff in H2. cbn in H2.
        destruct (Nat.eq_dec a' a); [left; auto|right; split; auto].
        apply kw. exists e. split; auto. intuition congruence.
    + intros e0. rewrite Hge. intros H; inv H. cbn. rewrite (kr e He). lia.
    + intros e0. rewrite Hge. intros H; inv H. cbn. auto.
    + intros _. rewrite upd_ents, E1. apply akeys_aset_In. auto.
Qed.

(* K/L. changing only the value stored in an entry *)
Lemma set_val_inv s k e v :
  Inv s -> aget k (s_ents s) = Some e -> (v = None -> 0 < e_repl e) ->
  Inv (with_ents s (aset k (set_val e v) (s_ents s))).
Proof.
  intros HI He Hv. pose proof HI as [nde ndg ndo hgid hk]. pose proof (hk k) as [kmx kg kw kr k2 kp].
  apply (local_step0 s _ k); cbn; auto.
  - apply NoDup_aset; auto.
  - intros k' Hne. rewrite aget_aset_neq by auto. unfold guard_on. cbn. tauto.
  - constructor; cbn; unfold guard_on, waits_on, handles; cbn; rewrite ?aget_aset_eq.
    + intros e0 H; inv H. apply (kmx e He).
    + intros g. fold (guard_on s g k). rewrite kg, He. split; intros (e0 & H1 & H2); inv H1; eauto.
    + intros a. fold (waits_on s a k). rewrite kw, He. split; intros (e0 & H1 & H2); inv H1; eauto.
    + intros e0 H; inv H. cbn. apply (kr e He).
    + intros e0 H; inv H. cbn. auto.
    + intros _. apply akeys_aset_In. auto.
Qed.

(* F. cleanup after a failed try / drop of a replica under the global lock *)
Lemma cleanup_core s s2 a p np k ents' :
  Inv s -> aget a (s_ops s) = Some p ->
  pc_handles p k = 1 -> pc_waits p k = false -> np_handles np k = 0 -> np_waits np k = false ->
  (forall k', k' <> k -> pc_handles p k' = np_handles np k' /\ pc_waits p k' = np_waits np k') ->
  cleanup_ents (s_ents s) k = inl (Some ents') ->
  s_ents s2 = ents' -> s_guards s2 = s_guards s -> s_ops s2 = s_ops s -> s_gid s2 = s_gid s ->
  Inv (upd_ops s2 a np).
Proof.
  intros HI Ha Hp Hpw Hnp Hnw Hoth Hc E1 E2 E3 E4. subst ents'.
  pose proof HI as [nde ndg ndo hgid hk]. pose proof (hk k) as [kmx kg kw kr k2 kp].
  pose proof (agent_not_waiting s a p k Ha Hpw) as Hnwait.
  unfold cleanup_ents in Hc. destruct (aget k (s_ents s)) as [e|] eqn:He; [|discriminate].
  pose proof (lf_handles s s2 a p np HI Ha E3 k) as Hh. rewrite E2 in Hh. fold (handles s k) in Hh.
  pose proof (kr e eq_refl) as Hr. specialize (kmx e eq_refl) as (m1 & m2 & m3).
  assert (Hw' : forall a', waits_on (upd_ops s2 a np) a' k <-> waits_on s a' k).
  { intros a'. rewrite (lf_waits s s2 a np E3). split; [intros [[_ H]|[_ H]]; [congruence|auto]|].
    intros H. right. split; auto. intros ->. auto. }
  assert (Hg' : forall g, guard_on (upd_ops s2 a np) g k <-> guard_on s g k).
  { intros g. rewrite lf_guard. unfold guard_on. rewrite E2. tauto. }
  (* the two shapes of the result: entry kept with one replica less, or deleted *)
  assert (Kept : forall r, s_ents s2 = aset k (set_repl e r) (s_ents s) -> r + 1 = e_repl e ->
                 (e_val e = None -> 0 < r) -> Inv (upd_ops s2 a np)).
  { intros r E1 Hr1 Hr2. eapply (local_step s s2 a p np k); eauto.
    - rewrite E1. apply NoDup_aset; auto.
    - rewrite E2; auto.
    - rewrite E2, E4; auto.
    - intros k' Hne. rewrite E1, E2. unfold guard_on. rewrite E2. rewrite aget_aset_neq by auto. tauto.
    - assert (Hge : aget k (s_ents (upd_ops s2 a np)) = Some (set_repl e r))
        by (rewrite upd_ents, E1; apply aget_aset_eq).
      constructor.
      + intros e0. rewrite Hge. intros H; inv H. repeat split; auto.
      + intros g. rewrite Hg', kg, Hge. split; intros (e0 & H1 & H2); inv H1; eauto.
      + intros a'. rewrite Hw', kw, Hge. split; intros (e0 & H1 & H2); inv H1; eauto.
      + intros e0. rewrite Hge. intros H; inv H. cbn [e_repl set_repl]. lia.
      + intros e0. rewrite Hge. intros H; inv H. cbn. auto.
      + intros _. rewrite upd_ents, E1. apply akeys_aset_In. auto. }
  destruct (Nat.eqb_spec (e_repl e) 1) as [R1|R1].
  - destruct (e_owner e) as [o|] eqn:Eo; [discriminate|].
    destruct (e_val e) as [v|] eqn:Ev.
    + injection Hc as E1. apply (Kept 0); auto; try lia; try discriminate.
    + injection Hc as E1. symmetry in E1. eapply (local_step s s2 a p np k); eauto.
      * rewrite E1. apply NoDup_adel; auto.
      * rewrite E2; auto.
      * rewrite E2, E4; auto.
      * intros k' Hne. rewrite E1, E2. unfold guard_on. rewrite E2. rewrite aget_adel_neq by auto. tauto.
      * assert (Hge : aget k (s_ents (upd_ops s2 a np)) = None)
          by (rewrite upd_ents, E1; apply aget_adel_eq).
        constructor.
        -- intros e0. rewrite Hge. discriminate.
        -- intros g. rewrite Hg', kg, Hge. split; [|intros (? & ? & _); discriminate].
           intros (e0 & H1 & H2). inv H1. congruence.
        -- intros a'. rewrite Hw', kw, Hge. split; [|intros (? & ? & _); discriminate].
           intros (e0 & H1 & H2). inv H1. rewrite (m1 eq_refl) in H2. destruct H2 as [[]|H2]; congruence.
        -- intros e0. rewrite Hge. discriminate.
        -- intros e0. rewrite Hge. discriminate.
        -- lia.
  - injection Hc as E1. pose proof (agent_handles s a p k Ha). unfold handles in Hr.
    apply (Kept (e_repl e - 1)); auto; lia.
Qed.

(* G. cancellation of a pending wait under the global lock *)
Lemma cancel_core c s s2 a p np k ents' :
  Inv s -> aget a (s_ops s) = Some p ->
  pc_handles p k = 1 -> np_handles np k = 0 -> np_waits np k = false ->
  (forall k', k' <> k -> pc_handles p k' = np_handles np k' /\ pc_waits p k' = np_waits np k') ->
  cancel_ents c (s_ents s) a k = inl (Some ents') ->
  s_ents s2 = ents' -> s_guards s2 = s_guards s -> s_ops s2 = s_ops s -> s_gid s2 = s_gid s ->
  Inv (upd_ops s2 a np).
Proof.
  intros HI Ha Hp Hnp Hnw Hoth Hc E1 E2 E3 E4. subst ents'.
  pose proof HI as [nde ndg ndo hgid hk]. pose proof (hk k) as [kmx kg kw kr k2 kp].
  unfold cancel_ents in Hc. destruct (aget k (s_ents s)) as [e|] eqn:He; [|discriminate].
  pose proof (lf_handles s s2 a p np HI Ha E3 k) as Hh. rewrite E2 in Hh. fold (handles s k) in Hh.
  pose proof (kr e eq_refl) as Hr. pose proof (kmx e eq_refl) as Hwf.
  pose proof (agent_handles s a p k Ha) as Hge1.
  assert (Hd : handles s k = gcount (s_guards s) k + ops_handles (s_ops s) k) by reflexivity.
  set (e1 := set_repl (mx_cancel e a) (e_repl e - 1)) in *.
  set (ents1 := aset k e1 (s_ents s)) in *.
  assert (G1 : forall k', aget k' ents1 = aget k' (aset k e1 (s_ents s))).
  { intros k'. reflexivity. }
  assert (N1 : NoDup (akeys ents1)).
  { unfold ents1. apply NoDup_aset; auto. }
  assert (Hg' : forall g, guard_on (upd_ops s2 a np) g k <-> guard_on s g k).
  { intros g. rewrite lf_guard. unfold guard_on. rewrite E2. tauto. }
  assert (Hw' : forall a', waits_on (upd_ops s2 a np) a' k <->
                           (In a' (e_queue e1) \/ e_owner e1 = Some (OwnW a'))).
  { intros a'. rewrite (lf_waits s s2 a np E3). unfold e1. cbn [e_queue e_owner set_repl].
    rewrite (mx_cancel_waiters e a a' Hwf). split.
    - intros [[_ H]|[Hn H]]; [congruence|]. split; auto. apply kw in H as (e0 & H1 & H2). inv H1. auto.
    - intros [Hn H]. right. split; auto. apply kw. eauto. }
  assert (Kept : s_ents s2 = ents1 -> (e_val e = None -> 0 < e_repl e - 1) -> Inv (upd_ops s2 a np)).
  { intros E1 Hr2. eapply (local_step s s2 a p np k); eauto.
    - rewrite E1; auto.
    - rewrite E2; auto.
    - rewrite E2, E4; auto.
    - intros k' Hne. rewrite E1, E2, G1. unfold guard_on. rewrite E2. rewrite aget_aset_neq by auto. tauto.
    - assert (Hge : aget k (s_ents (upd_ops s2 a np)) = Some e1)
        by (rewrite upd_ents, E1, G1; apply aget_aset_eq).
      constructor.
      + intros e0. rewrite Hge. intros H; inv H. apply (mx_cancel_wf e a Hwf).
      + intros g. rewrite Hg', kg, Hge. split.
        * intros (e0 & H1 & H2). inv H1. exists e1. split; auto. unfold e1; cbn. apply mx_cancel_guard; auto.
        * intros (e0 & H1 & H2). inv H1. exists e. split; auto. unfold e1 in H2; cbn in H2.
          apply (mx_cancel_guard e a); auto.
      + intros a'. rewrite Hw', Hge. split; [eauto|]. intros (e0 & H1 & H2). inv H1. auto.
      + intros e0. rewrite Hge. intros H; inv H. cbn [e_repl set_repl e1]. lia.
      + intros e0. rewrite Hge. intros H; inv H. cbn [e_repl e_val set_repl e1]. rewrite mx_cancel_val. auto.
      + intros _. rewrite upd_ents, E1. apply keys_aget_iff. rewrite G1, aget_aset_eq. eauto. }
  destruct (Nat.eqb_spec (e_repl e1) 0) as [R1|R1].
  - destruct (e_owner e1) as [o|] eqn:Eo; [discriminate|].
    destruct (e_val e1) as [v|] eqn:Ev.
    + injection Hc as E1. symmetry in E1. apply Kept; auto.
      unfold e1 in Ev. cbn in Ev. rewrite mx_cancel_val in Ev. congruence.
    + injection Hc as E1. symmetry in E1. eapply (local_step s s2 a p np k); eauto.
      * rewrite E1. apply NoDup_adel; auto.
      * rewrite E2; auto.
      * rewrite E2, E4; auto.
      * intros k' Hne. rewrite E1, E2. unfold guard_on. rewrite E2.
        rewrite aget_adel_neq, G1, aget_aset_neq by auto. tauto.
      * assert (Hge : aget k (s_ents (upd_ops s2 a np)) = None)
          by (rewrite upd_ents, E1; apply aget_adel_eq).
        constructor.
        -- intros e0. rewrite Hge. discriminate.
        -- intros g. rewrite Hg', kg, Hge. split; [|intros (? & ? & _); discriminate].
           intros (e0 & H1 & H2). inv H1. apply (mx_cancel_guard e0 a) in H2.
           unfold e1 in Eo. cbn in Eo. congruence.
        -- intros a'. rewrite Hw', Hge. split; [|intros (? & ? & _); discriminate].
           unfold e1 in *. cbn [e_queue e_owner set_repl] in *.
           rewrite (mx_cancel_free e a Hwf Eo). intros [[]|H]; congruence.
        -- intros e0. rewrite Hge. discriminate.
        -- intros e0. rewrite Hge. discriminate.
        -- unfold e1 in R1. cbn in R1. lia.
  - injection Hc as E1. symmetry in E1. apply Kept; auto.
    unfold e1 in R1. cbn in R1. lia.
Qed.

(* H. the critical section of _unlock *)
Lemma unlock_cs_inv c s g s1 :
  Inv s -> unlock_cs c s g = inl (Some s1) -> Inv s1.
Proof.
  intros HI Hu. pose proof HI as [nde ndg ndo hgid hk].
  unfold unlock_cs in Hu. destruct (aget g (s_guards s)) as [k|] eqn:Hg; [|discriminate].
  pose proof (hk k) as [kmx kg kw kr k2 kp].
  destruct (aget k (s_ents s)) as [e|] eqn:He; [|discriminate].
  assert (Ho : e_owner e = Some (OwnG g)).
  { destruct (proj1 (kg g) Hg) as (e0 & H1 & H2). inv H1. auto. }
  pose proof (kmx e eq_refl) as Hwf. pose proof (kr e eq_refl) as Hr.
  set (e1 := set_repl (mx_release e) (e_repl e - 1)) in *.
  set (guards := adel g (s_guards s)) in *.
  pose proof (gcount_adel (s_guards s) g k ndg) as Hgc. rewrite Hg, Nat.eqb_refl in Hgc. fold guards in Hgc.
  assert (Hd : handles s k = gcount (s_guards s) k + ops_handles (s_ops s) k) by reflexivity.
  assert (Hgo : forall s2, s_guards s2 = guards -> forall g' k', k' <> k -> guard_on s2 g' k' <-> guard_on s g' k').
  { intros s2 E g' k' Hne. unfold guard_on. rewrite E. unfold guards. rewrite aget_adel.
    destruct (Nat.eqb_spec g' g); [|tauto]. subst. split; [discriminate|congruence]. }
  assert (Hgk : forall s2, s_guards s2 = guards -> forall g', ~ guard_on s2 g' k).
  { intros s2 E g'. unfold guard_on. rewrite E. unfold guards. rewrite aget_adel.
    destruct (Nat.eqb_spec g' g); [discriminate|]. intros H. apply kg in H as (e0 & H1 & H2). inv H1. congruence. }
  assert (Hgc' : forall k', k' <> k -> gcount guards k' = gcount (s_guards s) k').
  { intros k' Hne. pose proof (gcount_adel (s_guards s) g k' ndg) as H. rewrite Hg in H. fold guards in H.
    destruct (Nat.eqb_spec k k'); [congruence|lia]. }
  assert (Hwq : forall a', waits_on s a' k <-> (In a' (e_queue e1) \/ e_owner e1 = Some (OwnW a'))).
  { intros a'. unfold e1. cbn [e_queue e_owner set_repl]. rewrite mx_release_waiters, kw. split.
    - intros (e0 & H1 & [H2|H2]); inv H1; [auto|congruence].
    - intros H. eauto. }
  assert (Ndg : NoDup (akeys guards)) by (apply NoDup_adel; auto).
  assert (Hgid : forall g', In g' (akeys guards) -> g' < s_gid s).
  { intros g' H. apply hgid. unfold guards in H. rewrite akeys_adel in H. apply remove_nat_In in H. tauto. }
  (* entry kept *)
  assert (Kept : forall ents1, (forall k', aget k' ents1 = aget k' (aset k e1 (s_ents s))) -> NoDup (akeys ents1) ->
                 (e_val e = None -> 0 < e_repl e - 1) ->
                 Inv (with_guards (with_ents s ents1) guards)).
  { intros ents1 G1 N1 Hr2. apply (local_step0 s _ k); cbn [s_ops s_ents s_guards s_gid with_guards with_ents]; auto.
    - intros k' Hne. rewrite G1, aget_aset_neq by auto.
      split; [reflexivity|split; [intros g'; apply Hgo; auto|apply Hgc'; auto]].
    - assert (Hge : aget k ents1 = Some e1) by (rewrite G1; apply aget_aset_eq).
      constructor; cbn [s_ops s_ents s_guards s_gid with_guards with_ents]; unfold handles, waits_on;
        cbn [s_ops s_ents s_guards s_gid with_guards with_ents]; rewrite ?Hge.
      + intros e0 H; inv H. apply mx_release_wf with (g := g); auto.
      + intros g'. split; [intros H; exfalso; eapply (Hgk (with_guards (with_ents s ents1) guards)); eauto|].
        intros (e0 & H1 & H2). inv H1. unfold e1 in H2. cbn in H2. exfalso. eapply mx_release_not_guard; eauto.
      + intros a'. fold (waits_on s a' k). rewrite Hwq. split; [eauto|]. intros (e0 & H1 & H2). inv H1. auto.
      + intros e0 H; inv H. cbn [e_repl set_repl e1]. lia.
      + intros e0 H; inv H. cbn [e_repl e_val set_repl e1]. rewrite mx_release_val. auto.
      + intros _. apply keys_aget_iff. eauto. }
  destruct (e_val e) as [v|] eqn:Ev.
  - inv Hu. apply Kept; auto; [apply NoDup_aset; auto|discriminate].
  - assert (G1 : forall k', aget k' (promote_if_lru c k (aset k e1 (s_ents s))) = aget k' (aset k e1 (s_ents s))).
    { intros k'. unfold promote_if_lru. destruct (c_lru c); auto. apply aget_apromote. }
    assert (N1 : NoDup (akeys (promote_if_lru c k (aset k e1 (s_ents s))))).
    { unfold promote_if_lru. destruct (c_lru c); [apply NoDup_apromote|]; apply NoDup_aset; auto. }
    destruct (Nat.eqb_spec (e_repl e1) 0) as [R1|R1].
    + inv Hu. unfold e1 in R1. cbn in R1.
      apply (local_step0 s _ k); cbn [s_ops s_ents s_guards s_gid with_guards with_ents]; auto.
      * apply NoDup_adel; auto.
      * intros k' Hne. rewrite aget_adel_neq, G1, aget_aset_neq by auto.
        split; [reflexivity|split; [intros g'; apply Hgo; auto|apply Hgc'; auto]].
      * constructor; cbn [s_ops s_ents s_guards s_gid with_guards with_ents]; unfold handles, waits_on;
          cbn [s_ops s_ents s_guards s_gid with_guards with_ents]; rewrite ?aget_adel_eq.
        -- discriminate.
        -- intros g'. split; [|intros (? & ? & _); discriminate].
           intros H. exfalso. eapply (Hgk (with_guards (with_ents s (s_ents s)) guards)); eauto.
        -- intros a'. fold (waits_on s a' k). split; [|intros (? & ? & _); discriminate].
           intros H. apply waits_on_handles in H. lia.
        -- discriminate.
        -- discriminate.
        -- lia.
    + inv Hu. apply Kept; auto. unfold e1 in R1. cbn in R1. lia.
Qed.

(* I. locking an unlocked entry with a fresh guard inside a critical section (eviction, expiry scan) *)
Lemma lock_one_inv s k e :
  Inv s -> aget k (s_ents s) = Some e -> e_owner e = None ->
  Inv (with_ents (fst (new_guard s k))
         (aset k (set_repl (set_owner e (Some (OwnG (s_gid s)))) (S (e_repl e))) (s_ents s))).
Proof.
  intros HI He Ho. pose proof (Inv_fresh_gid s HI) as Hfresh.
  pose proof HI as [nde ndg ndo hgid hk]. pose proof (hk k) as [kmx kg kw kr k2 kp].
  set (g := s_gid s) in *.
  set (e' := set_repl (set_owner e (Some (OwnG g))) (S (e_repl e))).
  specialize (kmx e He) as (m1 & m2 & m3).
  apply (local_step0 s _ k); cbn [new_guard fst s_ops s_ents s_guards s_gid with_guards with_ents with_gid]; auto.
  - apply NoDup_aset; auto.
  - cbn. constructor; auto.
  - cbn. intros g' [<-|H]; [lia|]. apply hgid in H. fold g. lia.
  - intros k' Hne. rewrite aget_aset_neq by auto. split; auto. split.
    + intros g'. unfold guard_on. cbn. fold g. destruct (Nat.eqb_spec g' g); [|tauto].
      subst. split; [intros H; inv H; congruence|]. intros H. apply aget_Some_keys in H. tauto.
    + rewrite gcount_cons. destruct (Nat.eqb_spec k k'); [congruence|auto].
  - constructor; cbn [s_ops s_ents s_guards s_gid with_guards with_ents with_gid]; unfold handles, waits_on, guard_on;
      cbn [s_ops s_ents s_guards s_gid with_guards with_ents with_gid]; rewrite ?aget_aset_eq.
    + intros e0 H; inv H. repeat split; cbn; auto; discriminate.
    + intros g'. cbn. fold g. destruct (Nat.eqb_spec g' g).
      * subst. split; eauto.
      * fold (guard_on s g' k). rewrite kg. split.
        -- intros (e0 & H1 & H2). rewrite He in H1. inv H1. congruence.
        -- intros (e0 & H1 & H2). inv H1. cbn in H2. inv H2. congruence.
    + intros a'. fold (waits_on s a' k). rewrite kw. split.
      * intros (e0 & H1 & H2). rewrite He in H1. inv H1. exfalso. rewrite (m1 Ho) in H2. destruct H2 as [[]|H2]; congruence.
      * intros (e0 & H1 & H2). inv H1. cbn in H2. exists e. split; auto. intuition discriminate.
    + intros e0 H; inv H. cbn [e_repl set_repl e']. rewrite gcount_cons, Nat.eqb_refl.
      rewrite (kr e He). unfold handles. lia.
    + intros e0 H; inv H. cbn. lia.
    + intros _. apply akeys_aset_In. auto.
Qed.

(* ------------------------------------------------------------------ *)
(* assembling: each piece of [step] preserves Inv *)

Ltac solve_pc :=
  cbn [pc_handles pc_waits np_handles np_waits];
  solve
  [ rewrite ?Nat.eqb_refl; reflexivity
  | let k' := fresh "k'" in let Hne := fresh "Hne" in
    intros k' Hne; cbn [pc_handles pc_waits np_handles np_waits];
    repeat match goal with |- context [Nat.eqb ?x ?y] => destruct (Nat.eqb_spec x y); try congruence end; auto
  | let k' := fresh "k'" in
    intros k'; cbn [pc_handles pc_waits np_handles np_waits]; auto ].

Lemma cs_ok s r s' o : cs s r = ROk s' o -> r = ROk s' o.
Proof.
  unfold cs, check_inv2_after. destruct (inv2_ok (s_ents s)); [|discriminate].
  destruct r as [s1 o1| |]; try discriminate. destruct (inv2_ok (s_ents s1)); [auto|discriminate].
Qed.

Lemma do_key_try_inv c s a sh k s' o :
  Inv s -> aget a (s_ops s) = Some (PKeyTry sh k) -> do_key_try c s a sh k = ROk s' o -> Inv s'.
Proof.
  intros HI Ha H. unfold do_key_try in H.
  destruct (aget k (s_ents s)) as [e|] eqn:He; [|discriminate].
  destruct (e_owner e) eqn:Eo.
  - inv H. apply (pc_change_inv s a (PKeyTry sh k) (Some (PCleanup sh k))); auto; solve_pc.
  - cbn [new_guard] in H. inv H.
    apply (acquire_core s _ a (PKeyTry sh k) None k e); auto; try solve_pc.
Qed.

Lemma do_key_wait_inv c s a sh k s' o :
  Inv s -> aget a (s_ops s) = Some (PKeyWait sh k) -> do_key_wait c s a sh k = ROk s' o -> Inv s'.
Proof.
  intros HI Ha H. unfold do_key_wait in H.
  destruct (aget k (s_ents s)) as [e|] eqn:He; [|discriminate].
  destruct (e_owner e) eqn:Eo.
  - inv H. apply (enqueue_core s _ a (PKeyWait sh k) (Some (PQueued sh k)) k e); auto; try solve_pc. congruence.
  - cbn [new_guard] in H. inv H.
    apply (acquire_core s _ a (PKeyWait sh k) None k e); auto; try solve_pc.
Qed.

Lemma do_queued_inv c s a sh k s' o :
  Inv s -> aget a (s_ops s) = Some (PQueued sh k) -> do_queued c s a sh k = ROk s' o -> Inv s'.
Proof.
  intros HI Ha H. unfold do_queued in H.
  destruct (aget k (s_ents s)) as [e|] eqn:He; [|discriminate].
  destruct (own_is_waiter (e_owner e) a) eqn:Eo; [|discriminate].
  cbn [new_guard] in H. inv H.
  apply (acquire_core s _ a (PQueued sh k) None k e); auto; try solve_pc.
  right. split; [|solve_pc]. unfold own_is_waiter in Eo.
  destruct (e_owner e) as [[|a']|]; try discriminate. apply Nat.eqb_eq in Eo. congruence.
Qed.

Lemma promote_if_lru_get c k k' ents : aget k' (promote_if_lru c k ents) = aget k' ents.
Proof. unfold promote_if_lru. destruct (c_lru c); auto. apply aget_apromote. Qed.

Lemma promote_if_lru_nodup c k (ents : list (key * entry)) : NoDup (akeys ents) -> NoDup (akeys (promote_if_lru c k ents)).
Proof. unfold promote_if_lru. destruct (c_lru c); auto. apply NoDup_apromote. Qed.

Lemma do_lookup_inv c s a sh k lim s' o :
  Inv s -> aget a (s_ops s) = Some (PEnter sh k lim) -> do_lookup c s a sh k = ROk s' o -> Inv s'.
Proof.
  intros HI Ha H. unfold do_lookup in H.
  destruct (aget k (s_ents s)) as [e|] eqn:He.
  - inv H.
    apply (gain_core s _ a (PEnter sh k lim) (Some (if sh_is_try sh then PKeyTry sh k else PKeyWait sh k)) k e
             (promote_if_lru c k (s_ents s))); auto;
      try (destruct (sh_is_try sh); solve_pc).
    + apply promote_if_lru_nodup. apply (inv_nd_e _ HI).
    + intros k'. apply promote_if_lru_get.
  - cbn [new_guard] in H. inv H.
    apply (insert_core s _ a (PEnter sh k lim) k); auto; solve_pc.
Qed.

Lemma do_cleanup_inv c s a sh k s' o :
  Inv s -> aget a (s_ops s) = Some (PCleanup sh k) -> do_cleanup c s a k = ROk s' o -> Inv s'.
Proof.
  intros HI Ha H. unfold do_cleanup in H.
  destruct (cleanup_ents (s_ents s) k) as [[ents|]|] eqn:Hc; try discriminate. inv H.
  apply (cleanup_core s _ a (PCleanup sh k) None k ents); auto; try solve_pc.
Qed.

Lemma do_pcancel_inv c s a k ents :
  Inv s -> aget a (s_ops s) = Some (PCancel k) -> cancel_ents c (s_ents s) a k = inl (Some ents) ->
  Inv (fin (with_ents s ents) a).
Proof.
  intros HI Ha Hc.
  apply (cancel_core c s _ a (PCancel k) None k ents); auto; try solve_pc.
Qed.

Lemma begin_unlock_inv c s g : Inv s -> Inv (begin_unlock c s g).
Proof.
  intros HI. unfold begin_unlock. destruct (c_lru c); auto.
  destruct (aget g (s_guards s)) as [k|]; auto.
  destruct (aget k (s_ents s)) as [e|] eqn:He; auto.
  destruct (e_val e) as [[v st]|] eqn:Ev; auto.
  apply set_val_inv; auto. discriminate.
Qed.

Lemma begin_unlock_ops c s g : s_ops (begin_unlock c s g) = s_ops s.
Proof.
  unfold begin_unlock. destruct (c_lru c); auto. destruct (aget g (s_guards s)) as [k|]; auto.
  destruct (aget k (s_ents s)) as [e|]; auto. destruct (e_val e) as [[v st]|]; auto.
Qed.

Lemma begin_unlock_guards c s g : s_guards (begin_unlock c s g) = s_guards s.
Proof.
  unfold begin_unlock. destruct (c_lru c); auto. destruct (aget g (s_guards s)) as [k|]; auto.
  destruct (aget k (s_ents s)) as [e|]; auto. destruct (e_val e) as [[v st]|]; auto.
Qed.

Lemma unlock_cs_ops c s g s1 : unlock_cs c s g = inl (Some s1) -> s_ops s1 = s_ops s.
Proof.
  unfold unlock_cs. destruct (aget g (s_guards s)) as [k|]; [|discriminate].
  destruct (aget k (s_ents s)) as [e|]; [|discriminate].
  destruct (e_val e); [intros H; inv H; auto|].
  destruct (Nat.eqb _ 0); intros H; inv H; auto.
Qed.

Lemma do_drops_inv c s a gs af s' o :
  Inv s -> aget a (s_ops s) = Some (PDrops gs af) -> do_drops c s a gs af = ROk s' o -> Inv s'.
Proof.
  intros HI Ha H. unfold do_drops in H. destruct gs as [|g rest]; [discriminate|].
  destruct (unlock_cs c s g) as [[s1|]|] eqn:Hu; try discriminate.
  pose proof (unlock_cs_inv c s g s1 HI Hu) as HI1.
  pose proof (unlock_cs_ops c s g s1 Hu) as Ho.
  destruct rest as [|g' rest'].
  - destruct af as [| | |sh k lim]; inv H.
    + apply (pc_change_inv s1 a (PDrops [g] ADoneUnit) None); auto; try congruence; solve_pc.
    + apply (pc_change_inv s1 a (PDrops [g] ADoneErr) None); auto; try congruence; solve_pc.
    + apply (pc_change_inv s1 a (PDrops [g] ADonePanicked) None); auto; try congruence; solve_pc.
    + apply (pc_change_inv s1 a (PDrops [g] (AReenter sh k lim)) (Some (PEnter sh k (Some lim)))); auto; try congruence; solve_pc.
  - inv H. apply (pc_change_inv (begin_unlock c s1 g') a (PDrops (g :: g' :: rest') af) (Some (PDrops (g' :: rest') af))).
    + apply begin_unlock_inv; auto.
    + rewrite begin_unlock_ops. congruence.
    + solve_pc.
Qed.

Lemma guard_repl_pos s g k e : Inv s -> aget g (s_guards s) = Some k -> aget k (s_ents s) = Some e -> 0 < e_repl e.
Proof.
  intros HI Hg He. rewrite (ki_r _ _ (inv_k _ HI k) e He). unfold handles.
  assert (0 < gcount (s_guards s) k); [|lia]. apply gcount_pos. exists g. apply aget_In; auto.
Qed.

Lemma do_guard_op_inv c s g op s' o : Inv s -> do_guard_op c s g op = ROk s' o -> Inv s'.
Proof.
  intros HI H. unfold do_guard_op in H. destruct (negb (guard_live s g)); [discriminate|].
  destruct (aget g (s_guards s)) as [k|] eqn:Hg; [|discriminate].
  destruct (aget k (s_ents s)) as [e|] eqn:He; [|discriminate].
  pose proof (guard_repl_pos s g k e HI Hg He) as Hpos.
  destruct op; try (destruct (e_val e) as [[v0 st]|] eqn:Ev); inv H; auto;
    apply set_val_inv; auto.
Qed.

Lemma do_start_inv c s a cl s' o : Inv s -> do_start c s a cl = ROk s' o -> Inv s'.
Proof.
  intros HI H. unfold do_start in H. destruct (amem a (s_ops s)) eqn:Hm; [discriminate|].
  assert (Ha : aget a (s_ops s) = None).
  { unfold amem in Hm. destruct (aget a (s_ops s)); [discriminate|auto]. }
  destruct cl.
  - destruct (lim_ok lim); inv H. apply start_inv; auto; try solve_pc.
  - destruct (guard_live s g); inv H. apply start_inv.
    + apply begin_unlock_inv; auto.
    + rewrite begin_unlock_ops; auto.
    + solve_pc.
  - destruct (c_lru c && Z.leb 0 d)%bool; [|discriminate]. destruct (cutoff_of (s_clock s) d); inv H; auto.
    apply start_inv; auto; try solve_pc.
  - inv H. apply start_inv; auto; try solve_pc.
  - inv H. apply start_inv; auto; try solve_pc.
  - inv H. apply start_inv; auto; try solve_pc.
Qed.

Lemma sub_handles_nil k : sub_handles [] k = 0. Proof. reflexivity. Qed.
Lemma sub_waits_nil k : sub_waits [] k = false. Proof. reflexivity. Qed.

Lemma do_cancel_inv c s a s' o : Inv s -> do_cancel c s a = ROk s' o -> Inv s'.
Proof.
  intros HI H. unfold do_cancel in H. destruct (aget a (s_ops s)) as [p|] eqn:Ha; [|discriminate].
  destruct p; try discriminate.
  - destruct (sh_is_async sh); inv H. apply (pc_change_inv s a (PInCb sh k lim offered) None); auto; try solve_pc.
  - destruct (sh_is_async sh); inv H. apply (pc_change_inv s a (PQueued sh k) (Some (PCancel k))); auto; try solve_pc.
  - destruct (existsb _ subs); [discriminate|]. destruct subs as [|x subs']; inv H.
    + apply (pc_change_inv s a (PStream []) None); auto; try solve_pc.
    + apply (pc_change_inv s a (PStream (x :: subs')) (Some (PStreamDrop (x :: subs')))); auto; try solve_pc.
Qed.

Lemma do_cbreturn_inv c s a r hold s' o : Inv s -> do_cbreturn c s a r hold = ROk s' o -> Inv s'.
Proof.
  intros HI H. unfold do_cbreturn in H. destruct (aget a (s_ops s)) as [p|] eqn:Ha; [|discriminate].
  destruct p; try discriminate.
  destruct hold.
  - destruct offered as [|g rest]; [discriminate|].
    destruct (all_live s (g :: rest) && nodup_nat (g :: rest))%bool; inv H.
    apply (pc_change_inv (begin_unlock c s g) a (PInCb sh k lim (g :: rest)) (Some (PDrops (g :: rest) _))).
    + apply begin_unlock_inv; auto.
    + rewrite begin_unlock_ops; auto.
    + solve_pc.
  - destruct r; inv H.
    + apply (pc_change_inv s a (PInCb sh k lim offered) (Some (PEnter sh k (Some lim)))); auto; try solve_pc.
    + apply (pc_change_inv s a (PInCb sh k lim offered) None); auto; try solve_pc.
    + apply (pc_change_inv s a (PInCb sh k lim offered) None); auto; try solve_pc.
Qed.

(* ------------------------------------------------------------------ *)
(* multi-key critical sections *)

Lemma iter_order_spec c s o order : NoDup (akeys (s_ents s)) -> iter_order c s o = Some order ->
  NoDup order /\ (forall k, In k order <-> In k (akeys (s_ents s))) /\ length order = length (s_ents s).
Proof.
  intros Hnd. unfold iter_order. destruct (c_lru c).
  - intros H; inv H. repeat split; auto; try tauto. unfold akeys. apply map_length.
  - destruct (is_perm_of o (akeys (s_ents s))) eqn:E; [|discriminate]. intros H; inv H.
    destruct (is_perm_of_spec _ _ Hnd E) as (H1 & H2 & H3). split; [auto|split; [apply H2|]].
    etransitivity; [exact H3|]. unfold akeys. apply map_length.
Qed.

Lemma lock_keys_inv ks : forall s,
  Inv s -> NoDup ks ->
  (forall k, In k ks -> exists e, aget k (s_ents s) = Some e /\ e_owner e = None) ->
  Inv (fst (lock_keys s ks)) /\ s_ops (fst (lock_keys s ks)) = s_ops s.
Proof.
  induction ks as [|k rest IH]; intros s HI Hnd Hall; cbn [lock_keys]; [auto|].
  destruct (Hall k (or_introl eq_refl)) as (e & He & Ho). rewrite He.
  cbn [new_guard].
  match goal with |- context [lock_keys ?x rest] => set (s2 := x) end.
  inversion Hnd as [|? ? Hnk Hnd']; subst.
  assert (HI2 : Inv s2) by (apply (lock_one_inv s k e HI He Ho)).
  assert (Hall2 : forall k', In k' rest -> exists e', aget k' (s_ents s2) = Some e' /\ e_owner e' = None).
  { intros k' Hin. destruct (Hall k' (or_intror Hin)) as (e' & He' & Ho'). exists e'. split; auto.
    unfold s2. cbn. rewrite aget_aset_neq; auto. intros ->. tauto. }
  destruct (IH s2 HI2 Hnd' Hall2) as [H1 H2].
  destruct (lock_keys s2 rest) as [s3 l] eqn:E3. cbn [fst] in *. split; auto.
Qed.

Lemma evict_scan_spec ents order : forall n ks,
  evict_scan ents order n = inl (Some ks) ->
  (forall k, In k ks -> In k order /\ exists e, aget k ents = Some e /\ e_owner e = None /\ e_val e <> None) /\
  (NoDup order -> NoDup ks) /\ length ks <= n.
Proof.
  induction order as [|k rest IH]; intros n ks H.
  - destruct n; cbn in H; inv H; (split; [intros k [] | split; [intros _; constructor | cbn; lia]]).
  - destruct n as [|n']; cbn [evict_scan] in H.
    + inv H. split; [intros k0 [] | split; [intros _; constructor | cbn; lia]].
    + destruct (aget k ents) as [e|] eqn:He; [|discriminate].
      assert (Skip : evict_scan ents rest (S n') = inl (Some ks) ->
        (forall k0, In k0 ks -> In k0 (k :: rest) /\ exists e0, aget k0 ents = Some e0 /\ e_owner e0 = None /\ e_val e0 <> None) /\
        (NoDup (k :: rest) -> NoDup ks) /\ length ks <= S n').
      { intros Hs. destruct (IH _ _ Hs) as (H1 & H2 & H3). split; [|split; auto].
        - intros k0 Hk. destruct (H1 k0 Hk) as [Hi He']. split; [right; auto|auto].
        - intros Hnd. inversion Hnd; auto. }
      destruct (e_owner e) as [o|] eqn:Eo.
      * destruct (Nat.ltb 0 (e_repl e)); [auto|discriminate].
      * destruct (e_val e) as [v|] eqn:Ev.
        -- destruct (evict_scan ents rest n') as [[l|]|] eqn:Es; try discriminate. inv H.
           destruct (IH _ _ Es) as (H1 & H2 & H3). split; [|split].
           ++ intros k0 [<-|Hk].
              ** split; [left; auto|]. exists e. repeat split; auto. congruence.
              ** destruct (H1 k0 Hk). split; auto. right; auto.
           ++ intros Hnd. inversion Hnd; subst. constructor; auto. intros Hin. apply H1 in Hin. tauto.
           ++ cbn. lia.
        -- destruct (Nat.ltb 0 (e_repl e)); [auto|discriminate].
Qed.

Lemma do_enter_inv c s a sh k lim o s' ob :
  Inv s -> aget a (s_ops s) = Some (PEnter sh k lim) -> do_enter c s a sh k lim o = ROk s' ob -> Inv s'.
Proof.
  intros HI Ha H. unfold do_enter in H. destruct lim as [n|]; [|eapply do_lookup_inv; eauto].
  destruct (length (s_ents s) - (n - 1)) as [|over] eqn:Eover; [eapply do_lookup_inv; eauto|].
  destruct (iter_order c s o) as [order|] eqn:Eord; [|discriminate].
  destruct (evict_scan (s_ents s) order (S over)) as [[ks|]|] eqn:Es; try discriminate.
  destruct ks as [|k1 ks']; [eapply do_lookup_inv; eauto|].
  destruct (iter_order_spec c s o order (inv_nd_e _ HI) Eord) as (Hnd & Hin & _).
  destruct (evict_scan_spec _ _ _ _ Es) as (H1 & H2 & _).
  destruct (lock_keys_inv (k1 :: ks') s HI (H2 Hnd)) as [HI2 Hops].
  { intros k0 Hk. destruct (H1 k0 Hk) as (_ & e & He & Ho & _). eauto. }
  destruct (lock_keys s (k1 :: ks')) as [s1 offered] eqn:El. cbn [fst] in *. inv H.
  apply (pc_change_inv s1 a (PEnter sh k (Some n)) (Some (PInCb sh k n _))); auto; try congruence; solve_pc.
Qed.

Lemma do_scan_inv c s a cutoff o s' ob :
  Inv s -> aget a (s_ops s) = Some (PScan cutoff) -> do_scan c s a cutoff o = ROk s' ob -> Inv s'.
Proof.
  intros HI Ha H. unfold do_scan in H.
  destruct (iter_order c s o) as [order|] eqn:Eord; [|discriminate].
  destruct (iter_order_spec c s o order (inv_nd_e _ HI) Eord) as (Hnd & Hin & _).
  destruct (lock_keys_inv (expired_keys (s_ents s) order cutoff) s HI) as [HI2 Hops].
  { unfold expired_keys. apply NoDup_filter; auto. }
  { intros k0 Hk. unfold expired_keys in Hk. apply filter_In in Hk as [_ Hk].
    destruct (aget k0 (s_ents s)) as [e|]; [|discriminate]. exists e. split; auto.
    destruct (e_owner e); [discriminate|auto]. }
  destruct (lock_keys s (expired_keys (s_ents s) order cutoff)) as [s1 l] eqn:El. cbn [fst] in *. inv H.
  apply (pc_change_inv s1 a (PScan cutoff) None); auto; try congruence; solve_pc.
Qed.

(* ------------------------------------------------------------------ *)
(* streams *)

Lemma sub_handles_adel subs k k' :
  sub_handles (adel k subs) k' = if Nat.eqb k' k then 0 else sub_handles subs k'.
Proof. unfold sub_handles. rewrite aget_adel. destruct (Nat.eqb k' k); auto. Qed.

Lemma sub_waits_adel subs k k' :
  sub_waits (adel k subs) k' = if Nat.eqb k' k then false else sub_waits subs k'.
Proof. unfold sub_waits. rewrite aget_adel. destruct (Nat.eqb k' k); auto. Qed.

Lemma sub_handles_aset subs k st k' :
  sub_handles (aset k st subs) k' =
  if Nat.eqb k' k then match st with SInit | SQueued => 1 | _ => 0 end else sub_handles subs k'.
Proof. unfold sub_handles. rewrite aget_aset. destruct (Nat.eqb k' k); auto. Qed.

Lemma sub_waits_aset subs k st k' :
  sub_waits (aset k st subs) k' =
  if Nat.eqb k' k then match st with SQueued => true | _ => false end else sub_waits subs k'.
Proof. unfold sub_waits. rewrite aget_aset. destruct (Nat.eqb k' k); auto. Qed.

Ltac solve_sub :=
  cbn [pc_handles pc_waits np_handles np_waits];
  rewrite ?sub_handles_adel, ?sub_waits_adel, ?sub_handles_aset, ?sub_waits_aset, ?Nat.eqb_refl;
  solve
  [ reflexivity
  | unfold sub_handles, sub_waits;
    match goal with H : aget _ _ = _ |- _ => rewrite H end; reflexivity
  | let k' := fresh "k'" in let Hne := fresh "Hne" in
    intros k' Hne; cbn [pc_handles pc_waits np_handles np_waits];
    rewrite ?sub_handles_adel, ?sub_waits_adel, ?sub_handles_aset, ?sub_waits_aset;
    repeat match goal with |- context [Nat.eqb ?x ?y] => destruct (Nat.eqb_spec x y); try congruence end; auto ].

Lemma do_sub_poll_inv c s a subs k s' o :
  Inv s -> aget a (s_ops s) = Some (PStream subs) -> do_sub_poll c s a subs k = ROk s' o -> Inv s'.
Proof.
  intros HI Ha H. unfold do_sub_poll in H.
  destruct (aget k subs) as [st|] eqn:Hs; [|discriminate].
  destruct (aget k (s_ents s)) as [e|] eqn:He; [|discriminate].
  assert (Acq : forall s' o,
    (e_owner e = None /\ st = SInit \/ e_owner e = Some (OwnW a) /\ st = SQueued) ->
    (let (s1, g) := new_guard s k in
     let s2 := with_ents s1 (aset k (set_owner e (Some (OwnG g))) (s_ents s1)) in
     match val_of e with
     | Some v => ROk (set_pc s2 a (PStream (adel k subs))) (OItem g k v)
     | None => ROk (set_pc s2 a (PStream (aset k (SUnlocking g) subs))) ONothing
     end) = ROk s' o -> Inv s').
  { intros s1 o1 Hcase Hr. cbn [new_guard] in Hr.
    assert (Hown : e_owner e = None /\ pc_waits (PStream subs) k = false \/
                   e_owner e = Some (OwnW a) /\ pc_waits (PStream subs) k = true).
    { destruct Hcase as [[? ->]|[? ->]]; [left|right]; split; auto; cbn; unfold sub_waits; rewrite Hs; auto. }
    assert (Hh : pc_handles (PStream subs) k = 1).
    { cbn. unfold sub_handles. rewrite Hs. destruct Hcase as [[_ ->]|[_ ->]]; auto. }
    destruct (val_of e); inv Hr.
    - apply (acquire_core s _ a (PStream subs) (Some (PStream (adel k subs))) k e); auto; solve_sub.
    - apply (acquire_core s _ a (PStream subs) (Some (PStream (aset k (SUnlocking (s_gid s)) subs))) k e); auto; solve_sub. }
  destruct st.
  - destruct (e_owner e) eqn:Eo.
    + inv H. apply (enqueue_core s _ a (PStream subs) (Some (PStream (aset k SQueued subs))) k e); auto;
        try solve_sub. congruence.
    + eapply Acq; eauto.
  - destruct (own_is_waiter (e_owner e) a) eqn:Eo; [|discriminate]. eapply Acq; eauto. right. split; auto.
    unfold own_is_waiter in Eo. destruct (e_owner e) as [[|a']|]; try discriminate. apply Nat.eqb_eq in Eo. congruence.
  - destruct (unlock_cs c s g) as [[s1|]|] eqn:Hu; try discriminate. inv H.
    apply (pc_change_inv s1 a (PStream subs) (Some (PStream (adel k subs)))).
    + eapply unlock_cs_inv; eauto.
    + rewrite (unlock_cs_ops c s g s1 Hu). auto.
    + intros k'. cbn [pc_handles pc_waits np_handles np_waits]. rewrite sub_handles_adel, sub_waits_adel.
      destruct (Nat.eqb_spec k' k); auto. subst. unfold sub_handles, sub_waits. rewrite Hs. auto.
Qed.

Lemma adel_nil_aget {V} k k' (m : list (nat * V)) : adel k m = [] -> k' <> k -> aget k' m = None.
Proof. intros H Hne. rewrite <- (aget_adel_neq k' k m Hne), H. reflexivity. Qed.

Lemma do_sub_drop_inv c s a subs k s' o :
  Inv s -> aget a (s_ops s) = Some (PStreamDrop subs) -> do_sub_drop c s a subs k = ROk s' o -> Inv s'.
Proof.
  intros HI Ha H. unfold do_sub_drop in H.
  destruct (aget k subs) as [st|] eqn:Hs; [|discriminate].
  assert (Np : forall ents, exists np,
     (match adel k subs with
      | [] => ROk (fin (with_ents s ents) a) OCancelled
      | _ => ROk (set_pc (with_ents s ents) a (PStreamDrop (adel k subs))) ONothing
      end = ROk s' o -> s' = upd_ops (with_ents s ents) a np) /\
     np_handles np k = 0 /\ np_waits np k = false /\
     (forall k', k' <> k -> pc_handles (PStreamDrop subs) k' = np_handles np k' /\
                            pc_waits (PStreamDrop subs) k' = np_waits np k')).
  { intros ents. destruct (adel k subs) as [|x rest] eqn:Ea.
    - exists None. split; [intros Hr; inv Hr; auto|]. repeat split; auto;
        cbn; unfold sub_handles, sub_waits; rewrite (adel_nil_aget k k' subs Ea); auto.
    - exists (Some (PStreamDrop (x :: rest))). split; [intros Hr; inv Hr; auto|]. rewrite <- Ea.
      repeat split; try solve_sub;
        cbn [pc_handles pc_waits np_handles np_waits]; rewrite ?sub_handles_adel, ?sub_waits_adel;
        destruct (Nat.eqb_spec k' k); congruence || auto. }
  assert (Hh1 : st <> SUnlocking 0 -> (forall g, st <> SUnlocking g) -> pc_handles (PStreamDrop subs) k = 1).
  { intros _ Hst. cbn. unfold sub_handles. rewrite Hs. destruct st; auto. exfalso. eapply Hst; eauto. }
  destruct st; try discriminate;
    (destruct (cancel_ents c (s_ents s) a k) as [[ents|]|] eqn:Hc; try discriminate;
     destruct (Np ents) as (np & Hs' & Hn1 & Hn2 & Hoth); rewrite (Hs' H);
     apply (cancel_core c s _ a (PStreamDrop subs) np k ents); auto; apply Hh1; discriminate).
Qed.

Definition init_subs (l : list key) : list (key * sub) := map (fun k => (k, SInit)) l.

Lemma aget_init_subs k l : aget k (init_subs l) = if mem_nat k l then Some SInit else None.
Proof.
  induction l as [|x t IH]; cbn; auto. destruct (Nat.eqb k x); cbn; auto.
Qed.

Lemma clone_all_inv a l : forall s subs,
  Inv s -> aget a (s_ops s) = Some (PStream subs) -> NoDup l ->
  (forall k, In k l -> In k (akeys (s_ents s)) /\ aget k subs = None) ->
  Inv (set_pc (with_ents s (clone_all (s_ents s) l)) a (PStream (subs ++ init_subs l))).
Proof.
  induction l as [|k rest IH]; intros s subs HI Ha Hnd Hall.
  - cbn. rewrite app_nil_r.
    replace (set_pc (with_ents s (s_ents s)) a (PStream subs)) with (upd_ops s a (Some (PStream subs))).
    + apply (pc_change_inv s a (PStream subs)); auto.
    + destruct s; reflexivity.
  - inversion Hnd as [|? ? Hnk Hnd']; subst.
    destruct (Hall k (or_introl eq_refl)) as [Hk Hsk]. apply keys_aget in Hk as [e He].
    cbn [clone_all]. rewrite He.
    set (s1 := upd_ops (with_ents s (aset k (set_repl e (S (e_repl e))) (s_ents s))) a
                       (Some (PStream (subs ++ [(k, SInit)])))).
    assert (HI1 : Inv s1).
    { apply (gain_core s _ a (PStream subs) (Some (PStream (subs ++ [(k, SInit)]))) k e (s_ents s)); auto;
        try apply (inv_nd_e _ HI);
        cbn [pc_handles pc_waits np_handles np_waits]; unfold sub_handles, sub_waits; rewrite ?aget_app, ?Hsk; cbn;
        rewrite ?Nat.eqb_refl; auto.
      intros k' Hne. rewrite !aget_app. destruct (aget k' subs); auto. cbn.
      destruct (Nat.eqb_spec k' k); [congruence|auto]. }
    assert (Ha1 : aget a (s_ops s1) = Some (PStream (subs ++ [(k, SInit)]))) by (cbn; apply aget_aset_eq).
    assert (Hall1 : forall k', In k' rest -> In k' (akeys (s_ents s1)) /\ aget k' (subs ++ [(k, SInit)]) = None).
    { intros k' Hin. destruct (Hall k' (or_intror Hin)) as [H1 H2]. split.
      - cbn. apply akeys_aset_In. auto.
      - rewrite aget_app, H2. cbn. destruct (Nat.eqb_spec k' k); [subst; tauto|auto]. }
    specialize (IH s1 _ HI1 Ha1 Hnd' Hall1).
    replace (set_pc (with_ents s (clone_all (aset k (set_repl e (S (e_repl e))) (s_ents s)) rest)) a
                    (PStream (subs ++ init_subs (k :: rest))))
      with (set_pc (with_ents s1 (clone_all (s_ents s1) rest)) a (PStream ((subs ++ [(k, SInit)]) ++ init_subs rest))); auto.
    unfold s1, set_pc, with_ents, with_ops, upd_ops. cbn. rewrite aset_aset, <- app_assoc. reflexivity.
Qed.

Lemma do_stream_enter_inv c s a o s' ob :
  Inv s -> aget a (s_ops s) = Some PStreamEnter -> do_stream_enter c s a o = ROk s' ob -> Inv s'.
Proof.
  intros HI Ha H. unfold do_stream_enter in H.
  destruct (iter_order c s o) as [order|] eqn:Eord; [|discriminate]. inv H.
  destruct (iter_order_spec c s o order (inv_nd_e _ HI) Eord) as (Hnd & Hin & _).
  set (s0 := upd_ops s a (Some (PStream []))).
  assert (HI0 : Inv s0) by (apply (pc_change_inv s a PStreamEnter); auto; solve_pc).
  assert (Ha0 : aget a (s_ops s0) = Some (PStream [])) by (cbn; apply aget_aset_eq).
  pose proof (clone_all_inv a order s0 [] HI0 Ha0 Hnd) as Hc.
  replace (set_pc (with_ents s (clone_all (s_ents s) order)) a (PStream (map (fun k => (k, SInit)) order)))
    with (set_pc (with_ents s0 (clone_all (s_ents s0) order)) a (PStream ([] ++ init_subs order))).
  - apply Hc. intros k Hk. split; auto. apply Hin; auto.
  - unfold s0, set_pc, with_ents, with_ops, upd_ops. cbn. rewrite aset_aset. reflexivity.
Qed.

Lemma do_consume_inv c s o s' ob : Inv s -> do_consume c s o = ROk s' ob -> Inv s'.
Proof.
  intros HI H. unfold do_consume in H.
  destruct (s_ops s) eqn:Eo; [|discriminate]. destruct (s_guards s) eqn:Eg; [|discriminate].
  destruct (negb (inv2_ok (s_ents s))); [discriminate|].
  destruct (iter_order c s o); [|discriminate].
  destruct (consume_list (s_ents s) l); [|discriminate]. inv H.
  destruct HI as [nde ndg ndo hgid hk].
  constructor; cbn; auto; try constructor.
  - intros e; discriminate.
  - unfold guard_on. cbn. rewrite Eg. intros g. split; [discriminate|intros (? & ? & _); discriminate].
  - unfold waits_on. cbn. rewrite Eo. intros a. split; intros (? & ? & _); discriminate.
  - discriminate.
  - discriminate.
  - unfold handles, gcount. cbn. rewrite Eg, Eo. cbn. lia.
Qed.

(* ------------------------------------------------------------------ *)
(* main preservation theorem *)

Theorem step_inv c s l s' o : Inv s -> step c s l = ROk s' o -> Inv s'.
Proof.
  intros HI H. destruct l; cbn [step] in H.
  - eapply do_start_inv; eauto.
  - unfold do_resume in H. destruct (aget a (s_ops s)) as [p|] eqn:Ha; [|discriminate].
    destruct p; try discriminate; try (apply cs_ok in H).
    + eapply do_enter_inv; eauto.
    + eapply do_key_try_inv; eauto.
    + eapply do_key_wait_inv; eauto.
    + eapply do_queued_inv; eauto.
    + eapply do_cleanup_inv; eauto.
    + destruct (cancel_ents c (s_ents s) a k) as [[ents|]|] eqn:Hc; try discriminate. inv H.
      eapply do_pcancel_inv; eauto.
    + eapply do_drops_inv; eauto.
    + eapply do_scan_inv; eauto.
    + eapply do_stream_enter_inv; eauto.
    + inv H. apply (pc_change_inv s a PCount None); auto; solve_pc.
    + destruct (iter_order c s o0); [|discriminate]. inv H. apply (pc_change_inv s a PKeys None); auto; solve_pc.
  - unfold do_sub in H. destruct (aget a (s_ops s)) as [p|] eqn:Ha; [|discriminate].
    destruct p; try discriminate.
    + destruct (aget k subs) as [[| |g]|]; try (apply cs_ok in H); eapply do_sub_poll_inv; eauto.
    + apply cs_ok in H. eapply do_sub_drop_inv; eauto.
  - unfold do_pollend in H. destruct (aget a (s_ops s)) as [[]|]; try discriminate.
    destruct subs; inv H; auto.
  - eapply do_cancel_inv; eauto.
  - eapply do_guard_op_inv; eauto.
  - eapply do_cbreturn_inv; eauto.
  - destruct (Z.leb 0 d); inv H. destruct HI as [nde ndg ndo hgid hk]. constructor; auto.
    intros k. apply (KInv_same s); auto. apply same_at_clock.
  - eapply do_consume_inv; eauto.
Qed.

Theorem steps_inv c s ls s' : Inv s -> steps c s ls s' -> Inv s'.
Proof. intros HI H. induction H; auto. apply IHsteps. eapply step_inv; eauto. Qed.

Theorem reachable_inv c s : reachable c s -> Inv s.
Proof. intros [ls H]. eapply steps_inv; eauto. apply Inv_init. Qed.
