(* Linearisability check of real-thread histories (produced by `/verif/smoke lin`, the crate built WITHOUT hooks)
   against the abstract machine of C05 extracted from Coq (SeqRefine.spec_call: plain map + locked set).
   A history is a set of completed operations with invocation/response stamps taken from one global atomic
   counter.  Wing-Gong search with memoisation: repeatedly pick an operation that no unlinearised operation
   precedes in real time, apply it to the extracted [spec_call], require the result the implementation returned.
   The witness order is then replayed on the extracted MODEL ([seq_call], the model's calls run to completion) and
   every result compared again.  Parsing, search and printing only; the semantics is the extracted code. *)
open Spec

let rec nat_of_int n = if n <= 0 then O else S (nat_of_int (n - 1))
let rec int_of_nat = function O -> 0 | S n -> 1 + int_of_nat n
let rec int_of_pos = function XH -> 1 | XO p -> 2 * int_of_pos p | XI p -> 2 * int_of_pos p + 1
let z_of_int n : z = if n >= 0 then Z.of_nat (nat_of_int n) else Z.opp (Z.of_nat (nat_of_int (-n)))
let int_of_z = function Z0 -> 0 | Zpos p -> int_of_pos p | Zneg p -> - (int_of_pos p)
let split s = List.filter (fun x -> x <> "") (String.split_on_char ' ' s)

type kind =
  | KLock of shape * int * int            (* shape, key, guard name *)
  | KGop of int * gop                     (* guard name, operation *)
  | KDrop of int
type res = RGuard of int option | RNone | RVal of int option | RExists | RUnit
type op = { th : int; inv : int; rsp : int; kind : kind; res : res; text : string }

let parse_shape = function
  | "b" | "bo" -> ShBlocking | "a" | "ao" -> ShAsync | "t" | "to" -> ShTry | "ta" | "tao" -> ShTryAsync
  | s -> failwith ("shape " ^ s)
let opt_int s = if s = "-" then None else Some (int_of_string s)

let parse_op line : op =
  match split line with
  | "op" :: th :: inv :: rsp :: rest ->
      let i = int_of_string in
      let (k, r) = (match rest with
        | ["lock"; sh; key; g; "->"; "guard"; v] -> (KLock (parse_shape sh, i key, i g), RGuard (opt_int v))
        | ["lock"; sh; key; g; "->"; "none"] -> (KLock (parse_shape sh, i key, i g), RNone)
        | ["gop"; g; "insert"; v; "->"; "val"; o] -> (KGop (i g, GInsert (z_of_int (i v))), RVal (opt_int o))
        | ["gop"; g; "remove"; "->"; "val"; o] -> (KGop (i g, GRemove), RVal (opt_int o))
        | ["gop"; g; "read"; "->"; "val"; o] -> (KGop (i g, GRead), RVal (opt_int o))
        | ["gop"; g; "set"; v; "->"; "val"; o] -> (KGop (i g, GSet (z_of_int (i v))), RVal (opt_int o))
        | ["gop"; g; "tryins"; v; "->"; "val"; o] -> (KGop (i g, GTryInsert (z_of_int (i v))), RVal (opt_int o))
        | ["gop"; g; "tryins"; v; "->"; "exists"] -> (KGop (i g, GTryInsert (z_of_int (i v))), RExists)
        | ["gop"; g; "getorins"; v; "->"; "val"; o] -> (KGop (i g, GGetOrInsert (z_of_int (i v))), RVal (opt_int o))
        | ["drop"; g; "->"; "unit"] -> (KDrop (i g), RUnit)
        | _ -> failwith ("op: " ^ line)) in
      { th = i th; inv = i inv; rsp = i rsp; kind = k; res = r; text = line }
  | _ -> failwith ("op: " ^ line)

(* --ignore-values: only the locking behaviour is judged (who gets a guard, which tries fail); the values guards
   show and the results of guard operations are not compared *)
let ignore_values = ref false
let same_res (a : res) (b : res) : bool =
  if not !ignore_values then a = b else
  match a, b with
  | RGuard _, RGuard _ -> true
  | (RVal _ | RExists), (RVal _ | RExists) -> true
  | _ -> a = b

(* the result of the abstract machine, in the vocabulary of the history; [pool]: LockPool guards show no value *)
let res_of_obs ~pool (o : obs) : res option =
  let zo = function None -> None | Some v -> Some (int_of_z v) in
  match o with
  | OGuard (_, _, v) -> Some (RGuard (if pool then None else zo v))
  | OTryFail -> Some RNone
  | OVal v -> Some (RVal (zo v))
  | OExists -> Some RExists
  | OUnit -> Some RUnit
  | _ -> None

let gid_of_obs = function OGuard (g, _, _) -> Some g | _ -> None

(* state of the search: the abstract machine + the names the history uses for the machine's guards *)
type st = { sp : spec; names : (int * gid) list }

let canon nkeys (s : st) : string =
  let b = Buffer.create 64 in
  for k = 0 to nkeys do
    (match s.sp.sp_val (nat_of_int k) with None -> Buffer.add_string b "-" | Some v -> Buffer.add_string b (string_of_int (int_of_z v)));
    Buffer.add_char b ','
  done;
  let held = List.sort compare (List.filter_map (fun (n, g) ->
    match aget g s.sp.sp_guards with Some k -> Some (n, int_of_nat k) | None -> None) s.names) in
  List.iter (fun (n, k) -> Buffer.add_string b (Printf.sprintf "%d@%d;" n k)) held;
  Buffer.contents b

let scall_of (s : st) (o : op) : scall option =
  match o.kind with
  | KLock (sh, k, _) -> Some (SLock (sh, nat_of_int k))
  | KGop (g, op) -> (match List.assoc_opt g s.names with Some sg -> Some (SGop (sg, op)) | None -> None)
  | KDrop g -> (match List.assoc_opt g s.names with Some sg -> Some (SDrop sg) | None -> None)

(* sweeps (a lock_all_entries stream being polled, an idle-entry scan) of the history in hand: (thread, start, end).
   While one is in progress its pending per-entry futures, or the scan itself, can own the mutex of a key without any
   guard being visible (a future that was handed a valueless key gives it up again without showing it; the scan takes
   every unlocked entry's mutex for a moment): "awaited by a pending acquisition" in the words of the property.  A try
   of another thread that overlaps a sweep may therefore fail on a key the abstract machine sees as free. *)
let sweeps : (int * int * int) list ref = ref []
let overlaps_sweep (o : op) = List.exists (fun (th, a, b) -> th <> o.th && a < o.rsp && o.inv < b) !sweeps

(* apply one operation to the abstract machine; None = not possible now / different result *)
let apply ~pool (s : st) (o : op) : st option =
  match scall_of s o with
  | None -> None
  | Some call when (match o.kind, o.res with KLock _, RNone -> true | _ -> false)
                   && overlaps_sweep o
                   && (match spec_call s.sp call with Some (_, Some OTryFail) -> false | _ -> true) ->
      Some s      (* a failed try during somebody's sweep: no effect *)
  | Some call ->
    (match spec_call s.sp call with
     | Some (sp', Some ob) ->
         (match res_of_obs ~pool ob with
          | Some r when same_res r o.res ->
              let names = (match o.kind, gid_of_obs ob with
                           | KLock (_, _, g), Some sg -> (g, sg) :: s.names
                           | _ -> s.names) in
              Some { sp = sp'; names }
          | _ -> None)
     | _ -> None)

exception Found of op list

let linearise ~pool ~nkeys (ops : op array) : op list option =
  let n = Array.length ops in
  let memo = Hashtbl.create 1024 in
  let full = (1 lsl n) - 1 in
  let rec go (mask : int) (s : st) (acc : op list) =
    if mask = full then raise (Found (List.rev acc));
    let key = (mask, canon nkeys s) in
    if not (Hashtbl.mem memo key) then begin
      Hashtbl.add memo key ();
      (* the earliest response among the operations not yet linearised: nothing invoked after it may go first *)
      let minrsp = ref max_int in
      for i = 0 to n - 1 do if mask land (1 lsl i) = 0 && ops.(i).rsp < !minrsp then minrsp := ops.(i).rsp done;
      for i = 0 to n - 1 do
        if mask land (1 lsl i) = 0 && ops.(i).inv < !minrsp then
          (match apply ~pool s ops.(i) with
           | Some s' -> go (mask lor (1 lsl i)) s' (ops.(i) :: acc)
           | None -> ())
      done
    end in
  try go 0 { sp = spec_init; names = [] } []; None with Found l -> Some l

(* replay the witness on the model: every call run to completion by [seq_call] (agent id 0) *)
let replay_on_model ~lru ~pool (order : op list) : string option =
  let c : cfg = lru in
  let st = ref init in
  let names = ref [] in
  let bad = ref None in
  (try
    List.iter (fun o ->
      let call = (match o.kind with
        | KLock (sh, k, _) -> SLock (sh, nat_of_int k)
        | KGop (g, op) -> SGop (List.assoc g !names, op)
        | KDrop g -> SDrop (List.assoc g !names)) in
      match seq_call c !st O call with
      | ROk (_, OGuard _) when o.res = RNone && overlaps_sweep o -> ()   (* a failed try during somebody's sweep *)
      | ROk (s', ob) ->
          (match res_of_obs ~pool ob with
           | Some r when same_res r o.res ->
               (match o.kind, gid_of_obs ob with
                | KLock (_, _, g), Some sg -> names := (g, sg) :: !names
                | _ -> ());
               st := s'
           | _ -> bad := Some ("the model returns something else for: " ^ o.text); raise Exit)
      | RInvalid -> bad := Some ("the model does not allow: " ^ o.text); raise Exit
      | RPanic site -> bad := Some (Printf.sprintf "the model panics (site %d) at: %s" (int_of_nat site) o.text); raise Exit) order
  with Exit -> ());
  (* at rest the model's keys are exactly those with a value *)
  (match !bad with
   | None ->
       if !st.s_guards <> [] || !st.s_ops <> [] then bad := Some "the model is not at rest after the history"
   | Some _ -> ());
  !bad

let () =
  let args = List.filter (fun a -> if a = "--ignore-values" then (ignore_values := true; false) else true) (List.tl (Array.to_list Sys.argv)) in
  let file = List.hd args in
  let ic = open_in file in
  let n_hist = ref 0 and n_ok = ref 0 and n_bad = ref 0 and n_ops = ref 0 and n_model_bad = ref 0 in
  let n_conc = ref 0 and maxops = ref 0 in
  let kinds = Hashtbl.create 16 in
  let bump k = Hashtbl.replace kinds k (1 + (try Hashtbl.find kinds k with Not_found -> 0)) in
  let cur = ref [] and id = ref "" and backend = ref "H" and nkeys = ref 4 and final_keys = ref None in
  (try
    while true do
      let line = String.trim (input_line ic) in
      match split line with
      | "hist" :: i :: b :: k :: _ -> id := i; backend := b; nkeys := int_of_string k; cur := []; final_keys := None; sweeps := []
      | "sweep" :: th :: a :: b :: _ -> sweeps := (int_of_string th, int_of_string a, int_of_string b) :: !sweeps
      | "op" :: _ -> cur := parse_op line :: !cur
      | "final" :: ks -> final_keys := Some (List.sort compare (List.map int_of_string ks))
      | "end" :: _ ->
          incr n_hist;
          let ops = Array.of_list (List.rev !cur) in
          n_ops := !n_ops + Array.length ops;
          if Array.length ops > !maxops then maxops := Array.length ops;
          Array.iter (fun o -> bump (match o.kind, o.res with
            | KLock (sh, _, _), RNone -> "try-fail" | KLock (ShBlocking, _, _), _ -> "lock-blocking" | KLock (ShAsync, _, _), _ -> "lock-async"
            | KLock (_, _, _), _ -> "try-ok" | KGop _, _ -> "gop" | KDrop _, _ -> "drop")) ops;
          (* overlapping operations of different threads *)
          let conc = ref false in
          Array.iter (fun a -> Array.iter (fun b -> if a.th <> b.th && a.inv < b.rsp && b.inv < a.rsp then conc := true) ops) ops;
          if !conc then incr n_conc;
          let pool = !backend = "P" and lru = !backend = "L" in
          (match linearise ~pool ~nkeys:!nkeys ops with
           | None ->
               incr n_bad;
               Printf.printf "NONLINEARISABLE hist=%s backend=%s ops=%d\n" !id !backend (Array.length ops)
           | Some order ->
               (* the final state of the abstract machine must be what the container reports at rest *)
               let st = List.fold_left (fun s o -> match apply ~pool s o with Some s' -> s' | None -> s) { sp = spec_init; names = [] } order in
               let valued = List.filter (fun k -> st.sp.sp_val (nat_of_int k) <> None) (List.init (!nkeys + 1) (fun k -> k)) in
               (match !final_keys with
                | Some ks when ks <> valued && (pool || not !ignore_values) ->
                    incr n_bad;
                    Printf.printf "FINALSTATE hist=%s backend=%s reported=[%s] expected=[%s]\n" !id !backend
                      (String.concat " " (List.map string_of_int ks)) (String.concat " " (List.map string_of_int valued))
                | _ ->
                    (match replay_on_model ~lru ~pool order with
                     | None -> incr n_ok
                     | Some why -> incr n_model_bad; Printf.printf "MODELDIFF hist=%s backend=%s %s\n" !id !backend why)))
      | _ -> ()
    done
  with End_of_file -> close_in ic);
  let kinds_s = String.concat "," (List.sort compare (Hashtbl.fold (fun k v acc -> Printf.sprintf "\"%s\":%d" k v :: acc) kinds [])) in
  Printf.printf "SUMMARY {\"histories\":%d,\"linearisable\":%d,\"not_linearisable\":%d,\"model_differs\":%d,\"operations\":%d,\"histories_with_overlapping_operations\":%d,\"max_operations\":%d,\"operation_kinds\":{%s}}\n"
    !n_hist !n_ok !n_bad !n_model_bad !n_ops !n_conc !maxops kinds_s;
  exit (if !n_bad = 0 && !n_model_bad = 0 then 0 else 1)
