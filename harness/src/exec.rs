//! Executor (stage 3): applies harness actions to one run (one fresh
//! container), produces the labels / observations / snapshots of the trace
//! (spec §2–§4) and feeds the monitors.
//!
//! Everything is "run the agent until it parks, blocks, enters a callback or
//! finishes"; no step assumes how many segments a call has.  This is what makes
//! the executor work both on the current library and after the planned
//! cancellation fix (where dropping a pending future parks at `Entries`).

use crate::agents;
use crate::containers::{Cont, MockClock};
use crate::monitor::Monitors;
use crate::sched::{self, AgentCtx, Cmd, Event, Outcome, PollResult, Report, RunShared, Step};
use crate::types::*;
use lockable::verif_hooks::Site;
use std::collections::BTreeMap;
use std::sync::Arc;

/// What kind of call an agent is.
#[derive(Debug, Clone, PartialEq, Eq)]
pub enum AgentKind {
    Lock { sh: Shape, key: Key, lim: u64 },
    Drop { gid: Gid },
    Expire,
    Stream,
    Count,
    Keys,
}

/// Result of the last `poll_next` of an idle stream.
#[derive(Debug, Clone, Copy, PartialEq, Eq)]
pub enum LastPoll {
    /// Not polled yet.
    Fresh,
    Item,
    Pending,
    End,
}

#[derive(Debug, Clone, PartialEq, Eq)]
pub enum AState {
    /// Parked at a hook site (waiting for `Go`).
    Parked(Site),
    /// Last poll returned Pending / in `blocked()`. Whether it was woken since is in the agent's flag.
    Blocked,
    /// Inside the eviction callback; the offered guards (in offered order).
    InCallback(Vec<Gid>),
    /// Stream exists and is not inside `poll_next`.
    StreamIdle(LastPoll),
    Finished,
    /// Thread lost: watchdog timeout, self-deadlock or double panic.
    Dead,
}

/// State of one per-entry future of a stream (mirrors the model's `sub`).
#[derive(Debug, Clone, Copy, PartialEq, Eq)]
pub enum SubState {
    /// Never polled; owns a replica.
    Init,
    /// Polled, waiting in the mutex queue (or handed the permit, not re-polled yet).
    Queued,
    /// Acquired a valueless guard, is dropping it (parked at `Entries` in `_unlock`).
    Unlocking,
    /// Yielded its item, or finished without one, or was dropped.
    Done,
}

/// How the next segment of a stream agent starts (decides the label, spec §3).
#[derive(Debug, Clone, Copy, PartialEq, Eq)]
enum SegStart {
    /// The `Poll` command (no label of its own).
    FromPoll,
    /// Parked at `KeyWait(ptr)`, ptr -> key.
    FromKeyWait(Key),
    /// Parked at `Entries` right after `UnlockBegin(key)` / `CancelBegin(key)`.
    FromEntriesAfter(Key),
    /// The `Cancel` command.
    FromCancel,
}

pub struct AgentRec {
    pub aid: Aid,
    pub kind: AgentKind,
    cx: Arc<AgentCtx>,
    pub state: AState,
    /// By-key agent: has parked at `KeyTry`/`KeyWait` at least once since it (re-)entered, i.e.
    /// it holds a replica of its key's entry.
    pub past_lookup: bool,
    /// Stream agent: `lock_all_entries().await` has returned.
    pub stream_created: bool,
    /// Stream agent: the stream is being dropped (`cancel` issued).
    pub stream_dropping: bool,
    /// Stream agent: keys of the `stream` observation, in order.
    pub stream_keys: Vec<Key>,
    pub subs: BTreeMap<Key, SubState>,
    seg_start: Option<SegStart>,
    /// Stream agent: the waker fired (from another thread) while the last `poll_next` was still
    /// running and that poll returned `Pending`. `FuturesUnordered` has most likely consumed the
    /// wake inside that same `poll_next`, but the harness cannot know: the stream's blocked status
    /// is reported as not comparable (`u`) until it is polled again.
    pub stale_wake: bool,
}

impl AgentRec {
    pub fn alive(&self) -> bool {
        !matches!(self.state, AState::Finished | AState::Dead)
    }
    pub fn is_stream(&self) -> bool {
        self.kind == AgentKind::Stream
    }
    pub fn is_async(&self) -> bool {
        match &self.kind {
            AgentKind::Lock { sh, .. } => sh.is_async(),
            AgentKind::Stream => true,
            _ => false,
        }
    }
    pub fn woken(&self) -> bool {
        self.cx.is_woken()
    }
    /// Stream keys whose per-entry future is not finished yet.
    pub fn stream_pending(&self) -> Vec<Key> {
        self.subs.iter().filter(|(_, s)| **s != SubState::Done).map(|(k, _)| *k).collect()
    }
}

/// Snapshot of an agent's harness-level state, handed to the monitors with every segment.
#[derive(Debug, Clone)]
pub struct AgentView {
    pub aid: Aid,
    pub kind: AgentKind,
    pub alive: bool,
    pub past_lookup: bool,
    pub in_callback: bool,
    /// Parked right before the `try_lock_owned` of its key mutex (hook site `KeyTry`).
    pub at_key_try: bool,
    pub stream_keys: Vec<Key>,
    pub stream_pending: Vec<Key>,
}

/// Everything observed for one segment (one atomic piece of execution).
#[derive(Debug, Clone)]
pub struct Segment {
    /// Labels of the segment with their observations (at least one).
    pub steps: Vec<(Label, Obs)>,
    pub blocked: Vec<Aid>,
    pub unknown: Vec<Aid>,
    /// State before / after the segment.
    pub pre: Snap,
    pub snap: Snap,
    /// Clock (seconds) after the segment.
    pub clock: u64,
    /// Record-only hook events of the acting agent during the segment.
    pub events: Vec<Event>,
    /// Agents after the segment.
    pub agents: Vec<AgentView>,
    /// Guards in the client's table after the segment.
    pub table: Vec<Gid>,
    /// Fine-grained mode: some agent is parked in the middle of a critical section (it holds the global
    /// lock), so `snap` could not be taken (it is the last snapshot that could).
    pub mid_cs: bool,
    /// ... and which agent at which `InCs` site.
    pub mid: Option<(Aid, u32)>,
    /// Fine-grained mode: agents that parked at a `Between` site (outside any critical section) in this segment.
    pub between: Vec<(Aid, u32)>,
}

impl Segment {
    /// The trace lines of this segment (spec §4).
    pub fn lines(&self, backend: Backend) -> Vec<TraceLine> {
        let mut v = Vec::with_capacity(self.steps.len() * 2 + 4);
        if let Some((a, site)) = self.mid {
            v.push(TraceLine::M(format!("{} {}", a, site)));
        }
        for (a, site) in &self.between {
            v.push(TraceLine::N(format!("{} {}", a, site)));
        }
        for (l, o) in &self.steps {
            v.push(TraceLine::L(l.text()));
            v.push(TraceLine::O(o.text()));
        }
        v.push(TraceLine::B(ids_text(&self.blocked)));
        v.push(TraceLine::U(ids_text(&self.unknown)));
        v.push(TraceLine::S(self.snap.text(backend)));
        v
    }
}

/// What a scheduler may do next (for explorers).
#[derive(Debug, Clone, Default)]
pub struct Enabled {
    /// `Resume`: parked non-stream agents, blocked-and-woken agents, streams not created yet.
    pub resumable: Vec<Aid>,
    /// `StreamStep` on a stream parked inside `poll_next` or inside its drop.
    pub stream_continue: Vec<Aid>,
    /// `StreamStep` on an idle stream: (aid, last poll result, woken since).
    pub stream_idle: Vec<(Aid, LastPoll, bool)>,
    /// `Cancel`: blocked async by-key agents, async agents in a callback, idle streams.
    pub cancellable: Vec<Aid>,
    /// Blocked and not woken (cannot be resumed).
    pub blocked_unwoken: Vec<Aid>,
    /// (aid, offered guards, all of them still in the table, async call)
    pub in_callback: Vec<(Aid, Vec<Gid>, bool, bool)>,
    /// Client guards in the table: (gid, key).
    pub guards: Vec<(Gid, Key)>,
    pub alive_agents: usize,
    /// `Consume` is allowed.
    pub can_consume: bool,
    /// Fine-grained mode: an agent is parked in the middle of a critical section.
    pub cs_held: bool,
}

pub struct Executor {
    pub backend: Backend,
    pub owned: bool,
    cont: Cont,
    clock: MockClock,
    run: Arc<RunShared>,
    pub agents: Vec<AgentRec>,
    /// Snapshot after the last segment (= before the next one).
    pub last_snap: Snap,
    pub monitors: Monitors,
    /// Monitor hits so far, in order.
    pub violations: Vec<Violation>,
    /// A thread was lost; the run cannot continue.
    pub dead: bool,
    /// `consume` was executed; the container is gone.
    pub consumed: bool,
    /// Number of labels emitted so far.
    pub num_labels: usize,
    torn_down: bool,
}

impl Executor {
    pub fn new(backend: Backend, owned: bool) -> Executor {
        sched::install();
        let owned = owned && backend != Backend::P;
        let clock = MockClock::new();
        let cont = Cont::new(backend, &clock);
        let last_snap = cont.snapshot();
        Executor {
            backend,
            owned,
            cont,
            clock,
            run: RunShared::new(),
            agents: Vec::new(),
            last_snap,
            monitors: Monitors::new(backend),
            violations: Vec::new(),
            dead: false,
            consumed: false,
            num_labels: 0,
            torn_down: false,
        }
    }

    pub fn clock_secs(&self) -> u64 {
        self.clock.secs()
    }

    /// Iteration-order oracle for the next step: the order of the pre-step snapshot (H/P), `-` for L.
    fn ord(&self) -> Ord_ {
        match self.backend {
            Backend::L => None,
            _ => Some(self.last_snap.keys()),
        }
    }

    fn table_guards(&self) -> Vec<(Gid, Key)> {
        self.run.table.lock().unwrap().iter().map(|(g, b)| (*g, b.key())).collect()
    }

    pub fn guard_in_table(&self, g: Gid) -> bool {
        self.run.table.lock().unwrap().contains_key(&g)
    }

    /// The currently enabled actions.
    /// Fine-grained mode: an agent is parked in the middle of a critical section (holds the global lock).
    pub fn cs_held(&self) -> bool {
        self.agents.iter().any(|a| a.alive() && matches!(a.state, AState::Parked(Site::InCs(_))))
    }

    pub fn enabled(&self) -> Enabled {
        let mut e = Enabled::default();
        if self.dead || self.consumed {
            return e;
        }
        e.guards = self.table_guards();
        let cs_held = self.cs_held();
        e.cs_held = cs_held;
        for a in &self.agents {
            if !a.alive() {
                continue;
            }
            e.alive_agents += 1;
            match &a.state {
                // waiting for the global lock that another agent holds: cannot move now
                AState::Parked(Site::Entries) if cs_held => {}
                AState::Parked(_) => {
                    if a.is_stream() && a.stream_created {
                        e.stream_continue.push(a.aid);
                    } else {
                        e.resumable.push(a.aid);
                    }
                }
                AState::Blocked => {
                    if a.woken() {
                        e.resumable.push(a.aid);
                    } else {
                        e.blocked_unwoken.push(a.aid);
                    }
                    if a.is_async() {
                        e.cancellable.push(a.aid);
                    }
                }
                AState::InCallback(off) => {
                    let all = off.iter().all(|g| self.guard_in_table(*g));
                    e.in_callback.push((a.aid, off.clone(), all, a.is_async()));
                    if a.is_async() {
                        e.cancellable.push(a.aid);
                    }
                }
                AState::StreamIdle(lp) => {
                    e.stream_idle.push((a.aid, *lp, a.woken()));
                    e.cancellable.push(a.aid);
                }
                AState::Finished | AState::Dead => {}
            }
        }
        e.can_consume = e.alive_agents == 0 && e.guards.is_empty();
        e
    }

    // -----------------------------------------------------------------------

    /// Apply one action. `Ok(None)`: the action was executed but produced no label (the empty
    /// first segment of a `poll_next` that parks right away). `Err`: the action is not enabled
    /// (nothing was executed).
    pub fn apply(&mut self, action: &Action) -> Result<Option<Segment>, String> {
        if self.dead {
            return Err("the run is dead (a thread was lost)".into());
        }
        if self.consumed {
            return Err("the container was consumed".into());
        }
        let pre = self.last_snap.clone();
        let pre_between: Vec<Aid> = self
            .agents
            .iter()
            .filter(|a| matches!(a.state, AState::Parked(Site::Between(_))))
            .map(|a| a.aid)
            .collect();
        let (steps, events) = match *action {
            Action::Start(call) => self.do_start(call)?,
            Action::Resume(aid) => self.do_resume(aid)?,
            Action::StreamStep(aid) => self.do_stream_step(aid)?,
            Action::Cancel(aid) => self.do_cancel(aid)?,
            Action::Gop(g, op) => {
                // LockPool values are `()`: they show as 0, so the label carries 0 as well.
                let op = if self.backend == Backend::P { op.with_value(0) } else { op };
                (vec![(Label::Gop(g, op), self.do_gop(g, op)?)], vec![])
            }
            Action::CbRet(aid, r, hold) => self.do_cbret(aid, r, hold)?,
            Action::Tick(d) => {
                self.clock.advance(d);
                (vec![(Label::Tick(d), Obs::Nothing)], vec![])
            }
            Action::Consume => (vec![self.do_consume()?], vec![]),
        };
        // State is observed between segments.
        let mid_cs = !self.consumed && self.cs_held();
        let snap = if self.consumed {
            Snap { gone: true, ..Snap::default() }
        } else if mid_cs {
            self.last_snap.clone()
        } else {
            self.cont.snapshot()
        };
        self.last_snap = snap.clone();
        if steps.is_empty() {
            return Ok(None);
        }
        let mut steps = steps;
        // The `stream` observation: the entries that got a replica in this segment.
        for (_, o) in steps.iter_mut() {
            if let Obs::Stream(ks) = o {
                *ks = pre
                    .entries
                    .iter()
                    .filter(|e| snap.get(e.key).map(|n| n.replicas > e.replicas).unwrap_or(false))
                    .map(|e| e.key)
                    .collect();
            }
        }
        for i in 0..steps.len() {
            if let Obs::Stream(ks) = &steps[i].1 {
                if let Label::Resume(aid, _) = steps[i].0 {
                    let ks = ks.clone();
                    let a = &mut self.agents[aid];
                    a.subs = ks.iter().map(|k| (*k, SubState::Init)).collect();
                    a.stream_keys = ks;
                }
            }
        }
        self.num_labels += steps.len();
        let (mut blocked, mut unknown) = (Vec::new(), Vec::new());
        for a in &self.agents {
            match &a.state {
                AState::Blocked if !a.woken() => blocked.push(a.aid),
                AState::StreamIdle(LastPoll::Pending) => {
                    if a.stale_wake {
                        unknown.push(a.aid)
                    } else if !a.woken() {
                        blocked.push(a.aid)
                    }
                }
                AState::StreamIdle(_) => unknown.push(a.aid),
                AState::InCallback(_) => unknown.push(a.aid),
                _ => {}
            }
        }
        let seg = Segment {
            steps,
            blocked,
            unknown,
            pre,
            snap,
            clock: self.clock.secs(),
            events,
            agents: self
                .agents
                .iter()
                .map(|a| AgentView {
                    aid: a.aid,
                    kind: a.kind.clone(),
                    alive: a.alive(),
                    past_lookup: a.past_lookup,
                    in_callback: matches!(a.state, AState::InCallback(_)),
                    at_key_try: matches!(a.state, AState::Parked(Site::KeyTry(_))),
                    stream_keys: a.stream_keys.clone(),
                    stream_pending: a.stream_pending(),
                })
                .collect(),
            table: self.run.table.lock().unwrap().keys().copied().collect(),
            mid_cs,
            mid: self.agents.iter().find_map(|a| match a.state {
                AState::Parked(Site::InCs(id)) if a.alive() => Some((a.aid, id)),
                _ => None,
            }),
            between: self
                .agents
                .iter()
                .filter_map(|a| match a.state {
                    AState::Parked(Site::Between(id)) if a.alive() && !pre_between.contains(&a.aid) => Some((a.aid, id)),
                    _ => None,
                })
                .collect(),
        };
        let hits = self.monitors.observe(&seg);
        self.violations.extend(hits);
        Ok(Some(seg))
    }

    /// `apply` + rendering (the interface of the task description).
    pub fn apply_lines(&mut self, action: &Action) -> Result<Vec<TraceLine>, String> {
        Ok(self.apply(action)?.map(|s| s.lines(self.backend)).unwrap_or_default())
    }

    // -----------------------------------------------------------------------
    // by-key agents

    /// Translate a report of a non-stream agent into its new state and the observation.
    fn absorb(&mut self, aid: Aid, step: Step) -> Obs {
        let a = &mut self.agents[aid];
        match step {
            Step::Timeout => {
                a.state = AState::Dead;
                self.dead = true;
                Obs::Hang("timeout".into())
            }
            Step::Report(r) => match r {
                Report::AtSite(site) => {
                    if matches!(site, Site::KeyTry(_) | Site::KeyWait(_)) {
                        a.past_lookup = true;
                    }
                    a.state = AState::Parked(site);
                    Obs::Nothing
                }
                Report::Blocked => {
                    a.state = AState::Blocked;
                    Obs::Nothing
                }
                Report::InCallback(off) => {
                    a.past_lookup = false;
                    a.state = AState::InCallback(off.iter().map(|x| x.0).collect());
                    Obs::Offered(off)
                }
                Report::StreamCreated => {
                    a.stream_created = true;
                    a.state = AState::StreamIdle(LastPoll::Fresh);
                    Obs::Stream(Vec::new()) // filled in by `apply` from the snapshots
                }
                Report::StreamPolled(_) => unreachable!("StreamPolled outside a stream step"),
                Report::Finished(out) => {
                    a.state = AState::Finished;
                    obs_of_outcome(out)
                }
                Report::SelfDeadlock(first) => {
                    a.state = AState::Dead;
                    self.dead = true;
                    Obs::Hang(match first {
                        Some(m) => format!("selfdeadlock after panic: {}", m),
                        None => "selfdeadlock".into(),
                    })
                }
                Report::DoublePanic(m) => {
                    a.state = AState::Dead;
                    self.dead = true;
                    Obs::Panic(format!("{} [double panic, thread lost]", m))
                }
            },
        }
    }

    fn do_start(&mut self, call: Call) -> Result<(Vec<(Label, Obs)>, Vec<Event>), String> {
        Cont::supports(self.backend, &call, self.owned)?;
        let kind = match call {
            Call::Lock { sh, key, lim } => {
                if key >= sched::MAX_KEY {
                    return Err(format!("key {} too large (max {})", key, sched::MAX_KEY - 1));
                }
                AgentKind::Lock { sh, key, lim }
            }
            Call::Drop(gid) => {
                if !self.guard_in_table(gid) {
                    return Err(format!("guard {} is not in the table", gid));
                }
                AgentKind::Drop { gid }
            }
            Call::Expire(_) => AgentKind::Expire,
            Call::Stream => AgentKind::Stream,
            Call::Count => AgentKind::Count,
            Call::Keys => AgentKind::Keys,
        };
        let aid = self.agents.len();
        let body = agents::body_for(call, self.cont, self.owned);
        let (cx, step) = sched::spawn_agent(&self.run, aid, body);
        self.agents.push(AgentRec {
            aid,
            kind,
            cx,
            state: AState::Finished,
            past_lookup: false,
            stream_created: false,
            stream_dropping: false,
            stream_keys: Vec::new(),
            subs: BTreeMap::new(),
            seg_start: None,
            stale_wake: false,
        });
        let obs = self.absorb(aid, step);
        let events = self.agents[aid].cx.take_events();
        Ok((vec![(Label::Start(aid, call), obs)], events))
    }

    fn agent(&self, aid: Aid) -> Result<&AgentRec, String> {
        self.agents.get(aid).ok_or_else(|| format!("no agent {}", aid))
    }

    fn do_resume(&mut self, aid: Aid) -> Result<(Vec<(Label, Obs)>, Vec<Event>), String> {
        let a = self.agent(aid)?;
        if a.is_stream() && a.stream_created {
            return Err(format!("agent {} is a live stream; use sub/pollend (StreamStep)", aid));
        }
        match &a.state {
            AState::Parked(Site::Entries) if self.cs_held() => {
                return Err(format!("agent {} waits for the global lock, which an agent parked inside a critical section holds", aid));
            }
            AState::Parked(_) => {}
            AState::Blocked => {
                if !a.woken() {
                    return Err(format!("agent {} is blocked and was not woken", aid));
                }
                a.cx.clear_woken();
            }
            other => return Err(format!("agent {} cannot be resumed in state {:?}", aid, other)),
        }
        let ord = self.ord();
        let step = self.agents[aid].cx.send(Cmd::Go);
        let obs = self.absorb(aid, step);
        let events = self.agents[aid].cx.take_events();
        Ok((vec![(Label::Resume(aid, ord), obs)], events))
    }

    fn do_cancel(&mut self, aid: Aid) -> Result<(Vec<(Label, Obs)>, Vec<Event>), String> {
        let a = self.agent(aid)?;
        if a.is_stream() {
            if !matches!(a.state, AState::StreamIdle(_)) {
                return Err(format!("stream {} is not idle", aid));
            }
            self.agents[aid].stream_dropping = true;
            let step = self.agents[aid].cx.send(Cmd::Cancel);
            return Ok(self.stream_segment(aid, SegStart::FromCancel, step));
        }
        if !a.is_async() {
            return Err(format!("agent {} is not an async call", aid));
        }
        match &a.state {
            AState::Blocked | AState::InCallback(_) => {}
            other => return Err(format!("agent {} cannot be cancelled in state {:?}", aid, other)),
        }
        let step = self.agents[aid].cx.send(Cmd::Cancel);
        let obs = self.absorb(aid, step);
        let events = self.agents[aid].cx.take_events();
        Ok((vec![(Label::Cancel(aid), obs)], events))
    }

    fn do_cbret(&mut self, aid: Aid, r: CbRes, hold: bool) -> Result<(Vec<(Label, Obs)>, Vec<Event>), String> {
        let a = self.agent(aid)?;
        let AState::InCallback(off) = &a.state else {
            return Err(format!("agent {} is not inside a callback", aid));
        };
        if hold && !off.iter().all(|g| self.guard_in_table(*g)) {
            return Err(format!("cbret {} hold: not all offered guards are still in the table", aid));
        }
        let step = self.agents[aid].cx.send(Cmd::CbReturn(r, hold));
        let obs = self.absorb(aid, step);
        let events = self.agents[aid].cx.take_events();
        Ok((vec![(Label::CbRet(aid, r, hold), obs)], events))
    }

    // -----------------------------------------------------------------------
    // scheduler-thread actions

    fn do_gop(&mut self, gid: Gid, op: Gop) -> Result<Obs, String> {
        let mut table = self.run.table.lock().unwrap();
        let Some(g) = table.get_mut(&gid) else {
            return Err(format!("guard {} is not in the table", gid));
        };
        let r = sched::run_captured(|| match op {
            Gop::Ins(v) => Obs::Val(g.insert(v)),
            Gop::Rem => Obs::Val(g.remove()),
            Gop::Set(v) => Obs::Val(g.set(v)),
            Gop::TryIns(v) => match g.try_insert(v) {
                Ok(x) => Obs::Val(Some(x)),
                Err(()) => Obs::Exists,
            },
            Gop::GetIns(v) => Obs::Val(Some(g.value_or_insert(v))),
            Gop::Read => Obs::Val(g.value()),
            Gop::CPanic => Obs::Val(Some(g.value_or_panic())),
        });
        Ok(match r {
            Ok(o) => o,
            Err(out) => obs_of_outcome(out),
        })
    }

    fn do_consume(&mut self) -> Result<(Label, Obs), String> {
        if self.agents.iter().any(|a| a.alive()) {
            return Err("consume: an agent is still alive".into());
        }
        if !self.run.table.lock().unwrap().is_empty() {
            return Err("consume: a guard is still alive".into());
        }
        let ord = self.ord();
        let cont = self.cont;
        self.consumed = true;
        // Safety: no agent thread is inside the library (all finished) and no guard exists.
        let r = sched::run_captured(|| unsafe { cont.consume() });
        let obs = match r {
            Ok(Ok(l)) => Obs::Consumed(l),
            Ok(Err(m)) => Obs::Panic(m),
            Err(out) => obs_of_outcome(out),
        };
        Ok((Label::Consume(ord), obs))
    }

    // -----------------------------------------------------------------------
    // streams (spec §3)

    fn do_stream_step(&mut self, aid: Aid) -> Result<(Vec<(Label, Obs)>, Vec<Event>), String> {
        let a = self.agent(aid)?;
        if !a.is_stream() || !a.stream_created {
            return Err(format!("agent {} is not a live stream", aid));
        }
        match &a.state {
            AState::StreamIdle(_) => {
                a.cx.clear_woken();
                let step = a.cx.send(Cmd::Poll);
                self.agents[aid].stale_wake = false;
                Ok(self.stream_segment(aid, SegStart::FromPoll, step))
            }
            AState::Parked(Site::Entries) if self.cs_held() => {
                Err(format!("stream {} waits for the global lock, which an agent parked inside a critical section holds", aid))
            }
            AState::Parked(_) => {
                let start = a.seg_start.expect("parked stream agent without segment start");
                let step = a.cx.send(Cmd::Go);
                Ok(self.stream_segment(aid, start, step))
            }
            other => Err(format!("stream {} cannot be stepped in state {:?}", aid, other)),
        }
    }

    /// Turn one finished segment of a live stream agent into labels + observations and update
    /// the per-entry sub-states.
    fn stream_segment(&mut self, aid: Aid, start: SegStart, step: Step) -> (Vec<(Label, Obs)>, Vec<Event>) {
        let ord = self.ord();
        let events = self.agents[aid].cx.take_events();
        let mut steps: Vec<(Label, Obs)> = Vec::new();
        // gid -> index of the label whose step created that guard
        let mut creator: Vec<(Gid, usize)> = Vec::new();
        match start {
            SegStart::FromKeyWait(k) | SegStart::FromEntriesAfter(k) => {
                steps.push((Label::Sub(aid, k, ord.clone()), Obs::Nothing))
            }
            SegStart::FromCancel => steps.push((Label::Cancel(aid), Obs::Nothing)),
            SegStart::FromPoll => {}
        }
        let mut own_used = false;
        let mut acquired: Vec<Key> = Vec::new();
        for ev in &events {
            if let Event::GuardCreated { gid, key } = *ev {
                acquired.push(key);
                match start {
                    SegStart::FromKeyWait(k) if k == key && !own_used => {
                        own_used = true;
                        creator.push((gid, 0));
                    }
                    _ => {
                        steps.push((Label::Sub(aid, key, ord.clone()), Obs::Nothing));
                        creator.push((gid, steps.len() - 1));
                    }
                }
            }
        }
        // sub-state bookkeeping
        {
            let a = &mut self.agents[aid];
            match start {
                SegStart::FromKeyWait(k) if !own_used => {
                    a.subs.insert(k, SubState::Queued);
                }
                SegStart::FromEntriesAfter(k) => {
                    a.subs.insert(k, SubState::Done);
                }
                _ => {}
            }
            for k in &acquired {
                let unlocking = events.iter().any(|e| *e == Event::UnlockBegin(*k));
                a.subs.insert(*k, if unlocking { SubState::Unlocking } else { SubState::Done });
            }
        }
        // the report
        let last_begin = events.iter().rev().find_map(|e| match e {
            Event::UnlockBegin(k) | Event::CancelBegin(k) => Some(*k),
            _ => None,
        });
        let snap_now = if self.cs_held() { self.last_snap.clone() } else { self.cont.snapshot() };
        let a = &mut self.agents[aid];
        let mut tail_obs: Option<Obs> = None;
        match step {
            Step::Timeout => {
                a.state = AState::Dead;
                self.dead = true;
                tail_obs = Some(Obs::Hang("timeout".into()));
            }
            Step::Report(r) => match r {
                Report::AtSite(site) => {
                    a.state = AState::Parked(site);
                    a.seg_start = Some(match site {
                        Site::KeyWait(p) | Site::KeyTry(p) => SegStart::FromKeyWait(
                            snap_now
                                .key_of_addr(p)
                                .or_else(|| self.last_snap.key_of_addr(p))
                                .unwrap_or(UNKNOWN_KEY),
                        ),
                        _ => SegStart::FromEntriesAfter(last_begin.unwrap_or(UNKNOWN_KEY)),
                    });
                }
                Report::StreamPolled(pr) => match pr {
                    PollResult::Item(g, k, v) => {
                        a.state = AState::StreamIdle(LastPoll::Item);
                        a.subs.insert(k, SubState::Done);
                        match creator.iter().find(|(cg, _)| *cg == g) {
                            Some((_, i)) => steps[*i].1 = Obs::Item(g, k, v),
                            None => steps.push((Label::Sub(aid, k, ord.clone()), Obs::Item(g, k, v))),
                        }
                    }
                    PollResult::Pending => {
                        a.stale_wake = a.cx.is_woken();
                        a.state = AState::StreamIdle(LastPoll::Pending);
                        steps.push((Label::PollEnd(aid), Obs::Pending));
                    }
                    PollResult::End => {
                        a.state = AState::StreamIdle(LastPoll::End);
                        steps.push((Label::PollEnd(aid), Obs::End));
                    }
                },
                Report::Finished(out) => {
                    a.state = AState::Finished;
                    if out == Outcome::Cancelled {
                        for s in a.subs.values_mut() {
                            *s = SubState::Done;
                        }
                    }
                    tail_obs = Some(obs_of_outcome(out));
                }
                Report::SelfDeadlock(first) => {
                    a.state = AState::Dead;
                    self.dead = true;
                    tail_obs = Some(Obs::Hang(match first {
                        Some(m) => format!("selfdeadlock after panic: {}", m),
                        None => "selfdeadlock".into(),
                    }));
                }
                Report::DoublePanic(m) => {
                    a.state = AState::Dead;
                    self.dead = true;
                    tail_obs = Some(Obs::Panic(format!("{} [double panic, thread lost]", m)));
                }
                other => {
                    // Blocked / InCallback / StreamCreated cannot come from a live stream.
                    a.state = AState::Dead;
                    self.dead = true;
                    tail_obs = Some(Obs::Hang(format!("harness: unexpected report {:?} from a stream", other)));
                }
            },
        }
        if let Some(o) = tail_obs {
            match steps.last_mut() {
                Some(last) => last.1 = o,
                None => steps.push((Label::PollEnd(aid), o)),
            }
        }
        (steps, events)
    }

    // -----------------------------------------------------------------------
    // end of run

    /// Quietly bring the run to an end and free (or, if that is impossible, leak) the
    /// container: all hooks stop parking, every agent is run to completion, every guard is
    /// dropped. Nothing of this appears in the trace. Returns `true` if everything was freed.
    pub fn teardown(&mut self) -> bool {
        if self.torn_down {
            return true;
        }
        self.torn_down = true;
        if self.consumed && !self.agents.iter().any(|a| a.alive()) {
            return true;
        }
        if self.dead || self.consumed {
            // A lost thread may sit inside the library (possibly holding the global lock):
            // touching the container again could block forever. Leak everything.
            return false;
        }
        for a in &self.agents {
            a.cx.set_free_run();
        }
        // Fine-grained mode: an agent parked in the middle of a critical section holds the global lock;
        // it has to leave the critical section before anything else can touch the container.
        for i in 0..self.agents.len() {
            if matches!(self.agents[i].state, AState::Parked(Site::InCs(_))) {
                let step = self.agents[i].cx.send(Cmd::Go);
                let a = &mut self.agents[i];
                let _ = a.cx.take_events();
                match step {
                    Step::Report(Report::Finished(_)) => a.state = AState::Finished,
                    Step::Report(Report::Blocked) => a.state = AState::Blocked,
                    Step::Report(Report::InCallback(off)) => {
                        a.state = AState::InCallback(off.iter().map(|x| x.0).collect())
                    }
                    Step::Report(Report::StreamCreated) => a.state = AState::StreamIdle(LastPoll::Fresh),
                    Step::Report(Report::StreamPolled(_)) => a.state = AState::StreamIdle(LastPoll::Pending),
                    Step::Report(Report::AtSite(s)) => a.state = AState::Parked(s),
                    Step::Timeout | Step::Report(Report::SelfDeadlock(_)) | Step::Report(Report::DoublePanic(_)) => {
                        a.state = AState::Dead;
                        self.dead = true;
                        return false;
                    }
                }
            }
        }
        for _round in 0..10_000 {
            let mut progress = false;
            // guards first: this wakes blocked agents
            loop {
                let g = {
                    let mut t = self.run.table.lock().unwrap();
                    let k = t.keys().next().copied();
                    k.and_then(|k| t.remove(&k))
                };
                match g {
                    Some(g) => {
                        let _ = sched::run_captured(move || drop(g));
                        progress = true;
                    }
                    None => break,
                }
            }
            for i in 0..self.agents.len() {
                let a = &self.agents[i];
                let cmd = match &a.state {
                    AState::Finished | AState::Dead => continue,
                    AState::Parked(_) => Cmd::Go,
                    AState::Blocked => {
                        if a.woken() {
                            a.cx.clear_woken();
                            Cmd::Go
                        } else if a.is_async() {
                            Cmd::Cancel
                        } else {
                            continue;
                        }
                    }
                    AState::InCallback(_) => Cmd::CbReturn(CbRes::Ok, false),
                    AState::StreamIdle(_) => Cmd::Cancel,
                };
                progress = true;
                let step = a.cx.send(cmd);
                let a = &mut self.agents[i];
                let _ = a.cx.take_events();
                match step {
                    Step::Report(Report::Finished(_)) => a.state = AState::Finished,
                    Step::Report(Report::Blocked) => a.state = AState::Blocked,
                    Step::Report(Report::InCallback(off)) => {
                        a.state = AState::InCallback(off.iter().map(|x| x.0).collect())
                    }
                    Step::Report(Report::StreamCreated) => a.state = AState::StreamIdle(LastPoll::Fresh),
                    Step::Report(Report::StreamPolled(_)) => a.state = AState::StreamIdle(LastPoll::Pending),
                    Step::Report(Report::AtSite(s)) => a.state = AState::Parked(s),
                    Step::Timeout | Step::Report(Report::SelfDeadlock(_)) | Step::Report(Report::DoublePanic(_)) => {
                        a.state = AState::Dead;
                        self.dead = true;
                        return false;
                    }
                }
            }
            let done = !self.agents.iter().any(|a| a.alive()) && self.run.table.lock().unwrap().is_empty();
            if done {
                // Safety: every agent thread has left the library, no guard exists.
                let cont = self.cont;
                let _ = sched::run_captured(|| unsafe { cont.destroy() });
                self.consumed = true;
                return true;
            }
            if !progress {
                break;
            }
        }
        false
    }
}

impl Drop for Executor {
    fn drop(&mut self) {
        self.teardown();
    }
}

fn obs_of_outcome(out: Outcome) -> Obs {
    match out {
        Outcome::Guard(g, k, v) => Obs::Guard(g, k, v),
        Outcome::TryFail => Obs::TryFail,
        Outcome::Err => Obs::Err,
        Outcome::UserPanic => Obs::Panicked,
        Outcome::Unit => Obs::Unit,
        Outcome::Cancelled => Obs::Cancelled,
        Outcome::Expired(l) => Obs::Expired(l),
        Outcome::Count(n) => Obs::Count(n),
        Outcome::Keys(k) => Obs::Keys(k),
        Outcome::Panic(m) => Obs::Panic(m),
    }
}
