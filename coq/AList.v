(* Association lists keyed by nat, in a fixed iteration order.
   Definitions only (executable); lemmas live in AListFacts.v. *)
From Coq Require Import List Arith Bool.
Import ListNotations.

Section AList.
  Context {V : Type}.

  Fixpoint aget (k : nat) (m : list (nat * V)) : option V :=
    match m with
    | [] => None
    | (k', v) :: t => if Nat.eqb k k' then Some v else aget k t
    end.

  (* replace in place if present, else append at the end *)
  Fixpoint aset (k : nat) (v : V) (m : list (nat * V)) : list (nat * V) :=
    match m with
    | [] => [(k, v)]
    | (k', v') :: t => if Nat.eqb k k' then (k, v) :: t else (k', v') :: aset k v t
    end.

  Fixpoint adel (k : nat) (m : list (nat * V)) : list (nat * V) :=
    match m with
    | [] => []
    | (k', v') :: t => if Nat.eqb k k' then adel k t else (k', v') :: adel k t
    end.

  Definition akeys (m : list (nat * V)) : list nat := map fst m.

  Definition amem (k : nat) (m : list (nat * V)) : bool :=
    match aget k m with Some _ => true | None => false end.

  (* move to the end (most recently used) *)
  Definition apromote (k : nat) (m : list (nat * V)) : list (nat * V) :=
    match aget k m with
    | Some v => adel k m ++ [(k, v)]
    | None => m
    end.
End AList.

Fixpoint mem_nat (x : nat) (l : list nat) : bool :=
  match l with [] => false | y :: t => Nat.eqb x y || mem_nat x t end.

Fixpoint remove_nat (x : nat) (l : list nat) : list nat :=
  match l with [] => [] | y :: t => if Nat.eqb x y then remove_nat x t else y :: remove_nat x t end.

Fixpoint nodup_nat (l : list nat) : bool :=
  match l with [] => true | x :: t => negb (mem_nat x t) && nodup_nat t end.

(* [o] is a duplicate-free list with the same elements as [l] (l assumed duplicate-free) *)
Definition is_perm_of (o l : list nat) : bool :=
  Nat.eqb (length o) (length l) && nodup_nat o && forallb (fun x => mem_nat x l) o.
