(* What the co-simulation compares after each segment: executable projections of the model state. *)
From Coq Require Import List Arith ZArith Bool.
From LK Require Import AList Model.
Import ListNotations.

Record snap := mkSnap { sn_key : key; sn_val : option Z; sn_stamp : Z; sn_locked : bool; sn_repl : nat }.

Definition snap_of (ke : key * entry) : snap :=
  let e := snd ke in
  mkSnap (fst ke) (val_of e)
         (match e_val e with Some (_, st) => st | None => 0%Z end)
         (match e_owner e with Some _ => true | None => false end)
         (e_repl e).

Definition snapshot (s : state) : list snap := map snap_of (s_ents s).

Definition handed (s : state) (a : aid) (k : key) : bool :=
  match aget k (s_ents s) with
  | Some e => own_is_waiter (e_owner e) a
  | None => false
  end.

(* the agent waits for a per-key mutex and has not been handed it *)
Definition agent_blocked (s : state) (a : aid) (p : pc) : bool :=
  match p with
  | PQueued _ k => negb (handed s a k)
  | PStream subs =>
      match subs with
      | [] => false
      | _ => forallb (fun ks => match snd ks with
                                | SQueued => negb (handed s a (fst ks))
                                | _ => false
                                end) subs
      end
  | _ => false
  end.

Definition blocked_set (s : state) : list aid :=
  map fst (filter (fun ap => agent_blocked s (fst ap) (snd ap)) (s_ops s)).

Definition agent_ids (s : state) : list aid := map fst (s_ops s).
Definition guard_ids (s : state) : list (gid * key) := s_guards s.

(* coarse description of where an agent is, for diagnostics *)
Definition pc_tag (p : pc) : nat :=
  match p with
  | PEnter _ _ _ => 1 | PInCb _ _ _ _ => 2 | PKeyTry _ _ => 3 | PKeyWait _ _ => 4
  | PQueued _ _ => 5 | PCleanup _ _ => 6 | PCancel _ => 7 | PDrops _ _ => 8
  | PScan _ => 9 | PStreamEnter => 10 | PStream _ => 11 | PStreamDrop _ => 12
  | PCount => 13 | PKeys => 14
  end.
