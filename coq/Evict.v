(* C07: a round of eviction with a cooperative callback strictly reduces the number of evictable
   entries and never grows the map; hence the eviction loop of a soft-limited call terminates. *)
From Coq Require Import List Arith ZArith Bool Lia.
From LK Require Import AList AListFacts Model Inv StepInv NoPanic PropLemmas Seq DropInv Lru.
Import ListNotations.

Definition evictable_n (s : state) : nat :=
  length (filter (evictable_b (s_ents s)) (akeys (s_ents s))).

(* counting under a change at one key *)
Lemma filter_count_change (f f' : key -> bool) (l l' : list key) k :
  NoDup l -> (l' = l \/ l' = remove_nat k l) ->
  (forall x, x <> k -> f' x = f x) -> (In k l' -> f' k = false) ->
  length (filter f' l') + (if f k && mem_nat k l then 1 else 0) = length (filter f l).
Proof.
  intros Hnd Hl Hoff Hk.
  assert (G : forall m, NoDup m -> (In k m -> f' k = false) ->
              length (filter f' m) + (if f k && mem_nat k m then 1 else 0) = length (filter f m)).
  { induction m as [|x t IH]; intros Hn Hkm; cbn; [rewrite andb_false_r; auto|].
    inversion Hn as [|? ? Hx Hn']; subst.
    destruct (Nat.eqb_spec k x) as [->|Hne].
    - rewrite (Hkm (or_introl eq_refl)). cbn.
      assert (E : filter f' t = filter f t).
      { apply filter_ext_in. intros y Hy. apply Hoff. intros ->. tauto. }
      rewrite E. destruct (f x); cbn; lia.
    - assert (Hm : In k t -> f' k = false) by (intros; apply Hkm; right; auto).
      specialize (IH Hn' Hm). rewrite (Hoff x) by auto. destruct (f x); cbn; lia. }
  destruct Hl as [->| ->]; [apply G; auto|].
  (* the key disappeared *)
  assert (E : filter f' (remove_nat k l) = filter f (remove_nat k l)).
  { apply filter_ext_in. intros y Hy. apply remove_nat_In in Hy as [_ Hy]. auto. }
  rewrite E. clear -Hnd. induction l as [|x t IH]; cbn; [rewrite andb_false_r; auto|].
  inversion Hnd as [|? ? Hx Hn']; subst. destruct (Nat.eqb_spec k x) as [->|Hne].
  - rewrite remove_nat_notin by auto. destruct (f x); cbn; lia.
  - specialize (IH Hn'). cbn. destruct (f x); cbn; lia.
Qed.

Lemma filter_count_R3 (f f' : key -> bool) (l l' : list key) k :
  NoDup l -> R3 k l l' ->
  (forall x, x <> k -> f' x = f x) -> (In k l' -> f' k = false) ->
  length (filter f' l') + (if f k && mem_nat k l then 1 else 0) = length (filter f l).
Proof.
  intros Hnd [->|[->| ->]] Hoff Hk.
  - apply (filter_count_change f f' l l k); auto.
  - apply (filter_count_change f f' l (remove_nat k l) k); auto.
  - rewrite filter_app, app_length. cbn. rewrite Hk by (apply in_app_iff; right; left; auto). cbn.
    rewrite Nat.add_0_r.
    apply (filter_count_change f f' l (remove_nat k l) k); auto.
    intros Hin. apply remove_nat_In in Hin. tauto.
Qed.

Lemma evictable_b_ext ents ents' k : aget k ents' = aget k ents -> evictable_b ents' k = evictable_b ents k.
Proof. unfold evictable_b. intros ->. auto. Qed.

Lemma evictable_locked ents k e : aget k ents = Some e -> e_owner e <> None -> evictable_b ents k = false.
Proof. unfold evictable_b. intros -> H. destruct (e_owner e); [auto|congruence]. Qed.

Lemma evictable_valueless ents k e : aget k ents = Some e -> e_val e = None -> evictable_b ents k = false.
Proof. unfold evictable_b. intros -> H. rewrite H. destruct (e_owner e); auto. Qed.

Lemma evictable_absent ents k : aget k ents = None -> evictable_b ents k = false.
Proof. unfold evictable_b. intros ->. auto. Qed.

(* one key changes (it was not evictable before and is not afterwards), the key list is R3-related *)
Lemma evictable_n_frame s s' k :
  NoDup (akeys (s_ents s)) -> R3 k (akeys (s_ents s)) (akeys (s_ents s')) ->
  (forall x, x <> k -> aget x (s_ents s') = aget x (s_ents s)) ->
  evictable_b (s_ents s) k = false -> evictable_b (s_ents s') k = false ->
  evictable_n s' = evictable_n s.
Proof.
  intros Hnd HR Hoth Hb Ha. unfold evictable_n.
  pose proof (filter_count_R3 (evictable_b (s_ents s)) (evictable_b (s_ents s')) _ _ k Hnd HR) as H.
  rewrite Hb in H. cbn in H. rewrite <- H; [lia| |auto].
  intros x Hx. apply evictable_b_ext. auto.
Qed.

(* ------------------------------------------------------------------ *)
(* effect of the individual steps of a cooperative round *)

Lemma gop_remove_effect c s g s' ob :
  Inv s -> step c s (LGuardOp g GRemove) = ROk s' ob ->
  exists k e, aget g (s_guards s) = Some k /\ aget k (s_ents s) = Some e /\
              s' = with_ents s (aset k (set_val e None) (s_ents s)).
Proof.
  intros HI H. cbn in H. unfold do_guard_op in H. destruct (negb (guard_live s g)); [discriminate|].
  destruct (aget g (s_guards s)) as [k|] eqn:Hg; [|discriminate].
  destruct (aget k (s_ents s)) as [e|] eqn:He; [|discriminate]. inv H. eauto.
Qed.

Lemma gop_remove_counts c s g s' ob :
  Inv s -> step c s (LGuardOp g GRemove) = ROk s' ob ->
  evictable_n s' = evictable_n s /\ akeys (s_ents s') = akeys (s_ents s) /\
  s_guards s' = s_guards s /\ s_ops s' = s_ops s /\
  (forall g' k', aget g' (s_guards s) = Some k' -> forall e', aget k' (s_ents s) = Some e' -> e_val e' = None ->
     exists e'', aget k' (s_ents s') = Some e'' /\ e_val e'' = None) /\
  (exists k e, aget g (s_guards s) = Some k /\ aget k (s_ents s') = Some e /\ e_val e = None).
Proof.
  intros HI H. destruct (gop_remove_effect c s g s' ob HI H) as (k & e & Hg & He & ->).
  destruct (Inv_guard_present s g k HI Hg) as (e0 & He0 & Ho). rewrite He in He0. inv He0.
  assert (K : akeys (aset k (set_val e0 None) (s_ents s)) = akeys (s_ents s)) by (eapply akeys_aset_present; eauto).
  split; [|split; [exact K|split; [reflexivity|split; [reflexivity|split]]]].
  - apply (evictable_n_frame s _ k); cbn [s_ents with_ents].
    + apply (inv_nd_e _ HI).
    + left. exact K.
    + intros x Hx. apply aget_aset_neq; auto.
    + eapply evictable_locked; eauto. congruence.
    + eapply (evictable_locked _ k (set_val e0 None)); [apply aget_aset_eq|cbn; congruence].
  - intros g' k' Hg' e' He' Hv. cbn [s_ents with_ents]. rewrite aget_aset. destruct (Nat.eqb_spec k' k).
    + subst. eexists. split; eauto.
    + eauto.
  - exists k, (set_val e0 None). cbn [s_ents with_ents]. rewrite aget_aset_eq. auto.
Qed.

(* the drop of a guard whose entry is valueless *)
Lemma drop_valueless_effect c s a g rest af o s' ob k e :
  Inv s -> aget a (s_ops s) = Some (PDrops (g :: rest) af) ->
  aget g (s_guards s) = Some k -> aget k (s_ents s) = Some e -> e_val e = None ->
  step c s (LResume a o) = ROk s' ob ->
  exists s1, unlock_cs c s g = inl (Some s1) /\
    evictable_n s1 = evictable_n s /\ length (s_ents s1) <= length (s_ents s) /\
    s_guards s1 = adel g (s_guards s) /\ s_ops s1 = s_ops s /\
    (forall x, x <> k -> aget x (s_ents s1) = aget x (s_ents s)) /\
    match rest with
    | g' :: _ => s' = set_pc (begin_unlock c s1 g') a (PDrops rest af)
    | [] => match af with
            | AReenter sh k0 lim => s' = set_pc s1 a (PEnter sh k0 (Some lim))
            | _ => s' = fin s1 a
            end
    end.
Proof.
  intros HI Ha Hg He Hv H. cbn in H. unfold do_resume in H. rewrite Ha in H. apply cs_ok in H.
  unfold do_drops in H. destruct (unlock_cs c s g) as [[s1|]|] eqn:Hu; try discriminate.
  exists s1. split; auto.
  pose proof (unlock_cs_R3 c s g s1 k Hg Hu) as HR.
  pose proof (unlock_cs_guards c s g s1 Hu) as HG. pose proof (unlock_cs_ops c s g s1 Hu) as HO.
  destruct (Inv_guard_present s g k HI Hg) as (e0 & He0 & Ho). rewrite He in He0. inv He0.
  (* what unlock_cs does to the entries *)
  assert (Hoth : forall x, x <> k -> aget x (s_ents s1) = aget x (s_ents s)).
  { intros x Hx. unfold unlock_cs in Hu. rewrite Hg, He, Hv in Hu. cbn [e_repl set_repl] in Hu.
    destruct (Nat.eqb _ 0); inv Hu; cbn [s_ents with_ents with_guards];
      rewrite ?aget_adel_neq, ?promote_if_lru_get, ?aget_aset_neq by auto; auto. }
  assert (Hk1 : evictable_b (s_ents s1) k = false).
  { unfold unlock_cs in Hu. rewrite Hg, He, Hv in Hu. cbn [e_repl set_repl] in Hu.
    destruct (Nat.eqb _ 0); inv Hu; cbn [s_ents with_ents with_guards].
    - apply evictable_absent. apply aget_adel_eq.
    - eapply evictable_valueless; [rewrite promote_if_lru_get; apply aget_aset_eq|].
      cbn. rewrite mx_release_val. auto. }
  assert (Hlen : length (s_ents s1) <= length (s_ents s)).
  { rewrite <- !length_akeys. destruct HR as [->|[->| ->]]; auto.
    - apply remove_nat_length_le.
    - rewrite app_length. cbn.
      assert (In k (akeys (s_ents s))) by (eapply aget_Some_keys; eauto).
      pose proof (remove_nat_length_in k _ (inv_nd_e _ HI) H0). lia. }
  split; [|split; [exact Hlen|split; [exact HG|split; [exact HO|split; [exact Hoth|]]]]].
  - apply (evictable_n_frame s s1 k); auto; [apply (inv_nd_e _ HI)|].
    eapply evictable_locked; eauto. congruence.
  - destruct rest; [destruct af|]; inv H; auto.
Qed.

(* several keys become non-evictable at once (the offering step locks them) *)
Lemma filter_count_set (f f' : key -> bool) (l ks : list key) :
  NoDup l -> NoDup ks -> incl ks l ->
  (forall x, ~ In x ks -> f' x = f x) -> (forall x, In x ks -> f x = true /\ f' x = false) ->
  length (filter f' l) + length ks = length (filter f l).
Proof.
  intros Hl Hks Hincl Hout Hin.
  assert (E1 : length (filter f l) = length (filter f' l) + length (filter (fun x => mem_nat x ks) l)).
  { clear Hl Hincl. induction l as [|x t IH]; cbn; auto.
    destruct (mem_nat x ks) eqn:Em.
    - apply mem_nat_In in Em. destruct (Hin x Em) as [-> ->]. cbn. lia.
    - apply mem_nat_false in Em. rewrite (Hout x Em). destruct (f x); cbn; lia. }
  assert (E2 : length (filter (fun x => mem_nat x ks) l) = length ks).
  { apply Permutation.Permutation_length. apply Permutation.NoDup_Permutation; auto.
    - apply NoDup_filter; auto.
    - intros x. rewrite filter_In, mem_nat_In. split; [tauto|]. intros H. split; auto. }
  lia.
Qed.

Lemma NoDup_map_transfer {A B C} (f : A -> B) (g : A -> C) (l : list A) :
  NoDup (map f l) -> (forall x y, In x l -> In y l -> g x = g y -> f x = f y) -> NoDup (map g l).
Proof.
  induction l as [|x t IH]; cbn; intros Hn Hinj; [constructor|].
  inversion Hn as [|? ? Hx Hn']; subst. constructor.
  - intros Hin. apply in_map_iff in Hin as (y & Ey & Hy). apply Hx.
    rewrite (Hinj x y (or_introl eq_refl) (or_intror Hy) (eq_sym Ey)). apply in_map. auto.
  - apply IH; auto.
Qed.

Lemma offering_effect c s a sh k n o s1 l :
  Inv s -> aget a (s_ops s) = Some (PEnter sh k (Some n)) ->
  step c s (LResume a o) = ROk s1 (OOffered l) ->
  evictable_n s1 + length l = evictable_n s /\
  akeys (s_ents s1) = akeys (s_ents s) /\
  s_ops s1 = aset a (PInCb sh k n (map ogid l)) (s_ops s) /\
  NoDup (map ogid l) /\ l <> [] /\
  (forall g, In g (map ogid l) -> s_gid s <= g /\ In g (akeys (s_guards s1))) /\
  (forall g, In g (akeys (s_guards s)) -> In g (akeys (s_guards s1))).
Proof.
  intros HI Ha H. pose proof H as H0. cbn in H. unfold do_resume in H. rewrite Ha in H. apply cs_ok in H. unfold do_enter in H.
  assert (L : forall s1 o1, do_lookup c s a sh k = ROk s1 o1 -> forall l, o1 <> OOffered l).
  { intros s2 o1 H1 l1. unfold do_lookup in H1. destruct (aget k (s_ents s)); [inv H1; discriminate|].
    cbn [new_guard] in H1. inv H1. discriminate. }
  destruct (length (s_ents s) - (n - 1)) as [|over] eqn:Eover; [exfalso; eapply L; eauto|].
  destruct (iter_order c s o) as [order|] eqn:Eord; [|discriminate].
  destruct (evict_scan (s_ents s) order (S over)) as [[ks|]|] eqn:Es; try discriminate.
  destruct ks as [|k1 ks']; [exfalso; eapply L; eauto|].
  destruct (iter_order_spec c s o order (inv_nd_e _ HI) Eord) as (Hnd & Hin & _).
  destruct (evict_scan_spec _ _ _ _ Es) as (H1 & H2 & H3).
  destruct (lock_keys s (k1 :: ks')) as [s2 l2] eqn:El. inv H.
  assert (Hall : forall k0, In k0 (k1 :: ks') -> exists e, aget k0 (s_ents s) = Some e /\ e_owner e = None).
  { intros k0 Hk. destruct (H1 k0 Hk) as (_ & e & He & Ho & _). eauto. }
  destruct (lock_keys_spec _ s s2 l (H2 Hnd) Hall El) as (I1 & I2 & I3 & I4 & I5 & I6 & I7 & I8).
  set (ks := k1 :: ks') in *.
  assert (Hlen : length l = length ks) by (rewrite <- I1; symmetry; apply map_length).
  (* the offered entries are now locked *)
  assert (Hlocked : forall x, In x ks -> evictable_b (s_ents s) x = true /\ evictable_b (s_ents s2) x = false).
  { intros x Hx. destruct (H1 x Hx) as (_ & e & He & Ho & Hv). split.
    - unfold evictable_b. rewrite He, Ho. destruct (e_val e); congruence.
    - rewrite <- I1 in Hx. apply in_map_iff in Hx as ([[g k0] v] & Ek & Hl). cbn in Ek. subst k0.
      destruct (I2 g x v Hl) as (Hg & _).
      assert (HI2 : Inv (set_pc s2 a (PInCb sh k n (map (fun x0 => fst (fst x0)) l)))) by (eapply step_inv; eauto).
      apply In_aget in Hg; [|apply (inv_nd_g _ HI2)].
      destruct (Inv_guard_present _ g x HI2 Hg) as (e2 & He2 & Ho2). cbn in He2.
      eapply evictable_locked; eauto. congruence. }
  split; [|split; [cbn; exact I4|split; [cbn; rewrite I5; reflexivity|split; [|split; [|split]]]]].
  - unfold evictable_n. cbn [s_ents set_pc with_ops]. rewrite I4, Hlen.
    apply (filter_count_set _ _ _ ks); auto.
    + apply (inv_nd_e _ HI).
    + intros x Hx. apply Hin. apply (H1 x Hx).
    + intros x Hx. apply evictable_b_ext. apply I3; auto.
  - (* the offered gids are distinct: they are distinct keys of one NoDup guard table *)
    assert (HI2 : Inv (set_pc s2 a (PInCb sh k n (map (fun x0 => fst (fst x0)) l)))) by (eapply step_inv; eauto).
    assert (Hk : NoDup (map okey l)) by (rewrite I1; apply H2; auto).
    apply (NoDup_map_transfer okey ogid l Hk).
    intros [[g1 x1] v1] [[g2 x2] v2] Hl1 Hl2 Eg. cbn in Eg. subst g2. cbn.
    destruct (I2 g1 x1 v1 Hl1) as (G1 & _). destruct (I2 g1 x2 v2 Hl2) as (G2 & _).
    apply In_aget in G1; [|apply (inv_nd_g _ HI2)]. apply In_aget in G2; [|apply (inv_nd_g _ HI2)].
    cbn in G1, G2. congruence.
  - intros ->. discriminate.
  - intros g Hg. apply in_map_iff in Hg as ([[g0 k0] v] & Eg & Hl). cbn in Eg. subst g0.
    destruct (I2 g k0 v Hl) as (Hg & Hge & _). split; auto. cbn. apply (in_map fst) in Hg. auto.
  - intros g Hg. cbn. apply keys_aget in Hg as [k0 Hg]. apply aget_In in Hg. apply I8 in Hg.
    apply (in_map fst) in Hg. auto.
Qed.

(* ------------------------------------------------------------------ *)
(* the three phases of a cooperative round *)

Lemma steps_app c s l1 l2 s' : steps c s (l1 ++ l2) s' <-> exists s1, steps c s l1 s1 /\ steps c s1 l2 s'.
Proof.
  revert s. induction l1 as [|x t IH]; intros s; cbn.
  - split; [intros H; exists s; split; [constructor|auto]|intros (s1 & H1 & H2); inv H1; auto].
  - split.
    + intros H. inv H. apply IH in H5 as (s1 & H1 & H2). exists s1. split; auto. econstructor; eauto.
    + intros (s1 & H1 & H2). inv H1. econstructor; eauto. apply IH. eauto.
Qed.

Definition valueless_guard (s : state) (g : gid) : Prop :=
  exists k e, aget g (s_guards s) = Some k /\ aget k (s_ents s) = Some e /\ e_val e = None.

Lemma removes_effect c gs : forall s s',
  Inv s -> steps c s (map (fun g => LGuardOp g GRemove) gs) s' ->
  Inv s' /\ evictable_n s' = evictable_n s /\ akeys (s_ents s') = akeys (s_ents s) /\
  s_guards s' = s_guards s /\ s_ops s' = s_ops s /\
  (forall g, valueless_guard s g -> valueless_guard s' g) /\
  (forall g, In g gs -> valueless_guard s' g).
Proof.
  induction gs as [|g rest IH]; intros s s' HI H; cbn in H.
  - inv H. split; [auto|]. repeat split; auto. intros g [].
  - inv H. pose proof (step_inv c s _ _ _ HI H3) as HI1.
    destruct (gop_remove_counts c s g s'0 o HI H3) as (E1 & E2 & E3 & E4 & E5 & E6).
    destruct (IH s'0 s' HI1 H5) as (J0 & J1 & J2 & J3 & J4 & J5 & J6).
    assert (V1 : forall g0, valueless_guard s g0 -> valueless_guard s'0 g0).
    { intros g0 (k0 & e0 & G1 & G2 & G3). destruct (E5 g0 k0 G1 e0 G2 G3) as (e1 & G4 & G5).
      exists k0, e1. rewrite E3. auto. }
    split; [exact J0|]. split; [congruence|]. split; [congruence|]. split; [congruence|]. split; [congruence|].
    split; [intros g0 Hv; apply J5; apply V1; auto|].
    intros g0 [<-|Hin]; [|apply J6; auto].
    apply J5. destruct E6 as (k0 & e0 & G1 & G2 & G3). exists k0, e0. rewrite E3. auto.
Qed.

Lemma begin_unlock_valueless c s g : valueless_guard s g -> begin_unlock c s g = s.
Proof.
  intros (k & e & Hg & He & Hv). unfold begin_unlock. rewrite Hg, He, Hv. destruct (c_lru c); auto.
Qed.

Lemma cbreturn_hold_effect c s a sh k n gs s' ob :
  aget a (s_ops s) = Some (PInCb sh k n gs) -> (forall g, In g gs -> valueless_guard s g) -> gs <> [] ->
  step c s (LCbReturn a CbOk true) = ROk s' ob ->
  s' = set_pc s a (PDrops gs (AReenter sh k n)).
Proof.
  intros Ha Hv Hne H. cbn in H. unfold do_cbreturn in H. rewrite Ha in H.
  destruct gs as [|g rest]; [congruence|]. destruct (all_live s (g :: rest) && nodup_nat (g :: rest))%bool; inv H.
  rewrite begin_unlock_valueless; auto. apply Hv. left; auto.
Qed.

Lemma drops_effect c a o gs : forall s s' af,
  Inv s -> aget a (s_ops s) = Some (PDrops gs af) -> NoDup gs -> gs <> [] ->
  (forall g, In g gs -> valueless_guard s g) ->
  steps c s (repeat (LResume a o) (length gs)) s' ->
  evictable_n s' = evictable_n s /\ length (s_ents s') <= length (s_ents s) /\
  match af with
  | AReenter sh k lim => aget a (s_ops s') = Some (PEnter sh k (Some lim))
  | _ => aget a (s_ops s') = None
  end.
Proof.
  induction gs as [|g rest IH]; intros s s' af HI Ha Hnd Hne Hv H; [congruence|].
  cbn in H. inv H.
  destruct (Hv g (or_introl eq_refl)) as (k & e & Hg & He & Hval).
  destruct (drop_valueless_effect c s a g rest af o s'0 o0 k e HI Ha Hg He Hval H3)
    as (s1 & Hu & D1 & D2 & D3 & D4 & D5 & D6).
  pose proof (step_inv c s _ _ _ HI H3) as HI1.
  inversion Hnd as [|? ? Hng Hnd']; subst.
  destruct rest as [|g' rest'].
  - cbn in H5. inv H5. destruct af; subst; cbn; rewrite ?aget_aset_eq, ?aget_adel_eq; repeat split; auto.
  - (* the remaining guards are still valueless guards in s1 *)
    assert (Hv1 : forall g0, In g0 (g' :: rest') -> valueless_guard s1 g0).
    { intros g0 Hin. destruct (Hv g0 (or_intror Hin)) as (k0 & e0 & G1 & G2 & G3).
      assert (g0 <> g) by (intros ->; tauto).
      assert (k0 <> k).
      { intros ->. pose proof (guards_unique_key s HI) as U.
        assert (g0 = g); [|congruence].
        destruct (Inv_guard_present s g0 k HI G1) as (ea & Ea & Oa).
        destruct (Inv_guard_present s g k HI Hg) as (eb & Eb & Ob). congruence. }
      exists k0, e0. rewrite D3, aget_adel_neq, D5; auto. }
    rewrite (begin_unlock_valueless c s1 g') in D6 by (apply Hv1; left; auto). subst s'0.
    assert (Ha1 : aget a (s_ops (set_pc s1 a (PDrops (g' :: rest') af))) = Some (PDrops (g' :: rest') af))
      by (cbn; apply aget_aset_eq).
    assert (Hv2 : forall g0, In g0 (g' :: rest') -> valueless_guard (set_pc s1 a (PDrops (g' :: rest') af)) g0)
      by (intros g0 Hin; apply Hv1; auto).
    destruct (IH _ s' af HI1 Ha1 Hnd' ltac:(discriminate) Hv2 H5) as (K1 & K2 & K3).
    cbn [s_ents set_pc with_ops evictable_n] in *. unfold evictable_n in *. cbn [s_ents set_pc with_ops] in *.
    repeat split; auto; lia.
Qed.

(* A round of eviction with a cooperative callback (it removes the value of every guard it is given and
   returns Ok, dropping the guards): the number of evictable entries goes down by the number of guards
   offered (at least one), the map does not grow, and the call is back at its eviction step. *)
Theorem coop_round_progress c s a sh k n o s1 l o' s' :
  Inv s -> aget a (s_ops s) = Some (PEnter sh k (Some n)) ->
  step c s (LResume a o) = ROk s1 (OOffered l) ->
  steps c s1 (map (fun g => LGuardOp g GRemove) (map ogid l) ++ [LCbReturn a CbOk true]
              ++ repeat (LResume a o') (length l)) s' ->
  evictable_n s' + length l = evictable_n s /\ 1 <= length l /\
  length (s_ents s') <= length (s_ents s) /\
  aget a (s_ops s') = Some (PEnter sh k (Some n)).
Proof.
  intros HI Ha H0 Hs.
  destruct (offering_effect c s a sh k n o s1 l HI Ha H0) as (O1 & O2 & O3 & O4 & O5 & O6 & O7).
  pose proof (step_inv c s _ _ _ HI H0) as HI1.
  apply steps_app in Hs as (s2 & Hs1 & Hs). apply steps_app in Hs as (s3 & Hs2 & Hs3).
  destruct (removes_effect c (map ogid l) s1 s2 HI1 Hs1) as (HI2 & R1 & R2 & R3 & R4 & R5 & R6).
  inversion Hs2 as [|? ? s3' o0 ? ? H4 Hnil]; subst. inversion Hnil; subst.
  assert (Ha2 : aget a (s_ops s2) = Some (PInCb sh k n (map ogid l))) by (rewrite R4, O3; apply aget_aset_eq).
  assert (Hne : map ogid l <> []) by (destruct l; [congruence|discriminate]).
  pose proof (cbreturn_hold_effect c s2 a sh k n (map ogid l) s3 o0 Ha2 R6 Hne H4) as ->.
  pose proof (step_inv c s2 _ _ _ HI2 H4) as HI3.
  assert (Ha3 : aget a (s_ops (set_pc s2 a (PDrops (map ogid l) (AReenter sh k n)))) = Some (PDrops (map ogid l) (AReenter sh k n)))
    by (cbn; apply aget_aset_eq).
  assert (Hlen : length (map ogid l) = length l) by apply map_length.
  rewrite <- Hlen in Hs3.
  destruct (drops_effect c a o' (map ogid l) _ s' (AReenter sh k n) HI3 Ha3 O4 Hne
              ltac:(intros g Hg; apply R6; auto) Hs3) as (D1 & D2 & D3).
  unfold evictable_n in *. cbn [s_ents set_pc with_ops] in *.
  assert (L1 : 1 <= length l) by (destruct l; [congruence|cbn; lia]).
  assert (L2 : length (s_ents s2) = length (s_ents s)).
  { rewrite <- !length_akeys. congruence. }
  repeat split; auto; lia.
Qed.

(* the eviction loop with a cooperative callback: at most as many rounds as there are evictable entries *)
Inductive coop_rounds (c : cfg) (a : aid) : state -> nat -> state -> Prop :=
| cr_done s : coop_rounds c a s 0 s
| cr_round s o s1 l o' s' m s'' :
    step c s (LResume a o) = ROk s1 (OOffered l) ->
    steps c s1 (map (fun g => LGuardOp g GRemove) (map ogid l) ++ [LCbReturn a CbOk true]
                ++ repeat (LResume a o') (length l)) s' ->
    coop_rounds c a s' m s'' ->
    coop_rounds c a s (S m) s''.

Theorem coop_rounds_bounded c a sh k n s m s'' :
  Inv s -> aget a (s_ops s) = Some (PEnter sh k (Some n)) -> coop_rounds c a s m s'' ->
  m + evictable_n s'' <= evictable_n s /\ length (s_ents s'') <= length (s_ents s) /\
  aget a (s_ops s'') = Some (PEnter sh k (Some n)) /\ Inv s''.
Proof.
  intros HI Ha H. induction H as [s|s o s1 l o' s' m s'' H0 Hs Hr IH].
  - split; [lia|]. split; [lia|]. split; auto.
  - destruct (coop_round_progress c s a sh k n o s1 l o' s' HI Ha H0 Hs) as (P1 & P2 & P3 & P4).
    assert (HI' : Inv s') by (eapply steps_inv; [eapply step_inv; eauto|eauto]).
    destruct (IH HI' P4) as (Q1 & Q2 & Q3 & Q4). split; [lia|]. split; [lia|]. split; auto.
Qed.
