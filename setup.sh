#!/bin/sh
# Build everything the checks need, offline, from files on disk only.
set -e
cd "$(dirname "$0")"
export CARGO_NET_OFFLINE=true
mkdir -p build evidence replays
( cd coq && coq_makefile -f _CoqProject -o Makefile >/dev/null && timeout 3000 make -j16 )
./ocaml/build.sh
./ocaml/build_lin.sh
( cd harness && cargo build --release --offline 2>&1 | tail -3 )
( cd smoke && cargo build --release --offline 2>&1 | tail -1 )
echo setup done
