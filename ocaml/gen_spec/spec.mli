
val negb : bool -> bool

type nat =
| O
| S of nat

type ('a, 'b) sum =
| Inl of 'a
| Inr of 'b

val fst : ('a1 * 'a2) -> 'a1

val snd : ('a1 * 'a2) -> 'a2

val length : 'a1 list -> nat

val app : 'a1 list -> 'a1 list -> 'a1 list

type comparison =
| Eq
| Lt
| Gt

val compOpp : comparison -> comparison

val add : nat -> nat -> nat

val sub : nat -> nat -> nat

module Nat :
 sig
  val eqb : nat -> nat -> bool

  val leb : nat -> nat -> bool

  val ltb : nat -> nat -> bool
 end

val map : ('a1 -> 'a2) -> 'a1 list -> 'a2 list

val existsb : ('a1 -> bool) -> 'a1 list -> bool

val forallb : ('a1 -> bool) -> 'a1 list -> bool

val filter : ('a1 -> bool) -> 'a1 list -> 'a1 list

type positive =
| XI of positive
| XO of positive
| XH

type z =
| Z0
| Zpos of positive
| Zneg of positive

module Pos :
 sig
  val succ : positive -> positive

  val add : positive -> positive -> positive

  val add_carry : positive -> positive -> positive

  val pred_double : positive -> positive

  val mul : positive -> positive -> positive

  val iter : ('a1 -> 'a1) -> 'a1 -> positive -> 'a1

  val compare_cont : comparison -> positive -> positive -> comparison

  val compare : positive -> positive -> comparison

  val eqb : positive -> positive -> bool

  val iter_op : ('a1 -> 'a1 -> 'a1) -> positive -> 'a1 -> 'a1

  val to_nat : positive -> nat

  val of_succ_nat : nat -> positive
 end

module Z :
 sig
  val double : z -> z

  val succ_double : z -> z

  val pred_double : z -> z

  val pos_sub : positive -> positive -> z

  val add : z -> z -> z

  val opp : z -> z

  val sub : z -> z -> z

  val mul : z -> z -> z

  val pow_pos : z -> positive -> z

  val pow : z -> z -> z

  val compare : z -> z -> comparison

  val leb : z -> z -> bool

  val ltb : z -> z -> bool

  val eqb : z -> z -> bool

  val to_nat : z -> nat

  val of_nat : nat -> z
 end

val aget : nat -> (nat * 'a1) list -> 'a1 option

val aset : nat -> 'a1 -> (nat * 'a1) list -> (nat * 'a1) list

val adel : nat -> (nat * 'a1) list -> (nat * 'a1) list

val akeys : (nat * 'a1) list -> nat list

val amem : nat -> (nat * 'a1) list -> bool

val apromote : nat -> (nat * 'a1) list -> (nat * 'a1) list

val mem_nat : nat -> nat list -> bool

val remove_nat : nat -> nat list -> nat list

val nodup_nat : nat list -> bool

val is_perm_of : nat list -> nat list -> bool

type key = nat

type aid = nat

type gid = nat

type own =
| OwnG of gid
| OwnW of aid

type entry = { e_val : (z * z) option; e_owner : own option;
               e_queue : aid list; e_repl : nat }

val set_val : entry -> (z * z) option -> entry

val set_owner : entry -> own option -> entry

val set_queue : entry -> aid list -> entry

val set_repl : entry -> nat -> entry

val mx_release : entry -> entry

val mx_cancel : entry -> aid -> entry

val own_is_waiter : own option -> aid -> bool

type shape =
| ShBlocking
| ShAsync
| ShTry
| ShTryAsync

val sh_is_try : shape -> bool

val sh_is_async : shape -> bool

type obs =
| ONothing
| OGuard of gid * key * z option
| OTryFail
| OErr
| OPanicked
| OUnit
| OCancelled
| OOffered of ((gid * key) * z) list
| OExpired of ((gid * key) * z) list
| OStream of key list
| OItem of gid * key * z
| OPending
| OEnd
| OCount of nat
| OKeys of key list
| OVal of z option
| OExists
| OConsumed of (key * z) list

type sub0 =
| SInit
| SQueued
| SUnlocking of gid

type after =
| ADoneUnit
| ADoneErr
| ADonePanicked
| AReenter of shape * key * nat

val after_obs : after -> obs

type pc =
| PEnter of shape * key * nat option
| PInCb of shape * key * nat * gid list
| PKeyTry of shape * key
| PKeyWait of shape * key
| PQueued of shape * key
| PCleanup of shape * key
| PCancel of key
| PDrops of gid list * after
| PScan of z
| PStreamEnter
| PStream of (key * sub0) list
| PStreamDrop of (key * sub0) list
| PCount
| PKeys

type call =
| CLock of shape * key * nat option
| CDrop of gid
| CExpire of z
| CStream
| CCount
| CKeys

type gop =
| GInsert of z
| GRemove
| GSet of z
| GTryInsert of z
| GGetOrInsert of z
| GRead
| GClosurePanic

type cbres =
| CbOk
| CbErr
| CbPanic

type label =
| LStart of aid * call
| LResume of aid * key list
| LSub of aid * key * key list
| LPollEnd of aid
| LCancel of aid
| LGuardOp of gid * gop
| LCbReturn of aid * cbres * bool
| LTick of z
| LConsume of key list

type cfg = bool
  (* singleton inductive, whose constructor was mkCfg *)

val c_lru : cfg -> bool

type state = { s_ents : (key * entry) list; s_guards : (gid * key) list;
               s_ops : (aid * pc) list; s_clock : z; s_gid : gid }

val init : state

type result =
| ROk of state * obs
| RInvalid
| RPanic of nat

val site_unlock_absent : nat

val site_cleanup_locked : nat

val site_evict_none : nat

val site_evict_locked : nat

val site_consume_shared : nat

val site_consume_none : nat

val site_inv2 : nat

val site_cancel_absent : nat

val with_ents : state -> (key * entry) list -> state

val with_guards : state -> (gid * key) list -> state

val with_ops : state -> (aid * pc) list -> state

val with_clock : state -> z -> state

val with_gid : state -> gid -> state

val set_pc : state -> aid -> pc -> state

val fin : state -> aid -> state

val val_of : entry -> z option

val inv2_ok : (key * entry) list -> bool

val iter_order : cfg -> state -> key list -> key list option

val promote_if_lru : cfg -> key -> (key * entry) list -> (nat * entry) list

val stamp_now : cfg -> state -> z

val new_guard : state -> key -> state * gid

val do_lookup : cfg -> state -> aid -> shape -> key -> result

val evict_scan :
  (key * entry) list -> key list -> nat -> (key list option, nat) sum

val lock_keys : state -> key list -> state * ((gid * key) * z) list

val do_enter :
  cfg -> state -> aid -> shape -> key -> nat option -> key list -> result

val do_key_try : cfg -> state -> aid -> shape -> key -> result

val do_key_wait : cfg -> state -> aid -> shape -> key -> result

val do_queued : cfg -> state -> aid -> shape -> key -> result

val cleanup_ents :
  (key * entry) list -> key -> ((key * entry) list option, nat) sum

val do_cleanup : cfg -> state -> aid -> key -> result

val cancel_ents :
  cfg -> (key * entry) list -> aid -> key -> ((key * entry) list option, nat)
  sum

val begin_unlock : cfg -> state -> gid -> state

val unlock_cs : cfg -> state -> gid -> (state option, nat) sum

val do_drops : cfg -> state -> aid -> gid list -> after -> result

val pc_drops : pc -> gid -> bool

val guard_busy : state -> gid -> bool

val guard_live : state -> gid -> bool

val expired_keys : (key * entry) list -> key list -> z -> key list

val do_scan : cfg -> state -> aid -> z -> key list -> result

val instant_floor : z

val cutoff_of : z -> z -> z option

val clone_all : (key * entry) list -> key list -> (key * entry) list

val do_stream_enter : cfg -> state -> aid -> key list -> result

val do_sub_poll : cfg -> state -> aid -> (key * sub0) list -> key -> result

val do_sub_drop : cfg -> state -> aid -> (key * sub0) list -> key -> result

val do_guard_op : cfg -> state -> gid -> gop -> result

val consume_list : (key * entry) list -> key list -> ((key * z) list, nat) sum

val check_inv2_after : result -> result

val cs : state -> result -> result

val do_resume : cfg -> state -> aid -> key list -> result

val do_sub : cfg -> state -> aid -> key -> result

val lim_ok : nat option -> bool

val do_start : cfg -> state -> aid -> call -> result

val do_cancel : cfg -> state -> aid -> result

val all_live : state -> gid list -> bool

val do_cbreturn : cfg -> state -> aid -> cbres -> bool -> result

val do_pollend : cfg -> state -> aid -> result

val do_consume : cfg -> state -> key list -> result

val step : cfg -> state -> label -> result

val spec_gop : gop -> z option -> z option * obs

val then_ : result -> (state -> result) -> result

val seq_lock : cfg -> state -> aid -> shape -> key -> result

val seq_drop : cfg -> state -> aid -> gid -> result

type spec = { sp_val : (key -> z option); sp_guards : (gid * key) list;
              sp_next : gid }

val sp_locked : spec -> key -> bool

val upd : (key -> z option) -> key -> z option -> key -> z option

type scall =
| SLock of shape * key
| SGop of gid * gop
| SDrop of gid
| SCount
| SKeys

val spec_call : spec -> scall -> (spec * obs option) option

val seq_count : cfg -> state -> aid -> result

val seq_keys : cfg -> state -> aid -> result

val seq_call : cfg -> state -> aid -> scall -> result

val spec_init : spec
