(* Executable model of the locking protocol of smessmer/lockable
   (src/lockable_map_impl.rs, guard.rs, utils/primary_arc.rs, the two MapLike
   back-ends and the LRU config).  Definitions only; no proofs in this file.

   A step of the model is one atomic segment of the code: the code between two
   points at which another thread/task can observe shared state.  Those points
   are the verif_hooks sites (before taking the global `entries` lock, before a
   try_lock / first poll of a per-key mutex outside the global lock), a blocked
   wait on a per-key mutex, and the places where user code runs (eviction
   callback).  See DESIGN.md section 2 and 3. *)
From Coq Require Import List Arith ZArith Bool.
From LK Require Import AList.
Import ListNotations.

Definition key := nat.
Definition aid := nat.   (* an agent = one in-flight library call (or a live stream) *)
Definition gid := nat.   (* a Guard object *)

(* ------------------------------------------------------------------ *)
(* Per-key mutex (tokio::sync::Mutex = FIFO semaphore with one permit) *)

Inductive own := OwnG (g : gid)   (* held by Guard g *)
               | OwnW (a : aid).  (* permit handed to waiter a, which has not been polled since *)

Record entry := mkE {
  e_val   : option (Z * Z);   (* EntryValue.value: (value, last_unlocked stamp) *)
  e_owner : option own;
  e_queue : list aid;         (* FIFO of waiters *)
  e_repl  : nat               (* PrimaryArc::num_replicas() *)
}.

Definition set_val (e : entry) v := mkE v (e_owner e) (e_queue e) (e_repl e).
Definition set_owner (e : entry) o := mkE (e_val e) o (e_queue e) (e_repl e).
Definition set_queue (e : entry) q := mkE (e_val e) (e_owner e) q (e_repl e).
Definition set_repl (e : entry) r := mkE (e_val e) (e_owner e) (e_queue e) r.

(* release of the permit: hand it to the oldest waiter, if any *)
Definition mx_release (e : entry) : entry :=
  match e_queue e with
  | [] => set_owner e None
  | a :: q => set_queue (set_owner e (Some (OwnW a))) q
  end.

(* a waiter goes away (its Acquire future is dropped) *)
Definition mx_cancel (e : entry) (a : aid) : entry :=
  match e_owner e with
  | Some (OwnW a') => if Nat.eqb a a' then mx_release e else set_queue e (remove_nat a (e_queue e))
  | _ => set_queue e (remove_nat a (e_queue e))
  end.

Definition own_is_waiter (o : option own) (a : aid) : bool :=
  match o with Some (OwnW a') => Nat.eqb a a' | _ => false end.

(* ------------------------------------------------------------------ *)
(* Calls, program counters, labels, observations *)

Inductive shape := ShBlocking | ShAsync | ShTry | ShTryAsync.

Definition sh_is_try (sh : shape) : bool :=
  match sh with ShTry | ShTryAsync => true | _ => false end.
Definition sh_is_async (sh : shape) : bool :=
  match sh with ShAsync | ShTryAsync => true | _ => false end.

Inductive obs :=
| ONothing                                   (* the agent is still running *)
| OGuard (g : gid) (k : key) (v : option Z)  (* lock call returned a guard *)
| OTryFail                                   (* try variant returned None *)
| OErr | OPanicked | OUnit | OCancelled
| OOffered (l : list (gid * key * Z))        (* eviction callback invoked with these guards *)
| OExpired (l : list (gid * key * Z))        (* lock_entries_unlocked_for_at_least result *)
| OStream (ks : list key)                    (* lock_all_entries: snapshot taken *)
| OItem (g : gid) (k : key) (v : Z)          (* stream yielded a guard *)
| OPending | OEnd                            (* poll_next returned Pending / None *)
| OCount (n : nat) | OKeys (l : list key)
| OVal (v : option Z)                        (* result of a guard operation *)
| OExists                                    (* try_insert: AlreadyExists *)
| OConsumed (l : list (key * Z)).

Inductive sub := SInit                 (* per-entry future not polled yet; owns a replica *)
               | SQueued               (* waiting in the queue / handed *)
               | SUnlocking (g : gid). (* got a valueless guard, is dropping it *)

(* what an agent does once a sequence of guard drops is finished *)
Inductive after :=
| ADoneUnit | ADoneErr | ADonePanicked
| AReenter (sh : shape) (k : key) (lim : nat).

Definition after_obs (af : after) : obs :=
  match af with
  | ADoneUnit => OUnit | ADoneErr => OErr | ADonePanicked => OPanicked
  | AReenter _ _ _ => ONothing
  end.

Inductive pc :=
| PEnter (sh : shape) (k : key) (lim : option nat)       (* before the evict/lookup critical section *)
| PInCb (sh : shape) (k : key) (lim : nat) (offered : list gid)  (* eviction callback running *)
| PKeyTry (sh : shape) (k : key)     (* holds a replica; before try_lock_owned *)
| PKeyWait (sh : shape) (k : key)    (* holds a replica; before the first poll of lock_owned *)
| PQueued (sh : shape) (k : key)     (* holds a replica; queued or handed *)
| PCleanup (sh : shape) (k : key)    (* holds a replica; failed try, before the cleanup critical section *)
| PCancel (k : key)                  (* pending wait is being dropped; before the cancel critical section *)
| PDrops (gs : list gid) (af : after)  (* dropping guards gs in order; on_unlock of the head has run *)
| PScan (cutoff : Z)                 (* expiry scan, before its critical section *)
| PStreamEnter
| PStream (subs : list (key * sub))
| PStreamDrop (subs : list (key * sub))
| PCount | PKeys.

Inductive call :=
| CLock (sh : shape) (k : key) (lim : option nat)
| CDrop (g : gid)
| CExpire (d : Z)
| CStream
| CCount | CKeys.

Inductive gop :=
| GInsert (v : Z) | GRemove | GSet (v : Z) | GTryInsert (v : Z) | GGetOrInsert (v : Z)
| GRead | GClosurePanic.

Inductive cbres := CbOk | CbErr | CbPanic.

Inductive label :=
| LStart (a : aid) (c : call)             (* client starts a call; runs up to its first scheduling point *)
| LResume (a : aid) (o : list key)        (* run a's next atomic segment; o = HashMap iteration order oracle *)
| LSub (a : aid) (k : key) (o : list key) (* run the next segment of stream a's per-entry future for k *)
| LPollEnd (a : aid)                      (* poll_next of stream a returned Pending / None *)
| LCancel (a : aid)                       (* client drops a pending future / a stream *)
| LGuardOp (g : gid) (op : gop)
| LCbReturn (a : aid) (r : cbres) (hold : bool)  (* callback returns; hold = it still owns the offered guards *)
| LTick (d : Z)
| LConsume (o : list key).

Record cfg := mkCfg { c_lru : bool }.

Record state := mkS {
  s_ents   : list (key * entry);   (* iteration order: least recently used first for the LRU cache *)
  s_guards : list (gid * key);
  s_ops    : list (aid * pc);
  s_clock  : Z;
  s_gid    : gid
}.

Definition init : state := mkS [] [] [] 0%Z 0.

Inductive result :=
| ROk (s : state) (o : obs)
| RInvalid               (* not something a client / scheduler can do in this state *)
| RPanic (site : nat).   (* the library would panic *)

(* panic sites *)
Definition site_unlock_absent := 2.     (* lockable_map_impl.rs: "This entry must exist ..." *)
Definition site_cleanup_locked := 3.    (* "We're the only one who has access to this mutex. Locking can't fail." *)
Definition site_evict_none := 4.        (* assert!(num_replicas() > 1) for an unlocked valueless entry *)
Definition site_evict_locked := 5.      (* assert!(num_replicas() > 1) for a locked entry *)
Definition site_consume_shared := 6.    (* try_unwrap failed *)
Definition site_consume_none := 7.      (* "Invariant 2 violated ..." in into_entries_unordered *)
Definition site_inv2 := 8.              (* slow_assertions: assert_invariant *)
Definition site_cancel_absent := 9.

Definition with_ents (s : state) e := mkS e (s_guards s) (s_ops s) (s_clock s) (s_gid s).
Definition with_guards (s : state) g := mkS (s_ents s) g (s_ops s) (s_clock s) (s_gid s).
Definition with_ops (s : state) o := mkS (s_ents s) (s_guards s) o (s_clock s) (s_gid s).
Definition with_clock (s : state) c := mkS (s_ents s) (s_guards s) (s_ops s) c (s_gid s).
Definition with_gid (s : state) g := mkS (s_ents s) (s_guards s) (s_ops s) (s_clock s) g.

Definition set_pc (s : state) (a : aid) (p : pc) : state := with_ops s (aset a p (s_ops s)).
Definition fin (s : state) (a : aid) : state := with_ops s (adel a (s_ops s)).

Definition val_of (e : entry) : option Z :=
  match e_val e with Some (v, _) => Some v | None => None end.

(* slow_assertions: every entry without replicas must be unlocked and carry a value *)
Definition inv2_ok (ents : list (key * entry)) : bool :=
  forallb (fun ke =>
    let e := snd ke in
    if Nat.eqb (e_repl e) 0
    then (match e_owner e with None => true | Some _ => false end)
         && (match e_val e with Some _ => true | None => false end)
    else true) ents.

(* iteration order of the map at this instant *)
Definition iter_order (c : cfg) (s : state) (o : list key) : option (list key) :=
  if c_lru c then Some (akeys (s_ents s))
  else if is_perm_of o (akeys (s_ents s)) then Some o else None.

Definition promote_if_lru (c : cfg) (k : key) (ents : list (key * entry)) :=
  if c_lru c then apromote k ents else ents.

Definition stamp_now (c : cfg) (s : state) : Z := if c_lru c then s_clock s else 0%Z.

(* ------------------------------------------------------------------ *)
(* Creating a Guard for key k (the per-key mutex has just been acquired) *)

Definition new_guard (s : state) (k : key) : state * gid :=
  let g := s_gid s in
  (with_gid (with_guards s ((g, k) :: s_guards s)) (S g), g).

(* ------------------------------------------------------------------ *)
(* lookup critical section: get_or_insert_none + clone (+ pre-lock if inserted) *)

Definition do_lookup (c : cfg) (s : state) (a : aid) (sh : shape) (k : key) : result :=
  match aget k (s_ents s) with
  | Some e =>
      let ents := aset k (set_repl e (S (e_repl e))) (promote_if_lru c k (s_ents s)) in
      let s1 := with_ents s ents in
      ROk (set_pc s1 a (if sh_is_try sh then PKeyTry sh k else PKeyWait sh k)) ONothing
  | None =>
      let (s1, g) := new_guard s k in
      let ents := aset k (mkE None (Some (OwnG g)) [] 1) (s_ents s1) in
      ROk (fin (with_ents s1 ents) a) (OGuard g k None)
  end.

(* eviction scan (_lock_up_to_n_first_unlocked_entries): which keys get locked; None = assertion failure *)
Fixpoint evict_scan (ents : list (key * entry)) (order : list key) (n : nat) : option (list key) + nat :=
  match n with
  | 0 => inl (Some [])
  | S n' =>
    match order with
    | [] => inl (Some [])
    | k :: rest =>
      match aget k ents with
      | None => inl None
      | Some e =>
        match e_owner e, e_val e with
        | None, Some _ =>
            match evict_scan ents rest n' with
            | inl (Some l) => inl (Some (k :: l))
            | r => r
            end
        | None, None => if Nat.ltb 0 (e_repl e) then evict_scan ents rest n else inr site_evict_none
        | Some _, _ => if Nat.ltb 0 (e_repl e) then evict_scan ents rest n else inr site_evict_locked
        end
      end
    end
  end.

(* lock the given unlocked entries with fresh guards, in order *)
Fixpoint lock_keys (s : state) (ks : list key) : state * list (gid * key * Z) :=
  match ks with
  | [] => (s, [])
  | k :: rest =>
    match aget k (s_ents s) with
    | Some e =>
      let (s1, g) := new_guard s k in
      let e' := set_repl (set_owner e (Some (OwnG g))) (S (e_repl e)) in
      let s2 := with_ents s1 (aset k e' (s_ents s1)) in
      let (s3, l) := lock_keys s2 rest in
      (s3, (g, k, match val_of e with Some v => v | None => 0%Z end) :: l)
    | None => lock_keys s rest
    end
  end.

Definition do_enter (c : cfg) (s : state) (a : aid) (sh : shape) (k : key) (lim : option nat) (o : list key) : result :=
  match lim with
  | None => do_lookup c s a sh k
  | Some n =>
    let over := length (s_ents s) - (n - 1) in
    match over with
    | 0 => do_lookup c s a sh k
    | _ =>
      match iter_order c s o with
      | None => RInvalid
      | Some order =>
        match evict_scan (s_ents s) order over with
        | inr site => RPanic site
        | inl None => RInvalid
        | inl (Some []) => do_lookup c s a sh k
        | inl (Some ks) =>
          let (s1, offered) := lock_keys s ks in
          ROk (set_pc s1 a (PInCb sh k n (map (fun x => fst (fst x)) offered))) (OOffered offered)
        end
      end
    end
  end.

(* ------------------------------------------------------------------ *)
(* per-key try / wait outside the global lock *)

Definition do_key_try (c : cfg) (s : state) (a : aid) (sh : shape) (k : key) : result :=
  match aget k (s_ents s) with
  | None => RInvalid
  | Some e =>
    match e_owner e with
    | None =>
      let (s1, g) := new_guard s k in
      let s2 := with_ents s1 (aset k (set_owner e (Some (OwnG g))) (s_ents s1)) in
      ROk (fin s2 a) (OGuard g k (val_of e))
    | Some _ => ROk (set_pc s a (PCleanup sh k)) ONothing
    end
  end.

Definition do_key_wait (c : cfg) (s : state) (a : aid) (sh : shape) (k : key) : result :=
  match aget k (s_ents s) with
  | None => RInvalid
  | Some e =>
    match e_owner e with
    | None =>
      let (s1, g) := new_guard s k in
      let s2 := with_ents s1 (aset k (set_owner e (Some (OwnG g))) (s_ents s1)) in
      ROk (fin s2 a) (OGuard g k (val_of e))
    | Some _ =>
      let s1 := with_ents s (aset k (set_queue e (e_queue e ++ [a])) (s_ents s)) in
      ROk (set_pc s1 a (PQueued sh k)) ONothing
    end
  end.

(* re-poll of a waiter: succeeds only if the permit was handed to it *)
Definition do_queued (c : cfg) (s : state) (a : aid) (sh : shape) (k : key) : result :=
  match aget k (s_ents s) with
  | None => RInvalid
  | Some e =>
    if own_is_waiter (e_owner e) a then
      let (s1, g) := new_guard s k in
      let s2 := with_ents s1 (aset k (set_owner e (Some (OwnG g))) (s_ents s1)) in
      ROk (fin s2 a) (OGuard g k (val_of e))
    else RInvalid   (* blocked *)
  end.

(* _delete_if_unlocked_none_and_nobody_waiting_for_lock, then the replica is dropped *)
Definition cleanup_ents (ents : list (key * entry)) (k : key) : option (list (key * entry)) + nat :=
  match aget k ents with
  | None => inl None
  | Some e =>
    if Nat.eqb (e_repl e) 1 then
      match e_owner e with
      | Some _ => inr site_cleanup_locked
      | None =>
        match e_val e with
        | None => inl (Some (adel k ents))
        | Some _ => inl (Some (aset k (set_repl e 0) ents))
        end
      end
    else inl (Some (aset k (set_repl e (e_repl e - 1)) ents))
  end.

Definition do_cleanup (c : cfg) (s : state) (a : aid) (k : key) : result :=
  match cleanup_ents (s_ents s) k with
  | inr site => RPanic site
  | inl None => RInvalid
  | inl (Some ents) => ROk (fin (with_ents s ents) a) OTryFail
  end.

(* cancel critical section: drop the waiting future (dequeue / pass the permit on, replica - 1)
   under the global lock, then clean up a valueless entry nobody references *)
Definition cancel_ents (c : cfg) (ents : list (key * entry)) (a : aid) (k : key) : option (list (key * entry)) + nat :=
  match aget k ents with
  | None => inr site_cancel_absent
  | Some e =>
    let e1 := set_repl (mx_cancel e a) (e_repl e - 1) in
    let ents1 := aset k e1 ents in   (* the cleanup uses MapLike::peek: no LRU promotion *)
    if Nat.eqb (e_repl e1) 0 then
      match e_owner e1 with
      | Some _ => inr site_cleanup_locked
      | None =>
        match e_val e1 with
        | None => inl (Some (adel k ents1))
        | Some _ => inl (Some ents1)
        end
      end
    else inl (Some ents1)
  end.

(* ------------------------------------------------------------------ *)
(* unlock *)

(* on_unlock: the LRU cache stamps a valued entry with the current time *)
Definition begin_unlock (c : cfg) (s : state) (g : gid) : state :=
  if c_lru c then
    match aget g (s_guards s) with
    | None => s
    | Some k =>
      match aget k (s_ents s) with
      | Some e =>
        match e_val e with
        | Some (v, _) => with_ents s (aset k (set_val e (Some (v, s_clock s))) (s_ents s))
        | None => s
        end
      | None => s
      end
    end
  else s.

(* the critical section of _unlock *)
Definition unlock_cs (c : cfg) (s : state) (g : gid) : option state + nat :=
  match aget g (s_guards s) with
  | None => inl None
  | Some k =>
    let guards := adel g (s_guards s) in
    match aget k (s_ents s) with
    | None => inr site_unlock_absent
    | Some e =>
      let e1 := set_repl (mx_release e) (e_repl e - 1) in
      let ents1 := aset k e1 (s_ents s) in
      match e_val e with
      | Some _ => inl (Some (with_guards (with_ents s ents1) guards))
      | None =>
        let ents2 := promote_if_lru c k ents1 in
        if Nat.eqb (e_repl e1) 0
        then inl (Some (with_guards (with_ents s (adel k ents2)) guards))
        else inl (Some (with_guards (with_ents s ents2) guards))
      end
    end
  end.

Definition do_drops (c : cfg) (s : state) (a : aid) (gs : list gid) (af : after) : result :=
  match gs with
  | [] => RInvalid
  | g :: rest =>
    match unlock_cs c s g with
    | inr site => RPanic site
    | inl None => RInvalid
    | inl (Some s1) =>
      match rest with
      | g' :: _ => ROk (set_pc (begin_unlock c s1 g') a (PDrops rest af)) ONothing
      | [] =>
        match af with
        | AReenter sh k lim => ROk (set_pc s1 a (PEnter sh k (Some lim))) ONothing
        | _ => ROk (fin s1 a) (after_obs af)
        end
      end
    end
  end.

(* is guard g currently being dropped by some agent? *)
Definition pc_drops (p : pc) (g : gid) : bool :=
  match p with
  | PDrops gs _ => mem_nat g gs
  | PStream subs | PStreamDrop subs =>
      existsb (fun ks => match snd ks with SUnlocking g' => Nat.eqb g g' | _ => false end) subs
  | _ => false
  end.

Definition guard_busy (s : state) (g : gid) : bool :=
  existsb (fun ap => pc_drops (snd ap) g) (s_ops s).

Definition guard_live (s : state) (g : gid) : bool :=
  amem g (s_guards s) && negb (guard_busy s g).

(* ------------------------------------------------------------------ *)
(* expiry scan (lock_all_unlocked with a predicate on the raw value) *)

Definition expired_keys (ents : list (key * entry)) (order : list key) (cutoff : Z) : list key :=
  filter (fun k =>
    match aget k ents with
    | Some e =>
      match e_owner e, e_val e with
      | None, Some (_, st) => Z.leb st cutoff
      | _, _ => false
      end
    | None => false
    end) order.

Definition do_scan (c : cfg) (s : state) (a : aid) (cutoff : Z) (o : list key) : result :=
  match iter_order c s o with
  | None => RInvalid
  | Some order =>
    let (s1, l) := lock_keys s (expired_keys (s_ents s) order cutoff) in
    ROk (fin s1 a) (OExpired l)
  end.

(* Instant arithmetic: tokio::time::Instant - Duration is undefined (panics) below this floor;
   the fixed code uses checked_sub and returns nothing in that case *)
Definition instant_floor : Z := (- 2 ^ 63)%Z.
Definition cutoff_of (now d : Z) : option Z :=
  if Z.ltb (now - d) instant_floor then None else Some (now - d)%Z.

(* ------------------------------------------------------------------ *)
(* lock_all_entries *)

Fixpoint clone_all (ents : list (key * entry)) (order : list key) : list (key * entry) :=
  match order with
  | [] => ents
  | k :: rest =>
    match aget k ents with
    | Some e => clone_all (aset k (set_repl e (S (e_repl e))) ents) rest
    | None => clone_all ents rest
    end
  end.

Definition do_stream_enter (c : cfg) (s : state) (a : aid) (o : list key) : result :=
  match iter_order c s o with
  | None => RInvalid
  | Some order =>
    let s1 := with_ents s (clone_all (s_ents s) order) in
    ROk (set_pc s1 a (PStream (map (fun k => (k, SInit)) order))) (OStream order)
  end.

(* one segment of the per-entry future for k, while the stream is being polled *)
Definition do_sub_poll (c : cfg) (s : state) (a : aid) (subs : list (key * sub)) (k : key) : result :=
  match aget k subs with
  | None => RInvalid
  | Some st =>
    match aget k (s_ents s) with
    | None => RInvalid
    | Some e =>
      let acquire :=
        let (s1, g) := new_guard s k in
        let s2 := with_ents s1 (aset k (set_owner e (Some (OwnG g))) (s_ents s1)) in
        match val_of e with
        | Some v => ROk (set_pc s2 a (PStream (adel k subs))) (OItem g k v)
        | None => ROk (set_pc s2 a (PStream (aset k (SUnlocking g) subs))) ONothing
        end in
      match st with
      | SInit =>
        match e_owner e with
        | None => acquire
        | Some _ =>
          let s1 := with_ents s (aset k (set_queue e (e_queue e ++ [a])) (s_ents s)) in
          ROk (set_pc s1 a (PStream (aset k SQueued subs))) ONothing
        end
      | SQueued => if own_is_waiter (e_owner e) a then acquire else RInvalid
      | SUnlocking g =>
        match unlock_cs c s g with
        | inr site => RPanic site
        | inl None => RInvalid
        | inl (Some s1) => ROk (set_pc s1 a (PStream (adel k subs))) ONothing
        end
      end
    end
  end.

(* one segment of dropping the stream: the per-entry future for k is dropped *)
Definition do_sub_drop (c : cfg) (s : state) (a : aid) (subs : list (key * sub)) (k : key) : result :=
  match aget k subs with
  | None => RInvalid
  | Some st =>
    let finish (ents : list (key * entry)) :=
      let subs' := adel k subs in
      let s1 := with_ents s ents in
      match subs' with
      | [] => ROk (fin s1 a) OCancelled
      | _ => ROk (set_pc s1 a (PStreamDrop subs')) ONothing
      end in
    match st with
    | SInit | SQueued =>   (* PendingLock::drop, whether or not the future was ever polled *)
      match cancel_ents c (s_ents s) a k with
      | inr site => RPanic site
      | inl None => RInvalid
      | inl (Some ents) => finish ents
      end
    | SUnlocking _ => RInvalid
    end
  end.

(* ------------------------------------------------------------------ *)
(* guard operations (guard.rs) *)

Definition do_guard_op (c : cfg) (s : state) (g : gid) (op : gop) : result :=
  if negb (guard_live s g) then RInvalid else
  match aget g (s_guards s) with
  | None => RInvalid
  | Some k =>
    match aget k (s_ents s) with
    | None => RInvalid
    | Some e =>
      let put v := with_ents s (aset k (set_val e v) (s_ents s)) in
      let now := stamp_now c s in
      match op with
      | GInsert v => ROk (put (Some (v, now))) (OVal (val_of e))
      | GRemove => ROk (put None) (OVal (val_of e))
      | GSet v =>
        match e_val e with
        | Some (_, st) => ROk (put (Some (v, st))) (OVal (Some v))
        | None => ROk s (OVal None)
        end
      | GTryInsert v =>
        match e_val e with
        | Some _ => ROk s OExists
        | None => ROk (put (Some (v, now))) (OVal (Some v))
        end
      | GGetOrInsert v =>
        match e_val e with
        | Some (v0, _) => ROk s (OVal (Some v0))
        | None => ROk (put (Some (v, now))) (OVal (Some v))
        end
      | GRead => ROk s (OVal (val_of e))
      | GClosurePanic =>
        match e_val e with
        | Some (v0, _) => ROk s (OVal (Some v0))
        | None => ROk s OPanicked
        end
      end
    end
  end.

(* ------------------------------------------------------------------ *)
(* into_entries_unordered *)

Fixpoint consume_list (ents : list (key * entry)) (order : list key) : list (key * Z) + nat :=
  match order with
  | [] => inl []
  | k :: rest =>
    match aget k ents with
    | None => inl []
    | Some e =>
      if negb (Nat.eqb (e_repl e) 0) then inr site_consume_shared else
      match val_of e with
      | None => inr site_consume_none
      | Some v =>
        match consume_list ents rest with
        | inl l => inl ((k, v) :: l)
        | r => r
        end
      end
    end
  end.

(* ------------------------------------------------------------------ *)
(* the step function *)

(* does this step run (at least the start of) a critical section under the global lock? *)
Definition pc_is_cs (p : pc) : bool :=
  match p with
  | PEnter _ _ _ | PCleanup _ _ | PCancel _ | PDrops _ _ | PScan _ | PStreamEnter
  | PCount | PKeys => true
  | _ => false
  end.

Definition check_inv2_after (r : result) : result :=
  match r with
  | ROk s o => if inv2_ok (s_ents s) then r else RPanic site_inv2
  | _ => r
  end.

(* wrap a critical section with the slow_assertions check at both ends *)
Definition cs (s : state) (r : result) : result :=
  if inv2_ok (s_ents s) then check_inv2_after r else RPanic site_inv2.

Definition do_resume (c : cfg) (s : state) (a : aid) (o : list key) : result :=
  match aget a (s_ops s) with
  | None => RInvalid
  | Some p =>
    match p with
    | PEnter sh k lim => cs s (do_enter c s a sh k lim o)
    | PInCb _ _ _ _ => RInvalid
    | PKeyTry sh k => do_key_try c s a sh k
    | PKeyWait sh k => do_key_wait c s a sh k
    | PQueued sh k => do_queued c s a sh k
    | PCleanup sh k => cs s (do_cleanup c s a k)
    | PCancel k =>
      cs s (match cancel_ents c (s_ents s) a k with
            | inr site => RPanic site
            | inl None => RInvalid
            | inl (Some ents) => ROk (fin (with_ents s ents) a) OCancelled
            end)
    | PDrops gs af => cs s (do_drops c s a gs af)
    | PScan cutoff => cs s (do_scan c s a cutoff o)
    | PStreamEnter => cs s (do_stream_enter c s a o)
    | PStream _ => RInvalid
    | PStreamDrop _ => RInvalid
    | PCount => cs s (ROk (fin s a) (OCount (length (s_ents s))))
    | PKeys =>
      cs s (match iter_order c s o with
            | None => RInvalid
            | Some order => ROk (fin s a) (OKeys order)
            end)
    end
  end.

Definition do_sub (c : cfg) (s : state) (a : aid) (k : key) : result :=
  match aget a (s_ops s) with
  | Some (PStream subs) =>
      match aget k subs with
      | Some (SUnlocking _) => cs s (do_sub_poll c s a subs k)
      | _ => do_sub_poll c s a subs k
      end
  | Some (PStreamDrop subs) => cs s (do_sub_drop c s a subs k)
  | _ => RInvalid
  end.

Definition lim_ok (lim : option nat) : bool :=
  match lim with Some 0 => false | _ => true end.

Definition do_start (c : cfg) (s : state) (a : aid) (cl : call) : result :=
  if amem a (s_ops s) then RInvalid else
  match cl with
  | CLock sh k lim => if lim_ok lim then ROk (set_pc s a (PEnter sh k lim)) ONothing else RInvalid
  | CDrop g =>
      if guard_live s g
      then ROk (set_pc (begin_unlock c s g) a (PDrops [g] ADoneUnit)) ONothing
      else RInvalid
  | CExpire d =>
      if c_lru c && Z.leb 0 d
      then match cutoff_of (s_clock s) d with
           | Some ct => ROk (set_pc s a (PScan ct)) ONothing
           | None => ROk s (OExpired [])   (* checked_sub failed: returns without taking any lock *)
           end
      else RInvalid
  | CStream => ROk (set_pc s a PStreamEnter) ONothing
  | CCount => ROk (set_pc s a PCount) ONothing
  | CKeys => ROk (set_pc s a PKeys) ONothing
  end.

Definition do_cancel (c : cfg) (s : state) (a : aid) : result :=
  match aget a (s_ops s) with
  | Some (PQueued sh k) => if sh_is_async sh then ROk (set_pc s a (PCancel k)) ONothing else RInvalid
  | Some (PInCb sh _ _ _) => if sh_is_async sh then ROk (fin s a) OCancelled else RInvalid
  | Some (PStream subs) =>
      if existsb (fun ks => match snd ks with SUnlocking _ => true | _ => false end) subs then RInvalid else
      match subs with
      | [] => ROk (fin s a) OCancelled
      | _ => ROk (set_pc s a (PStreamDrop subs)) ONothing
      end
  | _ => RInvalid
  end.

Fixpoint all_live (s : state) (gs : list gid) : bool :=
  match gs with [] => true | g :: t => guard_live s g && all_live s t end.

Definition do_cbreturn (c : cfg) (s : state) (a : aid) (r : cbres) (hold : bool) : result :=
  match aget a (s_ops s) with
  | Some (PInCb sh k lim offered) =>
    let af := match r with
              | CbOk => AReenter sh k lim
              | CbErr => ADoneErr
              | CbPanic => ADonePanicked
              end in
    if hold then
      match offered with
      | [] => RInvalid
      | g :: _ =>
        if all_live s offered && nodup_nat offered
        then ROk (set_pc (begin_unlock c s g) a (PDrops offered af)) ONothing
        else RInvalid
      end
    else
      match af with
      | AReenter sh k lim => ROk (set_pc s a (PEnter sh k (Some lim))) ONothing
      | _ => ROk (fin s a) (after_obs af)
      end
  | _ => RInvalid
  end.

Definition do_pollend (c : cfg) (s : state) (a : aid) : result :=
  match aget a (s_ops s) with
  | Some (PStream subs) =>
      match subs with [] => ROk s OEnd | _ => ROk s OPending end
  | _ => RInvalid
  end.

Definition do_consume (c : cfg) (s : state) (o : list key) : result :=
  match s_ops s, s_guards s with
  | [], [] =>
    if negb (inv2_ok (s_ents s)) then RPanic site_inv2 else
    match iter_order c s o with
    | None => RInvalid
    | Some order =>
      match consume_list (s_ents s) order with
      | inr site => RPanic site
      | inl l => ROk (with_ents s []) (OConsumed l)
      end
    end
  | _, _ => RInvalid
  end.

Definition step (c : cfg) (s : state) (l : label) : result :=
  match l with
  | LStart a cl => do_start c s a cl
  | LResume a o => do_resume c s a o
  | LSub a k _ => do_sub c s a k
  | LPollEnd a => do_pollend c s a
  | LCancel a => do_cancel c s a
  | LGuardOp g op => do_guard_op c s g op
  | LCbReturn a r hold => do_cbreturn c s a r hold
  | LTick d => if Z.leb 0 d then ROk (with_clock s (s_clock s + d)%Z) ONothing else RInvalid
  | LConsume o => do_consume c s o
  end.

(* running a label list; stops at the first label that is invalid or panics *)
Inductive run_result :=
| RunOk (s : state) (os : list obs)
| RunInvalid (n : nat)
| RunPanic (n : nat) (site : nat).

Fixpoint run_from (c : cfg) (s : state) (ls : list label) (n : nat) (acc : list obs) : run_result :=
  match ls with
  | [] => RunOk s (rev acc)
  | l :: rest =>
    match step c s l with
    | ROk s' o => run_from c s' rest (S n) (o :: acc)
    | RInvalid => RunInvalid n
    | RPanic site => RunPanic n site
    end
  end.

Definition run (c : cfg) (ls : list label) : run_result := run_from c init ls 0 [].

(* relational view used by the theorems *)
Inductive steps (c : cfg) : state -> list label -> state -> Prop :=
| steps_nil s : steps c s [] s
| steps_cons s l s' o ls s'' : step c s l = ROk s' o -> steps c s' ls s'' -> steps c s (l :: ls) s''.

Definition reachable (c : cfg) (s : state) : Prop := exists ls, steps c init ls s.

(* an agent can take a step *)
Definition blocked (c : cfg) (s : state) (a : aid) : Prop :=
  match aget a (s_ops s) with
  | Some (PQueued sh k) => do_queued c s a sh k = RInvalid
  | _ => False
  end.
