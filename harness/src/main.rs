//! Test harness for the `lockable` crate: deterministic scheduler, trace
//! generation, monitors, explorers.  See /verif/docs/HARNESS_SPEC.md and
//! /verif/docs/HARNESS_NOTES.md.

mod agents;
mod containers;
mod exec;
mod explore;
mod monitor;
mod replay;
mod sched;
mod types;

use types::Backend;

fn usage() -> ! {
    eprintln!(
        "usage:\n  harness replay <file> [--backend H|L|P] [--owned]\n  harness explore --family <name> --backend H|L|P --seed N --count N --out <file> [--threads N] [--owned|--borrowed] [--replay-dir D] [--max-replays N]\n  harness families"
    );
    std::process::exit(2)
}

fn main() {
    let args: Vec<String> = std::env::args().skip(1).collect();
    if args.is_empty() {
        usage();
    }
    sched::install();
    match args[0].as_str() {
        "replay" => {
            let mut file = None;
            let mut backend = None;
            let mut owned = None;
            let mut i = 1;
            while i < args.len() {
                match args[i].as_str() {
                    "--backend" => {
                        i += 1;
                        backend = args.get(i).and_then(|s| Backend::parse(s));
                        if backend.is_none() {
                            usage();
                        }
                    }
                    "--owned" => owned = Some(true),
                    "--borrowed" => owned = Some(false),
                    s if !s.starts_with("--") => file = Some(s.to_string()),
                    _ => usage(),
                }
                i += 1;
            }
            let Some(file) = file else { usage() };
            let text = std::fs::read_to_string(&file).unwrap_or_else(|e| {
                eprintln!("cannot read {}: {}", file, e);
                std::process::exit(2)
            });
            let (hb, ho) = replay::header_info(&text);
            let backend = backend.or(hb).unwrap_or(Backend::H);
            let owned = owned.or(ho).unwrap_or(false);
            let r = replay::replay(&text, "replay", backend, owned, &format!("file={}", file));
            print!("{}", r.text);
        }
        "explore" => {
            let mut o = explore::ExploreOpts {
                family: String::new(),
                backend: Backend::H,
                seed: 1,
                count: 100,
                out: String::new(),
                threads: 16,
                owned: None,
                replay_dir: "/verif/replays".into(),
                max_replays: 20,
            };
            let mut i = 1;
            let val = |i: &mut usize| -> String {
                *i += 1;
                args.get(*i).cloned().unwrap_or_else(|| usage())
            };
            while i < args.len() {
                match args[i].as_str() {
                    "--family" => o.family = val(&mut i),
                    "--backend" => o.backend = Backend::parse(&val(&mut i)).unwrap_or_else(|| usage()),
                    "--seed" => o.seed = val(&mut i).parse().unwrap_or_else(|_| usage()),
                    "--count" => o.count = val(&mut i).parse().unwrap_or_else(|_| usage()),
                    "--out" => o.out = val(&mut i),
                    "--threads" => o.threads = val(&mut i).parse().unwrap_or_else(|_| usage()),
                    "--owned" => o.owned = Some(true),
                    "--borrowed" => o.owned = Some(false),
                    "--replay-dir" => o.replay_dir = val(&mut i),
                    "--max-replays" => o.max_replays = val(&mut i).parse().unwrap_or_else(|_| usage()),
                    _ => usage(),
                }
                i += 1;
            }
            if o.family.is_empty() || o.out.is_empty() {
                usage();
            }
            match explore::explore(o) {
                Ok(json) => println!("{}", json),
                Err(e) => {
                    eprintln!("{}", e);
                    std::process::exit(2);
                }
            }
        }
        "families" => {
            println!("random: {}", explore::FAMILY_NAMES.join(" "));
            println!("dfs:    {}", explore::DFS_FAMILY_NAMES.join(" "));
        }
        _ => usage(),
    }
}
