(* No library-made deadlock, as a reachability theorem: from EVERY reachable state the client can bring the
   container to rest -- no call in flight, no guard alive -- by doing nothing but
     - letting the calls that are in flight run (LResume / LSub),
     - letting eviction callbacks return (with an error, keeping nothing),
     - dropping guards it owns, and dropping streams that have delivered everything;
   it never has to start a lock call and never has to cancel a pending one.  So no state exists in which
   the calls in flight wait for each other: whatever is blocked is blocked behind a guard the client owns,
   and once that guard is dropped the waiter runs (C03), also when several soft-limited calls are in flight
   at once (C08).

   Proof: a lexicographic measure (calls that still have to take their snapshot, total remaining work of the
   calls in flight, number of guards) decreases with every step of the draining strategy, and the strategy
   always has a step (enabledness lemmas of PropLemmas.v / DropInv.v, plus a third invariant SInv about
   the shape of program counters). *)
From Coq Require Import List Arith ZArith Bool Lia.
From LK Require Import AList AListFacts Model Observe Inv StepInv NoPanic PropLemmas Seq DropInv Stream.
Import ListNotations.

(* ------------------------------------------------------------------ *)
(* sums over association lists *)

Section ASum.
  Context {V : Type} (f : V -> nat).

  Fixpoint asum (m : list (nat * V)) : nat :=
    match m with [] => 0 | (_, v) :: t => f v + asum t end.

  Lemma asum_adel_notin k (m : list (nat * V)) : ~ In k (akeys m) -> adel k m = m.
  Proof.
    induction m as [|[k' v'] t IH]; cbn; auto. intros H.
    destruct (Nat.eqb_spec k k'); [exfalso; apply H; cbn; left; auto|]. f_equal. apply IH. intros Hin. apply H. cbn. right. exact Hin.
  Qed.

  Lemma asum_adel k v m : NoDup (akeys m) -> aget k m = Some v -> asum (adel k m) + f v = asum m.
  Proof.
    induction m as [|[k' v'] t IH]; cbn; [discriminate|]. intros Hnd H. inversion Hnd; subst.
    destruct (Nat.eqb_spec k k').
    - inversion H; subst. rewrite asum_adel_notin; auto. lia.
    - cbn. specialize (IH H3 H). lia.
  Qed.

  Lemma asum_aset k v v' m : aget k m = Some v -> asum (aset k v' m) + f v = asum m + f v'.
  Proof.
    induction m as [|[k' v0] t IH]; cbn; [discriminate|]. intros H.
    destruct (Nat.eqb_spec k k').
    - inversion H; subst. cbn. lia.
    - cbn. specialize (IH H). lia.
  Qed.

  Lemma asum_aset_new k v' m : aget k m = None -> asum (aset k v' m) = asum m + f v'.
  Proof.
    induction m as [|[k' v0] t IH]; cbn; [intros; lia|]. intros H.
    destruct (Nat.eqb_spec k k'); [discriminate|]. cbn. rewrite IH; auto. lia.
  Qed.
End ASum.

(* ------------------------------------------------------------------ *)
(* remaining work of a call *)

Definition sub_w (st : sub) : nat := match st with SInit => 3 | SQueued => 2 | SUnlocking _ => 1 end.
Definition after_w (af : after) : nat := match af with AReenter _ _ _ => 7 | _ => 1 end.

Definition pc_w (p : pc) : nat :=
  match p with
  | PEnter _ _ _ => 6
  | PInCb _ _ _ _ => 5
  | PKeyTry _ _ | PKeyWait _ _ => 4
  | PQueued _ _ | PCleanup _ _ | PCancel _ => 3
  | PDrops gs af => length gs + after_w af
  | PScan _ | PCount | PKeys => 1
  | PStreamEnter => 0
  | PStream subs | PStreamDrop subs => 1 + asum sub_w subs
  end.

Definition se_w (p : pc) : nat := match p with PStreamEnter => 1 | _ => 0 end.

Definition m_se (s : state) : nat := asum se_w (s_ops s).
Definition m_w (s : state) : nat := asum pc_w (s_ops s).
Definition m_g (s : state) : nat := length (s_guards s).

(* lexicographic order on (m_se, m_w, m_g) *)
Definition mlt (s' s : state) : Prop :=
  m_se s' < m_se s \/ (m_se s' = m_se s /\ (m_w s' < m_w s \/ (m_w s' = m_w s /\ m_g s' < m_g s))).

(* p' is what is left to do after a step from p *)
Definition pc_lt (p' p : pc) : Prop :=
  se_w p' = 0 /\ (se_w p = 1 \/ (se_w p = 0 /\ pc_w p' < pc_w p)).

(* shape of program counters (third invariant) *)
Definition pc_shape (p : pc) : Prop :=
  match p with
  | PDrops gs _ => gs <> []
  | PStreamDrop subs => subs <> [] /\ sub_drops subs = []
  | _ => True
  end.

Lemma sub_drops_adel k subs : sub_drops subs = [] -> sub_drops (adel k subs) = [].
Proof.
  induction subs as [|[k' st] t IH]; cbn; auto. intros H. apply app_eq_nil in H as [H1 H2].
  destruct (Nat.eqb k k'); auto. cbn. rewrite H1. cbn. auto.
Qed.

Lemma sub_drops_nil_aget subs k g : sub_drops subs = [] -> aget k subs <> Some (SUnlocking g).
Proof.
  intros H E. apply aget_In in E. assert (In g (sub_drops subs)) by (apply sub_drops_in; eauto).
  rewrite H in H0. destruct H0.
Qed.

Lemma existsb_unlocking_false subs :
  existsb (fun ks : key * sub => match snd ks with SUnlocking _ => true | _ => false end) subs = false ->
  sub_drops subs = [].
Proof.
  induction subs as [|[k st] t IH]; cbn; auto. destruct st; cbn; auto. discriminate.
Qed.

(* ------------------------------------------------------------------ *)
(* what a step of an agent does to its own program counter *)

Ltac ops_eq :=
  cbn [s_ops set_pc fin with_ops with_ents with_guards with_gid with_clock new_guard fst snd];
  rewrite ?begin_unlock_ops; auto.

Lemma resume_shape c s a p o s' ob :
  aget a (s_ops s) = Some p -> pc_shape p -> step c s (LResume a o) = ROk s' ob ->
  s_ops s' = adel a (s_ops s) \/
  exists p', s_ops s' = aset a p' (s_ops s) /\ pc_lt p' p /\ pc_shape p'.
Proof.
  intros Ha Hsh H. cbn [step] in H. unfold do_resume in H. rewrite Ha in H.
  assert (L : forall sh k0 lim s' o, p = PEnter sh k0 lim -> do_lookup c s a sh k0 = ROk s' o ->
            s_ops s' = adel a (s_ops s) \/
            exists p', s_ops s' = aset a p' (s_ops s) /\ pc_lt p' p /\ pc_shape p').
  { intros sh k0 lim s1 o1 -> H1. unfold do_lookup in H1. destruct (aget k0 (s_ents s)) as [e0|].
    - inv H1. right. destruct (sh_is_try sh); eexists; (split; [ops_eq|]); (split; [|exact I]);
        unfold pc_lt; cbn; split; auto; right; split; auto; lia.
    - cbn [new_guard] in H1. inv H1. left. ops_eq. }
  destruct p; try discriminate; try (apply cs_ok in H).
  - (* PEnter *)
    unfold do_enter in H. destruct lim as [n|]; [|eapply L; eauto].
    destruct (length (s_ents s) - (n - 1)); [eapply L; eauto|].
    destruct (iter_order c s o); [|discriminate].
    destruct (evict_scan (s_ents s) l (S n0)) as [[[|k1 ks]|]|]; try discriminate; [eapply L; eauto|].
    destruct (lock_keys_ops_guards (k1 :: ks) s) as [V _].
    destruct (lock_keys s (k1 :: ks)) as [s1 off]. cbn [fst] in V. inv H. right.
    eexists. split; [ops_eq; rewrite V; reflexivity|]. split; [|exact I].
    unfold pc_lt; cbn; split; auto; right; split; auto; lia.
  - unfold do_key_try in H. destruct (aget k (s_ents s)) as [e0|]; [|discriminate].
    destruct (e_owner e0); inv H.
    + right. eexists. split; [ops_eq|]. split; [|exact I]. unfold pc_lt; cbn; split; auto; right; split; auto; lia.
    + left. ops_eq.
  - unfold do_key_wait in H. destruct (aget k (s_ents s)) as [e0|]; [|discriminate].
    destruct (e_owner e0); inv H.
    + right. eexists. split; [ops_eq|]. split; [|exact I]. unfold pc_lt; cbn; split; auto; right; split; auto; lia.
    + left. ops_eq.
  - unfold do_queued in H. destruct (aget k (s_ents s)) as [e0|]; [|discriminate].
    destruct (own_is_waiter _ a); inv H. left. ops_eq.
  - unfold do_cleanup in H. destruct (cleanup_ents (s_ents s) k) as [[ents|]|]; inv H. left. ops_eq.
  - destruct (cancel_ents c (s_ents s) a k) as [[ents|]|]; inv H. left. ops_eq.
  - (* PDrops *)
    unfold do_drops in H. destruct gs as [|g rest]; [discriminate|].
    destruct (unlock_cs c s g) as [[s1|]|] eqn:Hu; try discriminate.
    pose proof (unlock_cs_ops c s g s1 Hu) as V.
    destruct rest as [|g' rest']; [destruct af|]; inv H.
    + left. ops_eq. rewrite V. auto.
    + left. ops_eq. rewrite V. auto.
    + left. ops_eq. rewrite V. auto.
    + right. eexists. split; [ops_eq; rewrite V; reflexivity|]. split; [|exact I].
      unfold pc_lt; cbn; split; auto; right; split; auto; lia.
    + right. eexists. split; [ops_eq; rewrite V; reflexivity|]. split; [|cbn; discriminate].
      unfold pc_lt; cbn; split; auto; right; split; auto; lia.
  - unfold do_scan in H. destruct (iter_order c s o); [|discriminate].
    destruct (lock_keys_ops_guards (expired_keys (s_ents s) l cutoff) s) as [V _].
    destruct (lock_keys s _) as [s1 ll]. cbn [fst] in V. inv H. left. ops_eq. rewrite V. auto.
  - unfold do_stream_enter in H. destruct (iter_order c s o); inv H. right.
    eexists. split; [ops_eq|]. split; [|exact I]. unfold pc_lt; cbn; auto.
  - inv H. left. ops_eq.
  - destruct (iter_order c s o); inv H. left. ops_eq.
Qed.

Lemma sub_shape c s a p k o s' ob :
  aget a (s_ops s) = Some p -> pc_shape p -> NoDup (akeys (subs_of p)) ->
  step c s (LSub a k o) = ROk s' ob ->
  s_ops s' = adel a (s_ops s) \/
  exists p', s_ops s' = aset a p' (s_ops s) /\ pc_lt p' p /\ pc_shape p'.
Proof.
  intros Ha Hsh Hnd H. cbn [step] in H. unfold do_sub in H. rewrite Ha in H.
  destruct p; try discriminate; cbn [subs_of] in Hnd.
  - (* PStream *)
    assert (P : do_sub_poll c s a subs k = ROk s' ob ->
                exists p', s_ops s' = aset a p' (s_ops s) /\ pc_lt p' (PStream subs) /\ pc_shape p').
    { intros H1. unfold do_sub_poll in H1. destruct (aget k subs) as [st|] eqn:Hk; [|discriminate].
      destruct (aget k (s_ents s)) as [e0|]; [|discriminate].
      pose proof (asum_adel sub_w k st subs Hnd Hk) as Wd.
      assert (Ws : forall st', asum sub_w (aset k st' subs) + sub_w st = asum sub_w subs + sub_w st')
        by (intros; apply asum_aset; auto).
      destruct st.
      - destruct (e_owner e0).
        + inv H1. eexists. split; [ops_eq|]. split; [|exact I].
          unfold pc_lt; cbn [se_w pc_w]. specialize (Ws SQueued). cbn in Ws, Wd. split; auto. right. split; auto. lia.
        + cbn [new_guard] in H1. destruct (val_of e0); inv H1; eexists; (split; [ops_eq|]); (split; [|exact I]);
            unfold pc_lt; cbn [se_w pc_w]; split; auto; right; split; auto.
          * cbn in Wd. lia.
          * specialize (Ws (SUnlocking (s_gid s))). cbn in Ws. lia.
      - destruct (own_is_waiter _ a); [|discriminate]. cbn [new_guard] in H1.
        destruct (val_of e0); inv H1; eexists; (split; [ops_eq|]); (split; [|exact I]);
            unfold pc_lt; cbn [se_w pc_w]; split; auto; right; split; auto.
        + cbn in Wd. lia.
        + specialize (Ws (SUnlocking (s_gid s))). cbn in Ws. lia.
      - destruct (unlock_cs c s g) as [[s1|]|] eqn:Hu; inv H1. pose proof (unlock_cs_ops c s g s1 Hu) as V.
        eexists. split; [ops_eq; rewrite V; reflexivity|]. split; [|exact I].
        unfold pc_lt; cbn [se_w pc_w]; split; auto; right; split; auto. cbn in Wd. lia. }
    right. destruct (aget k subs) as [[| |g]|]; try (apply cs_ok in H); apply P; auto.
  - (* PStreamDrop *)
    apply cs_ok in H. unfold do_sub_drop in H. destruct (aget k subs) as [st|] eqn:Hk; [|discriminate].
    pose proof (asum_adel sub_w k st subs Hnd Hk) as Wd. destruct Hsh as [Hne Hsd].
    pose proof (sub_drops_adel k subs Hsd) as Hsd'.
    destruct st; try discriminate;
      (destruct (cancel_ents c (s_ents s) a k) as [[ents|]|]; try discriminate;
       revert Wd Hsd' H; destruct (adel k subs) as [|x t]; intros Wd Hsd' H; inv H;
       [left; ops_eq|
        right; eexists; split; [ops_eq|]; split;
        [unfold pc_lt; cbn [se_w pc_w]; split; auto; right; split; auto; cbn in Wd; cbn [asum]; cbn [asum] in Wd; lia
        |cbn; split; [discriminate|exact Hsd']]]).
Qed.

(* ------------------------------------------------------------------ *)
(* the guard table only loses the guard whose unlock critical section runs *)

Lemma aget_cons_ne {V} g g0 (k0 : V) gs : g <> g0 -> aget g ((g0, k0) :: gs) = aget g gs.
Proof. intros H. cbn. destruct (Nat.eqb_spec g g0); [contradiction|auto]. Qed.

Lemma lock_keys_aget_guard ks g : forall s, g < s_gid s ->
  aget g (s_guards (fst (lock_keys s ks))) = aget g (s_guards s).
Proof.
  induction ks as [|k rest IH]; intros s Hg; cbn [lock_keys]; [auto|].
  destruct (aget k (s_ents s)) as [e|]; [|apply IH; auto]. cbn [new_guard].
  match goal with |- context [lock_keys ?x rest] => set (s2 := x) end.
  assert (H2 : g < s_gid s2) by (unfold s2; cbn; lia).
  specialize (IH s2 H2). destruct (lock_keys s2 rest) as [s3 l]. cbn [fst] in *. rewrite IH.
  unfold s2. cbn [s_guards with_ents with_gid with_guards]. apply aget_cons_ne. lia.
Qed.

Ltac gk_same :=
  left; cbn [s_guards set_pc fin with_ops with_ents with_guards with_gid with_clock new_guard fst snd];
  rewrite ?begin_unlock_guards; auto.

Lemma step_guard_kept c s l s' o g k :
  Inv s -> step c s l = ROk s' o -> aget g (s_guards s) = Some k ->
  aget g (s_guards s') = Some k \/
  (exists a orc rest af, l = LResume a orc /\ aget a (s_ops s) = Some (PDrops (g :: rest) af)) \/
  (exists a k0 orc subs, l = LSub a k0 orc /\ aget a (s_ops s) = Some (PStream subs) /\
                         aget k0 subs = Some (SUnlocking g)).
Proof.
  intros HI H Hg.
  assert (Hlt : g < s_gid s) by (apply (inv_gid _ HI); eapply aget_Some_keys; eauto).
  assert (NG : forall k0 s1, s1 = fst (new_guard s k0) -> aget g (s_guards s1) = Some k).
  { intros k0 s1 ->. cbn. destruct (Nat.eqb_spec g (s_gid s)); [lia|auto]. }
  destruct l; cbn [step] in H.
  - unfold do_start in H. destruct (amem a (s_ops s)); [discriminate|]. destruct c0.
    + destruct (lim_ok lim); inv H. gk_same.
    + destruct (guard_live s g0); inv H. gk_same.
    + destruct (c_lru c && Z.leb 0 d)%bool; [|discriminate]. destruct (cutoff_of _ _); inv H; gk_same.
    + inv H; gk_same.
    + inv H; gk_same.
    + inv H; gk_same.
  - unfold do_resume in H. destruct (aget a (s_ops s)) as [p|] eqn:Ha; [|discriminate].
    assert (L : forall sh k0 s' o, do_lookup c s a sh k0 = ROk s' o -> aget g (s_guards s') = Some k).
    { intros sh k0 s1 o1 H1. unfold do_lookup in H1. destruct (aget k0 (s_ents s)) as [e0|].
      - inv H1. destruct (sh_is_try sh); cbn; auto.
      - cbn [new_guard] in H1. inv H1. cbn [s_guards fin with_ops with_ents with_gid with_guards].
        rewrite aget_cons_ne; auto. lia. }
    destruct p; try discriminate; try (apply cs_ok in H).
    + left. unfold do_enter in H. destruct lim as [n|]; [|eapply L; eauto].
      destruct (length (s_ents s) - (n - 1)); [eapply L; eauto|].
      destruct (iter_order c s o0); [|discriminate].
      destruct (evict_scan (s_ents s) l (S n0)) as [[[|k1 ks]|]|]; try discriminate; [eapply L; eauto|].
      pose proof (lock_keys_aget_guard (k1 :: ks) g s Hlt) as V.
      destruct (lock_keys s (k1 :: ks)) as [s1 off]. cbn [fst] in V. inv H. cbn. rewrite V. auto.
    + left. unfold do_key_try in H. destruct (aget k0 (s_ents s)) as [e0|]; [|discriminate].
      destruct (e_owner e0); inv H; cbn [s_guards set_pc fin with_ops with_ents with_gid with_guards]; auto.
      rewrite aget_cons_ne; auto. lia.
    + left. unfold do_key_wait in H. destruct (aget k0 (s_ents s)) as [e0|]; [|discriminate].
      destruct (e_owner e0); inv H; cbn [s_guards set_pc fin with_ops with_ents with_gid with_guards]; auto.
      rewrite aget_cons_ne; auto. lia.
    + left. unfold do_queued in H. destruct (aget k0 (s_ents s)) as [e0|]; [|discriminate].
      destruct (own_is_waiter _ a); inv H. cbn [s_guards set_pc fin with_ops with_ents with_gid with_guards].
      rewrite aget_cons_ne; auto. lia.
    + unfold do_cleanup in H. destruct (cleanup_ents (s_ents s) k0) as [[ents|]|]; inv H. gk_same.
    + destruct (cancel_ents c (s_ents s) a k0) as [[ents|]|]; inv H. gk_same.
    + unfold do_drops in H. destruct gs as [|g0 rest]; [discriminate|].
      destruct (unlock_cs c s g0) as [[s1|]|] eqn:Hu; try discriminate.
      pose proof (unlock_cs_guards c s g0 s1 Hu) as V.
      destruct (Nat.eq_dec g g0) as [->|Hne]; [right; left; eauto 6|].
      left. assert (aget g (s_guards s1) = Some k) by (rewrite V, aget_adel_neq; auto).
      destruct rest as [|g' rest']; [destruct af|]; inv H;
        cbn [s_guards set_pc fin with_ops]; rewrite ?begin_unlock_guards; auto.
    + left. unfold do_scan in H. destruct (iter_order c s o0); [|discriminate].
      pose proof (lock_keys_aget_guard (expired_keys (s_ents s) l cutoff) g s Hlt) as V.
      destruct (lock_keys s _) as [s1 ll]. cbn [fst] in V. inv H. cbn. rewrite V. auto.
    + unfold do_stream_enter in H. destruct (iter_order c s o0); inv H. gk_same.
    + inv H. gk_same.
    + destruct (iter_order c s o0); inv H. gk_same.
  - unfold do_sub in H. destruct (aget a (s_ops s)) as [p|] eqn:Ha; [|discriminate].
    destruct p; try discriminate.
    + assert (P : do_sub_poll c s a subs k0 = ROk s' o ->
                  aget g (s_guards s') = Some k \/ aget k0 subs = Some (SUnlocking g)).
      { intros H1. unfold do_sub_poll in H1. destruct (aget k0 subs) as [st|]; [|discriminate].
        destruct (aget k0 (s_ents s)) as [e0|]; [|discriminate].
        destruct st.
        - destruct (e_owner e0).
          + inv H1. left. cbn. auto.
          + left. cbn [new_guard] in H1. destruct (val_of e0); inv H1;
              cbn [s_guards set_pc fin with_ops with_ents with_gid with_guards]; rewrite aget_cons_ne; auto; lia.
        - destruct (own_is_waiter _ a); [|discriminate]. left. cbn [new_guard] in H1.
          destruct (val_of e0); inv H1;
            cbn [s_guards set_pc fin with_ops with_ents with_gid with_guards]; rewrite aget_cons_ne; auto; lia.
        - destruct (unlock_cs c s g0) as [[s1|]|] eqn:Hu; inv H1.
          pose proof (unlock_cs_guards c s g0 s1 Hu) as V.
          destruct (Nat.eq_dec g g0) as [->|Hne]; [right; auto|].
          left. cbn [s_guards set_pc with_ops]. rewrite V, aget_adel_neq; auto. }
      assert (Q : aget g (s_guards s') = Some k \/ aget k0 subs = Some (SUnlocking g)).
      { destruct (aget k0 subs) as [[| |g1]|]; try (apply cs_ok in H); apply P; auto. }
      destruct Q as [Q|Q]; [left; auto|right; right; eauto 8].
    + apply cs_ok in H. unfold do_sub_drop in H. destruct (aget k0 subs) as [st|]; [|discriminate].
      destruct st; try discriminate;
        (destruct (cancel_ents c (s_ents s) a k0) as [[ents|]|]; try discriminate;
         destruct (adel k0 subs); inv H; gk_same).
  - unfold do_pollend in H. destruct (aget a (s_ops s)) as [[]|]; try discriminate. destruct subs; inv H; auto.
  - unfold do_cancel in H. destruct (aget a (s_ops s)) as [[]|]; try discriminate.
    + destruct (sh_is_async sh); inv H; gk_same.
    + destruct (sh_is_async sh); inv H; gk_same.
    + destruct (existsb _ subs); [discriminate|]. destruct subs; inv H; gk_same.
  - unfold do_guard_op in H. destruct (negb (guard_live s g0)); [discriminate|].
    destruct (aget g0 (s_guards s)) as [k0|]; [|discriminate].
    destruct (aget k0 (s_ents s)) as [e0|]; [|discriminate].
    destruct op; try (destruct (e_val e0) as [[? ?]|]); inv H; auto.
  - unfold do_cbreturn in H. destruct (aget a (s_ops s)) as [[]|]; try discriminate.
    destruct hold.
    + destruct offered as [|g0 rest]; [discriminate|]. destruct (all_live s _ && _)%bool; inv H. gk_same.
    + destruct r; inv H; gk_same.
  - destruct (Z.leb 0 d); inv H. auto.
  - unfold do_consume in H. destruct (s_ops s); [|discriminate]. destruct (s_guards s); [discriminate|discriminate].
Qed.

(* ------------------------------------------------------------------ *)
(* third invariant: shape of program counters; a stream that is dropping a valueless guard for k
   really owns a guard on k *)

Record SInv (s : state) : Prop := {
  si_shape : forall a p, aget a (s_ops s) = Some p -> pc_shape p;
  si_unl : forall a subs k g, aget a (s_ops s) = Some (PStream subs) -> aget k subs = Some (SUnlocking g) ->
             aget g (s_guards s) = Some k
}.

Lemma SInv_init : SInv init.
Proof. constructor; cbn; intros; discriminate. Qed.

Lemma sub_drops_init order : sub_drops (map (fun k : key => (k, SInit)) order) = [].
Proof. induction order; cbn; auto. Qed.

Lemma aget_init_subs order k st : aget k (map (fun k : key => (k, SInit)) order) = Some st -> st = SInit.
Proof.
  induction order as [|k0 t IH]; cbn; [discriminate|]. destruct (Nat.eqb k k0); [intros H; inv H; auto|auto].
Qed.

(* the new program counter of the agent that made an LResume step is never a stream with drops *)
Lemma resume_no_unlocking c s a o s' ob subs' k g :
  step c s (LResume a o) = ROk s' ob -> aget a (s_ops s') = Some (PStream subs') ->
  aget k subs' <> Some (SUnlocking g).
Proof.
  intros H Ha' E. cbn [step] in H. unfold do_resume in H. destruct (aget a (s_ops s)) as [p|] eqn:Ha; [|discriminate].
  assert (L : forall sh k0 s' o, do_lookup c s a sh k0 = ROk s' o -> aget a (s_ops s') <> Some (PStream subs')).
  { intros sh k0 s1 o1 H1. unfold do_lookup in H1. destruct (aget k0 (s_ents s)) as [e0|].
    - inv H1. cbn. rewrite aget_aset_eq. destruct (sh_is_try sh); discriminate.
    - cbn [new_guard] in H1. inv H1. cbn. rewrite aget_adel_eq. discriminate. }
  destruct p; try discriminate; try (apply cs_ok in H).
  - unfold do_enter in H. destruct lim as [n|]; [|eapply L; eauto].
    destruct (length (s_ents s) - (n - 1)); [eapply L; eauto|].
    destruct (iter_order c s o); [|discriminate].
    destruct (evict_scan (s_ents s) l (S n0)) as [[[|k1 ks]|]|]; try discriminate; [eapply L; eauto|].
    destruct (lock_keys s (k1 :: ks)) as [s1 off]. inv H. cbn in Ha'. rewrite aget_aset_eq in Ha'. discriminate.
  - unfold do_key_try in H. destruct (aget k0 (s_ents s)) as [e0|]; [|discriminate].
    destruct (e_owner e0); inv H; cbn in Ha'; rewrite ?aget_aset_eq, ?aget_adel_eq in Ha'; discriminate.
  - unfold do_key_wait in H. destruct (aget k0 (s_ents s)) as [e0|]; [|discriminate].
    destruct (e_owner e0); inv H; cbn in Ha'; rewrite ?aget_aset_eq, ?aget_adel_eq in Ha'; discriminate.
  - unfold do_queued in H. destruct (aget k0 (s_ents s)) as [e0|]; [|discriminate].
    destruct (own_is_waiter _ a); inv H. cbn in Ha'. rewrite aget_adel_eq in Ha'. discriminate.
  - unfold do_cleanup in H. destruct (cleanup_ents (s_ents s) k0) as [[ents|]|]; inv H.
    cbn in Ha'. rewrite aget_adel_eq in Ha'. discriminate.
  - destruct (cancel_ents c (s_ents s) a k0) as [[ents|]|]; inv H. cbn in Ha'. rewrite aget_adel_eq in Ha'. discriminate.
  - unfold do_drops in H. destruct gs as [|g0 rest]; [discriminate|].
    destruct (unlock_cs c s g0) as [[s1|]|] eqn:Hu; try discriminate.
    destruct rest as [|g' rest']; [destruct af|]; inv H; cbn in Ha'; rewrite ?aget_aset_eq, ?aget_adel_eq in Ha'; discriminate.
  - unfold do_scan in H. destruct (iter_order c s o); [|discriminate].
    destruct (lock_keys s _) as [s1 ll]. inv H. cbn in Ha'. rewrite aget_adel_eq in Ha'. discriminate.
  - unfold do_stream_enter in H. destruct (iter_order c s o); inv H.
    cbn in Ha'. rewrite aget_aset_eq in Ha'. inv Ha'. apply aget_init_subs in E. discriminate.
  - inv H. cbn in Ha'. rewrite aget_adel_eq in Ha'. discriminate.
  - destruct (iter_order c s o); inv H. cbn in Ha'. rewrite aget_adel_eq in Ha'. discriminate.
Qed.

Lemma pc_of_upd ops a (p' : pc) a' p :
  aget a' (aset a p' ops) = Some p -> (a' = a /\ p = p') \/ (a' <> a /\ aget a' ops = Some p).
Proof. rewrite aget_aset. destruct (Nat.eqb_spec a' a); [intros H; inv H; auto|auto]. Qed.

Lemma pc_of_del (ops : list (aid * pc)) a a' p :
  aget a' (adel a ops) = Some p -> a' <> a /\ aget a' ops = Some p.
Proof. rewrite aget_adel. destruct (Nat.eqb_spec a' a); [discriminate|auto]. Qed.

Lemma classic_consume (l : label) : (exists oc, l = LConsume oc) \/ (forall oc, l <> LConsume oc).
Proof. destruct l; try (right; intros; discriminate). left. eauto. Qed.

Theorem step_sinv c s l s' o : Inv s -> DInv s -> SInv s -> step c s l = ROk s' o -> SInv s'.
Proof.
  intros HI HD [S1 S2] H.
  pose proof (step_inv c s l s' o HI H) as HI'.
  (* part 1: shapes *)
  assert (SH : forall a p, aget a (s_ops s') = Some p -> pc_shape p).
  { intros a p Ha'.
    destruct (option_eq_dec_aid (label_agent l) a) as [Hl|Hl].
    - destruct l; cbn in Hl; inv Hl.
      + (* LStart *) cbn [step] in H. unfold do_start in H. destruct (amem a (s_ops s)) eqn:Em; [discriminate|].
        destruct c0.
        * destruct (lim_ok lim); inv H. cbn in Ha'. rewrite aget_aset_eq in Ha'. inv Ha'. exact I.
        * destruct (guard_live s g); inv H. cbn in Ha'. rewrite begin_unlock_ops, aget_aset_eq in Ha'. inv Ha'. cbn. discriminate.
        * destruct (c_lru c && Z.leb 0 d)%bool; [|discriminate]. destruct (cutoff_of _ _); inv H.
          -- cbn in Ha'. rewrite aget_aset_eq in Ha'. inv Ha'. exact I.
          -- eapply S1; eauto.
        * inv H. cbn in Ha'. rewrite aget_aset_eq in Ha'. inv Ha'. exact I.
        * inv H. cbn in Ha'. rewrite aget_aset_eq in Ha'. inv Ha'. exact I.
        * inv H. cbn in Ha'. rewrite aget_aset_eq in Ha'. inv Ha'. exact I.
      + (* LResume *) destruct (aget a (s_ops s)) as [p0|] eqn:Ha.
        * destruct (resume_shape c s a p0 o0 s' o Ha (S1 _ _ Ha) H) as [E|(p' & E & _ & Hs)]; rewrite E in Ha'.
          -- rewrite aget_adel_eq in Ha'. discriminate.
          -- rewrite aget_aset_eq in Ha'. inv Ha'. auto.
        * cbn [step] in H. unfold do_resume in H. rewrite Ha in H. discriminate.
      + (* LSub *) destruct (aget a (s_ops s)) as [p0|] eqn:Ha.
        * destruct (sub_shape c s a p0 k o0 s' o Ha (S1 _ _ Ha) (di_subs _ HD _ _ Ha) H) as [E|(p' & E & _ & Hs)]; rewrite E in Ha'.
          -- rewrite aget_adel_eq in Ha'. discriminate.
          -- rewrite aget_aset_eq in Ha'. inv Ha'. auto.
        * cbn [step] in H. unfold do_sub in H. rewrite Ha in H. discriminate.
      + (* LPollEnd *) cbn [step] in H. unfold do_pollend in H. destruct (aget a (s_ops s)) as [[]|] eqn:Ha; try discriminate.
        destruct subs; inv H; eapply S1; eauto.
      + (* LCancel *) cbn [step] in H. unfold do_cancel in H. destruct (aget a (s_ops s)) as [[]|] eqn:Ha; try discriminate.
        * destruct (sh_is_async sh); inv H. cbn in Ha'. rewrite aget_adel_eq in Ha'. discriminate.
        * destruct (sh_is_async sh); inv H. cbn in Ha'. rewrite aget_aset_eq in Ha'. inv Ha'. exact I.
        * destruct (existsb _ subs) eqn:Ex; [discriminate|]. destruct subs as [|x t]; inv H.
          -- cbn in Ha'. rewrite aget_adel_eq in Ha'. discriminate.
          -- cbn in Ha'. rewrite aget_aset_eq in Ha'. inv Ha'. cbn. split; [discriminate|].
             apply existsb_unlocking_false in Ex. exact Ex.
      + (* LCbReturn *) cbn [step] in H. unfold do_cbreturn in H. destruct (aget a (s_ops s)) as [[]|] eqn:Ha; try discriminate.
        destruct hold.
        * destruct offered as [|g0 rest]; [discriminate|]. destruct (all_live s _ && _)%bool; inv H.
          cbn in Ha'. rewrite begin_unlock_ops, aget_aset_eq in Ha'. inv Ha'. cbn. discriminate.
        * destruct r; inv H; cbn in Ha'; rewrite ?aget_aset_eq, ?aget_adel_eq in Ha'; try discriminate. inv Ha'. exact I.
    - destruct (classic_consume l) as [[oc ->]|Hnc].
      + cbn [step] in H. unfold do_consume in H. destruct (s_ops s) eqn:Eo; [|discriminate]. destruct (s_guards s); [|discriminate].
        destruct (negb _); [discriminate|]. destruct (iter_order c s oc); [|discriminate].
        destruct (consume_list _ _); inv H. cbn in Ha'. rewrite Eo in Ha'. discriminate.
      + rewrite (step_ops_other c s l s' o a H Hl Hnc) in Ha'. eapply S1; eauto. }
  constructor; [exact SH|].
  (* part 2: a stream that drops a valueless guard owns it *)
  intros a subs' k g Ha' Hk.
  assert (KEEP : forall k1, aget g (s_guards s) = Some k1 ->
            (forall a1 p1, label_agent l = Some a1 -> aget a1 (s_ops s) = Some p1 -> ~ In g (drops_of p1) \/
                           (forall orc rest af, l = LResume a1 orc -> p1 <> PDrops (g :: rest) af) /\
                           (forall k0 orc subs, l = LSub a1 k0 orc -> p1 = PStream subs -> aget k0 subs <> Some (SUnlocking g))) ->
            aget g (s_guards s') = Some k1).
  { intros k1 Hg Hno. destruct (step_guard_kept c s l s' o g k1 HI H Hg) as [K|[(a1 & orc & rest & af & -> & Ha1)|(a1 & k0 & orc & subs & -> & Ha1 & Hk0)]]; auto.
    - exfalso. destruct (Hno a1 _ eq_refl Ha1) as [N|[N _]]; [apply N; cbn; auto|eapply N; eauto].
    - exfalso. destruct (Hno a1 _ eq_refl Ha1) as [N|[_ N]]; [apply N; cbn; apply sub_drops_in; exists k0; apply aget_In; auto|eapply N; eauto]. }
  destruct (option_eq_dec_aid (label_agent l) a) as [Hl|Hl].
  - (* the stream's own step *)
    destruct (aget a (s_ops s)) as [p0|] eqn:Ha.
    2:{ destruct l; cbn in Hl; inv Hl; cbn [step] in H.
        - unfold do_start in H. destruct (amem a (s_ops s)); [discriminate|]. destruct c0.
          + destruct (lim_ok lim); inv H. cbn in Ha'. rewrite aget_aset_eq in Ha'. discriminate.
          + destruct (guard_live s g0); inv H. cbn in Ha'. rewrite begin_unlock_ops, aget_aset_eq in Ha'. discriminate.
          + destruct (c_lru c && Z.leb 0 d)%bool; [|discriminate]. destruct (cutoff_of _ _); inv H.
            * cbn in Ha'. rewrite aget_aset_eq in Ha'. discriminate.
            * congruence.
          + inv H. cbn in Ha'. rewrite aget_aset_eq in Ha'. discriminate.
          + inv H. cbn in Ha'. rewrite aget_aset_eq in Ha'. discriminate.
          + inv H. cbn in Ha'. rewrite aget_aset_eq in Ha'. discriminate.
        - unfold do_resume in H. rewrite Ha in H. discriminate.
        - unfold do_sub in H. rewrite Ha in H. discriminate.
        - unfold do_pollend in H. rewrite Ha in H. discriminate.
        - unfold do_cancel in H. rewrite Ha in H. discriminate.
        - unfold do_cbreturn in H. rewrite Ha in H. discriminate. }
    destruct l; cbn in Hl; inv Hl.
    + cbn [step] in H. unfold do_start in H. unfold amem in H. rewrite Ha in H. discriminate.
    + exfalso. eapply resume_no_unlocking; eauto.
    + (* LSub a k0 *)
      destruct p0; try (cbn [step] in H; unfold do_sub in H; rewrite Ha in H; discriminate).
      * destruct (stream_own_step c s a subs k0 o0 s' o Ha H) as (subs1 & Ha1 & Hoth & Hcase).
        rewrite Ha1 in Ha'. inv Ha'.
        destruct (Nat.eq_dec k k0) as [->|Hne].
        -- destruct Hcase as [(g1 & v & _ & _ & E & _)|[(_ & _ & E)|[(_ & _ & _ & g1 & E & Hin)|(_ & g1 & _ & E)]]];
             rewrite E in Hk; try discriminate. inv Hk.
           apply In_aget; auto. apply (inv_nd_g _ HI').
        -- rewrite (Hoth k Hne) in Hk. apply (KEEP k (S2 _ _ _ _ Ha Hk)).
           intros a1 p1 Hl1 Ha1'. inv Hl1. rewrite Ha in Ha1'. inv Ha1'. right. split; [intros; discriminate|].
           intros k1 orc subs2 El Ep Hk1. inv El. inv Ep. apply Hne.
           pose proof (S2 _ _ _ _ Ha Hk1) as G1. pose proof (S2 _ _ _ _ Ha Hk) as G2. congruence.
      * (* PStreamDrop: the result is never a PStream *)
        destruct (sub_shape c s a (PStreamDrop subs) k0 o0 s' o Ha (S1 _ _ Ha) (di_subs _ HD _ _ Ha) H) as [E|(p' & E & _ & Hs)].
        -- rewrite E, aget_adel_eq in Ha'. discriminate.
        -- cbn [step] in H. unfold do_sub in H. rewrite Ha in H. apply cs_ok in H. unfold do_sub_drop in H.
           destruct (aget k0 subs) as [st|]; [|discriminate].
           destruct st; try discriminate;
             (destruct (cancel_ents c (s_ents s) a k0) as [[ents|]|]; try discriminate;
              destruct (adel k0 subs); inv H; cbn in Ha'; rewrite ?aget_aset_eq, ?aget_adel_eq in Ha'; discriminate).
    + cbn [step] in H. unfold do_pollend in H. rewrite Ha in H. destruct p0; try discriminate.
      assert (s' = s) by (destruct subs; inv H; auto). subst s'. rewrite Ha in Ha'. inv Ha'. eapply S2; eauto.
    + cbn [step] in H. unfold do_cancel in H. rewrite Ha in H. destruct p0; try discriminate.
      * destruct (sh_is_async sh); inv H. cbn in Ha'. rewrite ?aget_aset_eq, ?aget_adel_eq in Ha'. discriminate.
      * destruct (sh_is_async sh); inv H. cbn in Ha'. rewrite ?aget_aset_eq, ?aget_adel_eq in Ha'. discriminate.
      * destruct (existsb _ subs); [discriminate|]. destruct subs; inv H; cbn in Ha'; rewrite ?aget_aset_eq, ?aget_adel_eq in Ha'; discriminate.
    + cbn [step] in H. unfold do_cbreturn in H. rewrite Ha in H. destruct p0; try discriminate.
      destruct hold.
      * destruct offered as [|g0 rest]; [discriminate|]. destruct (all_live s _ && _)%bool; inv H.
        cbn in Ha'. rewrite begin_unlock_ops, aget_aset_eq in Ha'. discriminate.
      * destruct r; inv H; cbn in Ha'; rewrite ?aget_aset_eq, ?aget_adel_eq in Ha'; discriminate.
  - (* somebody else's step *)
    destruct (classic_consume l) as [[oc ->]|Hnc].
    + cbn [step] in H. unfold do_consume in H. destruct (s_ops s) eqn:Eo; [|discriminate]. destruct (s_guards s); [|discriminate].
      destruct (negb _); [discriminate|]. destruct (iter_order c s oc); [|discriminate].
      destruct (consume_list _ _); inv H. cbn in Ha'. rewrite Eo in Ha'. discriminate.
    + rewrite (step_ops_other c s l s' o a H Hl Hnc) in Ha'.
      apply (KEEP k (S2 _ _ _ _ Ha' Hk)). intros a1 p1 Hl1 Ha1. left. intros Hin.
      assert (a1 = a).
      { eapply (di_excl _ HD a1 a); eauto. cbn. apply sub_drops_in. exists k. apply aget_In; auto. }
      subst. congruence.
Qed.

Theorem reachable_sinv c s : reachable c s -> SInv s.
Proof.
  intros [ls H].
  assert (G : forall s0 ls s1, steps c s0 ls s1 -> Inv s0 -> DInv s0 -> SInv s0 -> SInv s1).
  { intros s0 ls0 s1 Hs. induction Hs; auto. intros HI HD HS.
    apply IHHs; [eapply step_inv; eauto|eapply step_dinv; eauto|eapply step_sinv; eauto]. }
  eapply G; eauto; [apply Inv_init|apply DInv_init|apply SInv_init].
Qed.

(* ------------------------------------------------------------------ *)
(* the draining client *)

Definition drain_ok (s : state) (l : label) : Prop :=
  match l with
  | LStart _ (CDrop _) | LResume _ _ | LSub _ _ _ | LCbReturn _ CbErr false => True
  | LCancel a => aget a (s_ops s) = Some (PStream [])     (* only a stream that has delivered everything *)
  | _ => False
  end.

Inductive dsteps (c : cfg) : state -> list label -> state -> Prop :=
| ds_nil s : dsteps c s [] s
| ds_cons s l s' o ls s'' :
    drain_ok s l -> step c s l = ROk s' o -> dsteps c s' ls s'' -> dsteps c s (l :: ls) s''.

Lemma dsteps_steps c s ls s' : dsteps c s ls s' -> steps c s ls s'.
Proof. induction 1; econstructor; eauto. Qed.

Lemma dsteps_app c s l1 s1 l2 s2 : dsteps c s l1 s1 -> dsteps c s1 l2 s2 -> dsteps c s (l1 ++ l2) s2.
Proof. induction 1; cbn; auto. intros. econstructor; eauto. Qed.

Lemma dsteps_one c s l s' o : drain_ok s l -> step c s l = ROk s' o -> dsteps c s [l] s'.
Proof. intros. econstructor; eauto. constructor. Qed.

(* measure bookkeeping *)
Lemma m_del s s' a p : NoDup (akeys (s_ops s)) -> aget a (s_ops s) = Some p -> s_ops s' = adel a (s_ops s) ->
  m_se s' + se_w p = m_se s /\ m_w s' + pc_w p = m_w s.
Proof. intros Hnd Ha E. unfold m_se, m_w. rewrite E. split; apply asum_adel; auto. Qed.

Lemma m_set s s' a p p' : aget a (s_ops s) = Some p -> s_ops s' = aset a p' (s_ops s) ->
  m_se s' + se_w p = m_se s + se_w p' /\ m_w s' + pc_w p = m_w s + pc_w p'.
Proof. intros Ha E. unfold m_se, m_w. rewrite E. split; apply asum_aset; auto. Qed.

Lemma pc_w_pos p : pc_shape p -> se_w p = 1 \/ (se_w p = 0 /\ 0 < pc_w p).
Proof.
  destruct p; cbn; intros Hs; try (right; split; auto; lia); auto.
  right. split; auto. destruct gs; [congruence|cbn; lia].
Qed.

Lemma shape_mlt s s' a p :
  NoDup (akeys (s_ops s)) -> aget a (s_ops s) = Some p -> pc_shape p ->
  (s_ops s' = adel a (s_ops s) \/ exists p', s_ops s' = aset a p' (s_ops s) /\ pc_lt p' p /\ pc_shape p') ->
  mlt s' s.
Proof.
  intros Hnd Ha Hs [E|(p' & E & [L1 L2] & _)]; unfold mlt.
  - destruct (m_del s s' a p Hnd Ha E) as [M1 M2]. destruct (pc_w_pos p Hs) as [P|[P1 P2]]; [left; lia|right; split; [lia|left; lia]].
  - destruct (m_set s s' a p p' Ha E) as [M1 M2]. destruct L2 as [P|[P1 P2]]; [left; lia|right; split; [lia|left; lia]].
Qed.

(* oracle for the hash map: any duplicate-free enumeration of the keys, e.g. the keys themselves *)
Lemma mem_nat_refl_all l : forallb (fun x => mem_nat x l) l = true.
Proof. apply forallb_forall. intros x Hx. apply mem_nat_In. auto. Qed.

Lemma oracle_self c s : Inv s -> oracle_ok c s (akeys (s_ents s)).
Proof.
  intros HI. right. unfold is_perm_of. rewrite Nat.eqb_refl, mem_nat_refl_all.
  assert (nodup_nat (akeys (s_ents s)) = true) by (apply nodup_nat_NoDup; apply (inv_nd_e _ HI)).
  rewrite H. reflexivity.
Qed.

Definition all_blocked (s : state) : Prop :=
  forall a p, aget a (s_ops s) = Some p -> agent_blocked s a p = true.

Lemma handed_owner s a k : handed s a k = true -> exists e, aget k (s_ents s) = Some e /\ e_owner e = Some (OwnW a).
Proof.
  unfold handed. destruct (aget k (s_ents s)) as [e|]; [|discriminate]. intros H. exists e. split; auto.
  unfold own_is_waiter in H. destruct (e_owner e) as [[g|a']|]; try discriminate. apply Nat.eqb_eq in H. subst. auto.
Qed.

(* when nobody can move, whoever waits for a key waits behind a guard *)
Lemma all_blocked_guard s a k : Inv s -> all_blocked s -> waits_on s a k -> exists g, aget g (s_guards s) = Some k.
Proof.
  intros HI HB W. pose proof (inv_k _ HI k) as [kmx kg kw kr k2 kp].
  assert (NH : forall a', waits_on s a' k -> handed s a' k = false).
  { intros a' (p' & Ha' & Hw'). pose proof (HB a' p' Ha') as B.
    destruct p'; cbn in Hw'; try discriminate; cbn in B; try discriminate.
    - apply Nat.eqb_eq in Hw'. subst. apply negb_true_iff in B. auto.
    - destruct subs as [|x t]; [discriminate|]. rewrite forallb_forall in B. unfold sub_waits in Hw'.
      destruct (aget k (x :: t)) as [[]|] eqn:Ek; try discriminate. apply aget_In in Ek.
      specialize (B _ Ek). cbn in B. apply negb_true_iff in B. auto. }
  pose proof (NH a W) as Na. apply kw in W as (e & He & Hw).
  unfold handed in Na. rewrite He in Na.
  destruct Hw as [Hin|Ho]; [|rewrite Ho in Na; cbn in Na; rewrite Nat.eqb_refl in Na; discriminate].
  destruct (e_owner e) as [[g|a']|] eqn:Eo.
  - exists g. apply kg. eauto.
  - exfalso. assert (W' : waits_on s a' k) by (apply kw; eauto).
    pose proof (NH a' W') as N'. unfold handed in N'. rewrite He, Eo in N'. cbn in N'. rewrite Nat.eqb_refl in N'. discriminate.
  - destruct (kmx e He) as (m1 & _). rewrite (m1 Eo) in Hin. destruct Hin.
Qed.

Lemma all_blocked_not_busy s g : Inv s -> all_blocked s -> guard_busy s g = false.
Proof.
  intros HI HB. unfold guard_busy. destruct (existsb _ (s_ops s)) eqn:Ex; auto. exfalso.
  apply existsb_exists in Ex as ([a p] & Hin & Hd). cbn in Hd.
  apply (In_aget _ _ _ (inv_nd_o _ HI)) in Hin. pose proof (HB a p Hin) as B.
  destruct p; cbn in Hd; try discriminate; cbn in B; try discriminate.
  destruct subs as [|x t]; [discriminate|]. rewrite forallb_forall in B.
  apply existsb_exists in Hd as ([k st] & Hin' & Hst). specialize (B _ Hin'). cbn in B, Hst.
  destruct st; discriminate.
Qed.

Lemma adel_notin_id {V} k (m : list (nat * V)) : aget k m = None -> adel k m = m.
Proof.
  induction m as [|[k' v'] t IH]; cbn; auto. destruct (Nat.eqb_spec k k'); [discriminate|]. intros H. f_equal. auto.
Qed.

Lemma length_adel_le {V} k (m : list (nat * V)) : length (adel k m) <= length m.
Proof. induction m as [|[k' v'] t IH]; cbn; auto. destruct (Nat.eqb k k'); cbn; lia. Qed.

Definition fresh_aid (ops : list (aid * pc)) : aid := S (list_max (akeys ops)).

Lemma fresh_aid_None ops : aget (fresh_aid ops) ops = None.
Proof.
  destruct (aget (fresh_aid ops) ops) eqn:E; auto. exfalso.
  apply aget_Some_keys in E. assert (Forall (fun k => k <= list_max (akeys ops)) (akeys ops)) by (apply list_max_le; lia).
  rewrite Forall_forall in H. specialize (H _ E). unfold fresh_aid in H. lia.
Qed.

Lemma forallb_false_ex {A} (f : A -> bool) l : forallb f l = false -> exists x, In x l /\ f x = false.
Proof.
  induction l as [|x t IH]; cbn; [discriminate|]. destruct (f x) eqn:E; cbn.
  - intros H. destruct (IH H) as (y & Hy & Fy). eauto.
  - intros _. eauto.
Qed.

Lemma drop_single c s a g o s' ob :
  aget a (s_ops s) = Some (PDrops [g] ADoneUnit) -> step c s (LResume a o) = ROk s' ob ->
  s_ops s' = adel a (s_ops s) /\ s_guards s' = adel g (s_guards s).
Proof.
  intros Ha H. cbn [step] in H. unfold do_resume in H. rewrite Ha in H. apply cs_ok in H. unfold do_drops in H.
  destruct (unlock_cs c s g) as [[s1|]|] eqn:Hu; inv H. cbn.
  rewrite (unlock_cs_ops c s g s1 Hu), (unlock_cs_guards c s g s1 Hu). auto.
Qed.

(* from every state that satisfies the invariants and is not at rest, the draining client has a move
   (one or two labels) that decreases the measure *)
Lemma progress c s : Inv s -> DInv s -> SInv s -> (s_ops s <> [] \/ s_guards s <> []) ->
  exists ls s', dsteps c s ls s' /\ mlt s' s.
Proof.
  intros HI HD HS Hne.
  destruct (existsb (fun ap => negb (agent_blocked s (fst ap) (snd ap))) (s_ops s)) eqn:Ex.
  - apply existsb_exists in Ex as ([a p] & Hin & Hb). cbn in Hb. apply negb_true_iff in Hb.
    pose proof (In_aget _ _ _ (inv_nd_o _ HI) Hin) as Ha.
    pose proof (si_shape _ HS a p Ha) as Hsh.
    assert (RUN : forall o, (exists s' ob, step c s (LResume a o) = ROk s' ob) ->
                  exists ls s', dsteps c s ls s' /\ mlt s' s).
    { intros o (s' & ob & Hst). exists [LResume a o], s'. split; [eapply dsteps_one; eauto; exact I|].
      apply (shape_mlt s s' a p (inv_nd_o _ HI) Ha Hsh). eapply resume_shape; eauto. }
    assert (SUB : forall k o, (exists s' ob, step c s (LSub a k o) = ROk s' ob) ->
                  exists ls s', dsteps c s ls s' /\ mlt s' s).
    { intros k o (s' & ob & Hst). exists [LSub a k o], s'. split; [eapply dsteps_one; eauto; exact I|].
      apply (shape_mlt s s' a p (inv_nd_o _ HI) Ha Hsh). eapply sub_shape; eauto. eapply (di_subs _ HD); eauto. }
    assert (RE : pc_runnable p = true -> exists ls s', dsteps c s ls s' /\ mlt s' s).
    { intros Hr. apply (RUN (akeys (s_ents s))). eapply resume_enabled; eauto. intros _. apply oracle_self; auto. }
    destruct p; try (apply RE; reflexivity).
    + (* PInCb *) exists [LCbReturn a CbErr false], (fin s a). split.
      * eapply dsteps_one; [exact I|]. cbn. unfold do_cbreturn. rewrite Ha. reflexivity.
      * apply (shape_mlt s (fin s a) a _ (inv_nd_o _ HI) Ha Hsh). left. reflexivity.
    + (* PQueued *) cbn in Hb. apply negb_false_iff in Hb. destruct (handed_owner s a k Hb) as (e & He & Ho).
      apply (RUN []). destruct (handed_waiter_runs c s a sh k e [] Ha He Ho) as (s' & g & Hst & _). eauto.
    + (* PDrops *) destruct gs as [|g rest]; [cbn in Hsh; congruence|]. apply (RUN []). eapply drop_enabled; eauto.
    + (* PStream *) destruct subs as [|x t].
      * exists [LCancel a], (fin s a). split.
        -- eapply dsteps_one; [cbn; exact Ha|]. cbn. unfold do_cancel. rewrite Ha. reflexivity.
        -- apply (shape_mlt s (fin s a) a _ (inv_nd_o _ HI) Ha Hsh). left. reflexivity.
      * cbn [agent_blocked] in Hb. apply forallb_false_ex in Hb as ([k st] & Hin' & Hf). cbn in Hf.
        pose proof (In_aget _ _ _ (di_subs _ HD _ _ Ha) Hin') as Hk. cbn [subs_of] in Hk.
        destruct st.
        -- apply (SUB k []). eapply stream_first_poll_enabled; eauto.
        -- apply negb_false_iff in Hf. destruct (handed_owner s a k Hf) as (e & He & Ho).
           apply (SUB k []). eapply stream_handed_poll_enabled; eauto.
        -- pose proof (si_unl _ HS _ _ _ _ Ha Hk) as Hg. destruct (Inv_guard_present s g k HI Hg) as (e & He & _).
           apply (SUB k []). eapply stream_unlock_enabled; eauto. rewrite He. discriminate.
    + (* PStreamDrop *) destruct Hsh as [Hn Hsd]. destruct subs as [|[k st] t]; [congruence|].
      assert (Hk : aget k ((k, st) :: t) = Some st) by (cbn; rewrite Nat.eqb_refl; auto).
      apply (SUB k []). destruct st; [| |cbn in Hsd; discriminate];
        (destruct (cancel_stream_sub c s a _ k [] HI Ha) as (s' & ob & Hst & _); [rewrite Hk; auto|eauto]).
  - (* nobody can move *)
    assert (HB : all_blocked s).
    { intros a p Ha. apply aget_In in Ha. destruct (agent_blocked s a p) eqn:B; auto. exfalso.
      assert (existsb (fun ap => negb (agent_blocked s (fst ap) (snd ap))) (s_ops s) = true).
      { apply existsb_exists. exists (a, p). split; auto. cbn. rewrite B. auto. }
      congruence. }
    destruct (s_guards s) as [|[g k] gs] eqn:Eg.
    + exfalso. destruct Hne as [Hne|Hne]; [|congruence]. destruct (s_ops s) as [|[a p] t] eqn:Eo; [congruence|].
      assert (Ha : aget a (s_ops s) = Some p) by (rewrite Eo; cbn; rewrite Nat.eqb_refl; auto).
      pose proof (HB a p Ha) as B.
      assert (exists k, waits_on s a k) as [k W].
      { destruct p; cbn in B; try discriminate.
        - exists k. exists (PQueued sh k). split; auto. cbn. apply Nat.eqb_refl.
        - destruct subs as [|[k st] t']; [discriminate|]. cbn in B. apply andb_true_iff in B as [B1 _].
          destruct st; try discriminate.
          exists k. exists (PStream ((k, SQueued) :: t')). split; auto. cbn. unfold sub_waits. cbn. rewrite Nat.eqb_refl. auto. }
      destruct (all_blocked_guard s a k HI HB W) as [g Hg]. rewrite Eg in Hg. discriminate.
    + (* drop the first guard *)
      set (a' := fresh_aid (s_ops s)).
      assert (Hf : aget a' (s_ops s) = None) by apply fresh_aid_None.
      assert (Hgl : guard_live s g = true).
      { unfold guard_live, amem. rewrite Eg. cbn. rewrite Nat.eqb_refl. cbn. rewrite all_blocked_not_busy; auto. }
      set (s1 := set_pc (begin_unlock c s g) a' (PDrops [g] ADoneUnit)).
      assert (H1 : step c s (LStart a' (CDrop g)) = ROk s1 ONothing).
      { cbn. unfold do_start, amem. rewrite Hf, Hgl. reflexivity. }
      pose proof (step_inv _ _ _ _ _ HI H1) as HI1. pose proof (step_dinv _ _ _ _ _ HI HD H1) as HD1.
      assert (Ha1 : aget a' (s_ops s1) = Some (PDrops [g] ADoneUnit)) by (unfold s1; cbn; apply aget_aset_eq).
      destruct (drop_enabled c s1 a' g [] ADoneUnit [] HI1 HD1 Ha1) as (s2 & ob & H2).
      destruct (drop_single c s1 a' g [] s2 ob Ha1 H2) as [E1 E2].
      exists [LStart a' (CDrop g); LResume a' []], s2. split.
      * econstructor; [exact I|exact H1|]. eapply dsteps_one; [exact I|exact H2].
      * assert (Eo : s_ops s2 = s_ops s).
        { rewrite E1. unfold s1. cbn. rewrite begin_unlock_ops, adel_aset_same. apply adel_notin_id; auto. }
        assert (Egs : s_guards s2 = adel g (s_guards s)).
        { rewrite E2. unfold s1. cbn. rewrite begin_unlock_guards. auto. }
        unfold mlt, m_se, m_w, m_g. rewrite Eo, Egs, Eg. right. split; auto. right. split; auto.
        cbn. rewrite Nat.eqb_refl. apply Nat.lt_succ_r. apply length_adel_le.
Qed.

Lemma dsteps_preserve c s ls s' : dsteps c s ls s' -> Inv s -> DInv s -> SInv s -> Inv s' /\ DInv s' /\ SInv s'.
Proof.
  induction 1; auto. intros HI HD HS. apply IHdsteps.
  - eapply step_inv; eauto.
  - eapply step_dinv; eauto.
  - eapply step_sinv; eauto.
Qed.

Lemma drain_aux c : forall n1 n2 n3 s,
  m_se s = n1 -> m_w s = n2 -> m_g s = n3 -> Inv s -> DInv s -> SInv s ->
  exists ls s', dsteps c s ls s' /\ s_ops s' = [] /\ s_guards s' = [].
Proof.
  induction n1 as [n1 IH1] using lt_wf_ind.
  induction n2 as [n2 IH2] using lt_wf_ind.
  induction n3 as [n3 IH3] using lt_wf_ind.
  intros s E1 E2 E3 HI HD HS.
  assert (D : (s_ops s = [] /\ s_guards s = []) \/ (s_ops s <> [] \/ s_guards s <> [])).
  { destruct (s_ops s); [destruct (s_guards s); [left; auto|right; right; discriminate]|right; left; discriminate]. }
  destruct D as [[Eo Eg]|Hne]; [exists [], s; split; [constructor|auto]|].
  destruct (progress c s HI HD HS Hne) as (ls & s1 & Hd & Hlt).
  destruct (dsteps_preserve c s ls s1 Hd HI HD HS) as (HI1 & HD1 & HS1).
  assert (R : exists ls2 s2, dsteps c s1 ls2 s2 /\ s_ops s2 = [] /\ s_guards s2 = []).
  { destruct Hlt as [L|[Ee [L|[Ew L]]]].
    - apply (IH1 (m_se s1)) with (n2 := m_w s1) (n3 := m_g s1); auto. lia.
    - apply (IH2 (m_w s1)) with (n3 := m_g s1); auto; lia.
    - apply (IH3 (m_g s1)); auto; lia. }
  destruct R as (ls2 & s2 & Hd2 & Hr). exists (ls ++ ls2), s2. split; auto. eapply dsteps_app; eauto.
Qed.

(* THE THEOREM: no library-made deadlock.  From every reachable state -- any number of calls in flight on
   any keys, blocked behind each other, soft-limited calls in the middle of eviction rounds, streams half
   consumed or half dropped, guards being dropped -- the client can reach a state of rest without starting
   or cancelling any lock call. *)
Theorem drain c s : reachable c s ->
  exists ls s', dsteps c s ls s' /\ s_ops s' = [] /\ s_guards s' = [].
Proof.
  intros H. eapply drain_aux; eauto; [eapply reachable_inv|eapply reachable_dinv|eapply reachable_sinv]; eauto.
Qed.

(* in particular: no reachable state is a dead end for the calls in flight *)
Corollary never_stuck c s : reachable c s -> (s_ops s <> [] \/ s_guards s <> []) ->
  exists l s' o, drain_ok s l /\ step c s l = ROk s' o.
Proof.
  intros H Hne.
  destruct (progress c s (reachable_inv c s H) (reachable_dinv c s H) (reachable_sinv c s H) Hne) as (ls & s1 & Hd & Hlt).
  destruct Hd as [s0|s0 l s' o ls s'' Hok Hst _]; [|eauto].
  exfalso. unfold mlt in Hlt. lia.
Qed.

(* the hypothesis of C03_stream_drops_valueless_guard that the entry is present is an invariant *)
Theorem stream_unlock_enabled' c s a subs k g o :
  reachable c s -> aget a (s_ops s) = Some (PStream subs) -> aget k subs = Some (SUnlocking g) ->
  exists s' ob, step c s (LSub a k o) = ROk s' ob.
Proof.
  intros H Ha Hk. pose proof (reachable_inv c s H) as HI.
  pose proof (si_unl _ (reachable_sinv c s H) _ _ _ _ Ha Hk) as Hg.
  destruct (Inv_guard_present s g k HI Hg) as (e & He & _).
  eapply stream_unlock_enabled; eauto. eapply reachable_dinv; eauto. rewrite He. discriminate.
Qed.
