(* C08 — the soft limit never waits for space, never deadlocks, propagates callback errors.
   PARTIAL in the same sense as C03 (protocol level). *)
From Coq Require Import List Arith ZArith.
From LK Require Import AList Model Inv StepInv PropLemmas Drain.
Import ListNotations.

(* If nothing is evictable (e.g. every entry is locked) the call proceeds to the look-up in the same
   critical section, over the limit, without invoking the callback. *)
Theorem C08_all_locked_proceeds : forall c s a sh k n o s' ob,
  reachable c s -> aget a (s_ops s) = Some (PEnter sh k (Some n)) ->
  (forall k0, In k0 (akeys (s_ents s)) -> evictable_b (s_ents s) k0 = false) ->
  step c s (LResume a o) = ROk s' ob ->
  (forall l, ob <> OOffered l) /\ do_lookup c s a sh k = ROk s' ob.
Proof. intros c s a sh k n o s' ob H. exact (all_locked_proceeds c s a sh k n o s' ob (reachable_inv c s H)). Qed.

(* The eviction step is always enabled: a soft-limited call never waits (for space or anything else). *)
Theorem C08_never_waits : forall c s a sh k lim o,
  reachable c s -> aget a (s_ops s) = Some (PEnter sh k lim) -> oracle_ok c s o ->
  exists s' ob, step c s (LResume a o) = ROk s' ob.
Proof.
  intros c s a sh k lim o Hr Ha Ho.
  apply (resume_enabled c s a (PEnter sh k lim) o (reachable_inv c s Hr) Ha eq_refl). auto.
Qed.

(* While the callback runs the call holds no handle and waits for nothing (the library holds no lock:
   steps are the atomic segments, and PInCb is between two of them), and any call -- including one on
   the same container from inside the callback -- can be started. *)
Theorem C08_callback_holds_nothing : forall sh k n offered k',
  pc_handles (PInCb sh k n offered) k' = 0 /\ pc_waits (PInCb sh k n offered) k' = false.
Proof. exact incb_holds_nothing. Qed.

Theorem C08_reentrant : forall c s a' sh k lim,
  aget a' (s_ops s) = None -> lim_ok lim = true ->
  step c s (LStart a' (CLock sh k lim)) = ROk (set_pc s a' (PEnter sh k lim)) ONothing.
Proof. exact reentrant_start. Qed.

(* A callback error ends the call with that error; nothing of the call is left behind. *)
Theorem C08_error_propagates : forall c s a sh k n offered s' ob,
  aget a (s_ops s) = Some (PInCb sh k n offered) ->
  step c s (LCbReturn a CbErr false) = ROk s' ob -> ob = OErr /\ s' = fin s a.
Proof. exact callback_error_propagates. Qed.

Example C08_witness :
  exists s, run (mkCfg false)
    [LStart 0 (CLock ShTry 1 None); LResume 0 []; LGuardOp 0 (GInsert 10%Z);
     LStart 1 (CLock ShBlocking 2 (Some 1)); LResume 1 [1]]
  = RunOk s [ONothing; OGuard 0 1 None; OVal None; ONothing; OGuard 1 2 None].
Proof. eexists. vm_compute. reflexivity. Qed.
(* Several threads locking at the limit at once all complete: from EVERY reachable state -- any number of
   soft-limited calls before, inside or between eviction rounds, ordinary lockers queued behind the guards the
   callbacks hold -- a run exists to the state of rest in which no new call is started and no pending call is
   cancelled: callbacks return, the calls in flight take their steps, guards are dropped (Drain.v).  No state
   can therefore be a deadlock among soft-limited and ordinary lockers. *)
Theorem C08_no_deadlock_at_the_limit : forall c s,
  reachable c s -> exists ls s', dsteps c s ls s' /\ s_ops s' = [] /\ s_guards s' = [].
Proof. exact drain. Qed.

