(* Lemmas about the association lists of AList.v *)
From Coq Require Import List Arith Bool Lia Permutation.
From LK Require Import AList.
Import ListNotations.

Lemma mem_nat_In x l : mem_nat x l = true <-> In x l.
Proof.
  induction l as [|y t IH]; cbn; [split; [discriminate|tauto]|].
  rewrite orb_true_iff, IH, Nat.eqb_eq. intuition congruence.
Qed.

Lemma mem_nat_false x l : mem_nat x l = false <-> ~ In x l.
Proof. rewrite <- mem_nat_In. destruct (mem_nat x l); split; congruence. Qed.

Lemma remove_nat_In x y l : In y (remove_nat x l) <-> In y l /\ y <> x.
Proof.
  induction l as [|z t IH]; cbn; [tauto|].
  destruct (Nat.eqb_spec x z); cbn; rewrite IH; split; intros H.
  - tauto.
  - destruct H as [[H|H] Hn]; [congruence|auto].
  - destruct H as [H|H]; [subst; split; auto|tauto].
  - tauto.
Qed.

Lemma remove_nat_notin x l : ~ In x l -> remove_nat x l = l.
Proof.
  induction l as [|z t IH]; cbn; auto. intros H.
  destruct (Nat.eqb_spec x z); [subst; tauto|]. f_equal. apply IH. tauto.
Qed.

Lemma remove_nat_NoDup x l : NoDup l -> NoDup (remove_nat x l).
Proof.
  induction 1 as [|z t Hz Hn IH]; cbn; [constructor|].
  destruct (Nat.eqb_spec x z); auto. constructor; auto. rewrite remove_nat_In. tauto.
Qed.

Lemma remove_nat_length_le x l : length (remove_nat x l) <= length l.
Proof. induction l as [|z t IH]; cbn; auto. destruct (Nat.eqb x z); cbn; lia. Qed.

Lemma nodup_nat_NoDup l : nodup_nat l = true <-> NoDup l.
Proof.
  induction l as [|x t IH]; cbn; [split; [constructor|auto]|].
  rewrite andb_true_iff, negb_true_iff, mem_nat_false, IH. split.
  - intros [H1 H2]; constructor; auto.
  - inversion 1; auto.
Qed.

Lemma NoDup_incl_length_eq (o l : list nat) :
  NoDup o -> incl o l -> length o = length l -> NoDup l -> incl l o.
Proof.
  intros Ho Hi Hl Hnl. apply NoDup_length_incl; auto. lia.
Qed.

Lemma is_perm_of_spec o l : NoDup l -> is_perm_of o l = true ->
  NoDup o /\ (forall x, In x o <-> In x l) /\ length o = length l.
Proof.
  unfold is_perm_of. intros Hl H.
  apply andb_true_iff in H as [H H3]. apply andb_true_iff in H as [H1 H2].
  apply Nat.eqb_eq in H1. apply nodup_nat_NoDup in H2.
  rewrite forallb_forall in H3.
  assert (Hi : incl o l) by (intros x Hx; apply mem_nat_In; auto).
  repeat split; auto. intros Hx.
  apply (NoDup_incl_length_eq o l); auto.
Qed.

Lemma is_perm_of_Permutation o l : NoDup l -> is_perm_of o l = true -> Permutation o l.
Proof.
  intros Hl H. destruct (is_perm_of_spec o l Hl H) as (Ho & Hio & _).
  apply NoDup_Permutation; auto.
Qed.

Lemma NoDup_app_snoc (l : list nat) x : NoDup l -> ~ In x l -> NoDup (l ++ [x]).
Proof.
  induction 1 as [|y t Hy Hn IH]; cbn; intros Hx.
  - constructor; [tauto|constructor].
  - constructor; [rewrite in_app_iff; cbn; intuition congruence|apply IH; tauto].
Qed.

Section Facts.
  Context {V : Type}.
  Implicit Types (m : list (nat * V)) (k : nat) (v : V).

  Lemma aget_aset_eq k v m : aget k (aset k v m) = Some v.
  Proof.
    induction m as [|[k' v'] t IH]; cbn; [rewrite Nat.eqb_refl; auto|].
    destruct (Nat.eqb_spec k k'); cbn; [rewrite Nat.eqb_refl; auto|].
    destruct (Nat.eqb_spec k k'); [congruence|auto].
  Qed.

  Lemma aget_aset_neq k k' v m : k <> k' -> aget k (aset k' v m) = aget k m.
  Proof.
    intros Hn. induction m as [|[k2 v2] t IH]; cbn.
    - destruct (Nat.eqb_spec k k'); [congruence|auto].
    - destruct (Nat.eqb_spec k' k2); cbn.
      + subst. destruct (Nat.eqb_spec k k2); [congruence|auto].
      + destruct (Nat.eqb_spec k k2); auto.
  Qed.

  Lemma aget_aset k k' v m : aget k (aset k' v m) = if Nat.eqb k k' then Some v else aget k m.
  Proof.
    destruct (Nat.eqb_spec k k'); [subst; apply aget_aset_eq|apply aget_aset_neq; auto].
  Qed.

  Lemma aget_adel_eq k m : aget k (adel k m) = None.
  Proof.
    induction m as [|[k' v'] t IH]; cbn; auto.
    destruct (Nat.eqb_spec k k'); cbn; auto.
    destruct (Nat.eqb_spec k k'); [congruence|auto].
  Qed.

  Lemma aget_adel_neq k k' m : k <> k' -> aget k (adel k' m) = aget k m.
  Proof.
    intros Hn. induction m as [|[k2 v2] t IH]; cbn; auto.
    destruct (Nat.eqb_spec k' k2); cbn.
    - subst. destruct (Nat.eqb_spec k k2); [congruence|auto].
    - destruct (Nat.eqb_spec k k2); auto.
  Qed.

  Lemma aget_adel k k' m : aget k (adel k' m) = if Nat.eqb k k' then None else aget k m.
  Proof.
    destruct (Nat.eqb_spec k k'); [subst; apply aget_adel_eq|apply aget_adel_neq; auto].
  Qed.

  Lemma aget_app k m1 m2 :
    aget k (m1 ++ m2) = match aget k m1 with Some v => Some v | None => aget k m2 end.
  Proof.
    induction m1 as [|[k' v'] t IH]; cbn; auto. destruct (Nat.eqb k k'); auto.
  Qed.

  Lemma aget_apromote k k' m : aget k (apromote k' m) = aget k m.
  Proof.
    unfold apromote. destruct (aget k' m) as [v|] eqn:E; auto.
    rewrite aget_app, aget_adel. destruct (Nat.eqb_spec k k').
    - subst. cbn. rewrite Nat.eqb_refl. auto.
    - destruct (aget k m); auto. cbn. destruct (Nat.eqb_spec k k'); [congruence|auto].
  Qed.

  Lemma aget_In k v m : aget k m = Some v -> In (k, v) m.
  Proof.
    induction m as [|[k' v'] t IH]; cbn; [discriminate|].
    destruct (Nat.eqb_spec k k'); intros H; [inversion H; subst; auto|auto].
  Qed.

  Lemma aget_Some_keys k v m : aget k m = Some v -> In k (akeys m).
  Proof. intros H. apply aget_In in H. unfold akeys. apply (in_map fst) in H. auto. Qed.

  Lemma aget_None_keys k m : aget k m = None <-> ~ In k (akeys m).
  Proof.
    induction m as [|[k' v'] t IH]; cbn; [tauto|].
    destruct (Nat.eqb_spec k k'); split; intros H.
    - discriminate.
    - subst. tauto.
    - apply IH in H. intros [?|?]; [congruence|tauto].
    - apply IH. tauto.
  Qed.

  Lemma keys_aget k m : In k (akeys m) -> exists v, aget k m = Some v.
  Proof.
    intros H. destruct (aget k m) eqn:E; eauto. apply aget_None_keys in E. tauto.
  Qed.

  Lemma amem_keys k m : amem k m = true <-> In k (akeys m).
  Proof.
    unfold amem. split.
    - destruct (aget k m) eqn:E; [intros _; eapply aget_Some_keys; eauto|discriminate].
    - intros H. destruct (keys_aget _ _ H) as [v ->]. auto.
  Qed.

  Lemma amem_false_keys k m : amem k m = false <-> ~ In k (akeys m).
  Proof. rewrite <- amem_keys. destruct (amem k m); split; congruence. Qed.

  Lemma In_aget k v m : NoDup (akeys m) -> In (k, v) m -> aget k m = Some v.
  Proof.
    induction m as [|[k' v'] t IH]; cbn; [tauto|].
    intros Hnd [H|H].
    - inversion H; subst. rewrite Nat.eqb_refl. auto.
    - inversion Hnd; subst. destruct (Nat.eqb_spec k k'); [|auto].
      subst. exfalso. apply H2. apply (in_map fst) in H. auto.
  Qed.

  Lemma akeys_aset_in k v m : In k (akeys m) -> akeys (aset k v m) = akeys m.
  Proof.
    induction m as [|[k' v'] t IH]; cbn; [tauto|].
    destruct (Nat.eqb_spec k k'); cbn; intros H; [congruence|].
    f_equal. apply IH. destruct H; [congruence|auto].
  Qed.

  Lemma akeys_aset_notin k v m : ~ In k (akeys m) -> akeys (aset k v m) = akeys m ++ [k].
  Proof.
    induction m as [|[k' v'] t IH]; cbn; auto.
    destruct (Nat.eqb_spec k k'); cbn; intros H; [subst; tauto|].
    f_equal. apply IH. tauto.
  Qed.

  Lemma akeys_aset_In k k' v m : In k (akeys (aset k' v m)) <-> k = k' \/ In k (akeys m).
  Proof.
    destruct (in_dec Nat.eq_dec k' (akeys m)) as [H|H].
    - rewrite akeys_aset_in by auto. split; [auto|]. intros [->|?]; auto.
    - rewrite akeys_aset_notin by auto. rewrite in_app_iff. cbn. split; intros [?|?]; auto.
      destruct H0; auto; tauto.
  Qed.

  Lemma akeys_adel k m : akeys (adel k m) = remove_nat k (akeys m).
  Proof.
    induction m as [|[k' v'] t IH]; cbn; auto.
    destruct (Nat.eqb k k'); cbn; fold (akeys t); fold (akeys (adel k t)); congruence.
  Qed.

  Lemma akeys_app m1 m2 : akeys (m1 ++ m2) = akeys m1 ++ akeys m2.
  Proof. unfold akeys. apply map_app. Qed.

  Lemma akeys_apromote k v m : aget k m = Some v -> akeys (apromote k m) = remove_nat k (akeys m) ++ [k].
  Proof.
    unfold apromote. intros ->. rewrite akeys_app, akeys_adel. auto.
  Qed.

  Lemma akeys_apromote_In k k' m : In k (akeys (apromote k' m)) <-> In k (akeys m).
  Proof.
    split; intros H.
    - apply keys_aget in H as [v H]. rewrite aget_apromote in H. eapply aget_Some_keys; eauto.
    - apply keys_aget in H as [v H]. rewrite <- (aget_apromote k k') in H. eapply aget_Some_keys; eauto.
  Qed.

  Lemma NoDup_aset k v m : NoDup (akeys m) -> NoDup (akeys (aset k v m)).
  Proof.
    intros H. destruct (in_dec Nat.eq_dec k (akeys m)) as [Hi|Hi].
    - rewrite akeys_aset_in; auto.
    - rewrite akeys_aset_notin; auto. apply NoDup_app_snoc; auto.
  Qed.

  Lemma NoDup_adel k m : NoDup (akeys m) -> NoDup (akeys (adel k m)).
  Proof. intros H. rewrite akeys_adel. apply remove_nat_NoDup; auto. Qed.

  Lemma NoDup_apromote k m : NoDup (akeys m) -> NoDup (akeys (apromote k m)).
  Proof.
    intros H. unfold apromote. destruct (aget k m) eqn:E; auto.
    rewrite akeys_app, akeys_adel. cbn. apply NoDup_app_snoc.
    - apply remove_nat_NoDup; auto.
    - rewrite remove_nat_In. tauto.
  Qed.

  Lemma length_aset_in k v m : In k (akeys m) -> length (aset k v m) = length m.
  Proof.
    intros H. rewrite <- (map_length fst (aset k v m)), <- (map_length fst m).
    fold (akeys (aset k v m)). fold (akeys m). rewrite akeys_aset_in; auto.
  Qed.

  Lemma adel_notin k m : ~ In k (akeys m) -> adel k m = m.
  Proof.
    induction m as [|[k' v'] t IH]; cbn; auto. intros H.
    destruct (Nat.eqb_spec k k'); [subst; tauto|]. f_equal. apply IH. tauto.
  Qed.

  Lemma In_adel k k' v m : In (k, v) (adel k' m) <-> In (k, v) m /\ k <> k'.
  Proof.
    induction m as [|[k2 v2] t IH]; cbn; [tauto|].
    destruct (Nat.eqb_spec k' k2); cbn; rewrite IH; split; intros H.
    - tauto.
    - destruct H as [[H|H] Hn]; [inversion H; subst; congruence|auto].
    - destruct H as [H|H]; [inversion H; subst; split; auto|tauto].
    - tauto.
  Qed.

  Lemma In_aset_other k k' v v' m : k <> k' -> In (k, v) (aset k' v' m) <-> In (k, v) m.
  Proof.
    intros Hn. induction m as [|[k2 v2] t IH]; cbn.
    - split; [intros [H|[]]; inversion H; congruence|tauto].
    - destruct (Nat.eqb_spec k' k2); cbn.
      + subst. split; intros [H|H]; auto; inversion H; congruence.
      + rewrite IH. tauto.
  Qed.
End Facts.

#[export] Hint Rewrite @aget_aset_eq @aget_adel_eq @aget_apromote : alist.

Lemma keys_aget_iff {V : Type} k (m : list (nat * V)) : In k (akeys m) <-> exists v, aget k m = Some v.
Proof. split; [apply keys_aget|intros [v H]; eapply aget_Some_keys; eauto]. Qed.

Lemma aset_aset {V : Type} k (v1 v2 : V) m : aset k v2 (aset k v1 m) = aset k v2 m.
Proof.
  induction m as [|[k' v'] t IH]; cbn.
  - rewrite Nat.eqb_refl. auto.
  - destruct (Nat.eqb_spec k k'); cbn.
    + rewrite Nat.eqb_refl. auto.
    + destruct (Nat.eqb_spec k k'); [congruence|]. f_equal. auto.
Qed.

Lemma remove_nat_length_in x l : NoDup l -> In x l -> length (remove_nat x l) + 1 = length l.
Proof.
  induction 1 as [|y t Hy Hn IH]; cbn; [tauto|].
  intros [->|Hin].
  - rewrite Nat.eqb_refl. rewrite remove_nat_notin by auto. lia.
  - destruct (Nat.eqb_spec x y); [subst; tauto|]. cbn. specialize (IH Hin). lia.
Qed.

Lemma length_akeys {V : Type} (m : list (nat * V)) : length (akeys m) = length m.
Proof. unfold akeys. apply map_length. Qed.

Lemma remove_nat_app x l1 l2 : remove_nat x (l1 ++ l2) = remove_nat x l1 ++ remove_nat x l2.
Proof. induction l1 as [|y t IH]; cbn; auto. destruct (Nat.eqb x y); cbn; congruence. Qed.

Lemma remove_nat_idem x l : remove_nat x (remove_nat x l) = remove_nat x l.
Proof. apply remove_nat_notin. rewrite remove_nat_In. tauto. Qed.

Lemma adel_aset_absent {V : Type} k (v : V) m : aget k m = None -> adel k (aset k v m) = m.
Proof.
  induction m as [|[k' v'] t IH]; cbn; intros H.
  - rewrite Nat.eqb_refl. auto.
  - destruct (Nat.eqb_spec k k'); [discriminate|]. cbn. destruct (Nat.eqb_spec k k'); [congruence|]. f_equal. auto.
Qed.

Lemma alist_split {V : Type} k (v : V) m : NoDup (akeys m) -> aget k m = Some v ->
  exists l1 l2, m = l1 ++ (k, v) :: l2 /\ adel k m = l1 ++ l2 /\
                (forall v', aset k v' m = l1 ++ (k, v') :: l2) /\
                ~ In k (akeys l1) /\ ~ In k (akeys l2).
Proof.
  induction m as [|[k' v'] t IH]; cbn; intros Hnd H; [discriminate|].
  inversion Hnd as [|? ? Hn Hnd']; subst.
  destruct (Nat.eqb_spec k k') as [E|E].
  - inversion H; subst. exists [], t. cbn. repeat split; auto.
    + apply adel_notin; auto.
  - destruct (IH Hnd' H) as (l1 & l2 & E1 & E2 & E3 & N1 & N2).
    exists ((k', v') :: l1), l2. cbn. repeat split; auto.
    + rewrite E1. reflexivity.
    + rewrite E2. reflexivity.
    + intros v0. rewrite E3. reflexivity.
    + intros [H0|H0]; [congruence|tauto].
Qed.

Lemma adel_aset_same {V : Type} k (v : V) m : adel k (aset k v m) = adel k m.
Proof.
  induction m as [|[k' v'] t IH]; cbn.
  - rewrite Nat.eqb_refl. auto.
  - destruct (Nat.eqb_spec k k'); cbn.
    + rewrite Nat.eqb_refl. auto.
    + destruct (Nat.eqb_spec k k'); [congruence|]. f_equal. auto.
Qed.

Lemma adel_app {V : Type} k (m1 m2 : list (nat * V)) : adel k (m1 ++ m2) = adel k m1 ++ adel k m2.
Proof. induction m1 as [|[k' v'] t IH]; cbn; auto. destruct (Nat.eqb k k'); cbn; congruence. Qed.

Lemma adel_idem {V : Type} k (m : list (nat * V)) : adel k (adel k m) = adel k m.
Proof.
  induction m as [|[k' v'] t IH]; cbn; auto. destruct (Nat.eqb_spec k k'); cbn; auto.
  destruct (Nat.eqb_spec k k'); [congruence|]. f_equal. auto.
Qed.

Lemma adel_apromote_same {V : Type} k (m : list (nat * V)) : adel k (apromote k m) = adel k m.
Proof.
  unfold apromote. destruct (aget k m); auto.
  rewrite adel_app, adel_idem. cbn. rewrite Nat.eqb_refl. apply app_nil_r.
Qed.
