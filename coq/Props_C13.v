(* C13 — valid use never panics, poisons or hangs the container. *)
From Coq Require Import List Arith ZArith.
From LK Require Import AList Model Inv StepInv NoPanic.
Import ListNotations.

(* No label whatsoever makes the library panic in a reachable state.  RPanic covers every
   expect/assert/panic site of the modelled code and the slow_assertions invariant check that runs at
   both ends of every critical section (cs in Model.v); all limits >= 1 and all durations are covered
   by the quantification over labels. *)
Theorem C13_no_panic : forall c s l site, reachable c s -> step c s l <> RPanic site.
Proof. intros c s l site H. exact (step_no_panic c s l site (reachable_inv c s H)). Qed.

(* ... hence no run from the initial state ends in a panic. *)
Theorem C13_runs_never_panic : forall c ls n site, run c ls <> RunPanic n site.
Proof.
  intros c ls n site. unfold run.
  assert (G : forall ls s k acc, Inv s -> run_from c s ls k acc <> RunPanic n site).
  { induction ls0 as [|l rest IH]; intros s k acc HI; cbn; [discriminate|].
    destruct (step c s l) as [s' o| |site'] eqn:E; [|discriminate|].
    - apply IH. eapply step_inv; eauto.
    - exfalso. eapply step_no_panic; eauto. }
  apply G. apply Inv_init.
Qed.

(* the slow_assertions check itself holds in every reachable state *)
Theorem C13_slow_assertions_hold : forall c s, reachable c s -> inv2_ok (s_ents s) = true.
Proof. intros c s H. exact (Inv_inv2_ok s (reachable_inv c s H)). Qed.
