//! Explorers (stage 6): random walks over the enabled actions and exhaustive
//! DFS over the interleavings of small programs.
//!
//! A *family* is a named parameter set ([`Family`]); add new ones in
//! [`family`] (random walks) or [`dfs_programs`] (DFS).  All randomness of a
//! run comes from one PRNG seeded by `(seed, run index)`, so a run can be
//! regenerated from its id; the only other source of nondeterminism is the
//! iteration order of `std::collections::HashMap` (backends H and P), which
//! shows up in ORD lists, snapshot order and the order of eviction offers.

use crate::exec::{Enabled, Executor, LastPoll};
use crate::replay::variant_text;
use crate::types::*;
use std::collections::BTreeMap;
use std::io::Write;
use std::sync::atomic::{AtomicUsize, Ordering};
use std::sync::mpsc;
use std::sync::{Arc, Mutex};

// ---------------------------------------------------------------------------
// PRNG

/// splitmix64 seeding + xorshift64* stream. Small, fast, good enough for schedules.
pub struct Rng(u64);

pub fn splitmix(mut x: u64) -> u64 {
    x = x.wrapping_add(0x9E37_79B9_7F4A_7C15);
    let mut z = x;
    z = (z ^ (z >> 30)).wrapping_mul(0xBF58_476D_1CE4_E5B9);
    z = (z ^ (z >> 27)).wrapping_mul(0x94D0_49BB_1331_11EB);
    z ^ (z >> 31)
}

impl Rng {
    pub fn new(seed: u64, run: u64) -> Rng {
        let s = splitmix(splitmix(seed) ^ splitmix(run.wrapping_mul(0xA24B_AED4_963E_E407).wrapping_add(1)));
        Rng(if s == 0 { 0x1234_5678_9ABC_DEF1 } else { s })
    }
    pub fn next(&mut self) -> u64 {
        let mut x = self.0;
        x ^= x >> 12;
        x ^= x << 25;
        x ^= x >> 27;
        self.0 = x;
        x.wrapping_mul(0x2545_F491_4F6C_DD1D)
    }
    /// Uniform in `0..n` (n > 0).
    pub fn below(&mut self, n: u64) -> u64 {
        self.next() % n
    }
    pub fn pct(&mut self, p: u32) -> bool {
        self.below(100) < p as u64
    }
    pub fn pick<'a, T>(&mut self, v: &'a [T]) -> &'a T {
        &v[self.below(v.len() as u64) as usize]
    }
    /// Index chosen with probability proportional to the weights (not all zero).
    pub fn weighted(&mut self, w: &[u32]) -> usize {
        let total: u64 = w.iter().map(|x| *x as u64).sum();
        let mut r = self.below(total.max(1));
        for (i, x) in w.iter().enumerate() {
            if r < *x as u64 {
                return i;
            }
            r -= *x as u64;
        }
        w.len() - 1
    }
}

// ---------------------------------------------------------------------------
// Families (random walk)

/// Parameters of a random-walk family. Weights are relative; a category whose weight is 0
/// (or that is not enabled in the current state) is never chosen.
#[derive(Debug, Clone)]
pub struct Family {
    pub name: &'static str,
    /// Keys are drawn from `1..=max_keys`.
    pub max_keys: u64,
    /// Maximal number of agents alive at once.
    pub max_agents: usize,
    /// Steps of the random phase (the drain phase comes on top).
    pub max_steps: usize,
    pub w_lock: u32,
    pub w_drop: u32,
    pub w_gop: u32,
    pub w_resume: u32,
    pub w_cancel: u32,
    pub w_cbret: u32,
    pub w_tick: u32,
    pub w_expire: u32,
    pub w_stream: u32,
    pub w_stream_step: u32,
    pub w_count: u32,
    pub w_keys: u32,
    /// Shapes b, a, t, ta.
    pub shape_w: [u32; 4],
    /// Percentage of lock calls with a soft limit, and the largest limit.
    pub p_limit: u32,
    pub lim_max: u64,
    /// Callback results ok, err, panic; percentage of `hold`.
    pub cb_w: [u32; 3],
    pub p_hold: u32,
    /// Percentage: remove the values of the offered guards before `cbret` (a well-behaved callback).
    pub p_evict_rem: u32,
    /// Guard ops ins, rem, set, tryins, getins, read, cpanic.
    pub gop_w: [u32; 7],
    pub tick_max: u64,
    pub expire_max_d: u64,
    /// Percentage of `expire max`.
    pub p_expire_max: u32,
    /// Percentage of runs using the `_owned` API variants (unless forced on the command line).
    pub p_owned: u32,
    /// Sequential histories: whenever some agent can run, run it first (every call runs to completion
    /// or to the point where it blocks before the client does anything else).
    pub eager: bool,
}

const BASE: Family = Family {
    name: "mix",
    max_keys: 3,
    max_agents: 4,
    max_steps: 30,
    w_lock: 20,
    w_drop: 14,
    w_gop: 14,
    w_resume: 40,
    w_cancel: 4,
    w_cbret: 12,
    w_tick: 4,
    w_expire: 3,
    w_stream: 3,
    w_stream_step: 14,
    w_count: 1,
    w_keys: 1,
    shape_w: [3, 3, 2, 2],
    p_limit: 30,
    lim_max: 3,
    cb_w: [6, 1, 1],
    p_hold: 50,
    p_evict_rem: 70,
    gop_w: [6, 3, 2, 2, 2, 2, 1],
    tick_max: 3,
    expire_max_d: 4,
    p_expire_max: 3,
    p_owned: 50,
    eager: false,
};

pub const FAMILY_NAMES: &[&str] =
    &["mix", "nolimit", "evict", "expiry", "stream", "pool", "nocancel", "seq", "wide", "wide-evict", "scale", "scale-stream"];

/// Named parameter sets. To add a family: add a name above and an arm here.
pub fn family(name: &str) -> Option<Family> {
    Some(match name {
        // everything
        "mix" => BASE,
        // by-key calls without limits, drops, gops, cancels
        "nolimit" => Family {
            name: "nolimit",
            p_limit: 0,
            w_cbret: 0,
            w_tick: 0,
            w_expire: 0,
            w_stream: 0,
            w_stream_step: 0,
            w_cancel: 6,
            max_keys: 2,
            ..BASE
        },
        // soft limits + callbacks
        "evict" => Family {
            name: "evict",
            p_limit: 80,
            lim_max: 3,
            max_keys: 4,
            w_cbret: 25,
            w_gop: 22,
            w_expire: 0,
            w_stream: 0,
            w_stream_step: 0,
            w_tick: 1,
            gop_w: [10, 3, 1, 1, 2, 1, 0],
            ..BASE
        },
        // L: ticks, expire, overlapping holds
        "expiry" => Family {
            name: "expiry",
            p_limit: 0,
            w_cbret: 0,
            w_stream: 0,
            w_stream_step: 0,
            w_cancel: 0,
            w_tick: 14,
            w_expire: 10,
            w_gop: 18,
            max_keys: 4,
            max_steps: 40,
            shape_w: [3, 0, 3, 0],
            gop_w: [10, 1, 1, 1, 2, 1, 0],
            p_expire_max: 1,
            ..BASE
        },
        "stream" => Family {
            name: "stream",
            p_limit: 0,
            w_cbret: 0,
            w_expire: 0,
            w_tick: 0,
            w_stream: 10,
            w_stream_step: 30,
            w_cancel: 5,
            max_steps: 40,
            gop_w: [8, 3, 1, 1, 1, 1, 0],
            ..BASE
        },
        // like mix but without client cancellations, `expire max` and expiry: avoids the known
        // defects of the unfixed code, so that whole runs can be compared with the model
        "nocancel" => Family { name: "nocancel", w_cancel: 0, w_expire: 0, p_expire_max: 0, ..BASE },
        // single-threaded histories: every call runs to completion (or until it blocks) at once
        "seq" => Family {
            name: "seq",
            eager: true,
            max_agents: 3,
            max_steps: 45,
            w_gop: 24,
            w_cancel: 2,
            w_count: 3,
            w_keys: 3,
            gop_w: [6, 3, 3, 3, 3, 3, 1],
            ..BASE
        },
        // medium scope: a dozen keys, limits up to 10, six agents, long runs (for behaviour that depends on a
        // population, limit or number of parties beyond the 3-4 of the other families but far below `scale`)
        "wide" => Family {
            name: "wide",
            max_keys: 12,
            max_agents: 6,
            max_steps: 140,
            lim_max: 10,
            p_limit: 40,
            w_gop: 22,
            w_lock: 26,
            gop_w: [10, 2, 2, 2, 2, 2, 1],
            p_evict_rem: 60,
            expire_max_d: 8,
            ..BASE
        },
        "wide-evict" => Family {
            name: "wide-evict",
            max_keys: 12,
            max_agents: 5,
            max_steps: 140,
            p_limit: 85,
            lim_max: 10,
            w_lock: 26,
            w_cbret: 25,
            w_gop: 24,
            w_expire: 0,
            w_stream: 0,
            w_stream_step: 0,
            w_tick: 1,
            gop_w: [12, 2, 1, 1, 2, 1, 0],
            p_evict_rem: 60,
            ..BASE
        },
        // P: LockPool (b, a, t; no values)
        "pool" => Family {
            name: "pool",
            p_limit: 0,
            w_cbret: 0,
            w_expire: 0,
            w_tick: 0,
            w_stream: 0,
            w_stream_step: 0,
            w_gop: 0,
            w_cancel: 6,
            shape_w: [3, 3, 3, 0],
            p_owned: 0,
            ..BASE
        },
        _ => return None,
    })
}

// ---------------------------------------------------------------------------
// One run

/// Result of one run (random or DFS).
pub struct RunOut {
    pub id: String,
    /// The trace text (emptied once it has been written to a part file).
    pub trace: String,
    /// The labels of the run; kept only for runs with a monitor hit (for the replay file).
    pub labels: Vec<Label>,
    /// Label-kind histogram of the run.
    pub kinds: BTreeMap<&'static str, u32>,
    pub header: String,
    pub steps: usize,
    pub violation: Option<Violation>,
    /// For DFS: number of alternatives at each choice point.
    pub widths: Vec<usize>,
}

fn timed_out(r: &RunOut) -> bool {
    r.trace.contains("HANG timeout") || r.violation.as_ref().is_some_and(|v| v.text.contains("HANG timeout"))
}

/// Runs confirmed as real hangs / found to be slow-machine artefacts by [`confirmed`].
pub static HANGS_CONFIRMED: std::sync::atomic::AtomicU64 = std::sync::atomic::AtomicU64::new(0);
pub static HANGS_NOT_REPRODUCED: std::sync::atomic::AtomicU64 = std::sync::atomic::AtomicU64::new(0);

/// A run that ended in a watchdog time-out (not a detected self-deadlock) is executed again -- same seed, same
/// schedule -- with a 20 s watchdog, and only the second execution counts: a thread that was descheduled for
/// two seconds on an overloaded machine is not a hang of the library. After three hangs have been confirmed
/// in this process further time-outs are believed at once.
fn confirmed(f: impl Fn() -> RunOut) -> RunOut {
    use std::sync::atomic::Ordering::SeqCst;
    let r = f();
    if !timed_out(&r) || HANGS_CONFIRMED.load(SeqCst) >= 3 {
        return r;
    }
    crate::sched::WATCHDOG_OVERRIDE.with(|c| c.set(Some(std::time::Duration::from_secs(20))));
    let r2 = f();
    crate::sched::WATCHDOG_OVERRIDE.with(|c| c.set(None));
    if timed_out(&r2) {
        HANGS_CONFIRMED.fetch_add(1, SeqCst);
    } else {
        HANGS_NOT_REPRODUCED.fetch_add(1, SeqCst);
    }
    r2
}

/// Collects the trace text of a run while driving the executor.
struct Recorder {
    ex: Executor,
    backend: Backend,
    text: String,
    labels: Vec<Label>,
    stop: bool,
    /// Do not record the trace text (runs with thousands of entries; monitors only).
    quiet: bool,
}

impl Recorder {
    fn new(id: &str, backend: Backend, owned: bool, note: &str) -> (Recorder, String) {
        let ex = Executor::new(backend, owned);
        let fine = if crate::sched::FINE.load(std::sync::atomic::Ordering::SeqCst) { " fine=1" } else { "" };
        let header = format!("trace {} {} {} {}{}", id, backend.name(), variant_text(ex.owned), note, fine);
        let mut text = String::with_capacity(4096);
        text.push_str(&header);
        text.push('\n');
        (Recorder { ex, backend, text, labels: Vec::new(), stop: false, quiet: false }, header)
    }

    /// Apply an action; returns false if it was not enabled. Sets `stop` on a monitor hit or
    /// when the run cannot continue.
    fn act(&mut self, a: Action) -> bool {
        match self.ex.apply(&a) {
            Ok(Some(seg)) => {
                for (l, _) in &seg.steps {
                    self.labels.push(l.clone());
                }
                if !self.quiet {
                    for line in seg.lines(self.backend) {
                        self.text.push_str(&line.text());
                        self.text.push('\n');
                    }
                }
                if !self.ex.violations.is_empty() || self.ex.dead || self.ex.consumed || self.ex.monitors.lib_failed {
                    self.stop = true;
                }
                true
            }
            Ok(None) => true,
            Err(e) => {
                self.text.push_str(&format!("# not enabled: {:?}: {}\n", a, e));
                false
            }
        }
    }

    /// Finish all agents, drop all guards, then `consume` (each action is part of the trace).
    fn drain(&mut self, rng: &mut Rng) {
        for _ in 0..2000 {
            if self.stop {
                return;
            }
            let en = self.ex.enabled();
            let a = if !en.resumable.is_empty() {
                Action::Resume(*rng.pick(&en.resumable))
            } else if !en.stream_continue.is_empty() {
                Action::StreamStep(en.stream_continue[0])
            } else if let Some((aid, _, _, _)) = en.in_callback.first() {
                // `ok` could re-invoke the callback forever if nothing was evicted
                Action::CbRet(*aid, CbRes::Err, false)
            } else if let Some((aid, _, _)) = en
                .stream_idle
                .iter()
                .find(|(_, lp, woken)| matches!(lp, LastPoll::Fresh | LastPoll::Item) || *woken)
            {
                // let streams run to their end where possible
                Action::StreamStep(*aid)
            } else if let Some((g, _)) = en.guards.first() {
                Action::Start(Call::Drop(*g))
            } else if let Some((aid, _, _)) = en.stream_idle.first() {
                Action::Cancel(*aid)
            } else if let Some(aid) = en.cancellable.first() {
                Action::Cancel(*aid)
            } else if en.can_consume {
                Action::Consume
            } else {
                self.text.push_str(&format!(
                    "# drain stuck: agents {:?} are blocked, were never woken and cannot be cancelled\n",
                    en.blocked_unwoken
                ));
                return;
            };
            if !self.act(a) {
                return;
            }
        }
    }

    fn finish(mut self, id: String, header: String, widths: Vec<usize>) -> RunOut {
        let violation = self.ex.violations.first().cloned();
        match &violation {
            None => self.text.push_str("end ok\n"),
            Some(v) => self.text.push_str(&format!("end violation {} {}\n", v.id, v.text)),
        }
        self.ex.teardown();
        let mut kinds: BTreeMap<&'static str, u32> = BTreeMap::new();
        for l in &self.labels {
            *kinds.entry(l.kind()).or_default() += 1;
        }
        let steps = self.labels.len();
        let labels = if violation.is_some() { self.labels } else { Vec::new() };
        RunOut { id, trace: self.text, steps, labels, kinds, header, violation, widths }
    }
}

fn random_gop(f: &Family, rng: &mut Rng) -> Gop {
    let v = rng.below(90) as i64 + 10;
    match rng.weighted(&f.gop_w) {
        0 => Gop::Ins(v),
        1 => Gop::Rem,
        2 => Gop::Set(v),
        3 => Gop::TryIns(v),
        4 => Gop::GetIns(v),
        5 => Gop::Read,
        _ => Gop::CPanic,
    }
}

/// Choose the next action of a random walk; `None` if nothing is enabled.
fn random_action(f: &Family, backend: Backend, en: &Enabled, rng: &mut Rng) -> Option<Vec<Action>> {
    if f.eager {
        if let Some(a) = en.resumable.first() {
            return Some(vec![Action::Resume(*a)]);
        }
        if let Some(a) = en.stream_continue.first() {
            return Some(vec![Action::StreamStep(*a)]);
        }
    }
    let can_start = en.alive_agents < f.max_agents;
    let lru = backend == Backend::L;
    let pool = backend == Backend::P;
    // idle streams worth polling get the full weight, the others a token one
    let hot: Vec<Aid> = en
        .stream_idle
        .iter()
        .filter(|(_, lp, woken)| matches!(lp, LastPoll::Fresh | LastPoll::Item) || *woken)
        .map(|x| x.0)
        .collect();
    let cold: Vec<Aid> = en.stream_idle.iter().map(|x| x.0).filter(|a| !hot.contains(a)).collect();
    let n_step = en.stream_continue.len() + hot.len();
    let w = [
        if can_start { f.w_lock } else { 0 },
        if en.guards.is_empty() { 0 } else { f.w_drop },
        if en.guards.is_empty() || (pool && f.w_gop == 0) { 0 } else { f.w_gop },
        if en.resumable.is_empty() { 0 } else { f.w_resume },
        if en.cancellable.is_empty() { 0 } else { f.w_cancel },
        if en.in_callback.is_empty() { 0 } else { f.w_cbret },
        // no tick between the two halves of a critical section: the time stamp `on_unlock` writes for the
        // next guard of a multi-guard drop belongs to the second half, the model makes the whole step at the
        // first (DESIGN 4.7), and the order of a tick relative to either half is the client's business anyway
        if lru && !en.cs_held { f.w_tick } else { 0 },
        if lru && can_start { f.w_expire } else { 0 },
        if !pool && can_start { f.w_stream } else { 0 },
        if n_step > 0 {
            f.w_stream_step
        } else if !cold.is_empty() && f.w_stream_step > 0 {
            1
        } else {
            0
        },
        if can_start { f.w_count } else { 0 },
        if can_start { f.w_keys } else { 0 },
    ];
    if w.iter().all(|x| *x == 0) {
        return None;
    }
    Some(match rng.weighted(&w) {
        0 => {
            let mut sw = f.shape_w;
            if pool {
                sw[3] = 0;
            }
            let sh = [Shape::B, Shape::A, Shape::T, Shape::TA][rng.weighted(&sw)];
            let key = 1 + rng.below(f.max_keys);
            let lim = if !pool && rng.pct(f.p_limit) { 1 + rng.below(f.lim_max) } else { 0 };
            vec![Action::Start(Call::Lock { sh, key, lim })]
        }
        1 => vec![Action::Start(Call::Drop(rng.pick(&en.guards).0))],
        2 => vec![Action::Gop(rng.pick(&en.guards).0, random_gop(f, rng))],
        3 => vec![Action::Resume(*rng.pick(&en.resumable))],
        4 => vec![Action::Cancel(*rng.pick(&en.cancellable))],
        5 => {
            let (aid, offered, all_in_table, _) = rng.pick(&en.in_callback).clone();
            let res = [CbRes::Ok, CbRes::Err, CbRes::Panic][rng.weighted(&f.cb_w)];
            let hold = all_in_table && rng.pct(f.p_hold);
            let mut v = Vec::new();
            if rng.pct(f.p_evict_rem) {
                for g in &offered {
                    if en.guards.iter().any(|x| x.0 == *g) {
                        v.push(Action::Gop(*g, Gop::Rem));
                    }
                }
            }
            v.push(Action::CbRet(aid, res, hold));
            v
        }
        6 => vec![Action::Tick(1 + rng.below(f.tick_max))],
        7 => {
            let d = if rng.pct(f.p_expire_max) { None } else { Some(rng.below(f.expire_max_d + 1)) };
            vec![Action::Start(Call::Expire(d))]
        }
        8 => vec![Action::Start(Call::Stream)],
        9 => {
            let mut c: Vec<Aid> = en.stream_continue.clone();
            c.extend(hot.iter().copied());
            if c.is_empty() {
                c = cold;
            }
            vec![Action::StreamStep(*rng.pick(&c))]
        }
        10 => vec![Action::Start(Call::Count)],
        _ => vec![Action::Start(Call::Keys)],
    })
}

/// One random run of family `f`.
pub fn random_run(f: &Family, backend: Backend, forced_owned: Option<bool>, seed: u64, run: u64) -> RunOut {
    random_run_fork(f, backend, forced_owned, seed, run, None)
}

/// Like [random_run], but with `fork = Some((n_labels, i))` the walk follows run `run` until it has
/// produced `n_labels` labels and then continues with a different random stream (fork number `i`),
/// for `2 * max_steps` further steps: a search for a failing input that starts at the point where a
/// recorded trace began to differ from the model.
pub fn random_run_fork(
    f: &Family,
    backend: Backend,
    forced_owned: Option<bool>,
    seed: u64,
    run: u64,
    fork: Option<(usize, u64)>,
) -> RunOut {
    let mut rng = Rng::new(seed, run);
    let owned = forced_owned.unwrap_or_else(|| rng.pct(f.p_owned));
    // "Callback personality": in a third of the runs every eviction callback of the run answers the same
    // way (e.g. always returns Ok without removing anything, or always removes everything), so that long
    // eviction loops of one call are explored, not only mixtures.
    let mut fam = f.clone();
    if f.w_cbret > 0 && rng.pct(33) {
        let (res, hold, rem) = match rng.below(100) {
            0..=39 => (0usize, 100u32, 0u32),  // Ok, keeps its guards until it returns, removes nothing
            40..=64 => (0, 0, 100),            // Ok, removes everything, guards stay with the client
            65..=84 => (0, 100, 100),          // Ok, removes everything, drops the guards on return
            85..=92 => (1, 100, 0),            // Err
            _ => (2, 100, 0),                  // panic
        };
        fam.cb_w = [0, 0, 0];
        fam.cb_w[res] = 1;
        fam.p_hold = hold;
        fam.p_evict_rem = rem;
    }
    let f = &fam;
    let id = match fork {
        None => format!("{}-{}-{}-{}", f.name, backend.name(), seed, run),
        Some((n, i)) => format!("{}-{}-{}-{}f{}x{}", f.name, backend.name(), seed, run, n, i),
    };
    let (mut rec, header) = Recorder::new(&id, backend, owned, &format!("family={} seed={} run={}", f.name, seed, run));
    let mut steps = 0;
    let mut forked = false;
    let mut max_steps = f.max_steps;
    'walk: while steps < max_steps && !rec.stop {
        if let Some((n, i)) = fork {
            if !forked && rec.labels.len() >= n {
                forked = true;
                rng = Rng::new(seed ^ 0x9e3779b97f4a7c15u64.wrapping_mul(i + 1), run.wrapping_add(1_000_003 * (i + 1)));
                max_steps = steps + 2 * f.max_steps;
            }
        }
        let en = rec.ex.enabled();
        let Some(actions) = random_action(f, backend, &en, &mut rng) else { break };
        for a in actions {
            rec.act(a);
            steps += 1;
            if rec.stop {
                break 'walk;
            }
        }
    }
    rec.drain(&mut rng);
    rec.finish(id, header, Vec::new())
}

/// A long sequential history over more than a thousand keys (monitors only, no trace text): inserts
/// `n` values under distinct keys, then re-reads a sample of them (the oldest ones first), then consumes.
/// Finds defects that need a large population (e.g. a hidden capacity bound of the inner map).
pub fn scale_run(backend: Backend, forced_owned: Option<bool>, seed: u64, run: u64) -> RunOut {
    let mut rng = Rng::new(seed, run);
    let owned = forced_owned.unwrap_or_else(|| rng.pct(50));
    let id = format!("scale-{}-{}-{}", backend.name(), seed, run);
    let (mut rec, header) = Recorder::new(&id, backend, owned, &format!("family=scale seed={} run={}", seed, run));
    rec.quiet = true;
    let n = 1030 + rng.below(300);
    let shapes = [Shape::B, Shape::A, Shape::T, Shape::TA];
    let pool = backend == Backend::P;
    let mut lock_and = |rec: &mut Recorder, rng: &mut Rng, key: Key, op: Option<Gop>| {
        let sh = if pool { [Shape::B, Shape::A, Shape::T][rng.below(3) as usize] } else { shapes[rng.below(4) as usize] };
        if !rec.act(Action::Start(Call::Lock { sh, key, lim: 0 })) {
            return;
        }
        for _ in 0..6 {
            if rec.stop {
                return;
            }
            let en = rec.ex.enabled();
            match en.resumable.first() {
                Some(a) => {
                    rec.act(Action::Resume(*a));
                }
                None => break,
            }
        }
        if rec.stop {
            return;
        }
        let en = rec.ex.enabled();
        if let Some((g, _)) = en.guards.iter().find(|(_, k)| *k == key).copied() {
            if let Some(op) = op {
                rec.act(Action::Gop(g, op));
            }
            if rec.stop {
                return;
            }
            rec.act(Action::Start(Call::Drop(g)));
            for _ in 0..4 {
                if rec.stop {
                    return;
                }
                let en = rec.ex.enabled();
                match en.resumable.first() {
                    Some(a) => {
                        rec.act(Action::Resume(*a));
                    }
                    None => break,
                }
            }
        }
    };
    for key in 1..=n {
        if rec.stop {
            break;
        }
        let op = if pool { None } else { Some(Gop::Ins((key % 89) as i64 + 10)) };
        lock_and(&mut rec, &mut rng, key, op);
    }
    // re-read the oldest keys and a random sample
    for key in 1..=8u64 {
        if rec.stop {
            break;
        }
        lock_and(&mut rec, &mut rng, key, if pool { None } else { Some(Gop::Read) });
    }
    for _ in 0..24 {
        if rec.stop {
            break;
        }
        let key = 1 + rng.below(n);
        lock_and(&mut rec, &mut rng, key, if pool { None } else { Some(Gop::Read) });
    }
    rec.drain(&mut rng);
    rec.text.push_str(&format!("# scale run: {} keys, trace text not recorded\n", n));
    rec.finish(id, header, Vec::new())
}


/// Many keys and a `lock_all_entries` stream (monitors only, no trace text): `n` valued keys, more than 64 of
/// them held by client guards, then a stream is created and polled until it reports `Pending`; the keys
/// nobody holds must have been delivered by then (`C03.stream_stall`). Then the guards are dropped and the
/// stream runs to its end. Finds defects that need more entries than a small scenario has (e.g. a bound on
/// the number of per-entry futures driven at once).
pub fn scale_stream_run(backend: Backend, forced_owned: Option<bool>, seed: u64, run: u64) -> RunOut {
    let mut rng = Rng::new(seed, run);
    let owned = forced_owned.unwrap_or_else(|| rng.pct(50));
    let id = format!("scale-stream-{}-{}-{}", backend.name(), seed, run);
    let (mut rec, header) = Recorder::new(&id, backend, owned, &format!("family=scale-stream seed={} run={}", seed, run));
    rec.quiet = true;
    let n = 84 + rng.below(60);
    let m = 66 + rng.below(n - 66 - 8);
    let settle = |rec: &mut Recorder, max: usize| {
        for _ in 0..max {
            if rec.stop {
                return;
            }
            let en = rec.ex.enabled();
            match en.resumable.first() {
                Some(a) => {
                    rec.act(Action::Resume(*a));
                }
                None => break,
            }
        }
    };
    // fill
    for key in 1..=n {
        if rec.stop {
            break;
        }
        if !rec.act(Action::Start(Call::Lock { sh: Shape::T, key, lim: 0 })) {
            break;
        }
        settle(&mut rec, 6);
        let en = rec.ex.enabled();
        if let Some((g, _)) = en.guards.iter().find(|(_, k)| *k == key).copied() {
            rec.act(Action::Gop(g, Gop::Ins((key % 89) as i64 + 10)));
            rec.act(Action::Start(Call::Drop(g)));
            settle(&mut rec, 4);
        }
    }
    // hold m of them: the oldest, the newest, or a random subset
    let mut held: Vec<Key> = match rng.below(3) {
        0 => (1..=m).collect(),
        1 => (n - m + 1..=n).collect(),
        _ => {
            let mut all: Vec<Key> = (1..=n).collect();
            for i in (1..all.len()).rev() {
                let j = rng.below(i as u64 + 1) as usize;
                all.swap(i, j);
            }
            all.truncate(m as usize);
            all
        }
    };
    if rng.pct(50) {
        held.reverse();
    }
    let shapes = [Shape::B, Shape::A, Shape::T, Shape::TA];
    for key in &held {
        if rec.stop {
            break;
        }
        let sh = shapes[rng.below(4) as usize];
        rec.act(Action::Start(Call::Lock { sh, key: *key, lim: 0 }));
        settle(&mut rec, 6);
    }
    // the stream: create it, poll until it has nothing more to deliver
    let drive_stream = |rec: &mut Recorder, max: usize| {
        for _ in 0..max {
            if rec.stop {
                return;
            }
            let en = rec.ex.enabled();
            if let Some(a) = en.resumable.first() {
                rec.act(Action::Resume(*a));
            } else if let Some(a) = en.stream_continue.first() {
                rec.act(Action::StreamStep(*a));
            } else if let Some((a, _, _)) =
                en.stream_idle.iter().find(|(_, lp, woken)| matches!(lp, LastPoll::Fresh | LastPoll::Item) || *woken)
            {
                rec.act(Action::StreamStep(*a));
            } else {
                break;
            }
        }
    };
    if !rec.stop {
        rec.act(Action::Start(Call::Stream));
        drive_stream(&mut rec, 8 * n as usize);
    }
    // release the held keys (in a random order), let the stream finish
    if !rec.stop {
        let mut gs: Vec<Gid> = rec.ex.enabled().guards.iter().filter(|(_, k)| held.contains(k)).map(|x| x.0).collect();
        for i in (1..gs.len()).rev() {
            let j = rng.below(i as u64 + 1) as usize;
            gs.swap(i, j);
        }
        for g in gs {
            if rec.stop {
                break;
            }
            rec.act(Action::Start(Call::Drop(g)));
            settle(&mut rec, 4);
            if rng.pct(30) {
                drive_stream(&mut rec, 6);
            }
        }
        drive_stream(&mut rec, 8 * n as usize);
    }
    rec.drain(&mut rng);
    rec.text.push_str(&format!("# scale-stream run: {} keys, {} held, trace text not recorded\n", n, m));
    rec.finish(id, header, Vec::new())
}

// ---------------------------------------------------------------------------
// DFS over interleavings of small programs

/// What the client does with a guard it obtained from a program call.
#[derive(Debug, Clone, Copy, PartialEq, Eq)]
pub enum After {
    /// Keep it until the end of the run.
    Keep,
    Drop,
    InsDrop(Val),
    RemDrop,
}

#[derive(Debug, Clone)]
pub struct ProgCall {
    pub call: Call,
    pub after: After,
    /// `cancel` is a scheduling alternative whenever this (async) agent is blocked.
    pub cancellable: bool,
}

/// Sequential preparation steps, run before the calls are started.
#[derive(Debug, Clone, Copy)]
pub enum Setup {
    /// Insert a value: `lock t K`, `ins V`, drop.
    Put(Key, Val),
    /// Lock the key and keep the guard (its gid can be used by `Call::Drop` in the program).
    Hold(Key),
    Tick(u64),
}

#[derive(Debug, Clone)]
pub struct Program {
    pub name: String,
    pub setup: Vec<Setup>,
    pub calls: Vec<ProgCall>,
}

impl Program {
    pub fn text(&self) -> String {
        let s: Vec<String> = self
            .setup
            .iter()
            .map(|s| match s {
                Setup::Put(k, v) => format!("put({},{})", k, v),
                Setup::Hold(k) => format!("hold({})", k),
                Setup::Tick(d) => format!("tick({})", d),
            })
            .collect();
        let c: Vec<String> = self
            .calls
            .iter()
            .map(|c| {
                format!(
                    "{}{}{}",
                    c.call.text().replace(' ', "_"),
                    match c.after {
                        After::Keep => "".to_string(),
                        After::Drop => "/drop".to_string(),
                        After::InsDrop(v) => format!("/ins{}/drop", v),
                        After::RemDrop => "/rem/drop".to_string(),
                    },
                    if c.cancellable { "/cancellable" } else { "" }
                )
            })
            .collect();
        format!("setup=[{}] calls=[{}]", s.join(","), c.join(","))
    }
}

/// One DFS move: a scheduling alternative.
#[derive(Debug, Clone, PartialEq, Eq, PartialOrd, Ord)]
enum Move {
    Resume(Aid),
    Step(Aid),
    Cancel(Aid),
    /// The callback of this agent removes all offered values and returns ok/hold.
    Callback(Aid),
}

/// Execute `prog` following the choice indices of `path` (then always the first
/// alternative). Returns the run and the number of alternatives at each choice point.
pub fn dfs_run(prog: &Program, backend: Backend, owned: bool, id: &str, path: &[usize]) -> RunOut {
    let mut rng = Rng::new(0, 0); // only used by the drain phase for tie-breaking
    let (mut rec, header) = Recorder::new(id, backend, owned, &format!("dfs program={} path={:?} {}", prog.name, path, prog.text()));
    let mut widths = Vec::new();
    // what to do with the guard a program agent returns
    let mut after: BTreeMap<Aid, After> = BTreeMap::new();
    let mut cancellable: Vec<Aid> = Vec::new();
    let mut handled: Vec<Gid> = Vec::new();

    // setup
    for s in &prog.setup {
        if rec.stop {
            break;
        }
        match *s {
            Setup::Put(k, v) => {
                let a = rec.ex.agents.len();
                rec.act(Action::Start(Call::Lock { sh: Shape::T, key: k, lim: 0 }));
                rec.act(Action::Resume(a));
                if let Some((g, _)) = rec.ex.enabled().guards.iter().find(|(_, gk)| *gk == k).copied() {
                    rec.act(Action::Gop(g, Gop::Ins(v)));
                    let d = rec.ex.agents.len();
                    rec.act(Action::Start(Call::Drop(g)));
                    rec.act(Action::Resume(d));
                    handled.push(g);
                }
            }
            Setup::Hold(k) => {
                let a = rec.ex.agents.len();
                rec.act(Action::Start(Call::Lock { sh: Shape::T, key: k, lim: 0 }));
                rec.act(Action::Resume(a));
                // may take more than one step if the key exists
                for _ in 0..4 {
                    if rec.ex.enabled().resumable.contains(&a) {
                        rec.act(Action::Resume(a));
                    }
                }
                for (g, _) in rec.ex.enabled().guards {
                    if !handled.contains(&g) {
                        handled.push(g);
                    }
                }
            }
            Setup::Tick(d) => {
                rec.act(Action::Tick(d));
            }
        }
    }
    // start all calls
    for c in &prog.calls {
        if rec.stop {
            break;
        }
        let a = rec.ex.agents.len();
        if rec.act(Action::Start(c.call)) {
            after.insert(a, c.after);
            if c.cancellable {
                cancellable.push(a);
            }
        }
    }
    // explore
    let mut depth = 0;
    for _ in 0..10_000 {
        if rec.stop {
            break;
        }
        // guards that just arrived: apply the program's `after`
        let en = rec.ex.enabled();
        let mut acted = false;
        for (g, _) in &en.guards {
            if handled.contains(g) {
                continue;
            }
            // offered guards are handled by the Callback move
            if en.in_callback.iter().any(|(_, off, _, _)| off.contains(g)) {
                continue;
            }
            handled.push(*g);
            // Which agent produced it? The one that finished most recently with this guard: look it up
            // through the label list (guard observations carry the gid).
            let how = producer_after(&rec, *g, &after);
            match how {
                After::Keep => {}
                After::Drop => {
                    rec.act(Action::Start(Call::Drop(*g)));
                }
                After::InsDrop(v) => {
                    rec.act(Action::Gop(*g, Gop::Ins(v)));
                    rec.act(Action::Start(Call::Drop(*g)));
                }
                After::RemDrop => {
                    rec.act(Action::Gop(*g, Gop::Rem));
                    rec.act(Action::Start(Call::Drop(*g)));
                }
            }
            acted = true;
            break;
        }
        if acted {
            continue;
        }
        let mut moves: Vec<Move> = Vec::new();
        for a in &en.resumable {
            moves.push(Move::Resume(*a));
        }
        for a in &en.stream_continue {
            moves.push(Move::Step(*a));
        }
        for (a, lp, woken) in &en.stream_idle {
            if matches!(lp, LastPoll::Fresh | LastPoll::Item) || *woken {
                moves.push(Move::Step(*a));
            }
        }
        for a in &en.cancellable {
            if cancellable.contains(a) && !en.in_callback.iter().any(|x| x.0 == *a) {
                moves.push(Move::Cancel(*a));
            }
        }
        for (a, _, _, _) in &en.in_callback {
            moves.push(Move::Callback(*a));
        }
        moves.sort();
        if moves.is_empty() {
            break;
        }
        let choice = path.get(depth).copied().unwrap_or(0).min(moves.len() - 1);
        widths.push(moves.len());
        depth += 1;
        match moves[choice].clone() {
            Move::Resume(a) => {
                rec.act(Action::Resume(a));
            }
            Move::Step(a) => {
                rec.act(Action::StreamStep(a));
            }
            Move::Cancel(a) => {
                rec.act(Action::Cancel(a));
            }
            Move::Callback(a) => {
                let off = en.in_callback.iter().find(|x| x.0 == a).map(|x| x.1.clone()).unwrap_or_default();
                for g in &off {
                    handled.push(*g);
                    if !rec.stop {
                        rec.act(Action::Gop(*g, Gop::Rem));
                    }
                }
                if !rec.stop {
                    rec.act(Action::CbRet(a, CbRes::Ok, true));
                }
            }
        }
    }
    rec.drain(&mut rng);
    rec.finish(id.to_string(), header, widths)
}

/// Find the `after` policy of the agent whose call returned guard `g` (stream items and
/// expiry results inherit the policy of the stream / expire agent).
fn producer_after(rec: &Recorder, g: Gid, after: &BTreeMap<Aid, After>) -> After {
    // The trace text is the simplest complete record: find "o guard G " / "o item G " / "expired ..G:".
    let mut last_agent: Option<Aid> = None;
    for line in rec.text.lines() {
        if let Some(rest) = line.strip_prefix("l ") {
            let t: Vec<&str> = rest.split_whitespace().collect();
            last_agent = match t.first() {
                Some(&"start") | Some(&"resume") | Some(&"sub") | Some(&"cancel") | Some(&"cbret") => {
                    t.get(1).and_then(|x| x.parse().ok())
                }
                _ => None,
            };
        } else if let Some(rest) = line.strip_prefix("o ") {
            let t: Vec<&str> = rest.split_whitespace().collect();
            let hit = match t.first() {
                Some(&"guard") | Some(&"item") => t.get(1).and_then(|x| x.parse::<Gid>().ok()) == Some(g),
                Some(&"expired") => t
                    .get(1)
                    .map(|l| l.split(',').any(|e| e.split(':').next().and_then(|x| x.parse::<Gid>().ok()) == Some(g)))
                    .unwrap_or(false),
                _ => false,
            };
            if hit {
                return last_agent.and_then(|a| after.get(&a).copied()).unwrap_or(After::Drop);
            }
        }
    }
    After::Drop
}

/// Next path in DFS order after a run with the given widths, or `None` when exhausted.
fn next_path(path: &[usize], widths: &[usize]) -> Option<Vec<usize>> {
    let mut full: Vec<usize> = (0..widths.len()).map(|i| path.get(i).copied().unwrap_or(0).min(widths[i] - 1)).collect();
    while let Some(last) = full.pop() {
        let d = full.len();
        if last + 1 < widths[d] {
            full.push(last + 1);
            return Some(full);
        }
    }
    None
}

pub const DFS_FAMILY_NAMES: &[&str] = &["dfs-lock2", "dfs-lock3", "dfs-cancel", "dfs-stream", "dfs-evict", "dfs-expiry"];

fn lock(sh: Shape, key: Key, lim: u64, after: After, cancellable: bool) -> ProgCall {
    ProgCall { call: Call::Lock { sh, key, lim }, after, cancellable: cancellable && sh.is_async() }
}

/// The small programs of a DFS family. To add a family: add a name above and an arm here.
pub fn dfs_programs(name: &str, backend: Backend) -> Option<Vec<Program>> {
    let pool = backend == Backend::P;
    let shapes: Vec<Shape> = if pool { vec![Shape::B, Shape::A, Shape::T] } else { vec![Shape::B, Shape::A, Shape::T, Shape::TA] };
    let afters: Vec<After> = if pool { vec![After::Drop] } else { vec![After::Drop, After::InsDrop(7), After::RemDrop] };
    let mut v = Vec::new();
    match name {
        // two calls on one key; the key is absent / valued / held by a guard that a third agent drops
        "dfs-lock2" => {
            for (si, setup) in [vec![], vec![Setup::Put(1, 5)], vec![Setup::Hold(1)]].into_iter().enumerate() {
                if pool && si == 1 {
                    continue;
                }
                for s1 in &shapes {
                    for s2 in &shapes {
                        for af in &afters {
                            let mut calls = vec![lock(*s1, 1, 0, *af, false), lock(*s2, 1, 0, After::Drop, false)];
                            if si == 2 {
                                calls.push(ProgCall { call: Call::Drop(0), after: After::Keep, cancellable: false });
                            }
                            v.push(Program { name: format!("{}.{}", name, v.len()), setup: setup.clone(), calls });
                        }
                    }
                }
            }
        }
        // three calls, two keys
        "dfs-lock3" => {
            let sh3: Vec<Shape> = vec![Shape::B, Shape::A, Shape::T];
            for s1 in &sh3 {
                for s2 in &sh3 {
                    for s3 in &sh3 {
                        for k3 in [1u64, 2] {
                            let calls = vec![
                                lock(*s1, 1, 0, if pool { After::Drop } else { After::InsDrop(7) }, false),
                                lock(*s2, 1, 0, if pool { After::Drop } else { After::RemDrop }, false),
                                lock(*s3, k3, 0, After::Drop, false),
                            ];
                            v.push(Program { name: format!("{}.{}", name, v.len()), setup: vec![], calls });
                        }
                    }
                }
            }
        }
        // a held key, async waiters that may be cancelled at any time, the holder's drop, a late locker
        "dfs-cancel" => {
            for valued in [false, true] {
                if pool && valued {
                    continue;
                }
                for s2 in &shapes {
                    for two_waiters in [false, true] {
                        let mut setup = vec![];
                        if valued {
                            setup.push(Setup::Put(1, 5));
                        }
                        setup.push(Setup::Hold(1));
                        let held_gid = if valued { 1 } else { 0 };
                        let mut calls = vec![lock(Shape::A, 1, 0, After::Drop, true)];
                        if two_waiters {
                            calls.push(lock(Shape::A, 1, 0, After::Drop, true));
                        }
                        calls.push(lock(*s2, 1, 0, After::Drop, false));
                        calls.push(ProgCall { call: Call::Drop(held_gid), after: After::Keep, cancellable: false });
                        v.push(Program { name: format!("{}.{}", name, v.len()), setup, calls });
                    }
                }
            }
        }
        "dfs-stream" => {
            if pool {
                return Some(v);
            }
            for held_valued in [false, true] {
                for s2 in [Shape::B, Shape::A, Shape::T] {
                    for cancel in [false, true] {
                        let mut setup = vec![Setup::Put(1, 5)];
                        if held_valued {
                            setup.push(Setup::Put(2, 6));
                        }
                        setup.push(Setup::Hold(2));
                        let held_gid = if held_valued { 2 } else { 1 };
                        let calls = vec![
                            ProgCall { call: Call::Stream, after: After::Drop, cancellable: cancel },
                            lock(s2, 2, 0, After::Drop, false),
                            ProgCall { call: Call::Drop(held_gid), after: After::Keep, cancellable: false },
                        ];
                        v.push(Program { name: format!("{}.{}", name, v.len()), setup, calls });
                    }
                }
            }
        }
        "dfs-evict" => {
            if pool {
                return Some(v);
            }
            for s1 in &shapes {
                for s2 in &shapes {
                    for lim in [1u64, 2] {
                        let setup = vec![Setup::Put(1, 5), Setup::Put(2, 6)];
                        let calls = vec![lock(*s1, 3, lim, After::InsDrop(7), false), lock(*s2, 4, lim, After::Drop, false)];
                        v.push(Program { name: format!("{}.{}", name, v.len()), setup, calls });
                    }
                }
            }
        }
        "dfs-expiry" => {
            if backend != Backend::L {
                return Some(v);
            }
            for d in [0u64, 2, 5] {
                for s1 in [Shape::B, Shape::T] {
                    let setup = vec![Setup::Put(1, 5), Setup::Tick(2), Setup::Put(2, 6), Setup::Tick(2), Setup::Put(3, 7), Setup::Tick(1)];
                    let calls = vec![
                        ProgCall { call: Call::Expire(Some(d)), after: After::Drop, cancellable: false },
                        lock(s1, 1, 0, After::Drop, false),
                        lock(s1, 2, 0, After::InsDrop(9), false),
                    ];
                    v.push(Program { name: format!("{}.{}", name, v.len()), setup, calls });
                }
            }
        }
        _ => return None,
    }
    Some(v)
}

// ---------------------------------------------------------------------------
// Driver

pub struct ExploreOpts {
    pub family: String,
    pub backend: Backend,
    pub seed: u64,
    pub count: u64,
    pub out: String,
    pub threads: usize,
    pub owned: Option<bool>,
    pub replay_dir: String,
    /// At most this many replay files per monitor id.
    pub max_replays: usize,
    /// `Some((run, n_labels))`: fork search, see [random_run_fork]; `count` = number of forks.
    pub fork: Option<(u64, usize)>,
}

#[derive(Default)]
struct Summary {
    runs: u64,
    steps: u64,
    kinds: BTreeMap<&'static str, u64>,
    hits: BTreeMap<&'static str, u64>,
    failing: Vec<String>,
    replays: Vec<String>,
    exhausted_programs: u64,
    truncated_programs: u64,
    programs: u64,
}

impl Summary {
    fn add(&mut self, r: &RunOut, opts: &ExploreOpts) {
        self.runs += 1;
        self.steps += r.steps as u64;
        for (k, n) in &r.kinds {
            *self.kinds.entry(k).or_default() += *n as u64;
        }
        if let Some(v) = &r.violation {
            let n = self.hits.entry(v.id).or_default();
            *n += 1;
            if self.failing.len() < 10 {
                self.failing.push(r.id.clone());
            }
            if (*n as usize) <= opts.max_replays {
                let path = format!("{}/{}.txt", opts.replay_dir, r.id);
                let mut s = String::new();
                s.push_str(&r.header);
                s.push('\n');
                s.push_str(&format!("# violation {} {}\n", v.id, v.text));
                for l in &r.labels {
                    s.push_str("l ");
                    s.push_str(&l.text());
                    s.push('\n');
                }
                if std::fs::create_dir_all(&opts.replay_dir).is_ok() && std::fs::write(&path, s).is_ok() {
                    self.replays.push(path);
                }
            }
        }
    }

    fn json(&self, opts: &ExploreOpts, secs: f64) -> String {
        fn map(m: &BTreeMap<&'static str, u64>) -> String {
            let v: Vec<String> = m.iter().map(|(k, n)| format!("\"{}\":{}", k, n)).collect();
            format!("{{{}}}", v.join(","))
        }
        fn list(v: &[String]) -> String {
            let v: Vec<String> = v.iter().map(|s| format!("\"{}\"", s.replace('\\', "\\\\").replace('"', "\\\""))).collect();
            format!("[{}]", v.join(","))
        }
        format!(
            "{{\"family\":\"{}\",\"backend\":\"{}\",\"seed\":{},\"runs\":{},\"steps\":{},\"seconds\":{:.3},\"runs_per_second\":{:.0},\"label_kinds\":{},\"monitor_hits\":{},\"failing_runs\":{},\"replay_files\":{},\"programs\":{},\"programs_exhausted\":{},\"programs_truncated\":{},\"leaked_threads\":{},\"hangs_confirmed\":{},\"timeouts_not_reproduced\":{}}}",
            opts.family,
            opts.backend.name(),
            opts.seed,
            self.runs,
            self.steps,
            secs,
            if secs > 0.0 { self.runs as f64 / secs } else { 0.0 },
            map(&self.kinds),
            map(&self.hits),
            list(&self.failing),
            list(&self.replays),
            self.programs,
            self.exhausted_programs,
            self.truncated_programs,
            crate::sched::LEAKED_THREADS.load(Ordering::Relaxed),
            HANGS_CONFIRMED.load(Ordering::Relaxed),
            HANGS_NOT_REPRODUCED.load(Ordering::Relaxed),
        )
    }
}

/// Work is handed out in chunks (`Vec<RunOut>` per chunk index); the main thread writes the
/// chunks in index order, so the output file does not depend on thread timing.
fn ordered_parallel<F>(n_chunks: usize, threads: usize, work: F, mut sink: impl FnMut(Vec<RunOut>, ChunkInfo))
where
    F: Fn(usize) -> (Vec<RunOut>, ChunkInfo) + Send + Sync + 'static,
{
    let work = Arc::new(work);
    let next = Arc::new(AtomicUsize::new(0));
    let (tx, rx) = mpsc::sync_channel::<(usize, Vec<RunOut>, ChunkInfo)>(threads * 4);
    // back-pressure: do not run too far ahead of the writer
    let written = Arc::new((Mutex::new(0usize), std::sync::Condvar::new()));
    let mut handles = Vec::new();
    for _ in 0..threads.max(1) {
        let (work, next, tx, written) = (work.clone(), next.clone(), tx.clone(), written.clone());
        handles.push(std::thread::spawn(move || loop {
            let i = next.fetch_add(1, Ordering::SeqCst);
            if i >= n_chunks {
                break;
            }
            {
                let (m, cv) = &*written;
                let mut w = m.lock().unwrap();
                while i > *w + 256 {
                    w = cv.wait(w).unwrap();
                }
            }
            let (runs, info) = work(i);
            if tx.send((i, runs, info)).is_err() {
                break;
            }
        }));
    }
    drop(tx);
    let mut pending: BTreeMap<usize, (Vec<RunOut>, ChunkInfo)> = BTreeMap::new();
    let mut want = 0usize;
    for (i, runs, info) in rx {
        pending.insert(i, (runs, info));
        while let Some((runs, info)) = pending.remove(&want) {
            sink(runs, info);
            want += 1;
            let (m, cv) = &*written;
            *m.lock().unwrap() = want;
            cv.notify_all();
        }
    }
    for h in handles {
        let _ = h.join();
    }
}

#[derive(Default, Clone, Copy)]
pub struct ChunkInfo {
    pub index: usize,
    pub exhausted: bool,
    pub truncated: bool,
}

pub fn explore(opts: ExploreOpts) -> Result<String, String> {
    let mut opts = opts;
    // `fine-<family>`: the same exploration with agents also parking at the `InCs` sites in the middle of
    // critical sections (monitors only: the model's steps are whole critical sections).
    let fine = opts.family.starts_with("fine-");
    if fine {
        opts.family = opts.family["fine-".len()..].to_string();
        crate::sched::FINE.store(true, std::sync::atomic::Ordering::SeqCst);
    }
    let started = std::time::Instant::now();
    let file = std::fs::File::create(&opts.out).map_err(|e| format!("cannot create {}: {}", opts.out, e))?;
    let mut out = std::io::BufWriter::with_capacity(1 << 20, file);
    let mut sum = Summary::default();
    let backend = opts.backend;
    let owned = opts.owned;
    let seed = opts.seed;
    let fork = opts.fork;

    if opts.family == "scale" || opts.family == "scale-stream" {
        let count = opts.count;
        let with_stream = opts.family == "scale-stream";
        ordered_parallel(
            count as usize,
            opts.threads,
            move |i| {
                let r = confirmed(|| if with_stream { scale_stream_run(backend, owned, seed, i as u64) } else { scale_run(backend, owned, seed, i as u64) });
                (vec![r], ChunkInfo::default())
            },
            |runs, _| {
                for r in runs {
                    let _ = out.write_all(r.trace.as_bytes());
                    sum.add(&r, &opts);
                }
            },
        );
    } else if let Some(f) = family(&opts.family) {
        if backend == Backend::P && f.name != "pool" && f.name != "nolimit" {
            // other families still work on P (unsupported actions are simply never generated)
        }
        const CHUNK: u64 = 32;
        let n_chunks = opts.count.div_ceil(CHUNK) as usize;
        let count = opts.count;
        let f2 = f.clone();
        ordered_parallel(
            n_chunks,
            opts.threads,
            move |i| {
                let lo = i as u64 * CHUNK;
                let hi = (lo + CHUNK).min(count);
                (
                    (lo..hi)
                        .map(|run| {
                            confirmed(|| match fork {
                                None => random_run(&f2, backend, owned, seed, run),
                                Some((frun, n)) => random_run_fork(&f2, backend, owned, seed, frun, Some((n, run))),
                            })
                        })
                        .collect(),
                    ChunkInfo::default(),
                )
            },
            |runs, _| {
                for r in runs {
                    let _ = out.write_all(r.trace.as_bytes());
                    sum.add(&r, &opts);
                }
            },
        );
    } else if let Some(progs) = dfs_programs(&opts.family, backend) {
        let per_prog = opts.count.max(1);
        sum.programs = progs.len() as u64;
        let progs = Arc::new(progs);
        let p2 = progs.clone();
        let fam = opts.family.clone();
        // A program can have many thousands of schedules: its traces go to a part file
        // (`<out>.part<i>`) which the writer appends to the output in program order.
        let out_path = opts.out.clone();
        let out_path2 = opts.out.clone();
        ordered_parallel(
            progs.len(),
            opts.threads,
            move |i| {
                let prog = &p2[i];
                let ow = owned.unwrap_or(i % 2 == 1) && backend != Backend::P;
                let mut runs = Vec::new();
                let mut path: Vec<usize> = Vec::new();
                let mut info = ChunkInfo::default();
                let mut n = 0u64;
                let mut part = std::fs::File::create(format!("{}.part{}", out_path, i))
                    .ok()
                    .map(|f| std::io::BufWriter::with_capacity(1 << 16, f));
                loop {
                    let id = format!("{}-{}-{}-p{}s{}", fam, backend.name(), seed, i, n);
                    let mut r = confirmed(|| dfs_run(prog, backend, ow, &id, &path));
                    let np = next_path(&path, &r.widths);
                    if n == 0 {
                        if let Some(p) = part.as_mut() {
                            let _ = p.write_all(format!("# program {}\n", r.header).as_bytes());
                        }
                    }
                    if let Some(p) = part.as_mut() {
                        if p.write_all(r.trace.as_bytes()).is_ok() {
                            r.trace = String::new();
                        }
                    }
                    runs.push(r);
                    n += 1;
                    match np {
                        None => {
                            info.exhausted = true;
                            break;
                        }
                        Some(p) => {
                            if n >= per_prog {
                                info.truncated = true;
                                break;
                            }
                            path = p;
                        }
                    }
                }
                drop(part); // flush
                info.index = i;
                (runs, info)
            },
            |runs, info| {
                let part = format!("{}.part{}", out_path2, info.index);
                if let Ok(mut f) = std::fs::File::open(&part) {
                    let _ = std::io::copy(&mut f, &mut out);
                    let _ = std::fs::remove_file(&part);
                }
                if info.exhausted {
                    sum.exhausted_programs += 1;
                }
                if info.truncated {
                    sum.truncated_programs += 1;
                }
                for r in runs {
                    let _ = out.write_all(r.trace.as_bytes());
                    sum.add(&r, &opts);
                }
            },
        );
    } else {
        return Err(format!(
            "unknown family '{}' (random: {:?}; dfs: {:?})",
            opts.family, FAMILY_NAMES, DFS_FAMILY_NAMES
        ));
    }
    out.flush().map_err(|e| e.to_string())?;
    Ok(sum.json(&opts, started.elapsed().as_secs_f64()))
}
