(* C03 — progress at the level of the protocol: no lost wake-up, no library-made deadlock, keys independent.
   PARTIAL: these theorems are about the protocol (who may take a step); that tokio/std deliver the
   wake-up and schedule the woken thread in finite time is outside the model. *)
From Coq Require Import List Arith ZArith.
From LK Require Import AList Model Observe Inv StepInv PropLemmas DropInv Drain Terminate.
Import ListNotations.

(* Every in-flight call that is not waiting for a per-key mutex (and is not running user code) can take
   its next step in every reachable state -- whatever other calls hold, wait for or evict.  In particular
   the global lock is never held between steps, try variants never wait, and a soft-limited call never
   waits for space (pc PEnter). *)
Theorem C03_only_key_waits_block : forall c s a p o,
  reachable c s -> aget a (s_ops s) = Some p -> pc_runnable p = true ->
  (pc_needs_oracle p = true -> oracle_ok c s o) ->
  exists s' ob, step c s (LResume a o) = ROk s' ob.
Proof. intros c s a p o H. exact (resume_enabled c s a p o (reachable_inv c s H)). Qed.

(* ... and so can a guard drop in progress: the guard it is dropping is still in the guard table (DropInv.v),
   so its unlock critical section is enabled; "a waiter acquires the key once the guard it waits for has
   been dropped" then follows with C03_release_hands_over and C03_handed_waiter_runs. *)
Theorem C03_drop_always_completes : forall c s a g rest af o,
  reachable c s -> aget a (s_ops s) = Some (PDrops (g :: rest) af) ->
  exists s' ob, step c s (LResume a o) = ROk s' ob.
Proof.
  intros c s a g rest af o H. exact (drop_enabled c s a g rest af o (reachable_inv c s H) (reachable_dinv c s H)).
Qed.

Theorem C03_stream_drops_valueless_guard : forall c s a subs k g o,
  reachable c s -> aget a (s_ops s) = Some (PStream subs) -> aget k subs = Some (SUnlocking g) ->
  exists s' ob, step c s (LSub a k o) = ROk s' ob.
Proof. exact stream_unlock_enabled'. Qed.

(* A key that nobody holds or waits for is acquired at once: an absent key in the look-up itself, ... *)
Theorem C03_absent_key_no_wait : forall c s a sh k s' ob,
  aget k (s_ents s) = None -> do_lookup c s a sh k = ROk s' ob -> exists g, ob = OGuard g k None.
Proof. exact absent_key_acquires. Qed.

(* ... a present unlocked key at the first poll. *)
Theorem C03_free_key_no_wait : forall c s a sh k e o,
  aget a (s_ops s) = Some (PKeyWait sh k) -> aget k (s_ents s) = Some e -> e_owner e = None ->
  exists s' g, step c s (LResume a o) = ROk s' (OGuard g k (val_of e)).
Proof. exact free_key_acquires. Qed.

(* No lost wake-up: a free mutex has no waiters, ... *)
Theorem C03_free_mutex_has_no_waiters : forall c s k e,
  reachable c s -> aget k (s_ents s) = Some e -> e_owner e = None -> e_queue e = [].
Proof.
  intros c s k e H He Ho. destruct (ki_mx _ _ (inv_k _ (reachable_inv c s H) k) e He) as (m1 & _). auto.
Qed.

(* ... dropping the guard hands the key to the oldest waiter, ... *)
Theorem C03_release_hands_over : forall c s g k e a q s1,
  reachable c s -> aget g (s_guards s) = Some k -> aget k (s_ents s) = Some e -> e_queue e = a :: q ->
  unlock_cs c s g = inl (Some s1) ->
  exists e1, aget k (s_ents s1) = Some e1 /\ e_owner e1 = Some (OwnW a) /\ e_queue e1 = q.
Proof. intros c s g k e a q s1 H. exact (release_hands_over c s g k e a q s1 (reachable_inv c s H)). Qed.

(* ... and a waiter that was handed the key can take its step and gets the guard. *)
Theorem C03_handed_waiter_runs : forall c s a sh k e o,
  aget a (s_ops s) = Some (PQueued sh k) -> aget k (s_ents s) = Some e -> e_owner e = Some (OwnW a) ->
  exists s' g, step c s (LResume a o) = ROk s' (OGuard g k (val_of e)) /\ In (g, k) (s_guards s').
Proof. exact handed_waiter_runs. Qed.

(* A waiter is never detached from the map: the entry it sleeps on stays present. *)
Theorem C03_waiter_never_detached : forall c s a p k,
  reachable c s -> aget a (s_ops s) = Some p -> pc_handles p k = 1 -> exists e, aget k (s_ents s) = Some e.
Proof. intros c s a p k H. exact (handle_present s a p k (reachable_inv c s H)). Qed.

(* Blame: if no waiter can move (agent_blocked is what the co-simulation compares with the implementation
   after every step), every one of them waits for a key that is held by a live, client-owned guard. *)
Theorem C03_blocked_only_by_client_guards : forall c s a sh k,
  reachable c s -> aget a (s_ops s) = Some (PQueued sh k) ->
  (forall a' sh' k', aget a' (s_ops s) = Some (PQueued sh' k') -> agent_blocked s a' (PQueued sh' k') = true) ->
  (forall a' subs, aget a' (s_ops s) = Some (PStream subs) -> subs <> [] -> agent_blocked s a' (PStream subs) = true) ->
  (forall a' subs, aget a' (s_ops s) <> Some (PStreamDrop subs)) ->
  (forall a' k', aget a' (s_ops s) <> Some (PCancel k')) ->
  exists g, aget g (s_guards s) = Some k.
Proof. intros c s a sh k H. exact (blocked_on_guard s a sh k (reachable_inv c s H)). Qed.

(* NO LIBRARY-MADE DEADLOCK.  From every reachable state -- any number of calls in flight on any keys,
   queued behind each other, soft-limited calls in the middle of eviction rounds, streams half consumed or
   half dropped, guards in the middle of being dropped -- the client can bring the container to rest (no call
   in flight, no guard alive) by a run that consists only of: steps of the calls that are already in flight,
   eviction callbacks returning, drops of guards, and drops of streams that have delivered everything
   (drain_ok).  It never has to start a lock call and never has to cancel a pending one: every waiter gets
   its key once the guards in front of it have been dropped.  (Drain.v: a lexicographic measure decreases
   with every move of the draining client, and the client always has a move.) *)
Theorem C03_no_library_deadlock : forall c s,
  reachable c s -> exists ls s', dsteps c s ls s' /\ s_ops s' = [] /\ s_guards s' = [].
Proof. exact drain. Qed.

(* ... so no reachable state with calls in flight or guards alive is a dead end *)
Theorem C03_never_stuck : forall c s,
  reachable c s -> (s_ops s <> [] \/ s_guards s <> []) ->
  exists l s' o, drain_ok s l /\ step c s l = ROk s' o.
Proof. exact never_stuck. Qed.

(* NO LIVELOCK EITHER: every run of the draining client is finite, whatever the scheduler does and in whatever
   order the client drops its guards (drain_step: one drain_ok move from a reachable state) -- every such
   move decreases a lexicographic measure (Terminate.v) --, and the only state in which no move is left is the
   state of rest.  Once clients stop asking for new locks and keep releasing what they hold, every call in
   flight completes. *)
Theorem C03_draining_always_terminates : forall c s, reachable c s -> Acc (drain_step c) s.
Proof. exact draining_terminates. Qed.

Theorem C03_draining_ends_at_rest : forall c s,
  reachable c s -> (forall s2, ~ drain_step c s2 s) -> s_ops s = [] /\ s_guards s = [].
Proof. exact draining_ends_at_rest. Qed.

(* non-vacuity of the draining theorem: a reachable state with a holder, an async waiter queued behind it,
   a stream pending on the same key and a soft-limited call inside its callback -- and a draining run from it *)
Example C03_drain_witness :
  exists s s', run (mkCfg true)
    [LStart 0 (CLock ShBlocking 1 None); LResume 0 []; LGuardOp 0 (GInsert 5);
     LStart 1 (CLock ShAsync 1 None); LResume 1 []; LResume 1 [];
     LStart 2 CStream; LResume 2 []; LSub 2 1 [];
     LStart 3 (CLock ShTry 2 None); LResume 3 []; LGuardOp 1 (GInsert 6); LStart 4 (CDrop 1); LResume 4 [];
     LStart 5 (CLock ShBlocking 3 (Some 2)); LResume 5 []] = RunOk s
    [ONothing; OGuard 0 1 None; OVal None; ONothing; ONothing; ONothing; ONothing; OStream [1]; ONothing;
     ONothing; OGuard 1 2 None; OVal None; ONothing; OUnit; ONothing; OOffered [(2, 2, 6%Z)]]
  /\ length (s_ops s) = 3 /\ length (s_guards s) = 2
  /\ dsteps (mkCfg true) s
       [LCbReturn 5 CbErr false; LStart 6 (CDrop 0); LResume 6 []; LResume 1 []; LStart 7 (CDrop 3); LResume 7 [];
        LSub 2 1 []; LStart 8 (CDrop 4); LResume 8 []; LCancel 2; LStart 9 (CDrop 2); LResume 9 []] s'
  /\ s_ops s' = [] /\ s_guards s' = [].
Proof.
  eexists. eexists. split; [vm_compute; reflexivity|]. split; [reflexivity|]. split; [reflexivity|].
  split; [|split].
  - repeat (eapply ds_cons; [first [exact I | reflexivity] | vm_compute; reflexivity |]). apply ds_nil.
  - reflexivity.
  - reflexivity.
Qed.

(* non-vacuity: a waiter queued behind a holder, released, handed, acquires *)
Example C03_witness :
  exists s, run (mkCfg false)
    [LStart 0 (CLock ShBlocking 1 None); LResume 0 []; LStart 1 (CLock ShAsync 1 None); LResume 1 [1]; LResume 1 [1];
     LStart 2 (CDrop 0); LResume 2 [1]; LResume 1 [1]]
  = RunOk s [ONothing; OGuard 0 1 None; ONothing; ONothing; ONothing; ONothing; OUnit; OGuard 1 1 None].
Proof. eexists. vm_compute. reflexivity. Qed.
