(* Extraction of the executable model to OCaml.  ExtrOcamlBasic only:
   bool, option, unit, list, prod, sumbool, sumor map to OCaml's own types;
   nat, positive, Z stay the extracted inductives. *)
From Coq Require Extraction ExtrOcamlBasic.
From Coq Require Import List Arith ZArith.
From LK Require Import AList Model Observe.
Extraction Language OCaml.
Extraction "model.ml" step init run snapshot blocked_set agent_ids guard_ids pc_tag
  Z.add Z.mul Z.sub Z.of_nat Z.to_nat Z.opp Z.leb Z.eqb Nat.eqb.
