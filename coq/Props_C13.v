(* C13 — valid use never panics, poisons or hangs the container. *)
From Coq Require Import List Arith ZArith.
From LK Require Import AList Model Observe Inv StepInv NoPanic DropInv Stream Fine FineSites.
Import ListNotations.

(* No label whatsoever makes the library panic in a reachable state.  RPanic covers every
   expect/assert/panic site of the modelled code and the slow_assertions invariant check that runs at
   both ends of every critical section (cs in Model.v); all limits >= 1 and all durations are covered
   by the quantification over labels. *)
Theorem C13_no_panic : forall c s l site, reachable c s -> step c s l <> RPanic site.
Proof. intros c s l site H. exact (step_no_panic c s l site (reachable_inv c s H)). Qed.

(* ... hence no run from the initial state ends in a panic. *)
Theorem C13_runs_never_panic : forall c ls n site, run c ls <> RunPanic n site.
Proof.
  intros c ls n site. unfold run.
  assert (G : forall ls s k acc, Inv s -> run_from c s ls k acc <> RunPanic n site).
  { induction ls0 as [|l rest IH]; intros s k acc HI; cbn; [discriminate|].
    destruct (step c s l) as [s' o| |site'] eqn:E; [|discriminate|].
    - apply IH. eapply step_inv; eauto.
    - exfalso. eapply step_no_panic; eauto. }
  apply G. apply Inv_init.
Qed.

(* the slow_assertions check itself holds in every reachable state *)
Theorem C13_slow_assertions_hold : forall c s, reachable c s -> inv2_ok (s_ents s) = true.
Proof. intros c s H. exact (Inv_inv2_ok s (reachable_inv c s H)). Qed.

(* ------------------------------------------------------------------ *)
(* Granularity.  The model's steps are whole critical sections; in the code the two critical sections that
   release a key mutex (`_unlock`, `PendingLock::drop`) make the release visible to other threads before they
   are finished.  Fine.v defines that fine-grained semantics (fstep: first half, lock-free steps of other
   agents, second half) and proves that it adds no behaviour: *)

(* the pending second half commutes with every lock-free step of every other agent, ... *)
Theorem C13_second_half_commutes : forall c m s l s' o,
  mid_ok m s -> Inv (fst (second c m s)) ->
  lockfree s l = true -> label_agent l <> Some (mid_agent m) -> step c s l = ROk s' o ->
  step c (fst (second c m s)) l = ROk (fst (second c m s')) o /\
  mid_ok m s' /\ snd (second c m s') = snd (second c m s).
Proof. exact pending_commutes. Qed.

(* ... so every fine-grained run is a run of the model in which each of these critical sections takes effect
   at its first half (lin drops the second halves and attaches the caller's eventual observation to the
   first), with the same observations and the same final state, ... *)
Theorem C13_fine_grained_runs_linearise : forall c fs evs fs',
  Rel c fs -> fruns c fs evs fs' ->
  oruns c (collapse c fs) (lin evs) (collapse c fs') /\ Rel c fs'.
Proof. exact fine_run_linearises. Qed.

(* ... every state a fine-grained run reaches between critical sections is reachable in the model (so the
   invariant, C01, C04, the absence of panics ... hold there), ... *)
Theorem C13_fine_grained_states_are_reachable : forall c s0 evs s',
  reachable c s0 -> fruns c (s0, None) evs (s', None) -> oruns c s0 (lin evs) s' /\ reachable c s'.
Proof. exact fine_runs_reach_model_states. Qed.

(* ... and what the second half reports is what was announced at the first. *)
Theorem C13_second_half_reports_what_was_announced : forall c m s evs s',
  Rel c (s, Some m) -> fruns c (s, Some m) evs (s', Some m) ->
  Forall (fun ev => snd (fst ev) = FOther) evs ->
  snd (second c m s') = snd (second c m s).
Proof. exact announced_is_delivered. Qed.

(* non-vacuity: guard 0 on key 1 (no value), an async waiter queued behind it; the drop of guard 0 releases
   the key (first half), the waiter takes the guard and inserts a value while the drop still holds the global
   lock, then the drop finishes (second half: the entry stays, one replica left) *)
(* The pause points that need no commutation theorem (DESIGN 4.7), as statements about the model.  Site 9: when the
   clean-up after a failed try takes its key's mutex -- only if its own handle is the last one -- no guard on the key
   exists and no other call in flight holds a handle for it: nobody can see that mutex being taken. *)
Theorem C13_cleanup_last_handle_is_alone : forall s a sh k e,
  Inv s -> aget a (s_ops s) = Some (PCleanup sh k) -> aget k (s_ents s) = Some e -> e_repl e = 1 ->
  (forall g, ~ In (g, k) (s_guards s)) /\
  (forall a' p', a' <> a -> aget a' (s_ops s) = Some p' -> pc_handles p' k = 0).
Proof. exact cleanup_last_handle_is_alone. Qed.

(* Site 4: an entry whose only handle is the guard that locks it -- the placeholder a look-up has just inserted and
   pre-locked -- cannot be reached by any call in flight. *)
Theorem C13_entry_held_by_its_only_handle_is_unreachable : forall s k e g,
  Inv s -> aget k (s_ents s) = Some e -> e_repl e = 1 -> e_owner e = Some (OwnG g) ->
  forall a p, aget a (s_ops s) = Some p -> pc_handles p k = 0.
Proof. exact entry_held_by_its_only_handle_is_unreachable. Qed.

(* Site 5 and every other pause inside a critical section: what the other agents can do meanwhile (the lock-free steps
   of Fine.v) never releases a key mutex -- one that is owned before such a step is owned after it. *)
Theorem C13_lockfree_steps_release_nothing : forall c s l s' o k,
  lockfree s l = true -> step c s l = ROk s' o -> owned s k -> owned s' k.
Proof. exact lockfree_step_releases_nothing. Qed.

Example C13_fine_witness :
  exists s evs s',
    run (mkCfg true) [LStart 0 (CLock ShBlocking 1 None); LResume 0 []; LStart 1 (CLock ShAsync 1 None);
                      LResume 1 []; LResume 1 []; LStart 2 (CDrop 0)]
      = RunOk s [ONothing; OGuard 0 1 None; ONothing; ONothing; ONothing; ONothing] /\
    fruns (mkCfg true) (s, None) evs (s', None) /\
    map (fun ev => (fst (fst ev), snd ev)) evs =
      [(LResume 2 [], ONothing); (LResume 1 [], OGuard 1 1 None); (LGuardOp 1 (GInsert 7), OVal None); (LResume 2 [], OUnit)] /\
    lin evs = [(LResume 2 [], OUnit); (LResume 1 [], OGuard 1 1 None); (LGuardOp 1 (GInsert 7), OVal None)] /\
    s_ents s' = [(1, mkE (Some (7, 0)%Z) (Some (OwnG 1)) [] 1)] /\ s_ops s' = [].
Proof.
  eexists. eexists. eexists. split; [vm_compute; reflexivity|]. split.
  - eapply fr_cons; [eapply (fs_unlock1 _ _ 2 [] 0 [] ADoneUnit); vm_compute; reflexivity|].
    eapply fr_cons; [eapply (fs_other _ _ _ (LResume 1 [])); [reflexivity|cbn; discriminate|vm_compute; reflexivity]|].
    eapply fr_cons; [eapply (fs_other _ _ _ (LGuardOp 1 (GInsert 7))); [reflexivity|cbn; discriminate|vm_compute; reflexivity]|].
    eapply fr_cons; [eapply (fs_second _ _ (MUnlock 2 1 true) [])|]. apply fr_nil.
  - vm_compute. auto.
Qed.
