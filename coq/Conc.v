(* C05 beyond single-threaded histories: under EVERY interleaving, every step of the model acts on the plain map +
   locked set (the abstract machine [spec] of SeqRefine.v) as a short sequence of its atomic calls -- nothing, one
   guard operation, one acquisition, one release, or the acquisitions of one scan -- and reports what those calls
   return.  Hence every concurrent history of the model is linearisable with respect to [spec_call]:
   [conc_run_refines]. *)
From Coq Require Import List Arith ZArith Bool Lia.
From LK Require Import AList AListFacts Model Inv StepInv NoPanic PropLemmas Seq DropInv Stream SeqRefine SeqLimit.
Import ListNotations.

(* ------------------------------------------------------------------ *)
(* what a step does to the guards *)

Definition gk (x : gid * key * Z) : gid * key := (ogid x, okey x).

(* observations that announce new guards to the client *)
Definition quiet (o : obs) : Prop :=
  match o with OGuard _ _ _ | OItem _ _ _ | OOffered _ | OExpired _ => False | _ => True end.

Definition acquired (s s' : state) (k : key) : Prop :=
  s_guards s' = (s_gid s, k) :: s_guards s /\ s_gid s' = S (s_gid s).

Definition locks (s s' : state) (ll : list (gid * key * Z)) : Prop :=
  s_guards s' = rev (map gk ll) ++ s_guards s /\ map ogid ll = seq (s_gid s) (length ll) /\
  s_gid s' = s_gid s + length ll /\ forall g k v, In (g, k, v) ll -> vof s k = Some v.

Inductive gd (s s' : state) : obs -> Prop :=
| gd_same o : quiet o -> s_guards s' = s_guards s -> s_gid s' = s_gid s -> gd s s' o
| gd_guard k v : acquired s s' k -> v = vof s k -> gd s s' (OGuard (s_gid s) k v)
| gd_item k v : acquired s s' k -> vof s k = Some v -> gd s s' (OItem (s_gid s) k v)
| gd_hidden k o : quiet o -> acquired s s' k -> vof s k = None -> gd s s' o
| gd_offered ll : locks s s' ll -> gd s s' (OOffered ll)
| gd_expired ll : locks s s' ll -> gd s s' (OExpired ll)
| gd_rel g k o : quiet o -> aget g (s_guards s) = Some k -> s_guards s' = adel g (s_guards s) -> s_gid s' = s_gid s ->
                 gd s s' o.

Lemma lock_keys_gids ks : forall s s1 l,
  (forall k, In k ks -> aget k (s_ents s) <> None) -> NoDup ks -> lock_keys s ks = (s1, l) ->
  map ogid l = seq (s_gid s) (length l) /\ s_gid s1 = s_gid s + length l.
Proof.
  induction ks as [|k rest IH]; intros s s1 l Hall Hnd H; cbn [lock_keys] in H.
  - inv H. cbn. split; [reflexivity|lia].
  - inversion Hnd; subst. destruct (aget k (s_ents s)) as [e|] eqn:He; [|exfalso; apply (Hall k); auto; left; auto].
    cbn [new_guard] in H.
    match type of H with context [lock_keys ?x rest] => set (s2 := x) in * end.
    destruct (lock_keys s2 rest) as [s3 l'] eqn:E. inv H.
    destruct (IH s2 s1 l') as [I1 I2]; auto.
    { intros k0 Hk0. unfold s2. cbn. rewrite aget_aset_neq; [apply Hall; right; auto|]. intros ->. contradiction. }
    cbn [map length seq ogid fst]. rewrite I1, I2. unfold s2. cbn. split; [reflexivity|lia].
Qed.

Lemma unlock_cs_gid c s g s1 : unlock_cs c s g = inl (Some s1) -> s_gid s1 = s_gid s.
Proof.
  unfold unlock_cs. destruct (aget g (s_guards s)); [|discriminate].
  destruct (aget k (s_ents s)); [|discriminate]. destruct (e_val e); [intros H; inv H; reflexivity|].
  destruct (Nat.eqb _ 0); intros H; inv H; reflexivity.
Qed.

Lemma unlock_cs_key c s g s1 : unlock_cs c s g = inl (Some s1) -> exists k, aget g (s_guards s) = Some k.
Proof. unfold unlock_cs. destruct (aget g (s_guards s)); [eauto|discriminate]. Qed.

Lemma begin_unlock_guards c s g : s_guards (begin_unlock c s g) = s_guards s /\ s_gid (begin_unlock c s g) = s_gid s.
Proof.
  unfold begin_unlock. destruct (c_lru c); [|auto]. destruct (aget g (s_guards s)); [|auto].
  destruct (aget k (s_ents s)); [|auto]. destruct (e_val e) as [[v st]|]; auto.
Qed.

Definition is_consume (l : label) : bool := match l with LConsume _ => true | _ => false end.

Lemma vof_get s k e : aget k (s_ents s) = Some e -> vof s k = val_of e.
Proof. unfold vof, vof_e. intros ->. reflexivity. Qed.
Lemma vof_absent s k : aget k (s_ents s) = None -> vof s k = None.
Proof. unfold vof, vof_e. intros ->. reflexivity. Qed.

Ltac same := apply gd_same; [exact I|reflexivity|reflexivity].

Theorem step_gd c s l s' o :
  Inv s -> step c s l = ROk s' o -> is_consume l = false -> gd s s' o.
Proof.
  intros HI H Hl. pose proof H as Hstep. revert H. destruct l; try discriminate; cbn [step]; intros H.
  - (* start *) unfold do_start in H. destruct (amem a (s_ops s)); [discriminate|].
    destruct c0.
    + destruct (lim_ok lim); inv H; same.
    + destruct (guard_live s g); inv H. destruct (begin_unlock_guards c s g) as [B1 B2].
      apply gd_same; [exact I|exact B1|exact B2].
    + destruct (c_lru c && Z.leb 0 d)%bool; [|discriminate]. destruct (cutoff_of _ _); inv H; [same|].
      apply gd_expired. unfold locks. cbn. repeat split; auto; try lia; intros ? ? ? [].
    + inv H; same.
    + inv H; same.
    + inv H; same.
  - (* resume *) unfold do_resume in H. destruct (aget a (s_ops s)) as [p|] eqn:Ha; [|discriminate].
    assert (L : forall sh k s' o, do_lookup c s a sh k = ROk s' o -> gd s s' o).
    { intros sh k s1 o1 H1. unfold do_lookup in H1. destruct (aget k (s_ents s)) as [e|] eqn:He.
      - inv H1. same.
      - cbn [new_guard] in H1. inv H1. apply gd_guard; [split; reflexivity|]. symmetry. apply vof_absent; auto. }
    assert (A : forall k e (s2 : state) o2, aget k (s_ents s) = Some e ->
               s_guards s2 = (s_gid s, k) :: s_guards s -> s_gid s2 = S (s_gid s) ->
               o2 = OGuard (s_gid s) k (val_of e) -> gd s s2 o2).
    { intros k e s2 o2 He G1 G2 ->. apply gd_guard; [split; auto|]. symmetry. apply vof_get; auto. }
    destruct p; try discriminate; try (apply cs_ok in H).
    + unfold do_enter in H. destruct lim as [n|]; [|eapply L; eauto].
      destruct (length (s_ents s) - (n - 1)) eqn:Eover; [eapply L; eauto|].
      destruct (iter_order c s o0) as [order|] eqn:Eord; [|discriminate].
      destruct (evict_scan (s_ents s) order (S n0)) as [[[|k1 ks]|]|] eqn:Es; try discriminate; [eapply L; eauto|].
      destruct (lock_keys s (k1 :: ks)) as [s1 off] eqn:El. inv H.
      destruct (enter_offered c s a sh k n o0 _ off HI Ha Hstep) as (order' & _ & _ & _ & _ & _ & _ & Hv & _).
      destruct (iter_order_spec c s o0 order (inv_nd_e _ HI) Eord) as (Hnd & Hin & _).
      destruct (evict_scan_spec _ _ _ _ Es) as (H1 & H2 & H3).
      assert (Hall : forall k0, In k0 (k1 :: ks) -> aget k0 (s_ents s) <> None).
      { intros k0 Hk. destruct (H1 k0 Hk) as (_ & e & He & _). congruence. }
      destruct (lock_keys_gids _ s s1 off Hall (H2 Hnd) El) as [G1 G2].
      apply gd_offered. split; [cbn; apply (lock_keys_guards_exact _ s s1 off Hall (H2 Hnd) El)|].
      split; [exact G1|]. split; [cbn; exact G2|].
      intros g k0 v Hin0. apply (Hv g k0 v Hin0).
    + unfold do_key_try in H. destruct (aget k (s_ents s)) as [e|] eqn:He; [|discriminate].
      destruct (e_owner e); inv H; [same|]. eapply A; eauto.
    + unfold do_key_wait in H. destruct (aget k (s_ents s)) as [e|] eqn:He; [|discriminate].
      destruct (e_owner e); inv H; [same|]. eapply A; eauto.
    + unfold do_queued in H. destruct (aget k (s_ents s)) as [e|] eqn:He; [|discriminate].
      destruct (own_is_waiter _ a); inv H. eapply A; eauto.
    + unfold do_cleanup in H. destruct (cleanup_ents (s_ents s) k) as [[ents|]|] eqn:Hc; inv H; same.
    + destruct (cancel_ents c (s_ents s) a k) as [[ents|]|] eqn:Hc; inv H; same.
    + unfold do_drops in H. destruct gs as [|g rest]; [discriminate|].
      destruct (unlock_cs c s g) as [[s1|]|] eqn:Hu; try discriminate.
      destruct (unlock_cs_key c s g s1 Hu) as [k Hk].
      pose proof (unlock_cs_guards c s g s1 Hu) as G1. pose proof (unlock_cs_gid c s g s1 Hu) as G2.
      destruct rest as [|g' rest'].
      * destruct af; inv H; (eapply gd_rel; [exact I|exact Hk|exact G1|exact G2]).
      * inv H. destruct (begin_unlock_guards c s1 g') as [B1 B2].
        eapply gd_rel; [exact I|exact Hk|cbn; congruence|cbn; congruence].
    + unfold do_scan in H. destruct (iter_order c s o0) as [order|] eqn:Eord; [|discriminate].
      destruct (lock_keys s (expired_keys (s_ents s) order cutoff)) as [s1 ll] eqn:El. inv H.
      destruct (scan_exact c s a cutoff o0 _ ll HI Ha Hstep) as (_ & _ & Hv & _).
      destruct (iter_order_spec c s o0 order (inv_nd_e _ HI) Eord) as (Hnd & Hin & _).
      assert (Hnd2 : NoDup (expired_keys (s_ents s) order cutoff)) by (apply NoDup_filter; auto).
      assert (Hall : forall k, In k (expired_keys (s_ents s) order cutoff) -> aget k (s_ents s) <> None).
      { intros k Hk. apply expired_keys_spec in Hk as [_ (e & v & st & He & _)]. congruence. }
      destruct (lock_keys_gids _ s s1 ll Hall Hnd2 El) as [G1 G2].
      apply gd_expired. split; [cbn; apply (lock_keys_guards_exact _ s s1 ll Hall Hnd2 El)|].
      split; [exact G1|]. split; [cbn; exact G2|].
      intros g k v Hin0. apply (Hv g k v Hin0).
    + unfold do_stream_enter in H. destruct (iter_order c s o0); inv H. same.
    + inv H. same.
    + destruct (iter_order c s o0); inv H. same.
  - (* sub *) unfold do_sub in H. destruct (aget a (s_ops s)) as [p|] eqn:Ha; [|discriminate].
    destruct p; try discriminate.
    + assert (P : do_sub_poll c s a subs k = ROk s' o -> gd s s' o).
      { intros H1. unfold do_sub_poll in H1. destruct (aget k subs) as [st|]; [|discriminate].
        destruct (aget k (s_ents s)) as [e|] eqn:He; [|discriminate].
        assert (Q : forall s2 o2,
          (let (s1, g) := new_guard s k in
           let s2 := with_ents s1 (aset k (set_owner e (Some (OwnG g))) (s_ents s1)) in
           match val_of e with
           | Some v => ROk (set_pc s2 a (PStream (adel k subs))) (OItem g k v)
           | None => ROk (set_pc s2 a (PStream (aset k (SUnlocking g) subs))) ONothing
           end) = ROk s2 o2 -> gd s s2 o2).
        { intros s2 o2 H2. cbn [new_guard] in H2. destruct (val_of e) as [v|] eqn:Ev; inv H2.
          - apply gd_item; [split; reflexivity|]. rewrite (vof_get s k e He). auto.
          - eapply gd_hidden; [exact I|split; reflexivity|]. rewrite (vof_get s k e He). auto. }
        destruct st.
        - destruct (e_owner e); [inv H1; same|]. apply Q; auto.
        - destruct (own_is_waiter _ a); [|discriminate]. apply Q; auto.
        - destruct (unlock_cs c s g) as [[s1|]|] eqn:Hu; inv H1.
          destruct (unlock_cs_key c s g s1 Hu) as [k0 Hk].
          eapply gd_rel; [exact I|exact Hk|cbn; eapply unlock_cs_guards; eauto|cbn; eapply unlock_cs_gid; eauto]. }
      destruct (aget k subs) as [[| |g]|]; try (apply cs_ok in H); apply P; auto.
    + apply cs_ok in H. unfold do_sub_drop in H. destruct (aget k subs) as [st|]; [|discriminate].
      destruct st; try discriminate;
        (destruct (cancel_ents c (s_ents s) a k) as [[ents|]|] eqn:Hc; try discriminate;
         destruct (adel k subs); inv H; same).
  - unfold do_pollend in H. destruct (aget a (s_ops s)) as [[]|]; try discriminate. destruct subs; inv H; same.
  - unfold do_cancel in H. destruct (aget a (s_ops s)) as [[]|]; try discriminate.
    + destruct (sh_is_async sh); inv H; same.
    + destruct (sh_is_async sh); inv H; same.
    + destruct (existsb _ subs); [discriminate|]. destruct subs; inv H; same.
  - unfold do_guard_op in H. destruct (negb (guard_live s g)); [discriminate|].
    destruct (aget g (s_guards s)) as [k0|]; [|discriminate].
    destruct (aget k0 (s_ents s)) as [e|]; [|discriminate].
    destruct op; try (destruct (e_val e) as [[? ?]|]); inv H; same.
  - unfold do_cbreturn in H. destruct (aget a (s_ops s)) as [[]|]; try discriminate.
    destruct hold.
    + destruct offered as [|g rest]; [discriminate|]. destruct (all_live s _ && _)%bool; inv H.
      destruct (begin_unlock_guards c s g) as [B1 B2]. apply gd_same; [exact I|exact B1|exact B2].
    + destruct r; inv H; same.
  - destruct (Z.leb 0 d); inv H. same.
Qed.

(* ------------------------------------------------------------------ *)
(* the abstract machine run on a sequence of calls with definite results *)

Fixpoint spec_acts (sp : spec) (calls : list scall) : option (spec * list obs) :=
  match calls with
  | [] => Some (sp, [])
  | cl :: rest =>
    match spec_call sp cl with
    | Some (sp1, Some o) =>
      match spec_acts sp1 rest with
      | Some (sp2, os) => Some (sp2, o :: os)
      | None => None
      end
    | _ => None
    end
  end.

Lemma spec_acts_app sp c1 : forall sp1 o1 c2 sp2 o2,
  spec_acts sp c1 = Some (sp1, o1) -> spec_acts sp1 c2 = Some (sp2, o2) ->
  spec_acts sp (c1 ++ c2) = Some (sp2, o1 ++ o2).
Proof.
  revert sp. induction c1 as [|cl rest IH]; intros sp sp1 o1 c2 sp2 o2 H1 H2; cbn in *.
  - inv H1. exact H2.
  - destruct (spec_call sp cl) as [[spa [oa|]]|]; try discriminate.
    destruct (spec_acts spa rest) as [[spb ob]|] eqn:E; [|discriminate]. inv H1.
    rewrite (IH spa sp1 ob c2 sp2 o2 E H2). reflexivity.
Qed.

Definition not_gop (l : label) : Prop := match l with LGuardOp _ _ => False | _ => True end.

Definition lock_of (x : gid * key * Z) : scall := SLock ShBlocking (okey x).
Definition guard_of (x : gid * key * Z) : obs := OGuard (ogid x) (okey x) (Some (snd x)).

(* which calls of the abstract machine a step performs, and what they must return, given only what the client sees
   (the label it scheduled and the observation it got) *)
Inductive explains (l : label) (o : obs) : list scall -> list obs -> Prop :=
| ex_gop g op : l = LGuardOp g op -> explains l o [SGop g op] [o]
| ex_guard g k v : o = OGuard g k v -> explains l o [SLock ShBlocking k] [o]
| ex_item g k v : o = OItem g k v -> explains l o [SLock ShBlocking k] [OGuard g k (Some v)]
| ex_scan ll : o = OOffered ll \/ o = OExpired ll -> explains l o (map lock_of ll) (map guard_of ll)
| ex_silent : quiet o -> not_gop l -> explains l o [] []
| ex_release g : quiet o -> not_gop l -> explains l o [SDrop g] [OUnit]
| ex_hidden g k : quiet o -> not_gop l -> explains l o [SLock ShBlocking k] [OGuard g k None].

Lemma not_locked_fresh (G : list (gid * key)) l1 g k :
  NoDup (map snd (l1 ++ (g, k) :: G)) -> existsb (fun x : gid * nat => Nat.eqb (snd x) k) G = false.
Proof.
  intros Hnd. rewrite map_app in Hnd. cbn in Hnd. apply NoDup_remove_2 in Hnd.
  destruct (existsb (fun x : gid * nat => Nat.eqb (snd x) k) G) eqn:E; [|reflexivity]. exfalso. apply Hnd. apply in_or_app. right.
  apply existsb_exists in E as [[g' k'] [Hin Hk]]. cbn in Hk. apply Nat.eqb_eq in Hk. subst.
  apply in_map_iff. exists (g', k). auto.
Qed.

Lemma spec_locks ll : forall sp,
  NoDup (map snd (rev (map gk ll) ++ sp_guards sp)) ->
  map ogid ll = seq (sp_next sp) (length ll) ->
  (forall g k v, In (g, k, v) ll -> sp_val sp k = Some v) ->
  spec_acts sp (map lock_of ll) =
    Some (mkSp (sp_val sp) (rev (map gk ll) ++ sp_guards sp) (sp_next sp + length ll), map guard_of ll).
Proof.
  induction ll as [|[[g k] v] rest IH]; intros sp Hnd Hg Hv; cbn [map spec_acts length].
  - cbn. rewrite Nat.add_0_r. destruct sp; reflexivity.
  - cbn [map gk ogid okey fst snd rev] in Hnd. rewrite <- app_assoc in Hnd. cbn [app] in Hnd.
    cbn [map ogid fst seq] in Hg. inversion Hg as [[Hg1 Hg2]]. subst g.
    assert (NL : existsb (fun x : gid * nat => Nat.eqb (snd x) k) (sp_guards sp) = false) by (eapply not_locked_fresh; exact Hnd).
    cbn [lock_of okey fst snd spec_call]. unfold sp_locked. rewrite NL.
    set (sp1 := mkSp (sp_val sp) ((sp_next sp, k) :: sp_guards sp) (S (sp_next sp))).
    rewrite (IH sp1).
    + cbn [sp_val sp_guards sp_next sp1 guard_of ogid okey fst snd map gk rev].
      rewrite (Hv (sp_next sp) k v (or_introl eq_refl)).
      rewrite <- app_assoc. cbn [app].
      replace (sp_next sp + S (length rest)) with (S (sp_next sp) + length rest) by lia. reflexivity.
    + exact Hnd.
    + exact Hg2.
    + intros g0 k0 v0 Hin. cbn. apply (Hv g0 k0 v0). right. exact Hin.
Qed.

Lemma changes_values_not_gop l : not_gop l -> is_consume l = false -> changes_values l = false.
Proof. destruct l; cbn; auto; try contradiction; discriminate. Qed.

Theorem conc_step_refines c s sp l o s' :
  Inv s -> R s sp -> step c s l = ROk s' o -> is_consume l = false ->
  exists calls os sp', explains l o calls os /\ spec_acts sp calls = Some (sp', os) /\ R s' sp'.
Proof.
  intros HI (Rv & Rg & Rn) H Hl.
  pose proof (step_inv c s l s' o HI H) as HI'.
  pose proof (guards_unique_key s' HI') as Hnd'.
  destruct l as [a cl|a ord|a k ord|a|a|g op|a r hold|d|ord] eqn:El; try discriminate.
  6: { (* a guard operation *)
    assert (Hk : exists k, aget g (s_guards s) = Some k).
    { cbn in H. unfold do_guard_op in H. destruct (negb (guard_live s g)); [discriminate|].
      destruct (aget g (s_guards s)); [eauto|discriminate]. }
    destruct Hk as [k Hk].
    destruct (guard_op_refines c s g op s' o k H Hk) as (E & G & _).
    exists [SGop g op], [o]. eexists. split; [eapply ex_gop; reflexivity|].
    cbn [spec_acts spec_call]. rewrite <- Rg, Hk, <- Rv.
    destruct (spec_gop op (vof s k)) as [v' o'] eqn:Eg. inv E. split; [reflexivity|].
    split; [|split; cbn; try congruence].
    - intros k'. cbn. unfold upd. destruct (Nat.eqb_spec k' k); [subst; auto|].
      rewrite (guard_op_local c s g op s' o' k H Hk k') by auto. apply Rv.
    - cbn in H. unfold do_guard_op in H. destruct (negb (guard_live s g)); [discriminate|]. rewrite Hk in H.
      destruct (aget k (s_ents s)); [|discriminate].
      destruct op; try (destruct (e_val e) as [[? ?]|]); inv H; cbn; auto. }
  all: rewrite <- El in H; assert (Hng : not_gop l) by (subst l; exact I);
    assert (Hc : is_consume l = false) by (subst l; reflexivity);
    pose proof (step_values_unchanged c s l s' o H (changes_values_not_gop l Hng Hc)) as Hvals;
    pose proof (step_gd c s l s' o HI H Hc) as D; rewrite <- El; clear El;
    assert (RV : forall k, vof s' k = sp_val sp k) by (intros k0; rewrite Hvals; apply Rv);
    inversion D as [o0 Q G1 G2|k0 v [G1 G2] Ev|k0 v [G1 G2] Ev|k0 o0 Q [G1 G2] Ev|ll (G1 & G2 & G3 & G4)|ll (G1 & G2 & G3 & G4)|g0 k0 o0 Q Hg G1 G2]; subst.
  all: try (exists [], [], sp; split; [apply ex_silent; auto|]; split; [reflexivity|]; split; [exact RV|split; congruence]).
  all: try (rewrite G1 in Hnd'; pose proof (not_locked_fresh (s_guards s) [] _ _ Hnd') as NL).
  all: try (eexists [SLock ShBlocking k0], _, _; split; [first [eapply ex_guard; reflexivity | eapply ex_item; reflexivity | eapply ex_hidden; auto]|];
            cbn [spec_acts spec_call]; unfold sp_locked; rewrite <- Rg, NL, <- Rn; cbn [sh_is_try];
            first [rewrite <- Rv | idtac]; first [rewrite Ev | idtac];
            split; [reflexivity|]; split; [exact RV|split; cbn; congruence]).
  all: try (exists (map lock_of ll), (map guard_of ll); eexists; split; [apply ex_scan; auto|];
            rewrite spec_locks; [split; [reflexivity|]; split; [exact RV|split; cbn; congruence]
                                | rewrite <- Rg, <- G1; exact Hnd' | rewrite <- Rn; exact G2
                                | intros g1 k1 v1 Hin; rewrite <- Rv; eapply G4; eauto]).
  all: try (exists [SDrop g0], [OUnit]; eexists; split; [apply ex_release; auto|];
            cbn [spec_acts spec_call]; rewrite <- Rg, Hg; split; [reflexivity|]; split; [exact RV|split; cbn; congruence]).
Qed.

(* ------------------------------------------------------------------ *)
(* whole runs: any agents, any interleaving *)

Inductive lin_run (c : cfg) : state -> list ev -> state -> list scall -> list obs -> Prop :=
| lr_nil s : lin_run c s [] s [] []
| lr_cons s l o s' tr s'' cs1 os1 cs2 os2 :
    step c s l = ROk s' o -> explains l o cs1 os1 -> lin_run c s' tr s'' cs2 os2 ->
    lin_run c s ((s, l, o, s') :: tr) s'' (cs1 ++ cs2) (os1 ++ os2).

(* every run (without consuming the container) is a run of the plain map + locked set: the concatenation of the calls
   that explain its steps is accepted by [spec_call], one after the other, with exactly the announced results, and
   the final states correspond *)
Theorem conc_run_refines c tr : forall s sp s',
  Inv s -> R s sp -> otrace c s tr s' -> (forall e, In e tr -> is_consume (ev_label e) = false) ->
  exists calls os sp', lin_run c s tr s' calls os /\ spec_acts sp calls = Some (sp', os) /\ R s' sp'.
Proof.
  induction tr as [|e tr IH]; intros s sp s' HI HR Ht Hc.
  - inv Ht. exists [], [], sp. split; [constructor|]. split; [reflexivity|exact HR].
  - inversion Ht as [|s0 l o s1 tr0 s2 Hs Hrest]; subst.
    assert (Hl : is_consume l = false) by (apply (Hc (s, l, o, s1)); left; reflexivity).
    destruct (conc_step_refines c s sp l o s1 HI HR Hs Hl) as (cs1 & os1 & sp1 & E1 & A1 & R1).
    destruct (IH s1 sp1 s' (step_inv c s l s1 o HI Hs) R1 Hrest) as (cs2 & os2 & sp2 & L2 & A2 & R2).
    { intros e He. apply Hc. right. exact He. }
    exists (cs1 ++ cs2), (os1 ++ os2), sp2. split; [econstructor; eauto|]. split; [|exact R2].
    eapply spec_acts_app; eauto.
Qed.

Corollary conc_history_linearisable c tr s' :
  otrace c init tr s' -> (forall e, In e tr -> is_consume (ev_label e) = false) ->
  exists calls os sp', lin_run c init tr s' calls os /\ spec_acts spec_init calls = Some (sp', os) /\ R s' sp'.
Proof. intros Ht Hc. eapply conc_run_refines; eauto. - apply Inv_init. - apply R_init. Qed.

(* ------------------------------------------------------------------ *)
(* try variants under concurrency: a try fails only on a key that is locked or awaited by a pending acquisition,
   and succeeds on a key that is neither (the key-try step is where a try call takes effect) *)

Theorem try_fails_only_if_locked_or_awaited c s a sh k o s' :
  Inv s -> aget a (s_ops s) = Some (PKeyTry sh k) -> step c s (LResume a o) = ROk s' ONothing ->
  (exists g, aget g (s_guards s) = Some k) \/ (exists a', waits_on s a' k).
Proof.
  intros HI Ha H. cbn in H. unfold do_resume in H. rewrite Ha in H. unfold do_key_try in H.
  destruct (aget k (s_ents s)) as [e|] eqn:He; [|discriminate].
  destruct (e_owner e) as [[g|a']|] eqn:Eo.
  - left. exists g. apply (ki_g _ _ (inv_k _ HI k)). eauto.
  - right. exists a'. apply (ki_w _ _ (inv_k _ HI k)). eauto.
  - cbn [new_guard] in H. inv H.
Qed.

Theorem try_succeeds_when_free c s a sh k o :
  Inv s -> aget a (s_ops s) = Some (PKeyTry sh k) ->
  (forall g, aget g (s_guards s) <> Some k) -> (forall a', ~ waits_on s a' k) ->
  exists s', step c s (LResume a o) = ROk s' (OGuard (s_gid s) k (vof s k)).
Proof.
  intros HI Ha Hg Hw. cbn. unfold do_resume. rewrite Ha. unfold do_key_try.
  assert (Hp : exists e, aget k (s_ents s) = Some e).
  { eapply handle_present; eauto. cbn. rewrite Nat.eqb_refl. reflexivity. }
  destruct Hp as [e He]. rewrite He.
  destruct (e_owner e) as [[g|a']|] eqn:Eo.
  - exfalso. apply (Hg g). apply (ki_g _ _ (inv_k _ HI k)). eauto.
  - exfalso. apply (Hw a'). apply (ki_w _ _ (inv_k _ HI k)). eauto.
  - cbn [new_guard]. rewrite (vof_get s k e He). eauto.
Qed.

(* ------------------------------------------------------------------ *)
(* consequences at the level of the abstract machine: a key is re-acquired only after its guard was released *)

Lemma spec_acts_cons sp cl rest sp' os :
  spec_acts sp (cl :: rest) = Some (sp', os) ->
  exists sp1 o os', spec_call sp cl = Some (sp1, Some o) /\ spec_acts sp1 rest = Some (sp', os') /\ os = o :: os'.
Proof.
  cbn. destruct (spec_call sp cl) as [[sp1 [o|]]|]; try discriminate.
  destruct (spec_acts sp1 rest) as [[sp2 os']|] eqn:E; [|discriminate]. intros H; inv H. eauto 8.
Qed.

Lemma spec_acts_split sp c1 : forall c2 sp' os,
  spec_acts sp (c1 ++ c2) = Some (sp', os) ->
  exists sp1 o1 o2, spec_acts sp c1 = Some (sp1, o1) /\ spec_acts sp1 c2 = Some (sp', o2) /\ os = o1 ++ o2.
Proof.
  revert sp. induction c1 as [|cl rest IH]; intros sp c2 sp' os H.
  - exists sp, [], os. cbn. auto.
  - cbn [app] in H. destruct (spec_acts_cons _ _ _ _ _ H) as (sp1 & o & os' & E1 & E2 & ->).
    destruct (IH sp1 c2 sp' os' E2) as (sp2 & o1 & o2 & F1 & F2 & ->).
    exists sp2, (o :: o1), o2. cbn. rewrite E1, F1. auto.
Qed.

(* a guard stays in the locked set as long as it is not dropped *)
Lemma guard_stays sp calls : forall sp' os g k,
  spec_acts sp calls = Some (sp', os) -> In (g, k) (sp_guards sp) -> ~ In (SDrop g) calls -> In (g, k) (sp_guards sp').
Proof.
  revert sp. induction calls as [|cl rest IH]; intros sp sp' os g k H Hin Hnd.
  - cbn in H. inv H. exact Hin.
  - destruct (spec_acts_cons _ _ _ _ _ H) as (sp1 & o & os' & E1 & E2 & ->).
    apply (IH sp1 sp' os' g k E2).
    + destruct cl as [sh k0|g0 op|g0| |]; cbn in E1.
      * destruct (sp_locked sp k0); [destruct (sh_is_try sh); inv E1; exact Hin|]. inv E1. cbn. right. exact Hin.
      * destruct (aget g0 (sp_guards sp)) as [k1|]; [|discriminate]. destruct (spec_gop op (sp_val sp k1)). inv E1. exact Hin.
      * destruct (aget g0 (sp_guards sp)) as [k1|]; [|discriminate]. inv E1. cbn.
        apply In_adel. split; [exact Hin|]. intros ->. apply Hnd. left. reflexivity.
      * discriminate.
      * discriminate.
    + intros Hd. apply Hnd. right. exact Hd.
Qed.

Lemma in_locked sp g k : In (g, k) (sp_guards sp) -> sp_locked sp k = true.
Proof.
  intros H. unfold sp_locked. apply existsb_exists. exists (g, k). split; auto. cbn. apply Nat.eqb_refl.
Qed.

(* in every history of the abstract machine -- hence, by [conc_history_linearisable], in every interleaving of the
   model -- a key that was acquired is acquired again only after the first guard has been released in between *)
Theorem reacquisition_needs_release sp sh k mid sh' sp' g v os_mid g' v' :
  spec_acts sp (SLock sh k :: mid ++ [SLock sh' k]) = Some (sp', OGuard g k v :: os_mid ++ [OGuard g' k v']) ->
  In (SDrop g) mid.
Proof.
  intros H.
  destruct (spec_acts_cons _ _ _ _ _ H) as (sp1 & o & os' & E1 & E2 & Eo). inv Eo.
  destruct (spec_acts_split _ _ _ _ _ E2) as (sp2 & o1 & o2 & F1 & F2 & Eo).
  assert (Hg : In (g, k) (sp_guards sp1)).
  { cbn in E1. destruct (sp_locked sp k); [destruct (sh_is_try sh); inv E1|]. inv E1. cbn. left. reflexivity. }
  set (is_drop := fun c : scall => match c with SDrop g0 => Nat.eqb g0 g | _ => false end).
  destruct (existsb is_drop mid) eqn:Ex.
  { apply existsb_exists in Ex as [c [Hc Hd]]. destruct c; cbn in Hd; try discriminate.
    apply Nat.eqb_eq in Hd. subst. exact Hc. }
  assert (Hnin : ~ In (SDrop g) mid).
  { intros Hin. assert (existsb is_drop mid = true) as Ht; [|congruence].
    apply existsb_exists. exists (SDrop g). split; auto. cbn. apply Nat.eqb_refl. }
  exfalso.
  pose proof (guard_stays sp1 mid sp2 o1 g k F1 Hg Hnin) as Hs.
  apply in_locked in Hs.
  cbn in F2. rewrite Hs in F2. destruct (sh_is_try sh'); [|discriminate]. inv F2.
  apply app_inj_tail in Eo. destruct Eo as [_ Eo]. discriminate.
Qed.

(* ... and while a key is not locked, nothing changes its value: whatever the other calls are *)
Lemma not_locked_aget sp k g : sp_locked sp k = false -> aget g (sp_guards sp) <> Some k.
Proof.
  intros Hl Hg. apply aget_In in Hg. apply in_locked in Hg. congruence.
Qed.

Theorem value_untouched_while_unlocked sp calls : forall sp' os k,
  spec_acts sp calls = Some (sp', os) -> sp_locked sp k = false -> (forall sh, ~ In (SLock sh k) calls) ->
  sp_val sp' k = sp_val sp k /\ sp_locked sp' k = false.
Proof.
  revert sp. induction calls as [|cl rest IH]; intros sp sp' os k H Hl Hn.
  - cbn in H. inv H. auto.
  - destruct (spec_acts_cons _ _ _ _ _ H) as (sp1 & o & os' & E1 & E2 & ->).
    assert (S1 : sp_val sp1 k = sp_val sp k /\ sp_locked sp1 k = false).
    { destruct cl as [sh k0|g0 op|g0| |]; cbn in E1.
      - destruct (sp_locked sp k0) eqn:L0; [destruct (sh_is_try sh); inv E1; auto|]. inv E1. cbn. split; auto.
        change (Nat.eqb k0 k || sp_locked sp k = false)%bool. rewrite Hl.
        destruct (Nat.eqb_spec k0 k); [|reflexivity].
        subst. exfalso. apply (Hn sh). left. reflexivity.
      - destruct (aget g0 (sp_guards sp)) as [k1|] eqn:Eg; [|discriminate].
        destruct (spec_gop op (sp_val sp k1)) as [v' o']. inv E1. cbn. split; [|exact Hl].
        unfold upd. destruct (Nat.eqb_spec k k1); [|reflexivity]. subst. exfalso. eapply not_locked_aget; eauto.
      - destruct (aget g0 (sp_guards sp)) as [k1|] eqn:Eg; [|discriminate]. inv E1. cbn. split; auto.
        match goal with |- ?X = false => destruct X eqn:Ex; [|reflexivity] end. exfalso.
        unfold sp_locked in Ex. cbn [sp_guards] in Ex.
        apply existsb_exists in Ex as [[g1 k2] [Hin Hk]]. cbn in Hk. apply Nat.eqb_eq in Hk. subst.
        apply In_adel in Hin as [Hin _]. apply in_locked in Hin. congruence.
      - discriminate.
      - discriminate. }
    destruct S1 as [V1 L1].
    destruct (IH sp1 sp' os' k E2 L1) as [V2 L2].
    { intros sh Hin. apply (Hn sh). right. exact Hin. }
    split; [congruence|exact L2].
Qed.

(* ------------------------------------------------------------------ *)
(* C06 at the level of the abstract machine: a by-key acquisition without limit touches the plain map + locked set
   only in the step that announces its guard.  Every other step it makes -- look-up of an existing entry, a failed
   try, queueing, the clean-up, being cancelled, the clean-up after the cancellation -- leaves values, guards and guard
   names as they are; a call that is cancelled (or fails) never makes the announcing step, so it is invisible there. *)

Definition by_key_pc (p : pc) : bool :=
  match p with
  | PEnter _ _ None | PKeyTry _ _ | PKeyWait _ _ | PQueued _ _ | PCleanup _ _ | PCancel _ => true
  | _ => false
  end.

Definition own_label (a : aid) (l : label) : Prop :=
  match l with LResume a' _ | LCancel a' => a' = a | _ => False end.

Theorem lock_call_invisible_until_it_gets_its_guard c s a p l s' o :
  aget a (s_ops s) = Some p -> by_key_pc p = true -> own_label a l -> step c s l = ROk s' o ->
  (forall g k v, o <> OGuard g k v) ->
  s_guards s' = s_guards s /\ s_gid s' = s_gid s /\ (forall k, vof s' k = vof s k).
Proof.
  intros Ha Hp Hl H Hno.
  assert (Hv : forall k, vof s' k = vof s k).
  { apply (step_values_unchanged c s l s' o H). destruct l; cbn in Hl; try contradiction; reflexivity. }
  split; [|split; [|exact Hv]]; destruct l as [| a' ord | | | a' | | | |]; cbn in Hl; try contradiction; subst a'; cbn [step] in H.
  all: try (unfold do_resume in H; rewrite Ha in H).
  all: try (unfold do_cancel in H; rewrite Ha in H).
  all: destruct p as [sh k lim| | sh k | sh k | sh k | sh k | k | | | | | | | ]; try discriminate Hp.
  all: try (destruct lim; [discriminate Hp|]).
  all: try (apply cs_ok in H).
  all: try (unfold do_enter, do_lookup in H; destruct (aget k (s_ents s)) as [e|];
            [inv H; reflexivity | cbn [new_guard] in H; inv H; exfalso; eapply Hno; reflexivity]).
  all: try (unfold do_key_try in H; destruct (aget k (s_ents s)) as [e|]; [|discriminate];
            destruct (e_owner e); [inv H; reflexivity | cbn [new_guard] in H; inv H; exfalso; eapply Hno; reflexivity]).
  all: try (unfold do_key_wait in H; destruct (aget k (s_ents s)) as [e|]; [|discriminate];
            destruct (e_owner e); [inv H; reflexivity | cbn [new_guard] in H; inv H; exfalso; eapply Hno; reflexivity]).
  all: try (unfold do_queued in H; destruct (aget k (s_ents s)) as [e|]; [|discriminate];
            destruct (own_is_waiter _ a); [cbn [new_guard] in H; inv H; exfalso; eapply Hno; reflexivity | discriminate]).
  all: try (unfold do_cleanup in H; destruct (cleanup_ents (s_ents s) k) as [[ents|]|]; inv H; reflexivity).
  all: try (destruct (cancel_ents c (s_ents s) a k) as [[ents|]|]; inv H; reflexivity).
  all: try (destruct (sh_is_async sh); inv H; reflexivity).
Qed.

(* ------------------------------------------------------------------ *)
(* C04 at the level of the abstract machine: at rest (no guard, nothing in flight) the keys the container holds --
   what num_entries_or_locked / keys_with_entries_or_locked report -- are exactly the keys to which the plain map that
   explains the history assigns a value.  (What the linearisability stage checks at the end of every real-thread
   history.) *)
Theorem rest_keys_are_the_maps_keys s sp :
  Inv s -> R s sp -> s_guards s = [] -> s_ops s = [] ->
  forall k, In k (akeys (s_ents s)) <-> sp_val sp k <> None.
Proof.
  intros HI (Rv & _ & _) Eg Eo k. rewrite (quiescent_keys s k HI Eg Eo), <- Rv.
  unfold valued, vof, vof_e, val_of. split.
  - intros (e & He & Hv). rewrite He. destruct (e_val e) as [[v st]|]; congruence.
  - destruct (aget k (s_ents s)) as [e|]; [|congruence]. intros Hv. exists e. split; auto.
    destruct (e_val e) as [[v st]|]; congruence.
Qed.
