(* C02 — a guard sees exactly what the previous guard for that key left. *)
From Coq Require Import List Arith ZArith.
From LK Require Import AList Model Inv StepInv PropLemmas DropInv Stream Seq SeqRefine SeqLimit Conc.
Import ListNotations.

(* vof s k = the value stored for k (None if k has no entry or a valueless placeholder).
   No step other than an operation on a Guard (and consuming the whole container) changes the value
   of any key: not unlocking, waiting, failing tries, cleanup, cancellation, eviction scans, expiry
   scans, stream steps, clock ticks.  Holds in every state, reachable or not. *)
Theorem C02_only_guard_ops_change_values : forall c s l s' o,
  step c s l = ROk s' o -> changes_values l = false -> forall k, vof s' k = vof s k.
Proof. exact step_values_unchanged. Qed.

(* An operation on a guard changes at most the value of the guard's own key. *)
Theorem C02_guard_op_is_local : forall c s g op s' o k0,
  step c s (LGuardOp g op) = ROk s' o -> aget g (s_guards s) = Some k0 ->
  forall k, k <> k0 -> vof s' k = vof s k.
Proof. exact guard_op_local. Qed.

(* The value a freshly created guard shows is the stored value. *)
Theorem C02_new_guard_shows_stored_value : forall c s l s' g k v,
  reachable c s -> step c s l = ROk s' (OGuard g k v) -> v = vof s k.
Proof. intros c s l s' g k v H. exact (guard_obs_value c s l s' g k v (reachable_inv c s H)). Qed.

(* Over whole runs (otrace = a run with its observations, any agents, any interleaving): as long as no guard
   operation on a guard for key k happens (touches k: LGuardOp on a guard whose key is k, or consuming the
   container), the value under k stays what it was -- whatever else is unlocked, awaited, cancelled, evicted
   or scanned in between ... *)
Theorem C02_value_history : forall c k tr s s',
  otrace c s tr s' -> (forall e, In e tr -> ~ touches k e) -> vof s' k = vof s k.
Proof. intros c k. exact (value_only_changed_by_own_guard_ops c k). Qed.

(* ... and the next guard for k, however obtained, shows exactly that value: what the previous guard left. *)
Theorem C02_next_guard_sees_what_was_left : forall c k tr s s' l s'' g v,
  reachable c s -> otrace c s tr s' -> (forall e, In e tr -> ~ touches k e) ->
  step c s' l = ROk s'' (OGuard g k v) -> v = vof s k.
Proof. intros c k tr s s' l s'' g v H. exact (next_guard_sees_what_was_left c k tr s s' l s'' g v (reachable_inv c s H)). Qed.

(* The same over the histories that explain interleavings (Conc.v): as long as a key is not locked and not acquired,
   no sequence of calls of the plain map + locked set -- acquisitions, guard operations and releases concerning other
   keys -- changes its value, and it stays unlocked. *)
Theorem C02_value_untouched_while_unlocked : forall sp calls sp' os k,
  spec_acts sp calls = Some (sp', os) -> sp_locked sp k = false -> (forall sh, ~ In (SLock sh k) calls) ->
  sp_val sp' k = sp_val sp k /\ sp_locked sp' k = false.
Proof. exact value_untouched_while_unlocked. Qed.

Example C02_witness :
  run (mkCfg true) [LStart 0 (CLock ShAsync 1 None); LResume 0 []; LGuardOp 0 (GInsert 5);
                    LStart 1 (CDrop 0); LResume 1 []; LStart 2 (CLock ShTry 1 None); LResume 2 []; LResume 2 []]
  = RunOk (mkS [(1, mkE (Some (5, 0)%Z) (Some (OwnG 1)) [] 1)] [(1, 1)] [] 0%Z 2)
          [ONothing; OGuard 0 1 None; OVal None; ONothing; OUnit; ONothing; ONothing; OGuard 1 1 (Some 5%Z)].
Proof. vm_compute. reflexivity. Qed.
