//! Agent bodies: what an agent thread does for each kind of call.
//!
//! A body runs on an agent thread with the agent context installed
//! (`sched::spawn_agent`); its return value becomes `Report::Finished`.
//! Library panics unwind out of the body and are caught by `spawn_agent`.

use crate::containers::{BoxFut, Cont, LockOut};
use crate::sched::{AgentCtx, Cmd, Event, Outcome, PollResult, Report};
use crate::types::*;
use std::sync::Arc;
use std::task::{Context, Poll};

pub type Body = Box<dyn FnOnce(&Arc<AgentCtx>) -> Outcome + Send + 'static>;

/// The poll loop of async agents (spec §1): on `Pending` report `Blocked` (or
/// `InCallback` if the pending thing is the eviction callback) and wait for `Go`
/// (re-poll), `CbReturn` (re-poll, the callback future picks the result up) or
/// `Cancel` (drop the future; hooks may park during the drop). `Err(())` = cancelled.
pub fn drive<T>(cx: &Arc<AgentCtx>, mut fut: BoxFut<T>) -> Result<T, ()> {
    let waker = cx.make_waker();
    let mut tcx = Context::from_waker(&waker);
    loop {
        match fut.as_mut().poll(&mut tcx) {
            Poll::Ready(v) => return Ok(v),
            Poll::Pending => {
                let cmd = match cx.take_cb_pending() {
                    Some(offered) => cx.report_and_wait(Report::InCallback(offered)),
                    None => cx.report_and_wait(Report::Blocked),
                };
                match cmd {
                    Cmd::Go => {}
                    Cmd::CbReturn(r, hold) => cx.set_cbret(r, hold),
                    Cmd::Cancel => {
                        drop(fut);
                        return Err(());
                    }
                    Cmd::Poll => panic!("harness bug: Poll command to a by-key agent"),
                }
            }
        }
    }
}

fn lock_outcome(cx: &Arc<AgentCtx>, out: LockOut) -> Outcome {
    match out {
        LockOut::Guard(g) => {
            let (gid, k, v) = cx.adopt(g);
            Outcome::Guard(gid, k, v)
        }
        LockOut::TryFail => Outcome::TryFail,
        LockOut::Err => Outcome::Err,
    }
}

/// Build the body for `call` on container `cont` (`owned`: use the `_owned` API variants).
pub fn body_for(call: Call, cont: Cont, owned: bool) -> Body {
    match call {
        Call::Lock { sh, key, lim } => {
            if sh.is_async() {
                Box::new(move |cx| match drive(cx, cont.lock_async(sh, owned, key, lim)) {
                    Ok(out) => lock_outcome(cx, out),
                    Err(()) => Outcome::Cancelled,
                })
            } else {
                Box::new(move |cx| {
                    let out = cont.lock_sync(sh, owned, key, lim);
                    lock_outcome(cx, out)
                })
            }
        }
        Call::Drop(gid) => Box::new(move |cx| {
            let g = cx.run.table.lock().unwrap().remove(&gid);
            let g = g.expect("harness bug: drop of a guard that is not in the table");
            cx.push_event(Event::DropBegin(gid));
            drop(g);
            cx.push_event(Event::GuardGone(gid));
            Outcome::Unit
        }),
        Call::Expire(d) => Box::new(move |cx| {
            let gs = cont.expire(owned, d);
            Outcome::Expired(gs.into_iter().map(|g| cx.adopt(g)).collect())
        }),
        Call::Count => Box::new(move |_| Outcome::Count(cont.count())),
        Call::Keys => Box::new(move |_| Outcome::Keys(cont.keys())),
        Call::Stream => Box::new(move |cx| {
            // Creating the stream: one poll, parks at `Entries` inside.
            let mut stream = match drive(cx, cont.stream(owned)) {
                Ok(s) => s,
                Err(()) => return Outcome::Cancelled,
            };
            let waker = cx.make_waker();
            let mut cmd = cx.report_and_wait(Report::StreamCreated);
            loop {
                match cmd {
                    Cmd::Poll => {
                        let mut tcx = Context::from_waker(&waker);
                        let r = match stream.as_mut().poll_next(&mut tcx) {
                            Poll::Ready(Some(g)) => {
                                let (gid, k, v) = cx.adopt(g);
                                PollResult::Item(gid, k, v)
                            }
                            Poll::Ready(None) => PollResult::End,
                            Poll::Pending => PollResult::Pending,
                        };
                        cmd = cx.report_and_wait(Report::StreamPolled(r));
                    }
                    Cmd::Cancel => {
                        drop(stream);
                        return Outcome::Cancelled;
                    }
                    other => panic!("harness bug: command {:?} to an idle stream agent", other),
                }
            }
        }),
    }
}
