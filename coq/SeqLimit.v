(* C05 with soft limits: a single thread that uses the limited variants.  A limited acquisition either
   behaves exactly like the unlimited one or suspends in its eviction callback with guards for some unlocked
   valued keys; while it is suspended the thread goes on making complete calls (the body of the callback,
   re-entrant calls included); when the callback returns the acquisition re-evaluates or ends with the
   callback's error.  All of this refines the plain map + locked set of SeqRefine.v, extended by a description
   of what an eviction round may offer.

   Between the calls of such a thread the only calls in flight are acquisitions suspended in callbacks: they
   hold no handle, wait for nothing and drop nothing (NH). *)
From Coq Require Import List Arith ZArith Bool Lia.
From LK Require Import AList AListFacts Model Inv StepInv NoPanic PropLemmas Seq DropInv SeqRefine.
Import ListNotations.

Definition is_cb (p : pc) : bool := match p with PInCb _ _ _ _ => true | _ => false end.

(* callback-quiescent states *)
Definition Qc (s : state) : Prop := Inv s /\ forall a p, aget a (s_ops s) = Some p -> is_cb p = true.

Lemma Qc_handles s k : Qc s -> ops_handles (s_ops s) k = 0.
Proof.
  intros [HI H]. pose proof (inv_nd_o _ HI) as Hnd.
  assert (G : forall ops, NoDup (akeys ops) -> (forall a p, aget a ops = Some p -> is_cb p = true) -> ops_handles ops k = 0).
  { induction ops as [|[a p] t IH]; intros Hn Hall; cbn; auto. inversion Hn; subst.
    assert (is_cb p = true) by (apply (Hall a); cbn; rewrite Nat.eqb_refl; auto).
    destruct p; try discriminate. cbn. apply IH; auto.
    intros a' p' Ha'. apply (Hall a'). cbn. destruct (Nat.eqb_spec a' a); auto. subst.
    exfalso. apply H2. eapply aget_Some_keys; eauto. }
  apply G; auto.
Qed.

Lemma Qc_no_wait s a k : Qc s -> ~ waits_on s a k.
Proof. intros [_ H] (p & Hp & Hw). specialize (H a p Hp). destruct p; discriminate. Qed.

Lemma Qc_no_busy s g : Qc s -> guard_busy s g = false.
Proof.
  intros [HI H]. unfold guard_busy. destruct (existsb _ (s_ops s)) eqn:E; auto. exfalso.
  apply existsb_exists in E as ([a p] & Hin & Hd). cbn in Hd.
  apply (In_aget _ _ _ (inv_nd_o _ HI)) in Hin. specialize (H a p Hin). destruct p; discriminate.
Qed.

Lemma Qc_entry s k e : Qc s -> aget k (s_ents s) = Some e ->
  e_queue e = [] /\ (forall a, e_owner e <> Some (OwnW a)) /\ e_repl e = gcount (s_guards s) k.
Proof.
  intros HQ He. pose proof HQ as [HI _]. pose proof (inv_k _ HI k) as K.
  split; [|split].
  - destruct (e_queue e) as [|a q] eqn:Eq; auto. exfalso. apply (Qc_no_wait s a k HQ). apply (ki_w _ _ K). exists e. split; auto.
    left. rewrite Eq. left. auto.
  - intros a Ha. apply (Qc_no_wait s a k HQ). apply (ki_w _ _ K). exists e. auto.
  - rewrite (ki_r _ _ K e He). unfold handles. rewrite (Qc_handles s k HQ). lia.
Qed.

Lemma Qc_guarded_entry s g k e : Qc s -> aget g (s_guards s) = Some k -> aget k (s_ents s) = Some e ->
  e_owner e = Some (OwnG g) /\ e_queue e = [] /\ e_repl e = 1.
Proof.
  intros HQ Hg He. pose proof HQ as [HI _]. destruct (Qc_entry s k e HQ He) as (Hq & _ & Hr).
  destruct (Inv_guard_present s g k HI Hg) as (e0 & He0 & Ho0). rewrite He in He0. inv He0.
  split; auto. split; auto. rewrite Hr.
  assert (0 < gcount (s_guards s) k) by (apply gcount_pos; exists g; apply aget_In; auto).
  assert (gcount (s_guards s) k <= 1); [|lia].
  apply gcount_le1; [apply (inv_nd_g _ HI)|].
  intros g1 g2 H1 H2. apply In_aget in H1; [|apply (inv_nd_g _ HI)]. apply In_aget in H2; [|apply (inv_nd_g _ HI)].
  pose proof (inv_k _ HI k) as K.
  apply (ki_g _ _ K) in H1 as (e1 & He1 & Ho1). apply (ki_g _ _ K) in H2 as (e2 & He2 & Ho2). congruence.
Qed.

Lemma Qc_unlocked_free s sp k : Qc s -> R s sp -> sp_locked sp k = false -> key_free s k.
Proof.
  intros HQ HR Hl. pose proof HQ as [HI _]. unfold key_free. destruct (aget k (s_ents s)) as [e|] eqn:He; auto.
  destruct (e_owner e) as [[g|a]|] eqn:Eo; auto; exfalso.
  - assert (sp_locked sp k = true); [|congruence]. apply (Q_locked_iff s sp k HI HR). exists g.
    apply (ki_g _ _ (inv_k _ HI k)). eauto.
  - destruct (Qc_entry s k e HQ He) as (_ & Hn & _). eapply Hn; eauto.
Qed.

Lemma Qc_keys s sp : Qc s -> R s sp -> keys_ok sp (akeys (s_ents s)).
Proof.
  intros HQ HR. pose proof HQ as [HI _]. pose proof HR as (Hv & Hg & _). split; [apply (inv_nd_e _ HI)|].
  intros k. rewrite (Q_locked_iff s sp k HI HR). rewrite <- Hv. split.
  - intros Hin. apply keys_aget in Hin as [e He]. destruct (e_val e) as [[v st]|] eqn:Ev.
    + left. unfold vof, vof_e, val_of. rewrite He, Ev. discriminate.
    + right. pose proof (inv_k _ HI k) as K. pose proof (ki_2 _ _ K e He Ev) as Hpos.
      destruct (Qc_entry s k e HQ He) as (_ & _ & Hr). rewrite Hr in Hpos.
      apply gcount_pos in Hpos as [g Hin]. exists g. apply In_aget; auto. apply (inv_nd_g _ HI).
  - intros [Hval|[g Hgk]].
    + unfold vof, vof_e in Hval. destruct (aget k (s_ents s)) as [e|] eqn:He; [|congruence]. eapply aget_Some_keys; eauto.
    + destruct (Inv_guard_present s g k HI Hgk) as (e & He & _). eapply aget_Some_keys; eauto.
Qed.

(* a complete call preserves callback-quiescence *)
Lemma Qc_same_ops s s' : Qc s -> Inv s' -> s_ops s' = s_ops s -> Qc s'.
Proof. intros [_ H] HI E. split; auto. rewrite E. exact H. Qed.

(* ------------------------------------------------------------------ *)
(* complete calls in a callback-quiescent state: as in SeqRefine.seq_call_refines *)

Theorem seq_call_refines_cb c s sp a call sp' ospec :
  Qc s -> aget a (s_ops s) = None -> R s sp -> spec_call sp call = Some (sp', ospec) ->
  exists s' o, seq_call c s a call = ROk s' o /\ Qc s' /\ s_ops s' = s_ops s /\ R s' sp' /\ obs_ok sp call ospec o.
Proof.
  intros HQ Ha HR Hsp. pose proof HQ as [HI Hcb]. pose proof HR as (Hv & Hg & Hn).
  destruct call as [sh k|g op|g| |]; cbn [spec_call seq_call] in *.
  - (* lock *)
    destruct (sp_locked sp k) eqn:Hl.
    + destruct (sh_is_try sh) eqn:Hsh; inv Hsp.
      apply (Q_locked_iff s sp' k HI HR) in Hl as [g Hgk].
      destruct (Inv_guard_present s g k HI Hgk) as (e & He & Hoe).
      destruct (seq_try_fails_when_locked c s a sh k e HI Ha Hsh He) as (s' & E & G1 & G2 & G3 & _ & _ & G6); [congruence|].
      exists s', OTryFail. split; auto.
      assert (HI' : Inv s') by (eapply seq_lock_inv; eauto).
      split; [eapply Qc_same_ops; eauto|]. split; auto.
      split; [|reflexivity]. split; [intros k'; rewrite G3; auto|split; congruence].
    + inv Hsp. pose proof (Qc_unlocked_free s sp k HQ HR Hl) as Hf.
      pose proof (seq_lock_free c s a sh k HI Ha Hf) as E.
      exists (locked_state c s k), (OGuard (s_gid s) k (vof s k)). split; auto.
      assert (Eo : s_ops (locked_state c s k) = s_ops s) by (unfold locked_state; destruct (aget k (s_ents s)); auto).
      assert (HI' : Inv (locked_state c s k)) by (eapply seq_lock_inv; eauto).
      split; [eapply Qc_same_ops; eauto|]. split; auto.
      split; [|cbn; rewrite Hn, Hv; reflexivity].
      split; [|unfold locked_state; destruct (aget k (s_ents s)); cbn; rewrite Hg, Hn; auto].
      intros k'. cbn [sp_val]. rewrite <- Hv. unfold locked_state, vof, vof_e.
      destruct (aget k (s_ents s)) as [e|] eqn:He; cbn [s_ents].
      * rewrite aget_aset, promote_if_lru_get. destruct (Nat.eqb_spec k' k); [subst; rewrite He; reflexivity|reflexivity].
      * rewrite aget_aset. destruct (Nat.eqb_spec k' k); [subst; rewrite He; reflexivity|reflexivity].
  - (* guard operation *)
    rewrite <- Hg in Hsp. destruct (aget g (s_guards s)) as [k|] eqn:Hgk; [|discriminate].
    destruct (spec_gop op (sp_val sp k)) as [v' o'] eqn:Es. inv Hsp.
    destruct (guard_op_enabled c s g op k HI Hgk (Qc_no_busy s g HQ)) as (s' & o & E).
    destruct (guard_op_refines c s g op s' o k E Hgk) as (P1 & P2 & P3 & P4).
    rewrite Hv, Es in P1. inv P1.
    exists s', o'. split; auto.
    assert (HI' : Inv s') by (eapply step_inv; eauto).
    split; [eapply Qc_same_ops; eauto|]. split; auto.
    split; [|reflexivity]. split; [|split; [cbn; congruence|]].
    + intros k'. unfold upd. cbn. destruct (Nat.eqb_spec k' k); [subst; auto|].
      rewrite (guard_op_local c s g op s' o' k E Hgk k'); auto.
    + cbn. rewrite <- Hn. cbn in E. unfold do_guard_op in E. destruct (negb (guard_live s g)); [discriminate|].
      rewrite Hgk in E. destruct (aget k (s_ents s)) as [e|]; [|discriminate].
      destruct op; try (destruct (e_val e) as [[? ?]|]); inv E; reflexivity.
  - (* drop *)
    rewrite <- Hg in Hsp. destruct (aget g (s_guards s)) as [k|] eqn:Hgk; [|discriminate]. inv Hsp.
    destruct (Inv_guard_present s g k HI Hgk) as (e & He & _).
    destruct (Qc_guarded_entry s g k e HQ Hgk He) as (_ & Hq & Hr).
    pose proof (seq_drop_sole c s a g k e HI Ha Hgk (Qc_no_busy s g HQ) He Hq Hr) as E.
    exists (dropped_state c s g k e), OUnit. split; auto.
    assert (Eo : s_ops (dropped_state c s g k e) = s_ops s) by (unfold dropped_state; destruct (e_val e) as [[? ?]|]; auto).
    assert (HI' : Inv (dropped_state c s g k e)) by (eapply seq_drop_inv; eauto).
    split; [eapply Qc_same_ops; eauto|]. split; auto.
    split; [|reflexivity].
    split; [|unfold dropped_state; destruct (e_val e) as [[? ?]|]; cbn; rewrite Hg, Hn; auto].
    intros k'. cbn [sp_val]. rewrite <- Hv. unfold dropped_state, vof, vof_e.
    destruct (e_val e) as [[v st]|] eqn:Ev; cbn [s_ents].
    + rewrite aget_aset. destruct (Nat.eqb_spec k' k); [subst; rewrite He; unfold val_of; cbn; rewrite Ev; reflexivity|reflexivity].
    + rewrite aget_adel. destruct (Nat.eqb_spec k' k); [subst; rewrite He; unfold val_of; rewrite Ev; reflexivity|reflexivity].
  - (* count *)
    inv Hsp. unfold seq_count.
    assert (E1 : step c s (LStart a CCount) = ROk (set_pc s a PCount) ONothing).
    { cbn. unfold do_start, amem. rewrite Ha. reflexivity. }
    rewrite E1. cbn [then_]. set (s1 := set_pc s a PCount).
    assert (HI1 : Inv s1) by (eapply step_inv; eauto).
    assert (E2 : step c s1 (LResume a []) = ROk (fin s1 a) (OCount (length (s_ents s)))).
    { cbn. unfold do_resume. cbn. rewrite aget_aset_eq.
      destruct (step c s1 (LResume a [])) as [s2 o2| |] eqn:E.
      - pose proof (step_inv c s1 _ _ _ HI1 E) as HI2. cbn in E. unfold do_resume in E. cbn in E. rewrite aget_aset_eq in E.
        pose proof (cs_ok _ _ _ _ E) as E'. inv E'. apply cs_intro; auto.
      - exfalso. destruct (resume_enabled c s1 a PCount [] HI1) as (s2 & o2 & E'); [cbn; apply aget_aset_eq|reflexivity|discriminate|congruence].
      - exfalso. eapply step_no_panic; eauto. }
    rewrite E2. exists (fin s1 a), (OCount (length (s_ents s))). split; auto.
    assert (Hfin : fin s1 a = s).
    { unfold fin, s1, set_pc, with_ops. cbn. rewrite adel_aset_absent; auto. destruct s; reflexivity. }
    rewrite Hfin. split; auto. split; auto. split; auto.
    exists (akeys (s_ents s)). split; [apply Qc_keys; auto|]. unfold akeys. rewrite map_length. reflexivity.
  - (* keys *)
    inv Hsp. unfold seq_keys.
    assert (E1 : step c s (LStart a CKeys) = ROk (set_pc s a PKeys) ONothing).
    { cbn. unfold do_start, amem. rewrite Ha. reflexivity. }
    rewrite E1. cbn [then_]. set (s1 := set_pc s a PKeys).
    assert (HI1 : Inv s1) by (eapply step_inv; eauto).
    assert (Hord : iter_order c s1 (akeys (s_ents s1)) = Some (akeys (s_ents s))).
    { unfold iter_order. cbn. destruct (c_lru c); auto.
      assert (is_perm_of (akeys (s_ents s)) (akeys (s_ents s)) = true) as ->; auto.
      unfold is_perm_of. rewrite Nat.eqb_refl. cbn.
      assert (nodup_nat (akeys (s_ents s)) = true) as -> by (apply nodup_nat_NoDup; apply (inv_nd_e _ HI)). cbn.
      apply forallb_forall. intros x Hx. apply mem_nat_In. auto. }
    assert (E2 : step c s1 (LResume a (akeys (s_ents s1))) = ROk (fin s1 a) (OKeys (akeys (s_ents s)))).
    { destruct (step c s1 (LResume a (akeys (s_ents s1)))) as [s2 o2| |] eqn:E.
      - cbn in E. unfold do_resume in E. cbn in E. rewrite aget_aset_eq in E.
        pose proof (cs_ok _ _ _ _ E) as E'. cbn in Hord. rewrite Hord in E'. inv E'. reflexivity.
      - exfalso. destruct (resume_enabled c s1 a PKeys (akeys (s_ents s1)) HI1) as (s2 & o2 & E'); [cbn; apply aget_aset_eq|reflexivity| |congruence].
        intros _. right. cbn. unfold iter_order in Hord. cbn in Hord. destruct (c_lru c) eqn:El.
        + unfold is_perm_of. rewrite Nat.eqb_refl. cbn.
          assert (nodup_nat (akeys (s_ents s)) = true) as -> by (apply nodup_nat_NoDup; apply (inv_nd_e _ HI)). cbn.
          apply forallb_forall. intros x Hx. apply mem_nat_In. auto.
        + destruct (is_perm_of (akeys (s_ents s)) (akeys (s_ents s))); [auto|discriminate].
      - exfalso. eapply step_no_panic; eauto. }
    rewrite E2. exists (fin s1 a), (OKeys (akeys (s_ents s))). split; auto.
    assert (Hfin : fin s1 a = s).
    { unfold fin, s1, set_pc, with_ops. cbn. rewrite adel_aset_absent; auto. destruct s; reflexivity. }
    rewrite Hfin. split; auto. split; auto. split; auto.
    exists (akeys (s_ents s)). split; [apply Qc_keys; auto|reflexivity].
Qed.

(* ------------------------------------------------------------------ *)
(* limited acquisitions *)

(* from the (re-)entry on: the eviction/look-up critical section, the key try or wait, the clean-up *)
Definition run_enter (c : cfg) (s : state) (a : aid) : result :=
  then_ (step c s (LResume a (akeys (s_ents s)))) (fun s2 =>
  then_ (step c s2 (LResume a [])) (fun s3 => step c s3 (LResume a []))).

Definition seq_start_lim (c : cfg) (s : state) (a : aid) (sh : shape) (k : key) (n : nat) : result :=
  then_ (step c s (LStart a (CLock sh k (Some n)))) (fun s1 => run_enter c s1 a).

(* the callback returns (having dropped or kept the guards it was given: they are the client's) *)
Definition seq_cbret (c : cfg) (s : state) (a : aid) (r : cbres) : result :=
  then_ (step c s (LCbReturn a r false)) (fun s1 => run_enter c s1 a).

(* what an eviction round may offer, in terms of the plain map + locked set *)
Definition offer_ok (sp : spec) (n : nat) (l : list (gid * key * Z)) (sp' : spec) : Prop :=
  l <> [] /\ NoDup (map okey l) /\
  (forall g k0 v, In (g, k0, v) l -> sp_val sp k0 = Some v /\ sp_locked sp k0 = false /\ In (g, k0) (sp_guards sp')) /\
  (forall g k0, In (g, k0) (sp_guards sp') <-> In (g, k0) (sp_guards sp) \/ exists v, In (g, k0, v) l) /\
  sp_val sp' = sp_val sp /\
  exists dom, keys_ok sp dom /\ n <= length dom /\ length l <= length dom - (n - 1) /\
    (length l < length dom - (n - 1) ->
     forall k0, In k0 dom -> sp_val sp k0 <> None -> sp_locked sp k0 = false -> In k0 (map okey l)).

Lemma lock_keys_guards_exact ks : forall s s1 l,
  (forall k, In k ks -> aget k (s_ents s) <> None) -> NoDup ks -> lock_keys s ks = (s1, l) ->
  s_guards s1 = rev (map (fun x => (ogid x, okey x)) l) ++ s_guards s.
Proof.
  induction ks as [|k rest IH]; intros s s1 l Hall Hnd H; cbn [lock_keys] in H.
  - inv H. reflexivity.
  - inversion Hnd; subst. destruct (aget k (s_ents s)) as [e|] eqn:He; [|exfalso; apply (Hall k); auto; left; auto].
    cbn [new_guard] in H.
    match type of H with context [lock_keys ?x rest] => set (s2 := x) in * end.
    destruct (lock_keys s2 rest) as [s3 l'] eqn:E. inv H.
    rewrite (IH s2 s1 l'); auto.
    + cbn [map rev ogid okey fst snd]. rewrite <- app_assoc. reflexivity.
    + intros k0 Hk0. unfold s2. cbn. rewrite aget_aset_neq; [apply Hall; right; auto|]. intros ->. contradiction.
Qed.

(* the look-up does not depend on what the call's program counter was *)
Lemma do_lookup_pc_indep c s a sh k p1 p2 :
  do_lookup c (set_pc s a p1) a sh k = do_lookup c (set_pc s a p2) a sh k.
Proof.
  unfold do_lookup. cbn [s_ents set_pc with_ops]. destruct (aget k (s_ents s)) as [e|].
  - unfold set_pc, with_ents, with_ops. cbn. rewrite !aset_aset. reflexivity.
  - cbn [new_guard]. unfold fin, set_pc, with_ents, with_ops, with_gid, with_guards. cbn. rewrite !adel_aset_same. reflexivity.
Qed.

Lemma evictable_spec s sp k0 : Qc s -> R s sp ->
  (evictable_b (s_ents s) k0 = true <-> sp_val sp k0 <> None /\ sp_locked sp k0 = false).
Proof.
  intros HQ HR. pose proof HQ as [HI _]. pose proof HR as (Hv & _ & _). unfold evictable_b. rewrite <- Hv. unfold vof, vof_e.
  destruct (aget k0 (s_ents s)) as [e|] eqn:He.
  - destruct (e_owner e) as [[g|a]|] eqn:Eo.
    + split; [discriminate|]. intros [_ Hl]. exfalso.
      assert (sp_locked sp k0 = true); [|congruence]. apply (Q_locked_iff s sp k0 HI HR). exists g.
      apply (ki_g _ _ (inv_k _ HI k0)). eauto.
    + exfalso. destruct (Qc_entry s k0 e HQ He) as (_ & Hn & _). eapply Hn; eauto.
    + unfold val_of. destruct (e_val e) as [[v st]|] eqn:Ev.
      * split; auto. intros _. split; [discriminate|].
        destruct (sp_locked sp k0) eqn:Hl; auto. exfalso.
        apply (Q_locked_iff s sp k0 HI HR) in Hl as [g Hgk].
        destruct (Inv_guard_present s g k0 HI Hgk) as (e0 & He0 & Ho0). congruence.
      * split; [discriminate|]. intros [H _]. congruence.
  - split; [discriminate|]. intros [H _]. congruence.
Qed.

Lemma firstn_short {A} n (l : list A) : length (firstn n l) < n -> firstn n l = l.
Proof. intros H. rewrite firstn_length in H. apply firstn_all2. lia. Qed.

(* the (re-)entry of a limited acquisition in a callback-quiescent state: an eviction round, or exactly the
   unlimited acquisition *)
Theorem enter_lim_refines c s sp a sh k n :
  Qc s -> aget a (s_ops s) = None -> R s sp -> 1 <= n ->
  (exists s' l sp', run_enter c (set_pc s a (PEnter sh k (Some n))) a = ROk s' (OOffered l) /\ Qc s' /\
      s_ops s' = aset a (PInCb sh k n (map ogid l)) (s_ops s) /\ R s' sp' /\ offer_ok sp n l sp')
  \/ run_enter c (set_pc s a (PEnter sh k (Some n))) a = seq_lock c s a sh k.
Proof.
  intros HQ Ha HR Hn. pose proof HQ as [HI Hcb]. pose proof HR as (Hv & Hg & Hgid).
  set (s1 := set_pc s a (PEnter sh k (Some n))).
  assert (HI1 : Inv s1) by (apply start_inv; auto; intros; cbn; auto).
  assert (Ha1 : aget a (s_ops s1) = Some (PEnter sh k (Some n))) by (cbn; apply aget_aset_eq).
  assert (Hor : oracle_ok c s1 (akeys (s_ents s1))).
  { right. unfold is_perm_of. rewrite Nat.eqb_refl.
    assert (nodup_nat (akeys (s_ents s1)) = true) as -> by (apply nodup_nat_NoDup; apply (inv_nd_e _ HI1)). cbn.
    apply forallb_forall. intros x Hx. apply mem_nat_In. auto. }
  destruct (resume_enabled c s1 a _ (akeys (s_ents s1)) HI1 Ha1 eq_refl (fun _ => Hor)) as (s2 & ob & E).
  pose proof (step_inv c s1 _ _ _ HI1 E) as HI2.
  assert (OFF : (exists l, ob = OOffered l) \/ (forall l, ob <> OOffered l)).
  { destruct ob; try (right; intros; discriminate). left. eauto. }
  destruct OFF as [[l ->]|Hno].
  - (* an eviction round *)
    left.
    destruct (enter_offered c s1 a sh k n _ s2 l HI1 Ha1 E) as
      (order & Hord & Hlen & Hne & Hle & Hmap & Hnd & Hall & Hpc & Hkeys).
    (* the exact shape of the result *)
    pose proof E as E'. cbn [step] in E'. unfold do_resume in E'. rewrite Ha1 in E'. apply cs_ok in E'.
    unfold do_enter in E'.
    destruct (length (s_ents s1) - (n - 1)) as [|over] eqn:Eover.
    { exfalso. unfold do_lookup in E'. destruct (aget k (s_ents s1)); [inv E'|cbn [new_guard] in E'; inv E']. }
    rewrite Hord in E'.
    destruct (evict_scan (s_ents s1) order (S over)) as [[ks|]|] eqn:Es; try discriminate.
    destruct ks as [|k1 ks'].
    { exfalso. unfold do_lookup in E'. destruct (aget k (s_ents s1)); [inv E'|cbn [new_guard] in E'; inv E']. }
    destruct (iter_order_spec c s1 _ order (inv_nd_e _ HI1) Hord) as (Hndo & Hino & _).
    destruct (evict_scan_spec _ _ _ _ Es) as (S1 & S2 & _).
    destruct (lock_keys s1 (k1 :: ks')) as [s1' off] eqn:El.
    assert (off = l) by (inv E'; reflexivity). subst off.
    assert (Es2 : s2 = set_pc s1' a (PInCb sh k n (map (fun x => fst (fst x)) l))) by (inv E'; reflexivity).
    destruct (lock_keys_ops_guards (k1 :: ks') s1) as [Vops _]. rewrite El in Vops. cbn [fst] in Vops.
    assert (Vg : s_guards s1' = rev (map (fun x => (ogid x, okey x)) l) ++ s_guards s1).
    { apply (lock_keys_guards_exact (k1 :: ks') s1 s1' l); [|apply S2; auto|auto].
      intros k0 Hk0. destruct (S1 k0 Hk0) as (_ & e0 & He0 & _). congruence. }
    assert (Eops : s_ops s2 = aset a (PInCb sh k n (map ogid l)) (s_ops s)).
    { rewrite Es2. cbn [s_ops set_pc with_ops]. rewrite Vops. unfold s1. cbn [s_ops set_pc with_ops]. rewrite aset_aset. reflexivity. }
    assert (Egs : s_guards s2 = rev (map (fun x => (ogid x, okey x)) l) ++ s_guards s).
    { rewrite Es2. cbn [s_guards set_pc with_ops]. rewrite Vg. reflexivity. }
    exists s2, l, (mkSp (sp_val sp) (s_guards s2) (s_gid s2)).
    split; [unfold run_enter; fold s1; rewrite E; reflexivity|].
    assert (Hvof : forall k0, vof s2 k0 = sp_val sp k0).
    { intros k0. rewrite (step_values_unchanged c s1 _ s2 _ E eq_refl k0). rewrite <- Hv. reflexivity. }
    split; [|split; [exact Eops|split; [split; [exact Hvof|split; reflexivity]|]]].
    + (* Qc *)
      split; auto. intros a' p'. rewrite Eops, aget_aset. destruct (Nat.eqb_spec a' a); [intros H; inv H; reflexivity|apply Hcb].
    + (* what was offered is allowed *)
      split; [exact Hne|]. split; [exact Hnd|]. split; [|split; [|split; [reflexivity|]]].
      * intros g k0 v Hin. destruct (Hall g k0 v Hin) as (Hev & Hval & _ & Hin').
        assert (Hev' : evictable_b (s_ents s) k0 = true) by exact Hev.
        apply (evictable_spec s sp k0 HQ HR) in Hev' as [_ Hul].
        split; [rewrite <- Hv; exact Hval|]. split; [exact Hul|exact Hin'].
      * intros g k0. cbn [sp_guards]. rewrite Egs, in_app_iff, <- in_rev, in_map_iff, <- Hg. split.
        -- intros [([[g' k'] v'] & Eq & Hin)|Hin]; [|left; exact Hin]. cbn in Eq. inv Eq. right. eauto.
        -- intros [Hin|[v Hin]]; [right; exact Hin|left]. exists (g, k0, v). split; auto.
      * exists (akeys (s_ents s)). split; [apply Qc_keys; auto|].
        assert (Hs : s_ents s1 = s_ents s) by reflexivity.
        rewrite !length_akeys. rewrite Hs in Hlen, Eover. split; [exact Hlen|].
        split; [apply (Nat.le_trans _ _ _ Hle); apply Nat.eq_le_incl; symmetry; exact Eover|].
        intros Hlt k0 Hk0 Hval Hul.
        assert (Hlt' : length l < S over) by (apply (Nat.lt_le_trans _ _ _ Hlt); apply Nat.eq_le_incl; exact Eover).
        assert (Hfull : map okey l = filter (evictable_b (s_ents s1)) order).
        { rewrite Hmap. apply firstn_short. rewrite <- Hmap, map_length. exact Hlt'. }
        rewrite Hfull. apply filter_In. split; [apply Hino; exact Hk0|].
        apply (evictable_spec s sp k0 HQ HR). auto.
  - (* no callback: exactly the unlimited acquisition *)
    right.
    destruct (enter_proceeds c s1 a sh k n _ s2 ob HI1 Ha1 E Hno) as [_ Hlk].
    unfold run_enter, seq_lock. fold s1. rewrite E, (start_lock c s a sh k Ha). cbn [then_].
    set (s0 := set_pc s a (PEnter sh k None)).
    assert (HI0 : Inv s0) by (apply start_inv; auto; intros; cbn; auto).
    assert (Ha0 : aget a (s_ops s0) = Some (PEnter sh k None)) by (cbn; apply aget_aset_eq).
    rewrite (resume_cs_lookup c s0 a sh k HI0 Ha0).
    unfold s0. rewrite (do_lookup_pc_indep c s a sh k (PEnter sh k None) (PEnter sh k (Some n))). fold s1. rewrite Hlk.
    reflexivity.
Qed.

(* ------------------------------------------------------------------ *)
(* the three events of a limited acquisition *)

(* 1. the call is made *)
Theorem start_lim_refines c s sp a sh k n :
  Qc s -> aget a (s_ops s) = None -> R s sp -> 1 <= n ->
  (exists s' l sp', seq_start_lim c s a sh k n = ROk s' (OOffered l) /\ Qc s' /\
      s_ops s' = aset a (PInCb sh k n (map ogid l)) (s_ops s) /\ R s' sp' /\ offer_ok sp n l sp')
  \/ seq_start_lim c s a sh k n = seq_call c s a (SLock sh k).
Proof.
  intros HQ Ha HR Hn. unfold seq_start_lim.
  assert (E : step c s (LStart a (CLock sh k (Some n))) = ROk (set_pc s a (PEnter sh k (Some n))) ONothing).
  { cbn. unfold do_start, amem. rewrite Ha. destruct n; [lia|reflexivity]. }
  rewrite E. cbn [then_ seq_call]. apply enter_lim_refines; auto.
Qed.

Lemma adel_notin_id' {V} k (m : list (nat * V)) : aget k m = None -> adel k m = m.
Proof.
  induction m as [|[k' v'] t IH]; cbn; auto. destruct (Nat.eqb_spec k k'); [discriminate|]. intros H. f_equal. auto.
Qed.
Lemma aset_app_r' {V} k (v : V) m1 m2 : aget k m1 = None -> aset k v (m1 ++ m2) = m1 ++ aset k v m2.
Proof.
  induction m1 as [|[k' v'] t IH]; cbn; [reflexivity|]. destruct (Nat.eqb_spec k k'); [discriminate|].
  intros H. f_equal. auto.
Qed.
Lemma aset_absent_snoc {V} k (v : V) m : aget k m = None -> aset k v m = m ++ [(k, v)].
Proof.
  induction m as [|[k' v'] t IH]; cbn; [reflexivity|]. destruct (Nat.eqb_spec k k'); [discriminate|].
  intros H. f_equal. auto.
Qed.

(* the state without the innermost suspended acquisition *)
Definition base_of (s : state) (ops' : list (aid * pc)) : state := with_ops s ops'.

Lemma stack_top s ops' a p : Inv s -> s_ops s = ops' ++ [(a, p)] -> aget a ops' = None /\ aget a (s_ops s) = Some p.
Proof.
  intros HI E. pose proof (inv_nd_o _ HI) as Hnd. rewrite E in Hnd. unfold akeys in Hnd. rewrite map_app in Hnd. cbn in Hnd.
  apply NoDup_remove_2 in Hnd. rewrite app_nil_r in Hnd.
  assert (N : aget a ops' = None) by (apply aget_None_keys; exact Hnd).
  split; auto. rewrite E, aget_app, N. cbn. rewrite Nat.eqb_refl. reflexivity.
Qed.

Lemma stack_fin s ops' a p : Inv s -> s_ops s = ops' ++ [(a, p)] -> fin s a = base_of s ops'.
Proof.
  intros HI E. destruct (stack_top s ops' a p HI E) as [N _].
  unfold fin, base_of. f_equal. rewrite E, adel_app. cbn. rewrite Nat.eqb_refl, app_nil_r.
  apply adel_notin_id'. exact N.
Qed.

Lemma stack_set_pc s ops' a p p' : Inv s -> s_ops s = ops' ++ [(a, p)] -> set_pc s a p' = set_pc (base_of s ops') a p'.
Proof.
  intros HI E. destruct (stack_top s ops' a p HI E) as [N _].
  unfold set_pc, base_of, with_ops. cbn. f_equal. rewrite E.
  rewrite aset_app_r' by exact N. cbn. rewrite Nat.eqb_refl.
  symmetry. apply aset_absent_snoc. exact N.
Qed.

Lemma Qc_base s ops' a sh k n off :
  Qc s -> s_ops s = ops' ++ [(a, PInCb sh k n off)] -> Qc (base_of s ops') /\ aget a ops' = None.
Proof.
  intros [HI Hcb] E. destruct (stack_top s ops' a _ HI E) as [N Ha]. split; auto. split.
  - rewrite <- (stack_fin s ops' a _ HI E).
    apply (pc_change_inv s a (PInCb sh k n off) None HI Ha). intros k0. cbn. auto.
  - intros a' p' Ha'. cbn in Ha'. apply (Hcb a'). rewrite E, aget_app, Ha'. reflexivity.
Qed.

(* 2. the callback fails: the acquisition ends with that failure and leaves nothing *)
Theorem cbret_fail_refines c s sp ops' a sh k n off r :
  Qc s -> s_ops s = ops' ++ [(a, PInCb sh k n off)] -> R s sp -> r <> CbOk ->
  seq_cbret c s a r = ROk (base_of s ops') (match r with CbPanic => OPanicked | _ => OErr end) /\
  Qc (base_of s ops') /\ R (base_of s ops') sp.
Proof.
  intros HQ E HR Hr. pose proof HQ as [HI _]. destruct (stack_top s ops' a _ HI E) as [N Ha].
  destruct (Qc_base s ops' a sh k n off HQ E) as [HQb _].
  split; [|split; [exact HQb|exact HR]].
  unfold seq_cbret. cbn [step]. unfold do_cbreturn. rewrite Ha.
  destruct r; [congruence| |]; cbn [then_ after_obs]; rewrite (stack_fin s ops' a _ HI E); reflexivity.
Qed.

(* 3. the callback succeeds: the acquisition re-evaluates, as if it were made now *)
Theorem cbret_ok_refines c s sp ops' a sh k n off :
  Qc s -> s_ops s = ops' ++ [(a, PInCb sh k n off)] -> R s sp -> 1 <= n ->
  (exists s' l sp', seq_cbret c s a CbOk = ROk s' (OOffered l) /\ Qc s' /\
      s_ops s' = aset a (PInCb sh k n (map ogid l)) ops' /\ R s' sp' /\ offer_ok sp n l sp')
  \/ seq_cbret c s a CbOk = seq_call c (base_of s ops') a (SLock sh k).
Proof.
  intros HQ E HR Hn. pose proof HQ as [HI _]. destruct (stack_top s ops' a _ HI E) as [N Ha].
  destruct (Qc_base s ops' a sh k n off HQ E) as [HQb _].
  unfold seq_cbret. cbn [step]. unfold do_cbreturn. rewrite Ha. cbn [then_ seq_call].
  rewrite (stack_set_pc s ops' a _ _ HI E).
  apply (enter_lim_refines c (base_of s ops') sp a sh k n); auto.
Qed.
