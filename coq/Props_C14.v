(* C14 — LockPool: exclusive keyed locks with exact locked-key reporting.
   LockPool<K> is LockableHashMap<K,()> without limits; the model configuration is mkCfg false and the
   label alphabet is restricted to what LockPool exposes (no guard operations that insert values), so
   every entry is valueless: present <=> held or in the middle of being acquired/released. *)
From Coq Require Import List Arith ZArith.
From LK Require Import AList Model Inv StepInv PropLemmas Seq DropInv Stream SeqRefine SeqLimit Conc.
Import ListNotations.

Definition pool := mkCfg false.

Theorem C14_exclusive : forall s, reachable pool s -> NoDup (map snd (s_guards s)).
Proof. intros s H. exact (guards_unique_key s (reachable_inv pool s H)). Qed.

(* try_lock: returns a guard when the key is neither held nor reserved for a waiter, ... *)
Theorem C14_try_succeeds_when_free : forall s a sh k e o,
  aget a (s_ops s) = Some (PKeyTry sh k) -> aget k (s_ents s) = Some e -> e_owner e = None ->
  exists s' g, step pool s (LResume a o) = ROk s' (OGuard g k (val_of e)).
Proof.
  intros s a sh k e o Ha He Ho. cbn. unfold do_resume. rewrite Ha. unfold do_key_try. rewrite He, Ho. cbn. eauto.
Qed.

(* ... and None when it is held. *)
Theorem C14_try_fails_when_held : forall s a sh k g o,
  reachable pool s -> aget g (s_guards s) = Some k -> aget a (s_ops s) = Some (PKeyTry sh k) ->
  step pool s (LResume a o) = ROk (set_pc s a (PCleanup sh k)) ONothing.
Proof. intros s a sh k g o H. exact (held_try_fails pool s a sh k g o (reachable_inv pool s H)). Qed.

(* blocking_lock / async_lock wait for the holder. *)
Theorem C14_waits_for_holder : forall s a sh k g o,
  reachable pool s -> aget g (s_guards s) = Some k -> aget a (s_ops s) = Some (PQueued sh k) ->
  step pool s (LResume a o) = RInvalid.
Proof. intros s a sh k g o H. exact (held_waiter_blocked pool s a sh k g o (reachable_inv pool s H)). Qed.

(* num_locked / locked_keys = keys that are held or in the middle of being acquired or released
   (plus keys with a value, of which a pool has none). *)
Theorem C14_reporting : forall s k, reachable pool s ->
  (In k (akeys (s_ents s)) <->
   valued s k \/ (exists g, In (g, k) (s_guards s)) \/ (exists a p, In (a, p) (s_ops s) /\ 0 < pc_handles p k)).
Proof. intros s k H. exact (keys_exact s k (reachable_inv pool s H)). Qed.

(* a pool never has a value: no label other than a guard operation creates one *)
Theorem C14_no_values_without_guard_ops : forall s l s' o,
  step pool s l = ROk s' o -> changes_values l = false -> forall k, vof s' k = vof s k.
Proof. exact (step_values_unchanged pool). Qed.

(* both are empty whenever no guard or pending call exists (and no values were ever inserted) *)
Theorem C14_empty_when_idle : forall s, reachable pool s -> s_guards s = [] -> s_ops s = [] ->
  (forall k, vof s k = None) -> s_ents s = [].
Proof.
  intros s H Eg Eo Hv. destruct (s_ents s) as [|[k e] t] eqn:E; auto. exfalso.
  assert (Hin : In k (akeys (s_ents s))) by (rewrite E; left; auto).
  apply (quiescent_keys s k (reachable_inv pool s H) Eg Eo) in Hin as (e' & He' & Hval).
  specialize (Hv k). unfold vof, vof_e in Hv. rewrite He' in Hv. unfold val_of in Hv.
  destruct (e_val e') as [[]|]; congruence.
Qed.

(* ... and returns None ONLY when the key is held or awaited by a pending acquisition (the converse), ... *)
Theorem C14_try_fails_only_if_held_or_awaited : forall s a sh k o s',
  reachable pool s -> aget a (s_ops s) = Some (PKeyTry sh k) -> step pool s (LResume a o) = ROk s' ONothing ->
  (exists g, aget g (s_guards s) = Some k) \/ (exists a', waits_on s a' k).
Proof. intros s a sh k o s' H. exact (try_fails_only_if_locked_or_awaited pool s a sh k o s' (reachable_inv pool s H)). Qed.

(* ... and under every interleaving each step acts on the set of held keys as a short sequence of atomic
   acquisitions (of keys nobody holds) and releases of the plain locked set of SeqRefine.v, with the guards it
   announces (Conc.v); so every concurrent history of a pool is linearisable with respect to a plain set of locks. *)
Theorem C14_every_interleaving_refines_the_locked_set : forall s sp l o s',
  reachable pool s -> R s sp -> step pool s l = ROk s' o -> is_consume l = false ->
  exists calls os sp', explains l o calls os /\ spec_acts sp calls = Some (sp', os) /\ R s' sp'.
Proof. intros s sp l o s' H. exact (conc_step_refines pool s sp l o s' (reachable_inv pool s H)). Qed.

Example C14_witness :
  run pool [LStart 0 (CLock ShBlocking 1 None); LResume 0 []; LStart 1 (CLock ShTry 1 None); LResume 1 [1]; LResume 1 [1];
            LResume 1 [1]; LStart 2 CKeys; LResume 2 [1]; LStart 3 (CDrop 0); LResume 3 [1]; LStart 4 CCount; LResume 4 []]
  = RunOk (mkS [] [] [] 0%Z 1)
      [ONothing; OGuard 0 1 None; ONothing; ONothing; ONothing; OTryFail; ONothing; OKeys [1]; ONothing; OUnit; ONothing; OCount 0].
Proof. vm_compute. reflexivity. Qed.
