//! Scheduler core (spec §1).
//!
//! * Every model agent runs on its own OS thread (taken from a small global
//!   pool so that thread creation does not dominate short runs).
//! * Exactly one thread runs at any time: the scheduler thread hands a
//!   command to an agent ("baton") and waits until the agent reports back
//!   (parked at a hook site / blocked / in a callback / finished / ...), with a
//!   watchdog.
//! * The process-wide `lockable::verif_hooks::Handler` finds the current agent
//!   through a thread-local; on threads without an agent context every hook is
//!   a no-op.
//! * Panics are caught per agent; a panic hook silences the output and stores
//!   message + location in a thread-local.  A *second* panic on a thread that
//!   is already unwinding would abort the process ("panic in a destructor
//!   during cleanup"); the hook intercepts it, reports `DoublePanic` and parks
//!   the thread forever instead (the hook never returns, so no abort).

use crate::containers::GuardLike;
use crate::types::*;
use lockable::verif_hooks::{self, Site};
use std::any::Any;
use std::cell::{Cell, RefCell};
use std::collections::{BTreeMap, HashMap};
use std::panic::{catch_unwind, AssertUnwindSafe};
use std::sync::atomic::{AtomicBool, AtomicUsize, Ordering};
use std::sync::mpsc::{channel, Sender};
use std::sync::{Arc, Condvar, Mutex, OnceLock};
use std::task::{Wake, Waker};
use std::time::Duration;

/// Watchdog: how long the scheduler waits for an agent to report back.
pub const WATCHDOG: Duration = Duration::from_secs(2);

/// The watchdog in effect: `VERIF_WATCHDOG_MS` (milliseconds) if set, else [`WATCHDOG`]. The check re-runs a
/// replay whose only finding is a watchdog timeout with a much longer watchdog before it believes the hang
/// (a descheduled thread on an overloaded machine is not a hang of the library).
thread_local! {
    /// Per-driver-thread override of the watchdog (explorers re-run a run that timed out with a long one).
    pub static WATCHDOG_OVERRIDE: std::cell::Cell<Option<Duration>> = const { std::cell::Cell::new(None) };
}

pub fn watchdog() -> Duration {
    if let Some(d) = WATCHDOG_OVERRIDE.with(|c| c.get()) {
        return d;
    }
    static W: std::sync::OnceLock<Duration> = std::sync::OnceLock::new();
    *W.get_or_init(|| {
        std::env::var("VERIF_WATCHDOG_MS").ok().and_then(|s| s.parse::<u64>().ok()).map(Duration::from_millis).unwrap_or(WATCHDOG)
    })
}

/// Largest key (exclusive) for which the key-hash table is precomputed.
pub const MAX_KEY: Key = 4096;

// ---------------------------------------------------------------------------
// Protocol between the scheduler thread and an agent thread

/// Scheduler -> agent.
#[derive(Debug, Clone, Copy, PartialEq, Eq)]
pub enum Cmd {
    /// Continue from a park / re-poll a blocked future.
    Go,
    /// Drop the pending future (async agent, Blocked or InCallback) / drop the idle stream.
    Cancel,
    /// Make the eviction callback return.
    CbReturn(CbRes, bool),
    /// Call `poll_next` once (idle stream agent).
    Poll,
}

/// How a call ended.
#[derive(Debug, Clone, PartialEq, Eq)]
pub enum Outcome {
    Guard(Gid, Key, Option<Val>),
    TryFail,
    Err,
    /// A panic raised by harness "user code" (callback) propagated out of the call.
    UserPanic,
    Unit,
    Cancelled,
    Expired(Vec<Gkv>),
    Count(usize),
    Keys(Vec<Key>),
    /// The library panicked: message and location.
    Panic(String),
}

#[derive(Debug, Clone, PartialEq, Eq)]
pub enum PollResult {
    Item(Gid, Key, Option<Val>),
    Pending,
    End,
}

/// Agent -> scheduler.
#[derive(Debug, Clone, PartialEq, Eq)]
pub enum Report {
    /// Parked at `Entries`, `KeyTry(ptr)` or `KeyWait(ptr)`.
    AtSite(Site),
    /// Last poll returned `Pending` / inside `Handler::blocked()`.
    Blocked,
    /// The eviction callback is running; the offered guards are in the table.
    InCallback(Vec<Gkv>),
    /// `lock_all_entries().await` returned the stream; the agent is idle.
    StreamCreated,
    /// One `poll_next` call returned.
    StreamPolled(PollResult),
    Finished(Outcome),
    /// `EntriesReentrant`: the thread would deadlock on the global lock. It is parked forever.
    SelfDeadlock(Option<String>),
    /// A second panic while unwinding. The thread is parked forever.
    DoublePanic(String),
}

/// Record-only hook events of the current segment (spec §1).
#[derive(Debug, Clone, Copy, PartialEq, Eq)]
pub enum Event {
    GuardCreated { gid: Gid, key: Key },
    UnlockBegin(Key),
    CancelBegin(Key),
    BeforeCallback(bool),
    /// Harness-side ground truth (no hook involved): the client is about to drop this guard ...
    DropBegin(Gid),
    /// ... and the drop has returned: the guard no longer exists.
    GuardGone(Gid),
}

/// Result of waiting for an agent.
#[derive(Debug, Clone, PartialEq, Eq)]
pub enum Step {
    Report(Report),
    /// Watchdog expired; the agent thread is considered lost.
    Timeout,
}

// ---------------------------------------------------------------------------
// Per-run shared state

/// State shared between the scheduler thread and the agents of one run.  Only
/// one thread runs at a time, so the mutexes are never contended; they exist to
/// make the sharing safe.
pub struct RunShared {
    /// All guards the client owns: gid -> guard.
    pub table: Mutex<BTreeMap<Gid, Box<dyn GuardLike>>>,
    /// gid -> (key, claimed by a client-visible guard).
    created: Mutex<Vec<(Key, bool)>>,
}

impl RunShared {
    pub fn new() -> Arc<RunShared> {
        Arc::new(RunShared { table: Mutex::new(BTreeMap::new()), created: Mutex::new(Vec::new()) })
    }

    /// A `GuardCreated` hook fired: allocate the next gid.
    fn new_gid(&self, key: Key) -> Gid {
        let mut c = self.created.lock().unwrap();
        c.push((key, false));
        c.len() - 1
    }

    /// A call handed a guard for `key` to the harness: match it with the most
    /// recently created unclaimed gid for that key (older unclaimed ones belong
    /// to guards the library created and dropped internally).
    pub fn claim(&self, key: Key) -> Gid {
        let mut c = self.created.lock().unwrap();
        for (g, e) in c.iter_mut().enumerate().rev() {
            if e.0 == key && !e.1 {
                e.1 = true;
                return g;
            }
        }
        // No GuardCreated event for this guard (cannot happen with the hooks in place);
        // allocate a fresh id so that the harness can go on.
        c.push((key, true));
        c.len() - 1
    }

    /// Put a guard the client received into the table; returns `(gid, key, value)`.
    pub fn adopt(&self, g: Box<dyn GuardLike>) -> Gkv {
        let key = g.key();
        let val = g.value();
        let gid = self.claim(key);
        self.table.lock().unwrap().insert(gid, g);
        (gid, key, val)
    }

    pub fn num_created(&self) -> usize {
        self.created.lock().unwrap().len()
    }
}

// ---------------------------------------------------------------------------
// Agent context

struct Slot {
    cmd: Option<Cmd>,
    report: Option<Report>,
}

pub struct AgentCtx {
    pub aid: Aid,
    pub run: Arc<RunShared>,
    slot: Mutex<Slot>,
    cv: Condvar,
    /// Set by the agent's waker.
    woken: AtomicBool,
    events: Mutex<Vec<Event>>,
    /// Guards created while this agent held the global lock (the scans of eviction candidates and of idle
    /// entries): they get their ids when the agent has left the critical section, in creation order — the point
    /// at which the scan takes effect when other agents ran in the middle of it (fine-grained mode).
    pending_guards: Mutex<Vec<Key>>,
    /// Set by the async eviction callback right before it returns `Pending`.
    cb_pending: Mutex<Option<Vec<Gkv>>>,
    /// The pending `CbReturn` command for the async callback's second poll.
    cbret: Mutex<Option<(CbRes, bool)>>,
    /// Teardown mode: park sites no longer park.
    free_run: AtomicBool,
}

impl Wake for AgentCtx {
    fn wake(self: Arc<Self>) {
        self.wake_by_ref();
    }
    /// A wake issued by the agent's own thread is a cooperative yield (`FuturesUnordered`
    /// wakes itself and returns `Pending` after polling `len` futures in one `poll_next`),
    /// not a hand-off: hand-offs come from the thread that releases a mutex. Only the latter
    /// makes the agent runnable in the sense of the `b` line, so self-wakes are ignored.
    fn wake_by_ref(self: &Arc<Self>) {
        let own = CURRENT.with(|c| c.borrow().as_ref().map(|x| Arc::ptr_eq(x, self)).unwrap_or(false));
        if !own {
            self.woken.store(true, Ordering::SeqCst);
        }
    }
}

thread_local! {
    static CURRENT: RefCell<Option<Arc<AgentCtx>>> = const { RefCell::new(None) };
    /// Panics on this thread are captured silently (agent threads; scheduler thread while it runs library code).
    static CAPTURE: Cell<bool> = const { Cell::new(false) };
    static PANIC_INFLIGHT: Cell<bool> = const { Cell::new(false) };
    static PANIC_MSG: RefCell<Option<String>> = const { RefCell::new(None) };
    /// Sender of the pool thread's own job channel (to put itself back on the idle list).
    static MY_TX: RefCell<Option<Sender<Job>>> = const { RefCell::new(None) };
}

/// The agent context of the calling thread, if any.
pub fn current() -> Option<Arc<AgentCtx>> {
    CURRENT.with(|c| c.borrow().clone())
}

impl AgentCtx {
    fn new(aid: Aid, run: Arc<RunShared>) -> Arc<AgentCtx> {
        Arc::new(AgentCtx {
            aid,
            run,
            slot: Mutex::new(Slot { cmd: None, report: None }),
            cv: Condvar::new(),
            woken: AtomicBool::new(false),
            events: Mutex::new(Vec::new()),
            pending_guards: Mutex::new(Vec::new()),
            cb_pending: Mutex::new(None),
            cbret: Mutex::new(None),
            free_run: AtomicBool::new(false),
        })
    }

    // ---- agent side -------------------------------------------------------

    /// Report to the scheduler and wait for the next command.
    pub fn report_and_wait(&self, r: Report) -> Cmd {
        let mut s = self.slot.lock().unwrap();
        s.report = Some(r);
        self.cv.notify_all();
        loop {
            if let Some(c) = s.cmd.take() {
                return c;
            }
            s = self.cv.wait(s).unwrap();
        }
    }

    /// Report without waiting (the agent is done, or will park forever).
    pub fn report_final(&self, r: Report) {
        let mut s = self.slot.lock().unwrap();
        s.report = Some(r);
        self.cv.notify_all();
    }

    pub fn push_event(&self, e: Event) {
        self.events.lock().unwrap().push(e);
    }

    /// Number the guards created inside the critical section the agent has just left.
    pub fn flush_pending_guards(&self) {
        let keys: Vec<Key> = std::mem::take(&mut *self.pending_guards.lock().unwrap());
        for key in keys {
            let gid = self.run.new_gid(key);
            self.push_event(Event::GuardCreated { gid, key });
        }
    }

    /// The agent received a guard from the library: give it to the client's table.
    pub fn adopt(&self, g: Box<dyn GuardLike>) -> Gkv {
        if verif_hooks::glock_depth() == 0 {
            self.flush_pending_guards();
        }
        self.run.adopt(g)
    }

    pub fn make_waker(self: &Arc<Self>) -> Waker {
        Waker::from(self.clone())
    }

    /// Async callback -> poll loop: "the Pending I am about to return means: callback running".
    pub fn set_cb_pending(&self, offered: Vec<Gkv>) {
        *self.cb_pending.lock().unwrap() = Some(offered);
    }
    pub fn take_cb_pending(&self) -> Option<Vec<Gkv>> {
        self.cb_pending.lock().unwrap().take()
    }
    pub fn set_cbret(&self, r: CbRes, hold: bool) {
        *self.cbret.lock().unwrap() = Some((r, hold));
    }
    pub fn take_cbret(&self) -> Option<(CbRes, bool)> {
        self.cbret.lock().unwrap().take()
    }

    // ---- scheduler side ---------------------------------------------------

    fn wait_report(&self) -> Step {
        let mut s = self.slot.lock().unwrap();
        let deadline = std::time::Instant::now() + watchdog();
        loop {
            if let Some(r) = s.report.take() {
                return Step::Report(r);
            }
            let now = std::time::Instant::now();
            if now >= deadline {
                return Step::Timeout;
            }
            let (g, _) = self.cv.wait_timeout(s, deadline - now).unwrap();
            s = g;
        }
    }

    /// Hand the baton to the agent and wait until it reports back.
    pub fn send(&self, c: Cmd) -> Step {
        {
            let mut s = self.slot.lock().unwrap();
            debug_assert!(s.cmd.is_none() && s.report.is_none());
            s.cmd = Some(c);
            self.cv.notify_all();
        }
        self.wait_report()
    }

    pub fn take_events(&self) -> Vec<Event> {
        std::mem::take(&mut *self.events.lock().unwrap())
    }
    pub fn is_woken(&self) -> bool {
        self.woken.load(Ordering::SeqCst)
    }
    pub fn clear_woken(&self) {
        self.woken.store(false, Ordering::SeqCst);
    }
    pub fn set_free_run(&self) {
        self.free_run.store(true, Ordering::SeqCst);
    }
}

fn park_forever() -> ! {
    LEAKED_THREADS.fetch_add(1, Ordering::Relaxed);
    loop {
        std::thread::park();
    }
}

/// Number of agent threads that were parked forever (self-deadlock / double panic).
pub static LEAKED_THREADS: AtomicUsize = AtomicUsize::new(0);

// ---------------------------------------------------------------------------
// Thread pool

type Job = Box<dyn FnOnce() + Send + 'static>;

static IDLE: Mutex<Vec<Sender<Job>>> = Mutex::new(Vec::new());

fn run_on_pool_thread(job: Job) {
    let idle = IDLE.lock().unwrap().pop();
    let mut job = Some(job);
    if let Some(tx) = idle {
        match tx.send(job.take().unwrap()) {
            Ok(()) => return,
            Err(e) => job = Some(e.0), // thread gone (cannot happen); fall through
        }
    }
    let (tx, rx) = channel::<Job>();
    tx.send(job.take().unwrap()).unwrap();
    std::thread::Builder::new()
        .name("agent".into())
        .stack_size(512 * 1024)
        .spawn(move || {
            MY_TX.with(|m| *m.borrow_mut() = Some(tx));
            CAPTURE.with(|c| c.set(true));
            while let Ok(job) = rx.recv() {
                job();
            }
        })
        .expect("cannot spawn agent thread");
}

fn return_to_pool() {
    if let Some(tx) = MY_TX.with(|m| m.borrow().clone()) {
        IDLE.lock().unwrap().push(tx);
    }
}

// ---------------------------------------------------------------------------
// Spawning agents

/// Marker payload for panics raised by harness "user code" (callback with `cbret .. panic`).
pub struct UserPanic;

/// Turn a caught panic payload into an outcome.
pub fn outcome_of_panic(payload: Box<dyn Any + Send>) -> Outcome {
    PANIC_INFLIGHT.with(|p| p.set(false));
    let msg = PANIC_MSG.with(|m| m.borrow_mut().take());
    if payload.is::<UserPanic>() {
        Outcome::UserPanic
    } else {
        Outcome::Panic(msg.unwrap_or_else(|| "<no message>".into()))
    }
}

/// Start an agent: `body` runs on an agent thread with the agent context
/// installed; its return value (or panic) becomes `Report::Finished`.
/// Returns once the agent reported for the first time.
pub fn spawn_agent(
    run: &Arc<RunShared>,
    aid: Aid,
    body: Box<dyn FnOnce(&Arc<AgentCtx>) -> Outcome + Send + 'static>,
) -> (Arc<AgentCtx>, Step) {
    let cx = AgentCtx::new(aid, run.clone());
    let cx2 = cx.clone();
    run_on_pool_thread(Box::new(move || {
        CURRENT.with(|c| *c.borrow_mut() = Some(cx2.clone()));
        PANIC_INFLIGHT.with(|p| p.set(false));
        PANIC_MSG.with(|m| *m.borrow_mut() = None);
        let out = match catch_unwind(AssertUnwindSafe(|| body(&cx2))) {
            Ok(o) => o,
            Err(p) => outcome_of_panic(p),
        };
        CURRENT.with(|c| *c.borrow_mut() = None);
        // Back to the pool first: after the final report the scheduler may immediately start
        // another agent, and nothing of this run may be touched any more.
        return_to_pool();
        cx2.report_final(Report::Finished(out));
    }));
    let step = cx.wait_report();
    (cx, step)
}

/// Run `f` on the calling (scheduler) thread with panic capture; hooks are no-ops here.
pub fn run_captured<T>(f: impl FnOnce() -> T) -> Result<T, Outcome> {
    let prev = CAPTURE.with(|c| c.replace(true));
    let r = catch_unwind(AssertUnwindSafe(f));
    CAPTURE.with(|c| c.set(prev));
    match r {
        Ok(v) => Ok(v),
        Err(p) => Err(outcome_of_panic(p)),
    }
}

// ---------------------------------------------------------------------------
// The hook handler

fn key_hashes() -> &'static HashMap<u64, Key> {
    static T: OnceLock<HashMap<u64, Key>> = OnceLock::new();
    T.get_or_init(|| (0..MAX_KEY).map(|k| (verif_hooks::key_hash(&k), k)).collect())
}

fn key_of_hash(h: u64) -> Key {
    key_hashes().get(&h).copied().unwrap_or(UNKNOWN_KEY)
}

/// Fine-grained mode (`fine-*` families): agents also park at the `InCs` sites.
pub static FINE: std::sync::atomic::AtomicBool = std::sync::atomic::AtomicBool::new(false);

struct Handler;

impl verif_hooks::Handler for Handler {
    fn at(&self, site: Site) {
        let Some(cx) = current() else { return };
        if verif_hooks::glock_depth() == 0 {
            cx.flush_pending_guards();
        }
        match site {
            Site::Entries | Site::KeyTry(_) | Site::KeyWait(_) => {
                if cx.free_run.load(Ordering::SeqCst) {
                    return;
                }
                match cx.report_and_wait(Report::AtSite(site)) {
                    Cmd::Go => {}
                    other => panic!("harness bug: command {:?} to an agent parked at {:?}", other, site),
                }
            }
            Site::InCs(_) | Site::Between(_) => {
                // Only in fine-grained mode: pause in the middle of a critical section so that other agents
                // can do whatever they can do without the global lock.
                if !FINE.load(Ordering::SeqCst) || cx.free_run.load(Ordering::SeqCst) {
                    return;
                }
                match cx.report_and_wait(Report::AtSite(site)) {
                    Cmd::Go => {}
                    other => panic!("harness bug: command {:?} to an agent parked at {:?}", other, site),
                }
            }
            Site::EntriesReentrant => {
                let first = PANIC_MSG.with(|m| m.borrow().clone());
                cx.report_final(Report::SelfDeadlock(first));
                park_forever();
            }
            Site::GuardCreated(h) => {
                let key = key_of_hash(h);
                if verif_hooks::glock_depth() != 0 {
                    cx.pending_guards.lock().unwrap().push(key);
                } else {
                    let gid = cx.run.new_gid(key);
                    cx.push_event(Event::GuardCreated { gid, key });
                }
            }
            Site::UnlockBegin(h) => cx.push_event(Event::UnlockBegin(key_of_hash(h))),
            Site::CancelBegin(h) => cx.push_event(Event::CancelBegin(key_of_hash(h))),
            Site::BeforeCallback(held) => cx.push_event(Event::BeforeCallback(held)),
        }
    }

    fn make_waker(&self) -> Waker {
        match current() {
            Some(cx) => cx.make_waker(),
            None => futures::task::noop_waker(),
        }
    }

    fn blocked(&self) {
        let Some(cx) = current() else {
            panic!("harness bug: blocking wait on a thread without agent context");
        };
        match cx.report_and_wait(Report::Blocked) {
            Cmd::Go => {}
            other => panic!("harness bug: command {:?} to an agent in blocked()", other),
        }
    }
}

/// Install the hook handler and the panic hook. Idempotent.
pub fn install() {
    static ONCE: OnceLock<()> = OnceLock::new();
    ONCE.get_or_init(|| {
        key_hashes();
        verif_hooks::set_handler(Box::new(Handler));
        let prev = std::panic::take_hook();
        std::panic::set_hook(Box::new(move |info| {
            if !CAPTURE.with(|c| c.get()) {
                prev(info);
                return;
            }
            let payload = info.payload();
            let text = if let Some(s) = payload.downcast_ref::<&str>() {
                (*s).to_string()
            } else if let Some(s) = payload.downcast_ref::<String>() {
                s.clone()
            } else if payload.is::<UserPanic>() {
                "<user panic>".to_string()
            } else {
                "<non-string payload>".to_string()
            };
            let loc = info
                .location()
                .map(|l| format!("{}:{}", l.file().rsplit('/').next().unwrap_or(l.file()), l.line()))
                .unwrap_or_else(|| "?".into());
            let msg = format!("{} @ {}", text, loc);
            if PANIC_INFLIGHT.with(|p| p.get()) {
                // Second panic while the first is still unwinding: returning from this hook
                // would abort the process. Report and park this thread forever instead.
                let first = PANIC_MSG.with(|m| m.borrow().clone()).unwrap_or_default();
                let both = format!("{} ; then while unwinding: {}", first, msg);
                match current() {
                    Some(cx) => {
                        cx.report_final(Report::DoublePanic(both));
                        park_forever();
                    }
                    None => {
                        eprintln!("harness: double panic on a non-agent thread: {}", both);
                        return; // abort follows
                    }
                }
            }
            PANIC_INFLIGHT.with(|p| p.set(true));
            PANIC_MSG.with(|m| *m.borrow_mut() = Some(msg));
        }));
    });
}
