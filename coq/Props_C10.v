(* C10 — idle-time expiry is exact and free of side effects. *)
From Coq Require Import List Arith ZArith.
From LK Require Import AList Model Inv StepInv PropLemmas Idle.
Import ListNotations.
Open Scope Z_scope.

(* lock_entries_unlocked_for_at_least(d), called at clock value now: for every d >= 0 the call either
   computes the cut-off now - d and goes on to its critical section, or -- when now - d is not
   representable -- returns nothing at once (no panic). *)
Theorem C10_call_is_total : forall c s a d s' o,
  step c s (LStart a (CExpire d)) = ROk s' o ->
  c_lru c = true /\ 0 <= d /\
  (s_clock s - d >= instant_floor /\ o = ONothing /\ s' = set_pc s a (PScan (s_clock s - d)) \/
   s_clock s - d < instant_floor /\ o = OExpired [] /\ s' = s).
Proof. exact expire_start. Qed.

(* The critical section returns guards for exactly the entries that are unlocked, valued and whose
   stamp is <= cut-off -- none younger, none missing, whatever their position -- each key once, each
   with its stored value; every other entry (value, stamp, owner, queue, replicas) and the order of
   all entries are untouched. *)
Theorem C10_exact : forall c s a ct o s' l,
  reachable c s -> aget a (s_ops s) = Some (PScan ct) -> step c s (LResume a o) = ROk s' (OExpired l) ->
  NoDup (map okey l) /\
  (forall k, In k (map okey l) <-> expired s ct k) /\
  (forall g k v, In (g, k, v) l -> In (g, k) (s_guards s') /\ vof s k = Some v) /\
  (forall k, ~ In k (map okey l) -> aget k (s_ents s') = aget k (s_ents s)) /\
  akeys (s_ents s') = akeys (s_ents s).
Proof. intros c s a ct o s' l H. exact (scan_exact c s a ct o s' l (reachable_inv c s H)). Qed.

(* The stamp is the clock value at which the entry's guard started to be dropped ... *)
Theorem C10_stamp_is_unlock_time : forall c s g k e v st,
  c_lru c = true -> aget g (s_guards s) = Some k -> aget k (s_ents s) = Some e -> e_val e = Some (v, st) ->
  exists e', aget k (s_ents (begin_unlock c s g)) = Some e' /\ e_val e' = Some (v, s_clock s).
Proof. exact unlock_stamps. Qed.

(* ... and the passing of time changes no entry: idle age keeps counting. *)
Theorem C10_tick : forall c s d s' o,
  step c s (LTick d) = ROk s' o -> s_ents s' = s_ents s /\ s_clock s' = s_clock s + d /\ 0 <= d.
Proof. exact tick_keeps_entries. Qed.

(* While an entry is unlocked nothing changes its value or its stamp, and nothing removes it: whatever
   other threads do (locks of other keys, evictions offered and declined, scans, streams, cancellations,
   clock ticks), in every state of a run during which the key is not locked ... *)
Theorem C10_idle_entry_keeps_value_and_stamp : forall c k s ls s' vs,
  reachable c s -> frozen k vs (s_ents s) -> steps_unlocked c k s ls s' -> frozen k vs (s_ents s').
Proof. intros c k s ls s' vs H. exact (idle_entry_keeps_value_and_stamp c k s ls s' vs (reachable_inv c s H)). Qed.

(* ... so a scan whose cut-off has reached that stamp returns it: repeated polling eventually returns
   every idle entry. *)
Theorem C10_idle_entry_eventually_returned : forall c k s ls s' v st a ct o s'' l e',
  reachable c s -> frozen k (v, st) (s_ents s) -> steps_unlocked c k s ls s' ->
  aget k (s_ents s') = Some e' -> e_owner e' = None ->
  aget a (s_ops s') = Some (PScan ct) -> st <= ct ->
  step c s' (LResume a o) = ROk s'' (OExpired l) ->
  In k (map okey l).
Proof. intros c k s ls s' v st a ct o s'' l e' H. exact (idle_entry_eventually_returned c k s ls s' v st a ct o s'' l e' (reachable_inv c s H)). Qed.

Close Scope Z_scope.

(* non-vacuity and the overlapping-holds scenario: lock A, lock B, drop B at t=1, drop A at t=5;
   at t=6 a call with d=3 returns exactly B (A is first in recency order but too young). *)
Example C10_witness :
  exists s, run (mkCfg true)
    [LStart 0 (CLock ShTry 1 None); LResume 0 []; LGuardOp 0 (GInsert 10%Z);
     LStart 1 (CLock ShTry 2 None); LResume 1 []; LGuardOp 1 (GInsert 20%Z);
     LTick 1%Z; LStart 2 (CDrop 1); LResume 2 []; LTick 4%Z; LStart 3 (CDrop 0); LResume 3 []; LTick 1%Z;
     LStart 4 (CExpire 3%Z); LResume 4 []]
  = RunOk s [ONothing; OGuard 0 1 None; OVal None; ONothing; OGuard 1 2 None; OVal None;
             ONothing; ONothing; OUnit; ONothing; ONothing; OUnit; ONothing; ONothing; OExpired [(2, 2, 20%Z)]].
Proof. eexists. vm_compute. reflexivity. Qed.

Example C10_witness_max :
  run (mkCfg true) [LStart 0 (CExpire 18446744073709551615%Z)] = RunOk init [OExpired []].
Proof. vm_compute. reflexivity. Qed.

(* non-vacuity of the idle-entry theorems: key 1 is inserted and dropped at t=0; then key 2 is locked,
   the clock advances and a scan starts -- key 1 is unlocked throughout and the scan returns it. *)
Example C10_idle_witness :
  exists s s' s'' l,
    run (mkCfg true) [LStart 0 (CLock ShTry 1 None); LResume 0 []; LGuardOp 0 (GInsert 10%Z);
                      LStart 1 (CDrop 0); LResume 1 []] = RunOk s [ONothing; OGuard 0 1 None; OVal None; ONothing; OUnit] /\
    frozen 1 (10%Z, 0%Z) (s_ents s) /\
    steps_unlocked (mkCfg true) 1 s
      [LStart 2 (CLock ShTry 2 None); LResume 2 []; LTick 7%Z; LStart 3 (CExpire 2%Z)] s' /\
    step (mkCfg true) s' (LResume 3 []) = ROk s'' (OExpired l) /\ map okey l = [1].
Proof.
  eexists. eexists. eexists. eexists. split; [vm_compute; reflexivity|].
  split; [eexists; split; vm_compute; reflexivity|].
  split.
  - eapply su_cons; [vm_compute; reflexivity|discriminate|vm_compute; reflexivity|reflexivity|].
    eapply su_cons; [vm_compute; reflexivity|discriminate|vm_compute; reflexivity|reflexivity|].
    eapply su_cons; [vm_compute; reflexivity|discriminate|vm_compute; reflexivity|reflexivity|].
    eapply su_cons; [vm_compute; reflexivity|discriminate|vm_compute; reflexivity|reflexivity|].
    apply su_nil.
  - split; vm_compute; reflexivity.
Qed.
