//! Smoke scenarios on the crate built WITHOUT the `verif_hooks` feature: real threads, the real
//! `tokio` blocking wait (`ReplicaArc::blocking_lock_owned`, the one expression the hooks replace) and the
//! real clock (`RealTime::now`). This is ordinary testing (no proof, no scheduler control); it exists because
//! the harness cannot execute those two pieces of code. Prints one line per scenario and `SMOKE OK`, or
//! `SMOKE FAIL <scenario>: <what>` and exits 1. `smoke <iterations>`.
mod lin;
use lockable::{AsyncLimit, LockPool, LockableHashMap, LockableLruCache, SyncLimit};
use std::sync::atomic::{AtomicBool, AtomicU64, Ordering};
use std::sync::{mpsc, Arc};
use std::future::Future;
use std::time::Duration;

fn fail(scenario: &str, what: String) -> ! {
    println!("SMOKE FAIL {}: {}", scenario, what);
    std::process::exit(1)
}

/// Runs `f` on a thread; a scenario that does not finish within `secs` is a hang.
fn with_watchdog<F: FnOnce() -> Result<String, String> + Send + 'static>(name: &'static str, secs: u64, f: F) {
    let (tx, rx) = mpsc::channel();
    std::thread::spawn(move || {
        let r = std::panic::catch_unwind(std::panic::AssertUnwindSafe(f));
        let _ = tx.send(match r {
            Ok(x) => x,
            Err(p) => Err(format!(
                "panicked: {}",
                p.downcast_ref::<String>().cloned().or_else(|| p.downcast_ref::<&str>().map(|s| s.to_string())).unwrap_or_default()
            )),
        });
    });
    match rx.recv_timeout(Duration::from_secs(secs)) {
        Ok(Ok(info)) => println!("ok   {} ({})", name, info),
        Ok(Err(e)) => fail(name, e),
        Err(_) => fail(name, format!("did not finish within {} s (hang)", secs)),
    }
}

const KEYS: u64 = 3;

/// Exclusive-section detector per key.
struct Excl(Vec<AtomicBool>);
impl Excl {
    fn new() -> Arc<Excl> {
        Arc::new(Excl((0..KEYS).map(|_| AtomicBool::new(false)).collect()))
    }
    fn enter(&self, k: u64) -> Result<(), String> {
        if self.0[k as usize].swap(true, Ordering::SeqCst) {
            return Err(format!("two holders of key {} at the same time", k));
        }
        Ok(())
    }
    fn leave(&self, k: u64) {
        self.0[k as usize].store(false, Ordering::SeqCst);
    }
}

fn hashmap_blocking(iters: u64) -> Result<String, String> {
    let map: Arc<LockableHashMap<u64, u64>> = Arc::new(LockableHashMap::new());
    let excl = Excl::new();
    let mut hs = vec![];
    for t in 0..8u64 {
        let (map, excl) = (map.clone(), excl.clone());
        hs.push(std::thread::spawn(move || -> Result<(), String> {
            for i in 0..iters {
                let k = (t + i) % KEYS;
                let mut g = if i % 2 == 0 {
                    map.blocking_lock_owned(k, SyncLimit::no_limit()).map_err(|_| "err")?
                } else {
                    // borrowed variant through a scoped reference
                    let m: &LockableHashMap<u64, u64> = &map;
                    let mut g = m.blocking_lock(k, SyncLimit::no_limit()).map_err(|_| "err")?;
                    excl.enter(k)?;
                    let v = *g.value_or_insert(0);
                    std::thread::yield_now();
                    g.insert(v + 1);
                    excl.leave(k);
                    continue;
                };
                excl.enter(k)?;
                let v = *g.value_or_insert(0);
                std::thread::yield_now();
                g.insert(v + 1);
                excl.leave(k);
            }
            Ok(())
        }));
    }
    for h in hs {
        h.join().map_err(|_| "a worker panicked".to_string())??;
    }
    let total: u64 = map
        .keys_with_entries_or_locked()
        .into_iter()
        .map(|k| *map.blocking_lock(k, SyncLimit::no_limit()).unwrap().value().unwrap())
        .sum();
    if total != 8 * iters {
        return Err(format!("lost updates: {} increments recorded, {} made", total, 8 * iters));
    }
    if map.num_entries_or_locked() != KEYS as usize {
        return Err(format!("num_entries_or_locked = {}", map.num_entries_or_locked()));
    }
    Ok(format!("{} increments", total))
}

fn lru_mixed(iters: u64) -> Result<String, String> {
    let cache: Arc<LockableLruCache<u64, u64>> = Arc::new(LockableLruCache::new());
    let excl = Excl::new();
    let done = Arc::new(AtomicU64::new(0));
    let rt = tokio::runtime::Builder::new_multi_thread().worker_threads(3).enable_all().build().map_err(|e| e.to_string())?;
    let mut hs = vec![];
    // blocking lockers
    for t in 0..4u64 {
        let (cache, excl, done) = (cache.clone(), excl.clone(), done.clone());
        hs.push(std::thread::spawn(move || -> Result<(), String> {
            for i in 0..iters {
                let k = (t + i) % KEYS;
                let mut g = cache.blocking_lock_owned(k, SyncLimit::no_limit()).map_err(|_| "err")?;
                excl.enter(k)?;
                let v = *g.value_or_insert(0);
                std::thread::yield_now();
                g.insert(v + 1);
                excl.leave(k);
                done.fetch_add(1, Ordering::SeqCst);
            }
            Ok(())
        }));
    }
    // try lockers (spin)
    for t in 0..2u64 {
        let (cache, excl, done) = (cache.clone(), excl.clone(), done.clone());
        hs.push(std::thread::spawn(move || -> Result<(), String> {
            let mut i = 0;
            while i < iters {
                let k = (t + i) % KEYS;
                if let Some(mut g) = cache.try_lock_owned(k, SyncLimit::no_limit()).map_err(|_| "err")? {
                    excl.enter(k)?;
                    let v = *g.value_or_insert(0);
                    g.insert(v + 1);
                    excl.leave(k);
                    done.fetch_add(1, Ordering::SeqCst);
                    i += 1;
                } else {
                    std::thread::yield_now();
                }
            }
            Ok(())
        }));
    }
    // async lockers
    let mut tasks = vec![];
    for t in 0..3u64 {
        let (cache, excl, done) = (cache.clone(), excl.clone(), done.clone());
        tasks.push(rt.spawn(async move {
            for i in 0..iters {
                let k = (t + 2 * i) % KEYS;
                let mut g = cache.async_lock_owned(k, AsyncLimit::no_limit()).await.map_err(|_| "err".to_string())?;
                excl.enter(k)?;
                let v = *g.value_or_insert(0);
                tokio::task::yield_now().await;
                g.insert(v + 1);
                excl.leave(k);
                done.fetch_add(1, Ordering::SeqCst);
            }
            Ok::<(), String>(())
        }));
    }
    for h in hs {
        h.join().map_err(|_| "a worker panicked".to_string())??;
    }
    rt.block_on(async {
        for t in tasks {
            t.await.map_err(|e| format!("task: {}", e))??;
        }
        Ok::<(), String>(())
    })?;
    let made = done.load(Ordering::SeqCst);
    let mut total = 0;
    for k in 0..KEYS {
        total += *cache.blocking_lock(k, SyncLimit::no_limit()).unwrap().value().unwrap();
    }
    if total != made {
        return Err(format!("lost updates: {} recorded, {} made", total, made));
    }
    // the real clock: everything is unlocked now
    let all: Vec<u64> = cache.lock_entries_unlocked_for_at_least(Duration::ZERO).map(|g| *g.key()).collect();
    if all.len() != KEYS as usize {
        return Err(format!("lock_entries_unlocked_for_at_least(0) returned {:?}", all));
    }
    let none: Vec<u64> = cache.lock_entries_unlocked_for_at_least(Duration::from_secs(3600)).map(|g| *g.key()).collect();
    if !none.is_empty() {
        return Err(format!("lock_entries_unlocked_for_at_least(1h) returned {:?}", none));
    }
    std::thread::sleep(Duration::from_millis(60));
    let old: Vec<u64> = cache.lock_entries_unlocked_for_at_least(Duration::from_millis(30)).map(|g| *g.key()).collect();
    if old.len() != KEYS as usize {
        return Err(format!("after 60 ms idle, lock_entries_unlocked_for_at_least(30 ms) returned {:?}", old));
    }
    drop(rt);
    Ok(format!("{} increments by blocking, try and async lockers; real clock", made))
}

fn pool_blocking(iters: u64) -> Result<String, String> {
    let pool: Arc<LockPool<u64>> = Arc::new(LockPool::new());
    let excl = Excl::new();
    let mut hs = vec![];
    for t in 0..8u64 {
        let (pool, excl) = (pool.clone(), excl.clone());
        hs.push(std::thread::spawn(move || -> Result<(), String> {
            for i in 0..iters {
                let k = (t * 7 + i) % KEYS;
                let g = pool.blocking_lock(k);
                excl.enter(k)?;
                std::thread::yield_now();
                excl.leave(k);
                drop(g);
            }
            Ok(())
        }));
    }
    for h in hs {
        h.join().map_err(|_| "a worker panicked".to_string())??;
    }
    if pool.num_locked() != 0 || !pool.locked_keys().is_empty() {
        return Err(format!("idle pool reports num_locked = {}, locked_keys = {:?}", pool.num_locked(), pool.locked_keys()));
    }
    Ok(format!("{} lock/unlock pairs", 8 * iters))
}

/// One release racing one probe per round (e.g. the window between a failed try and its clean-up), with an exact
/// check after every round. `hold(r)` locks the key of round r on the holder thread and returns the guard;
/// `probe(r)` runs on the calling thread and says whether it found the key locked; `check(r)` runs when both
/// have returned and the holder waits, i.e. when nothing is locked and nothing is in flight. The two threads
/// meet at spin barriers; the offset between release and probe is steered so that about half of the probes see
/// the key locked.
fn race_rounds<G: 'static>(
    rounds: u64,
    hold: impl Fn(u64) -> G + Send + 'static,
    probe: impl Fn(u64) -> bool,
    check: impl Fn(u64) -> Result<(), String>,
) -> Result<String, String> {
    // a_phase = 2r+1: the holder has locked the key of round r; 2r+2: it has released it
    let a_phase = Arc::new(AtomicU64::new(0));
    // b_phase = r+1: the prober has finished round r (its check included)
    let b_phase = Arc::new(AtomicU64::new(0));
    let stop = Arc::new(AtomicBool::new(false));
    let holder = {
        let (a_phase, b_phase, stop) = (a_phase.clone(), b_phase.clone(), stop.clone());
        std::thread::spawn(move || {
            let mut r = 0u64;
            while !stop.load(Ordering::SeqCst) {
                let g = hold(r);
                a_phase.store(2 * r + 1, Ordering::SeqCst);
                for _ in 0..30 {
                    std::hint::spin_loop();
                }
                drop(g);
                a_phase.store(2 * r + 2, Ordering::SeqCst);
                let mut spins = 0u32;
                while b_phase.load(Ordering::SeqCst) < r + 1 && !stop.load(Ordering::SeqCst) {
                    spins += 1;
                    if spins % 256 == 0 { std::thread::yield_now() } else { std::hint::spin_loop() }
                }
                r += 1;
            }
        })
    };
    let mut delay: u64 = 30;
    let (mut saw_locked, mut saw_free) = (0u64, 0u64);
    let mut result = Ok(());
    let started = std::time::Instant::now();
    let mut done = 0u64;
    for r in 0..rounds {
        // time box: on a machine with a single free core the spin barriers are slow, not wrong
        if r % 1024 == 0 && started.elapsed() > Duration::from_secs(15) {
            break;
        }
        done = r + 1;
        let mut spins = 0u32;
        while a_phase.load(Ordering::SeqCst) < 2 * r + 1 {
            spins += 1;
            if spins % 256 == 0 { std::thread::yield_now() } else { std::hint::spin_loop() }
        }
        for _ in 0..delay {
            std::hint::spin_loop();
        }
        if probe(r) {
            saw_locked += 1;
            delay = (delay + 1).min(2000);
        } else {
            saw_free += 1;
            delay = delay.saturating_sub(1);
        }
        let mut spins = 0u32;
        while a_phase.load(Ordering::SeqCst) < 2 * r + 2 {
            spins += 1;
            if spins % 256 == 0 { std::thread::yield_now() } else { std::hint::spin_loop() }
        }
        if let Err(e) = check(r) {
            result = Err(format!("round {}: {}", r, e));
            break;
        }
        b_phase.store(r + 1, Ordering::SeqCst);
    }
    stop.store(true, Ordering::SeqCst);
    b_phase.store(u64::MAX, Ordering::SeqCst);
    holder.join().map_err(|_| "holder panicked".to_string())?;
    result?;
    Ok(format!("{} rounds, the probe saw the key locked {} times and free {} times", done, saw_locked, saw_free))
}

/// `LockPool`: a failed `try_lock` racing with the release.
fn pool_try_race(rounds: u64) -> Result<String, String> {
    let pool: Arc<LockPool<u64>> = Arc::new(LockPool::new());
    let (p1, p2, p3) = (pool.clone(), pool.clone(), pool.clone());
    race_rounds(
        rounds,
        move |r| {
            // the guard borrows the pool: keep the Arc alive next to it
            let p: &'static LockPool<u64> = unsafe { &*Arc::as_ptr(&p1) };
            (p.blocking_lock(r % KEYS), p1.clone())
        },
        move |r| p2.try_lock(r % KEYS).is_none(),
        move |r| {
            let (n, keys) = (p3.num_locked(), p3.locked_keys());
            if n != 0 || !keys.is_empty() {
                return Err(format!(
                    "num_locked() = {}, locked_keys() = {:?} although no guard and no pending call exists (a try_lock raced with the release of key {})",
                    n, keys, r % KEYS
                ));
            }
            Ok(())
        },
    )
}

/// Maps: `try_lock_owned` / `try_lock_async` on a key without a value racing with its release, and the
/// cancellation of a pending `async_lock_owned` racing with the release.
fn map_races(rounds: u64) -> Result<String, String> {
    use futures::FutureExt;
    let mut infos = vec![];
    // 1. LRU cache, sync try
    {
        let c: Arc<LockableLruCache<u64, u64>> = Arc::new(LockableLruCache::new());
        let (c1, c2, c3) = (c.clone(), c.clone(), c.clone());
        infos.push(race_rounds(
            rounds,
            move |r| c1.blocking_lock_owned(r % KEYS, SyncLimit::no_limit()).unwrap(),
            move |r| c2.try_lock_owned(r % KEYS, SyncLimit::no_limit()).unwrap().is_none(),
            move |r| {
                let n = c3.num_entries_or_locked();
                if n != 0 { Err(format!("cache: num_entries_or_locked() = {} (keys {:?}) with nothing stored, locked or pending after a try_lock_owned raced with the release of key {}", n, c3.keys_with_entries_or_locked(), r % KEYS)) } else { Ok(()) }
            },
        )?);
    }
    // 2. hash map, async try (never pends without a limit)
    {
        let m: Arc<LockableHashMap<u64, u64>> = Arc::new(LockableHashMap::new());
        let (m1, m2, m3) = (m.clone(), m.clone(), m.clone());
        infos.push(race_rounds(
            rounds,
            move |r| m1.blocking_lock_owned(r % KEYS, SyncLimit::no_limit()).unwrap(),
            move |r| match m2.try_lock_owned_async(r % KEYS, AsyncLimit::no_limit()).now_or_never() {
                Some(Ok(g)) => g.is_none(),
                _ => true,
            },
            move |r| {
                let n = m3.num_entries_or_locked();
                if n != 0 { Err(format!("map: num_entries_or_locked() = {} with nothing stored, locked or pending after a try_lock_owned_async raced with the release of key {}", n, r % KEYS)) } else { Ok(()) }
            },
        )?);
    }
    // 3. hash map, a pending async_lock_owned is polled once and dropped while the holder releases
    {
        let m: Arc<LockableHashMap<u64, u64>> = Arc::new(LockableHashMap::new());
        let (m1, m2, m3) = (m.clone(), m.clone(), m.clone());
        infos.push(race_rounds(
            rounds / 2,
            move |r| m1.blocking_lock_owned(r % KEYS, SyncLimit::no_limit()).unwrap(),
            move |r| {
                let mut fut = Box::pin(m2.async_lock_owned(r % KEYS, AsyncLimit::no_limit()));
                let waker = futures::task::noop_waker();
                let mut cx = std::task::Context::from_waker(&waker);
                let pending = fut.as_mut().poll(&mut cx).is_pending();
                for _ in 0..(r % 40) {
                    std::hint::spin_loop();
                }
                drop(fut);
                pending
            },
            move |r| {
                let n = m3.num_entries_or_locked();
                if n != 0 { Err(format!("map: num_entries_or_locked() = {} with nothing stored, locked or pending after the cancellation of an async_lock_owned raced with the release of key {}", n, r % KEYS)) } else { Ok(()) }
            },
        )?);
    }
    Ok(infos.join("; "))
}

/// An idle-entry scan (which, under the global lock, takes the key mutex of every unlocked entry for a moment) racing with
/// the departure of the last other user of a value-less placeholder, here an unpolled `lock_all_entries` stream that
/// is dropped: whoever goes last has to remove the placeholder. 200 valued entries in front of the placeholder make the
/// scan long. (Seeded change C04-f: the scan let go of the non-matching entries only after it had released the global lock.)
fn scan_vs_stream(rounds: u64) -> Result<String, String> {
    const KEY: u64 = 7;
    let cache: Arc<LockableLruCache<u64, u64>> = Arc::new(LockableLruCache::new());
    for k in 1000..1200u64 {
        cache.blocking_lock(k, SyncLimit::no_limit()).map_err(|_| "err")?.insert(k);
    }
    let go = Arc::new(AtomicU64::new(0));
    let done = Arc::new(AtomicU64::new(0));
    let stop = Arc::new(AtomicBool::new(false));
    let scanner = {
        let (cache, go, done, stop) = (cache.clone(), go.clone(), done.clone(), stop.clone());
        std::thread::spawn(move || -> Result<(), String> {
            let mut round = 0u64;
            loop {
                round += 1;
                while go.load(Ordering::SeqCst) < round && !stop.load(Ordering::SeqCst) {
                    std::hint::spin_loop();
                }
                if stop.load(Ordering::SeqCst) {
                    return Ok(());
                }
                let n = cache.lock_entries_unlocked_for_at_least(Duration::from_secs(3600)).count();
                if n != 0 {
                    return Err(format!("round {}: {} entries idle for an hour", round, n));
                }
                done.store(round, Ordering::SeqCst);
            }
        })
    };
    let mut result = Ok(());
    for round in 1..=rounds {
        let g = cache.blocking_lock_owned(KEY, SyncLimit::no_limit()).map_err(|_| "err")?;
        let stream = futures::executor::block_on(cache.lock_all_entries_owned());
        drop(g);
        go.store(round, Ordering::SeqCst);
        for _ in 0..(round % 64) * 40 {
            std::hint::spin_loop();
        }
        drop(stream);
        let t0 = std::time::Instant::now();
        while done.load(Ordering::SeqCst) < round {
            if scanner.is_finished() || t0.elapsed() > Duration::from_secs(30) {
                break;
            }
            std::hint::spin_loop();
        }
        if done.load(Ordering::SeqCst) < round {
            result = Err(format!("round {}: the scan did not come back", round));
            break;
        }
        let n = cache.num_entries_or_locked();
        let keys = cache.keys_with_entries_or_locked();
        if n != 200 || keys.contains(&KEY) {
            result = Err(format!(
                "round {}: nobody holds or awaits key {} and it has no value, but the cache reports {} entries{}",
                round, KEY, n, if keys.contains(&KEY) { " and lists the key" } else { "" }
            ));
            break;
        }
    }
    stop.store(true, Ordering::SeqCst);
    match scanner.join() {
        Ok(Ok(())) => {}
        Ok(Err(e)) => return Err(e),
        Err(_) => return Err("the scanning thread panicked".into()),
    }
    result?;
    Ok(format!("{} rounds", rounds))
}

/// A `lock_all_entries` stream that is handed a key without a value (it gives it up again without yielding it) racing
/// with `try_lock`s of that key by other threads (which fail while the stream has it and then run their clean-up):
/// whoever lets go of the entry last has to remove it, and afterwards `into_entries_unordered` must find a clean map.
/// A fresh key every round. (Seeded change C12-e: the stream's future dropped its key guard only after it had released
/// the global lock.)
fn stream_vs_try(rounds: u64) -> Result<String, String> {
    use futures::future::FutureExt;
    use futures::stream::StreamExt;
    const TRIERS: usize = 4;
    let map: Arc<LockableHashMap<u64, u64>> = Arc::new(LockableHashMap::new());
    for k in 1..=3u64 {
        map.blocking_lock(k, SyncLimit::no_limit()).map_err(|_| "err")?.insert(k * 10);
    }
    let round_no = Arc::new(AtomicU64::new(0));
    let finished = Arc::new(AtomicU64::new(0));
    let stop = Arc::new(AtomicBool::new(false));
    let mut hs = vec![];
    for _ in 0..TRIERS {
        let (map, round_no, finished, stop) = (map.clone(), round_no.clone(), finished.clone(), stop.clone());
        hs.push(std::thread::spawn(move || {
            let mut seen = 0u64;
            loop {
                let r = round_no.load(Ordering::SeqCst);
                if stop.load(Ordering::SeqCst) {
                    return;
                }
                if r == seen {
                    std::hint::spin_loop();
                    continue;
                }
                seen = r;
                drop(map.try_lock(1000 + r, SyncLimit::no_limit()).unwrap());
                finished.fetch_add(1, Ordering::SeqCst);
            }
        }));
    }
    let mut failure = None;
    for r in 1..=rounds {
        let key = 1000 + r;
        let guard = map.blocking_lock(key, SyncLimit::no_limit()).map_err(|_| "err")?;
        let mut stream = Box::pin(map.lock_all_entries().now_or_never().ok_or("lock_all_entries waited")?);
        // poll until the stream waits for `key` only (it yields the three valued entries first)
        let mut yielded = vec![];
        while let Some(Some(g)) = stream.next().now_or_never() {
            yielded.push(g);
        }
        drop(yielded);
        drop(guard); // hands the key to the stream
        round_no.store(r, Ordering::SeqCst);
        let mut rest = vec![];
        loop {
            match stream.next().now_or_never() {
                Some(Some(g)) => rest.push(g),
                Some(None) => break,
                None => std::hint::spin_loop(),
            }
        }
        drop(rest);
        drop(stream);
        let t0 = std::time::Instant::now();
        while finished.load(Ordering::SeqCst) < r * TRIERS as u64 {
            if t0.elapsed() > Duration::from_secs(30) {
                failure = Some(format!("round {}: a try_lock did not come back", r));
                break;
            }
            std::hint::spin_loop();
        }
        if failure.is_some() {
            break;
        }
        let n = map.num_entries_or_locked();
        if n != 3 {
            failure = Some(format!(
                "round {}: nobody holds or awaits key {} and it never had a value, but the map reports {} entries (keys {:?})",
                r, key, n, map.keys_with_entries_or_locked()
            ));
            break;
        }
    }
    stop.store(true, Ordering::SeqCst);
    for h in hs {
        h.join().map_err(|_| "a try_lock thread panicked".to_string())?;
    }
    let map = Arc::try_unwrap(map).map_err(|_| "the map is still shared".to_string())?;
    let consumed = std::panic::catch_unwind(std::panic::AssertUnwindSafe(move || {
        let mut v: Vec<(u64, u64)> = map.into_entries_unordered().collect();
        v.sort();
        v
    }));
    match (failure, consumed) {
        (Some(f), Ok(_)) => Err(f),
        (Some(f), Err(_)) => Err(format!("{}; and into_entries_unordered panicked", f)),
        (None, Err(_)) => Err("into_entries_unordered panicked".into()),
        (None, Ok(v)) if v != vec![(1, 10), (2, 20), (3, 30)] => Err(format!("into_entries_unordered returned {:?}", v)),
        (None, Ok(_)) => Ok(format!("{} rounds", rounds)),
    }
}

fn wakeup() -> Result<String, String> {
    let map: Arc<LockableHashMap<u64, u64>> = Arc::new(LockableHashMap::new());
    for round in 0..20 {
        let g = map.blocking_lock_owned(1, SyncLimit::no_limit()).map_err(|_| "err")?;
        let (tx, rx) = mpsc::channel();
        let m2 = map.clone();
        let h = std::thread::spawn(move || {
            let _g = m2.blocking_lock_owned(1, SyncLimit::no_limit());
            let _ = tx.send(());
        });
        std::thread::sleep(Duration::from_millis(5));
        if rx.try_recv().is_ok() {
            return Err(format!("round {}: the second blocking_lock returned while the first guard was alive", round));
        }
        drop(g);
        if rx.recv_timeout(Duration::from_secs(5)).is_err() {
            return Err(format!("round {}: the waiter was not woken within 5 s after the guard was dropped", round));
        }
        h.join().map_err(|_| "waiter panicked".to_string())?;
    }
    if map.num_entries_or_locked() != 0 {
        return Err(format!("placeholder left behind: {}", map.num_entries_or_locked()));
    }
    Ok("20 hand-overs".into())
}

fn main() {
    let args: Vec<String> = std::env::args().collect();
    if args.get(1).map(|s| s.as_str()) == Some("lin") {
        // smoke lin <seed> <histories> <out file>: recorded real-thread histories for /verif/build/lincheck
        let seed: u64 = args.get(2).and_then(|s| s.parse().ok()).unwrap_or(1);
        let count: u64 = args.get(3).and_then(|s| s.parse().ok()).unwrap_or(300);
        let out = args.get(4).cloned().unwrap_or_else(|| "lin.txt".into());
        match lin::main(seed, count, &out) {
            Ok(s) => println!("LIN OK {}", s),
            Err(e) => {
                println!("LIN FAIL {}", e);
                std::process::exit(1)
            }
        }
        return;
    }
    let iters: u64 = std::env::args().nth(1).and_then(|s| s.parse().ok()).unwrap_or(2000);
    with_watchdog("hashmap-blocking", 60, move || hashmap_blocking(iters));
    with_watchdog("lru-mixed", 60, move || lru_mixed(iters));
    with_watchdog("pool-blocking", 60, move || pool_blocking(iters));
    with_watchdog("pool-try-race", 120, move || pool_try_race(iters * 250));
    with_watchdog("map-races", 180, move || map_races(iters * 100));
    with_watchdog("scan-vs-stream", 180, move || scan_vs_stream(iters / 4));
    with_watchdog("stream-vs-try", 180, move || stream_vs_try(iters * 5));
    with_watchdog("wakeup", 120, wakeup);
    println!("SMOKE OK");
}
