(* C05 — sequentially, the containers refine a plain map plus a set of locked keys. *)
From Coq Require Import List Arith ZArith.
From LK Require Import AList Model Inv StepInv PropLemmas Seq DropInv.
Import ListNotations.

(* The guard operations (insert, remove, value_mut, try_insert, value_or_insert(_with), value) return and
   store exactly what the plain map would (spec_gop, Seq.v), touch no other key (C02_guard_op_is_local),
   and change neither the set of guards, nor the calls in flight, nor the key set. *)
Theorem C05_guard_ops_refine_map : forall c s g op s' o k,
  step c s (LGuardOp g op) = ROk s' o -> aget g (s_guards s) = Some k ->
  (vof s' k, o) = spec_gop op (vof s k) /\
  s_guards s' = s_guards s /\ s_ops s' = s_ops s /\ akeys (s_ents s') = akeys (s_ents s).
Proof. exact guard_op_refines. Qed.

Theorem C05_guard_ops_enabled : forall c s g op k,
  reachable c s -> aget g (s_guards s) = Some k -> guard_busy s g = false ->
  exists s' o, step c s (LGuardOp g op) = ROk s' o.
Proof. intros c s g op k H. exact (guard_op_enabled c s g op k (reachable_inv c s H)). Qed.

(* A lock call (any shape, no limit) run to completion on a key that is neither locked nor handed to a
   pending acquisition returns a guard showing the map's value, and the resulting state does not depend
   on the shape of the call ... *)
Theorem C05_lock_free_key : forall c s a sh k,
  reachable c s -> aget a (s_ops s) = None -> key_free s k ->
  seq_lock c s a sh k = ROk (locked_state c s k) (OGuard (s_gid s) k (vof s k)).
Proof. intros c s a sh k H. exact (seq_lock_free c s a sh k (reachable_inv c s H)). Qed.

Theorem C05_variants_interchangeable : forall c s a sh1 sh2 k,
  reachable c s -> aget a (s_ops s) = None -> key_free s k ->
  seq_lock c s a sh1 k = seq_lock c s a sh2 k.
Proof. intros c s a sh1 sh2 k H. exact (seq_lock_shape_independent c s a sh1 sh2 k (reachable_inv c s H)). Qed.

(* ... and a try variant on a key that is locked (or reserved for a pending acquisition) returns None and
   leaves values, guards, calls in flight, the key set and every key's locked status as they were. *)
Theorem C05_try_fails_when_locked : forall c s a sh k e,
  reachable c s -> aget a (s_ops s) = None -> sh_is_try sh = true ->
  aget k (s_ents s) = Some e -> e_owner e <> None ->
  exists s', seq_lock c s a sh k = ROk s' OTryFail /\
    s_guards s' = s_guards s /\ s_ops s' = s_ops s /\ (forall k', vof s' k' = vof s k') /\
    (forall k', In k' (akeys (s_ents s')) <-> In k' (akeys (s_ents s))) /\
    (forall k' e', aget k' (s_ents s') = Some e' -> exists e0, aget k' (s_ents s) = Some e0 /\ e_owner e' = e_owner e0).
Proof. intros c s a sh k e H. exact (seq_try_fails_when_locked c s a sh k e (reachable_inv c s H)). Qed.

(* Dropping the only guard of a key (no waiter, no other call in flight on it), run to completion: the key
   is unlocked, keeps its value (LRU: stamped with the current time), and a key without a value disappears. *)
Theorem C05_drop_sole_guard : forall c s a g k e,
  reachable c s -> aget a (s_ops s) = None -> aget g (s_guards s) = Some k -> guard_busy s g = false ->
  aget k (s_ents s) = Some e -> e_queue e = [] -> e_repl e = 1 ->
  seq_drop c s a g = ROk (dropped_state c s g k e) OUnit.
Proof. intros c s a g k e H. exact (seq_drop_sole c s a g k e (reachable_inv c s H)). Qed.

(* Locking an absent key with any variant and dropping the guard again leaves no trace at all
   (only the guard-id counter of the model has advanced). *)
Theorem C05_lock_drop_absent_restores : forall c s a a' sh k,
  reachable c s -> aget a (s_ops s) = None -> aget a' (s_ops s) = None -> aget k (s_ents s) = None ->
  exists s1, seq_lock c s a sh k = ROk s1 (OGuard (s_gid s) k None) /\
             seq_drop c s1 a' (s_gid s) = ROk (with_gid s (S (s_gid s))) OUnit.
Proof.
  intros c s a a' sh k H.
  exact (lock_drop_absent_roundtrip c s a a' sh k (reachable_inv c s H) (reachable_dinv c s H)).
Qed.

(* The counting and listing calls agree with that model: C04_keys_exact / C04_count_reports_keys. *)

Example C05_witness :
  exists s, run (mkCfg false)
    [LStart 0 (CLock ShBlocking 1 None); LResume 0 []; LGuardOp 0 (GTryInsert 3%Z); LGuardOp 0 (GTryInsert 4%Z);
     LGuardOp 0 (GSet 5%Z); LGuardOp 0 (GGetOrInsert 6%Z); LGuardOp 0 GRemove; LGuardOp 0 (GGetOrInsert 7%Z); LGuardOp 0 GRead]
  = RunOk s [ONothing; OGuard 0 1 None; OVal (Some 3%Z); OExists; OVal (Some 5%Z); OVal (Some 5%Z); OVal (Some 5%Z);
             OVal (Some 7%Z); OVal (Some 7%Z)].
Proof. eexists. vm_compute. reflexivity. Qed.
