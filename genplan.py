#!/usr/bin/env python3
"""Generates plan.json (what each property's check runs) and MANIFEST.json."""
import json, os
ROOT = os.path.dirname(os.path.abspath(__file__))

def fam(f, b, n, mode="cosim"): return dict(family=f, backend=b, count=n, mode=mode)

TRUSTED = [
 "Coq 8.16.1 kernel (coqc); vm_compute only in Example lemmas (witness runs); no native_compute",
 "axioms: none (Print Assumptions reports 'Closed under the global context' for every property theorem)",
 "extraction: ExtrOcamlBasic only (bool, option, unit, list, prod, sumbool, sumor mapped to OCaml types); nat, positive, Z stay extracted inductives; OCaml 4.13.1; ocaml/cosim.ml (parsing/printing/comparison)",
 "correspondence: the hand-written model coq/Model.v is tied to /repo by co-simulation on explored executions only: harness (Rust, /verif/harness) drives the real crate built with features verif_hooks,slow_assertions under a one-thread-at-a-time scheduler; hooks in /repo/src/verif_hooks.rs define the atomic segments",
 "modelled, not verified: tokio::sync::Mutex as a FIFO hand-off mutex, std::sync::Mutex, Arc strong counts, lru::LruCache order, std HashMap iteration order (oracle, validated as a permutation), FuturesUnordered (oracle: which per-entry future ran), tokio Instant arithmetic floor, Rust drop order/unwinding",
 "not modelled separately (only exercised through the harness): public wrapper methods of lockable_hash_map.rs / lockable_lru_cache.rs / lockpool.rs, SyncLimit/AsyncLimit enums, borrowed vs owned variants, Never/InfallibleUnwrap, Debug impls",
]
ASSUME = [
 "every execution of the implementation is an interleaving of the atomic segments delimited by the hook sites (all shared state is behind the global std::sync::Mutex, a per-key tokio mutex, or an Arc counter)",
 "that the implementation's executions are runs of the model is checked on the explored executions, not proved",
 "real-time behaviour (thread parking, wake-up latency, OS scheduling, memory ordering) is outside the model",
]

P = {}
def prop(pid, theorems, monitors, quick, thorough):
    P[pid] = dict(theorems=theorems, monitors=monitors, plan=dict(quick=quick, thorough=thorough))

prop("C01",
     ["C01_mutex", "C01_try_fails_while_held", "C01_failed_try_reports_none", "C01_wait_enqueues_while_held", "C01_waiter_blocked_while_held", "C01_witness"],
     ["C01."],
     [fam("nolimit","H",1500), fam("nolimit","L",1500), fam("pool","P",1000), fam("dfs-lock2","H",4000), fam("dfs-cancel","H",4000),
      fam("evict","L",800,"monitor"), fam("stream","H",800,"monitor"), fam("expiry","L",800,"monitor")],
     [fam("nolimit","H",40000), fam("nolimit","L",40000), fam("pool","P",20000), fam("dfs-lock2","H",200000), fam("dfs-lock3","L",200000),
      fam("dfs-cancel","H",200000), fam("evict","L",20000,"monitor"), fam("stream","H",20000,"monitor"), fam("expiry","L",20000,"monitor"), fam("mix","L",20000,"monitor")])
prop("C02",
     ["C02_only_guard_ops_change_values", "C02_guard_op_is_local", "C02_new_guard_shows_stored_value", "C02_witness"],
     ["C02."],
     [fam("nolimit","H",1500), fam("nolimit","L",1500), fam("dfs-lock2","L",4000), fam("evict","H",800,"monitor"), fam("stream","L",800,"monitor"), fam("mix","L",800,"monitor")],
     [fam("nolimit","H",40000), fam("nolimit","L",40000), fam("dfs-lock2","L",200000), fam("dfs-lock3","H",200000), fam("evict","H",20000,"monitor"), fam("stream","L",20000,"monitor"), fam("mix","L",20000,"monitor")])
prop("C04",
     ["C04_keys_exact", "C04_quiescent", "C04_count_reports_keys", "C04_keys_reports_keys", "C04_witness"],
     ["C04."],
     [fam("nolimit","H",1500), fam("nolimit","L",1500), fam("pool","P",1000), fam("dfs-cancel","H",4000), fam("mix","H",800,"monitor"), fam("evict","L",800,"monitor"), fam("stream","H",800,"monitor")],
     [fam("nolimit","H",40000), fam("nolimit","L",40000), fam("pool","P",20000), fam("dfs-cancel","H",200000), fam("dfs-lock3","H",100000), fam("mix","H",20000,"monitor"), fam("evict","L",20000,"monitor"), fam("stream","H",20000,"monitor")])
prop("C12",
     ["C12_consume", "C12_consume_never_panics", "C12_consume_enabled"],
     ["C12."],
     [fam("mix","H",1500), fam("mix","L",1500), fam("nolimit","H",1000), fam("stream","L",1000)],
     [fam("mix","H",40000), fam("mix","L",40000), fam("nolimit","H",20000), fam("stream","L",20000), fam("evict","H",20000)])
prop("C13",
     ["C13_no_panic", "C13_runs_never_panic", "C13_slow_assertions_hold"],
     ["C13."],
     [fam("mix","H",1200), fam("mix","L",1200), fam("nolimit","L",800), fam("evict","H",800), fam("expiry","L",800), fam("stream","H",800), fam("pool","P",600), fam("dfs-cancel","H",3000), fam("dfs-stream","L",3000)],
     [fam("mix","H",40000), fam("mix","L",40000), fam("nolimit","L",20000), fam("evict","H",20000), fam("evict","L",20000), fam("expiry","L",20000), fam("stream","H",20000), fam("stream","L",20000), fam("pool","P",20000),
      fam("dfs-cancel","H",200000), fam("dfs-stream","L",200000), fam("dfs-evict","L",100000), fam("dfs-expiry","L",100000), fam("dfs-lock3","H",100000)])

plan = dict(allowed_axioms=[], trusted_base=TRUSTED, assumptions=ASSUME, properties=P)
json.dump(plan, open(os.path.join(ROOT, "plan.json"), "w"), indent=1)

# ---------------------------------------------------------------- MANIFEST
TEXT = {
 "C01": "Theorem over all runs of the Coq model (any number of keys, agents, steps, any schedule, both back-ends): no two live guards share a key; tries fail and waiters stay blocked while a guard is alive. Tied to the code by co-simulation of explored executions (every observation, snapshot, blocked set) plus a model-independent live-guard monitor.",
 "C02": "Theorem: no model step other than an operation on a guard (or consuming the container) changes any stored value, a guard operation only touches its own key, and a new guard reports the stored value; co-simulation compares every value the implementation reports; shadow-map monitor on the implementation.",
 "C04": "Theorem: in every reachable model state the key set equals valued keys + keys with a live guard + keys some in-flight call holds a handle on; quiescent => exactly the valued keys; count/keys report that set. Co-simulation compares the key set and replica counts after every atomic segment; monitor recomputes the expected set from the harness' own bookkeeping.",
 "C12": "Theorem: in a reachable quiescent state into_entries_unordered is enabled, does not panic and returns exactly one pair per valued key with the stored value; co-simulation + multiset monitor on runs that end with consume.",
 "C13": "Theorem: no label makes the model panic in any reachable state (all expect/assert sites and the slow_assertions check at both ends of every critical section are modelled as RPanic); co-simulation runs the real crate with slow_assertions and catches panics, poisoning, self-deadlock and hangs.",
}
ids = [json.loads(l)["id"] for l in open(os.path.join(ROOT, "properties.jsonl"))]
NOTE = "Theorems are about the hand-written Coq model; that the code's executions are runs of the model is checked by co-simulation on the explored schedules only (random walks and exhaustive interleavings of small programs), not proved. tokio/std/Arc/lru primitives are modelled, not verified. Axioms: none."
checks = []
for pid in ids:
    if pid in P:
        checks.append(dict(property_id=pid, quick_cmd=f"./check {pid} --tier quick", thorough_cmd=f"./check {pid} --tier thorough",
                           evidence_file=f"/verif/evidence/{pid}.json", replay_cmd_template=f"./check {pid} --replay {{path}}",
                           engine="coq-model+cosim",
                           level_claimed=dict(category="proof", text=TEXT[pid], design_ref="DESIGN.md section 5"),
                           level_note=NOTE,
                           technique="Coq 8.16 proof (inductive invariant over an executable LTS model) + co-simulation correspondence check against the real crate + monitors for the failing-input search"))
manifest = dict(version=1,
    setup_cmd="./setup.sh",
    hooks=dict(guard="cargo feature verif_hooks", enable="harness/Cargo.toml: lockable = { path = \"/repo\", features = [\"verif_hooks\", \"slow_assertions\"] }",
               baseline_off_cmd="cd /repo && cargo nextest run --workspace --no-fail-fast --tool-config-file pb:/w/lib/nextest.toml --profile pb --test-threads 8 --offline",
               source_commits=["700e6dc"], add_only=True),
    engines=[dict(name="coq-model+cosim", path="/verif/coq, /verif/ocaml, /verif/harness, /verif/check", serves_properties=sorted(P.keys()),
                  kind_free_text="Coq 8.16 model + theorems; extracted OCaml model co-simulated against traces of the real crate produced by a deterministic-scheduler harness")],
    checks=checks,
    notes="see DESIGN.md; known_findings.txt lists the defects that were found and repaired (fix: commits in /repo)",
    not_applicable=[dict(property_id=i, reason="check under construction in this round (theorems not yet registered); see DESIGN.md section 10") for i in ids if i not in P])
json.dump(manifest, open(os.path.join(ROOT, "MANIFEST.json"), "w"), indent=1)
print("plan:", sorted(P.keys()))
