(* C05 — sequentially, the containers refine a plain map plus a set of locked keys. *)
From Coq Require Import List Arith ZArith.
From LK Require Import AList Model Inv StepInv PropLemmas Seq DropInv Stream SeqRefine SeqLimit Conc.
Import ListNotations.

(* The guard operations (insert, remove, value_mut, try_insert, value_or_insert(_with), value) return and
   store exactly what the plain map would (spec_gop, Seq.v), touch no other key (C02_guard_op_is_local),
   and change neither the set of guards, nor the calls in flight, nor the key set. *)
Theorem C05_guard_ops_refine_map : forall c s g op s' o k,
  step c s (LGuardOp g op) = ROk s' o -> aget g (s_guards s) = Some k ->
  (vof s' k, o) = spec_gop op (vof s k) /\
  s_guards s' = s_guards s /\ s_ops s' = s_ops s /\ akeys (s_ents s') = akeys (s_ents s).
Proof. exact guard_op_refines. Qed.

Theorem C05_guard_ops_enabled : forall c s g op k,
  reachable c s -> aget g (s_guards s) = Some k -> guard_busy s g = false ->
  exists s' o, step c s (LGuardOp g op) = ROk s' o.
Proof. intros c s g op k H. exact (guard_op_enabled c s g op k (reachable_inv c s H)). Qed.

(* A lock call (any shape, no limit) run to completion on a key that is neither locked nor handed to a
   pending acquisition returns a guard showing the map's value, and the resulting state does not depend
   on the shape of the call ... *)
Theorem C05_lock_free_key : forall c s a sh k,
  reachable c s -> aget a (s_ops s) = None -> key_free s k ->
  seq_lock c s a sh k = ROk (locked_state c s k) (OGuard (s_gid s) k (vof s k)).
Proof. intros c s a sh k H. exact (seq_lock_free c s a sh k (reachable_inv c s H)). Qed.

Theorem C05_variants_interchangeable : forall c s a sh1 sh2 k,
  reachable c s -> aget a (s_ops s) = None -> key_free s k ->
  seq_lock c s a sh1 k = seq_lock c s a sh2 k.
Proof. intros c s a sh1 sh2 k H. exact (seq_lock_shape_independent c s a sh1 sh2 k (reachable_inv c s H)). Qed.

(* ... and a try variant on a key that is locked (or reserved for a pending acquisition) returns None and
   leaves values, guards, calls in flight, the key set and every key's locked status as they were. *)
Theorem C05_try_fails_when_locked : forall c s a sh k e,
  reachable c s -> aget a (s_ops s) = None -> sh_is_try sh = true ->
  aget k (s_ents s) = Some e -> e_owner e <> None ->
  exists s', seq_lock c s a sh k = ROk s' OTryFail /\
    s_guards s' = s_guards s /\ s_ops s' = s_ops s /\ (forall k', vof s' k' = vof s k') /\
    (forall k', In k' (akeys (s_ents s')) <-> In k' (akeys (s_ents s))) /\
    (forall k' e', aget k' (s_ents s') = Some e' -> exists e0, aget k' (s_ents s) = Some e0 /\ e_owner e' = e_owner e0) /\
    s_gid s' = s_gid s.
Proof. intros c s a sh k e H. exact (seq_try_fails_when_locked c s a sh k e (reachable_inv c s H)). Qed.

(* Dropping the only guard of a key (no waiter, no other call in flight on it), run to completion: the key
   is unlocked, keeps its value (LRU: stamped with the current time), and a key without a value disappears. *)
Theorem C05_drop_sole_guard : forall c s a g k e,
  reachable c s -> aget a (s_ops s) = None -> aget g (s_guards s) = Some k -> guard_busy s g = false ->
  aget k (s_ents s) = Some e -> e_queue e = [] -> e_repl e = 1 ->
  seq_drop c s a g = ROk (dropped_state c s g k e) OUnit.
Proof. intros c s a g k e H. exact (seq_drop_sole c s a g k e (reachable_inv c s H)). Qed.

(* Locking an absent key with any variant and dropping the guard again leaves no trace at all
   (only the guard-id counter of the model has advanced). *)
Theorem C05_lock_drop_absent_restores : forall c s a a' sh k,
  reachable c s -> aget a (s_ops s) = None -> aget a' (s_ops s) = None -> aget k (s_ents s) = None ->
  exists s1, seq_lock c s a sh k = ROk s1 (OGuard (s_gid s) k None) /\
             seq_drop c s1 a' (s_gid s) = ROk (with_gid s (S (s_gid s))) OUnit.
Proof.
  intros c s a a' sh k H.
  exact (lock_drop_absent_roundtrip c s a a' sh k (reachable_inv c s H) (reachable_dinv c s H)).
Qed.

(* The refinement theorem.  spec (SeqRefine.v) is a plain map key -> option value plus the list of guards
   naming the locked keys; spec_call is what it does for a complete call (lock with any shape and no limit,
   any guard operation, drop, count, keys); a history is admissible if every call names an existing guard
   and no *waiting* acquisition asks for a key the single thread holds itself (try variants may).  Q = the
   model is between two calls (invariant, nothing in flight), R = same values, same guards.
   One call: the model's call runs to completion, returns what the spec returns (for count / keys: the
   number / a duplicate-free list of exactly the keys with a value or locked), and re-establishes Q and R. *)
Theorem C05_call_refines : forall c s sp a call sp' ospec,
  Q s -> R s sp -> spec_call sp call = Some (sp', ospec) ->
  exists s' o, seq_call c s a call = ROk s' o /\ Q s' /\ R s' sp' /\ obs_ok sp call ospec o.
Proof. exact seq_call_refines. Qed.

(* Whole histories, from the empty container, of any length: every admissible history runs to completion on
   the model -- no call blocks, fails or panics -- with the observations of the plain map + locked set;
   afterwards values and guards are the spec's and nothing is in flight. *)
Theorem C05_history_refines : forall c a calls sp',
  admissible spec_init calls = Some sp' ->
  exists s' os, seq_trace c a init calls os s' /\ spec_trace spec_init calls os sp' /\
    (forall k, vof s' k = sp_val sp' k) /\ s_guards s' = sp_guards sp' /\ s_ops s' = [] /\ Inv s'.
Proof. exact seq_refinement. Qed.

(* ... and these are the only observations the model can produce for that history. *)
Theorem C05_history_deterministic : forall c a calls s os1 s1 os2 s2,
  seq_trace c a s calls os1 s1 -> seq_trace c a s calls os2 s2 -> os1 = os2 /\ s1 = s2.
Proof. intros c a calls. exact (seq_trace_fun c a calls). Qed.

Example C05_witness :
  exists s, run (mkCfg false)
    [LStart 0 (CLock ShBlocking 1 None); LResume 0 []; LGuardOp 0 (GTryInsert 3%Z); LGuardOp 0 (GTryInsert 4%Z);
     LGuardOp 0 (GSet 5%Z); LGuardOp 0 (GGetOrInsert 6%Z); LGuardOp 0 GRemove; LGuardOp 0 (GGetOrInsert 7%Z); LGuardOp 0 GRead]
  = RunOk s [ONothing; OGuard 0 1 None; OVal (Some 3%Z); OExists; OVal (Some 5%Z); OVal (Some 5%Z); OVal (Some 5%Z);
             OVal (Some 7%Z); OVal (Some 7%Z)].
Proof. eexists. vm_compute. reflexivity. Qed.

(* non-vacuity of the refinement theorem: an admissible history that uses a failing try, all guard
   operations, a drop of a valueless key and the counting calls *)
Example C05_history_witness :
  exists sp', admissible spec_init
    [SLock ShAsync 1; SGop 0 (GInsert 5%Z); SLock ShTry 1; SLock ShTryAsync 2; SCount; SDrop 1; SDrop 0;
     SKeys; SLock ShBlocking 1; SGop 2 GRemove; SDrop 2; SCount] = Some sp' /\
    sp_guards sp' = [] /\ sp_val sp' 1 = None.
Proof. eexists. split; [vm_compute; reflexivity|]. split; reflexivity. Qed.

(* ------------------------------------------------------------------ *)
(* ... with soft limits (SeqLimit.v).  Between the calls of a single thread that uses the limited variants the
   only calls in flight are acquisitions suspended in their eviction callbacks (Qc).  Complete calls behave as
   above also then (the body of a callback, re-entrant calls included): *)
Theorem C05_call_refines_inside_callbacks : forall c s sp a call sp' ospec,
  Qc s -> aget a (s_ops s) = None -> R s sp -> spec_call sp call = Some (sp', ospec) ->
  exists s' o, seq_call c s a call = ROk s' o /\ Qc s' /\ s_ops s' = s_ops s /\ R s' sp' /\ obs_ok sp call ospec o.
Proof. exact seq_call_refines_cb. Qed.

(* a limited acquisition either suspends in its callback with guards the plain map + locked set allows
   (offer_ok: distinct, unlocked, valued keys with their values; no more than needed to make room; all evictable
   ones if that is not enough; only when the limit is reached) or IS the unlimited acquisition, ... *)
Theorem C05_limited_call_refines : forall c s sp a sh k n,
  Qc s -> aget a (s_ops s) = None -> R s sp -> 1 <= n ->
  (exists s' l sp', seq_start_lim c s a sh k n = ROk s' (OOffered l) /\ Qc s' /\
      s_ops s' = aset a (PInCb sh k n (map ogid l)) (s_ops s) /\ R s' sp' /\ offer_ok sp n l sp')
  \/ seq_start_lim c s a sh k n = seq_call c s a (SLock sh k).
Proof. exact start_lim_refines. Qed.

(* ... when its callback fails it ends with that failure and the map + locked set is untouched, ... *)
Theorem C05_callback_failure_refines : forall c s sp ops' a sh k n off r,
  Qc s -> s_ops s = ops' ++ [(a, PInCb sh k n off)] -> R s sp -> r <> CbOk ->
  seq_cbret c s a r = ROk (base_of s ops') (match r with CbPanic => OPanicked | _ => OErr end) /\
  Qc (base_of s ops') /\ R (base_of s ops') sp.
Proof. exact cbret_fail_refines. Qed.

(* ... and when it succeeds the acquisition re-evaluates as if it were made at that moment (a single thread's
   callbacks return innermost first, so the returning acquisition is the last one in flight). *)
Theorem C05_callback_success_refines : forall c s sp ops' a sh k n off,
  Qc s -> s_ops s = ops' ++ [(a, PInCb sh k n off)] -> R s sp -> 1 <= n ->
  (exists s' l sp', seq_cbret c s a CbOk = ROk s' (OOffered l) /\ Qc s' /\
      s_ops s' = aset a (PInCb sh k n (map ogid l)) ops' /\ R s' sp' /\ offer_ok sp n l sp')
  \/ seq_cbret c s a CbOk = seq_call c (base_of s ops') a (SLock sh k).
Proof. exact cbret_ok_refines. Qed.

(* non-vacuity: 1 -> 5 and 2 -> 6 stored; blocking_lock(3) with limit 2 offers the least recently used entry
   (key 1) to the callback, which removes its value and drops the guard; when it returns Ok the call
   proceeds and locks key 3 *)
Example C05_limit_witness :
  let c := mkCfg true in
  let st := fun r => match r with ROk s _ => s | _ => init end in
  let s5 := st (seq_call c (st (seq_call c (st (seq_call c (st (seq_call c (st (seq_call c (st (seq_call c init 0
              (SLock ShBlocking 1))) 0 (SGop 0 (GInsert 5)))) 0 (SDrop 0))) 0 (SLock ShTry 2))) 0 (SGop 1 (GInsert 6)))) 0 (SDrop 1)) in
  exists s6 s9,
    seq_start_lim c s5 7 ShBlocking 3 2 = ROk s6 (OOffered [(2, 1, 5%Z)]) /\
    seq_cbret c (st (seq_call c (st (seq_call c s6 0 (SGop 2 GRemove))) 0 (SDrop 2))) 7 CbOk = ROk s9 (OGuard 3 3 None) /\
    map fst (s_ents s9) = [2; 3] /\ s_ops s9 = [].
Proof. cbv zeta. eexists. eexists. split; [vm_compute; reflexivity|]. split; [vm_compute; reflexivity|]. split; reflexivity. Qed.

(* ------------------------------------------------------------------ *)
(* ... and beyond single-threaded histories (Conc.v): under EVERY interleaving of any number of agents -- calls in
   flight, waiters, cancellations, eviction callbacks, streams, scans -- each step of the model acts on the plain
   map + locked set as a short sequence of the abstract machine's own calls, chosen by what the client sees
   ([explains]: nothing; the guard operation it issued; one acquisition when a guard is announced; the acquisitions
   of one scan when guards are offered/returned; a release; or the hidden acquisition of a valueless entry by a
   stream, released again without being shown), those calls are accepted by [spec_call] in that order, and they
   return exactly what was announced (guard names, keys, values, results of guard operations) ... *)
Theorem C05_every_interleaving_refines : forall c s sp l o s',
  Inv s -> R s sp -> step c s l = ROk s' o -> is_consume l = false ->
  exists calls os sp', explains l o calls os /\ spec_acts sp calls = Some (sp', os) /\ R s' sp'.
Proof. exact conc_step_refines. Qed.

(* ... so every concurrent history is linearisable with respect to the plain map + locked set: the concatenation of
   the explaining calls is one sequential history of [spec_call] from the empty map, with the announced results,
   ending in the abstraction of the final state. *)
Theorem C05_concurrent_histories_linearise : forall c tr s',
  otrace c init tr s' -> (forall e, In e tr -> is_consume (ev_label e) = false) ->
  exists calls os sp', lin_run c init tr s' calls os /\ spec_acts spec_init calls = Some (sp', os) /\ R s' sp'.
Proof. exact conc_history_linearisable. Qed.

(* the try variants under concurrency: the step at which a try call tests the key fails only if the key is locked
   or awaited by a pending acquisition, and succeeds -- with the stored value -- if it is neither *)
Theorem C05_try_fails_only_if_locked_or_awaited : forall c s a sh k o s',
  Inv s -> aget a (s_ops s) = Some (PKeyTry sh k) -> step c s (LResume a o) = ROk s' ONothing ->
  (exists g, aget g (s_guards s) = Some k) \/ (exists a', waits_on s a' k).
Proof. exact try_fails_only_if_locked_or_awaited. Qed.

Theorem C05_try_succeeds_when_free : forall c s a sh k o,
  Inv s -> aget a (s_ops s) = Some (PKeyTry sh k) ->
  (forall g, aget g (s_guards s) <> Some k) -> (forall a', ~ waits_on s a' k) ->
  exists s', step c s (LResume a o) = ROk s' (OGuard (s_gid s) k (vof s k)).
Proof. exact try_succeeds_when_free. Qed.

(* non-vacuity: an interleaved run of three agents (agent 1 waits for key 1 while agent 0 holds it and stores 5;
   agent 2's try fails meanwhile) and the sequential history that explains it *)
Example C05_linearisation_witness :
  run (mkCfg true) [LStart 0 (CLock ShAsync 1 None); LStart 1 (CLock ShBlocking 1 None); LResume 0 []; LResume 1 [];
                    LResume 1 []; LStart 2 (CLock ShTry 1 None); LGuardOp 0 (GInsert 5); LResume 2 []; LResume 2 [];
                    LStart 3 (CDrop 0); LResume 2 []; LResume 3 []; LResume 1 []]
  = RunOk (mkS [(1, mkE (Some (5, 0)%Z) (Some (OwnG 1)) [] 1)] [(1, 1)] [] 0%Z 2)
          [ONothing; ONothing; OGuard 0 1 None; ONothing; ONothing; ONothing; OVal None; ONothing; ONothing;
           ONothing; OTryFail; OUnit; OGuard 1 1 (Some 5%Z)] /\
  exists sp', spec_acts spec_init [SLock ShBlocking 1; SGop 0 (GInsert 5); SDrop 0; SLock ShBlocking 1]
              = Some (sp', [OGuard 0 1 None; OVal None; OUnit; OGuard 1 1 (Some 5%Z)]).
Proof. split; [vm_compute; reflexivity|]. eexists. cbn. reflexivity. Qed.
