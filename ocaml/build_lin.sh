#!/bin/sh
# Extract the abstract machine of C05 (SeqRefine.spec_call) + the model's sequential driver and build the
# linearisability checker. Needs the compiled Coq development (make in ../coq). Output: /verif/build/lincheck
set -e
cd "$(dirname "$0")"
mkdir -p gen_spec ../build/ocaml_lin
( cd gen_spec && coqc -Q ../../coq LK ../../coq/ExtractSpec.v >/dev/null && rm -f ../../coq/ExtractSpec.vo ../../coq/ExtractSpec.glob ../../coq/.ExtractSpec.aux ../../coq/ExtractSpec.vok ../../coq/ExtractSpec.vos )
cp gen_spec/spec.ml gen_spec/spec.mli lincheck.ml ../build/ocaml_lin/
cd ../build/ocaml_lin
ocamlfind ocamlopt -w -a -o ../lincheck spec.mli spec.ml lincheck.ml
