//! Test harness for the `lockable` crate: deterministic scheduler, trace
//! generation, monitors, explorers.  See /verif/docs/HARNESS_SPEC.md and
//! /verif/docs/HARNESS_NOTES.md.

// Parts of the executor / scheduler API exist for explorers and tools that are still to be
// written (see HARNESS_NOTES.md); do not warn about the ones the current binary does not use.
#![allow(dead_code)]

mod agents;
mod containers;
mod exec;
mod explore;
mod monitor;
mod replay;
mod sched;
mod types;

use types::Backend;

fn usage() -> ! {
    eprintln!(
        "usage:\n  harness replay <file> [--backend H|L|P] [--owned|--borrowed] [--tries N]\n  harness shrink <file> --want <monitor id prefix> [--backend H|L|P] [--owned|--borrowed] [--tries N] [--budget SECONDS]\n  harness explore --family <name> --backend H|L|P --seed N --count N --out <file> [--threads N] [--owned|--borrowed] [--replay-dir D] [--max-replays N]\n  harness families"
    );
    std::process::exit(2)
}

fn main() {
    let args: Vec<String> = std::env::args().skip(1).collect();
    if args.is_empty() {
        usage();
    }
    sched::install();
    match args[0].as_str() {
        "replay" => {
            let mut file = None;
            let mut backend = None;
            let mut owned = None;
            let mut tries = 1usize;
            let mut i = 1;
            while i < args.len() {
                match args[i].as_str() {
                    "--tries" => {
                        i += 1;
                        tries = args.get(i).and_then(|s| s.parse().ok()).unwrap_or_else(|| usage());
                    }
                    "--backend" => {
                        i += 1;
                        backend = args.get(i).and_then(|s| Backend::parse(s));
                        if backend.is_none() {
                            usage();
                        }
                    }
                    "--owned" => owned = Some(true),
                    "--borrowed" => owned = Some(false),
                    s if !s.starts_with("--") => file = Some(s.to_string()),
                    _ => usage(),
                }
                i += 1;
            }
            let Some(file) = file else { usage() };
            let text = std::fs::read_to_string(&file).unwrap_or_else(|e| {
                eprintln!("cannot read {}: {}", file, e);
                std::process::exit(2)
            });
            let (hb, ho) = replay::header_info(&text);
            let backend = backend.or(hb).unwrap_or(Backend::H);
            let owned = owned.or(ho).unwrap_or(false);
            if text.lines().any(|l| l.starts_with("trace ") && l.split_whitespace().any(|t| t == "fine=1")) {
                sched::FINE.store(true, std::sync::atomic::Ordering::SeqCst);
            }
            // Backends H and P: the schedule in the file was recorded for one HashMap iteration
            // order; with another order the run may diverge (labels get skipped). `--tries N`
            // re-executes until the replay follows the file exactly (or N attempts are used up).
            let mut r = replay::replay(&text, "replay", backend, owned, &format!("file={}", file));
            let mut n = 1;
            while r.divergences > 0 && n < tries.max(1) {
                r = replay::replay(&text, "replay", backend, owned, &format!("file={} try={}", file, n + 1));
                n += 1;
            }
            print!("{}", r.text);
        }
        "shrink" => {
            // Delta debugging on the `l` lines of a replay file: remove chunks of labels (then single labels)
            // as long as a monitor whose id starts with --want still fires. Prints the minimised label list.
            let mut file = None;
            let mut backend = None;
            let mut owned = None;
            let mut tries = 1usize;
            let mut want = String::new();
            let mut budget = 60u64;
            let mut i = 1;
            while i < args.len() {
                match args[i].as_str() {
                    "--tries" => {
                        i += 1;
                        tries = args.get(i).and_then(|s| s.parse().ok()).unwrap_or_else(|| usage());
                    }
                    "--budget" => {
                        i += 1;
                        budget = args.get(i).and_then(|s| s.parse().ok()).unwrap_or_else(|| usage());
                    }
                    "--want" => {
                        i += 1;
                        want = args.get(i).cloned().unwrap_or_else(|| usage());
                    }
                    "--backend" => {
                        i += 1;
                        backend = args.get(i).and_then(|s| Backend::parse(s));
                        if backend.is_none() {
                            usage();
                        }
                    }
                    "--owned" => owned = Some(true),
                    "--borrowed" => owned = Some(false),
                    s if !s.starts_with("--") => file = Some(s.to_string()),
                    _ => usage(),
                }
                i += 1;
            }
            let Some(file) = file else { usage() };
            if want.is_empty() {
                usage();
            }
            let text = std::fs::read_to_string(&file).unwrap_or_else(|e| {
                eprintln!("cannot read {}: {}", file, e);
                std::process::exit(2)
            });
            let (hb, ho) = replay::header_info(&text);
            let backend = backend.or(hb).unwrap_or(Backend::H);
            let owned = owned.or(ho).unwrap_or(false);
            let fine = text.lines().any(|l| l.starts_with("trace ") && l.split_whitespace().any(|t| t == "fine=1"));
            if fine {
                sched::FINE.store(true, std::sync::atomic::Ordering::SeqCst);
            }
            let _ = monitor::ONLY.set(vec![want.clone()]);
            let start = std::time::Instant::now();
            let mut runs = 0usize;
            let mut test = |labels: &[String]| -> bool {
                if start.elapsed().as_secs() >= budget {
                    return false;
                }
                let t: String = labels.concat();
                for _ in 0..tries.max(1) {
                    runs += 1;
                    let r = replay::replay(&t, "shrink", backend, owned, "");
                    if r.violations.iter().any(|v| v.id.starts_with(want.as_str())) {
                        return true;
                    }
                }
                false
            };
            // annotate: replay the file once so that every label is followed by its recorded `o` lines
            let mut text = text;
            for _ in 0..tries.max(1) {
                let r = replay::replay(&text, "annotate", backend, owned, "");
                if r.violations.iter().any(|v| v.id.starts_with(want.as_str())) {
                    text = r.text;
                    break;
                }
            }
            // one item = an `l` line with the `o` lines recorded for it (they carry the guard ids it created)
            let mut labels: Vec<String> = Vec::new();
            for l in text.lines() {
                let l = l.trim();
                if l.starts_with("l ") {
                    labels.push(format!("{}\n", l));
                } else if l.starts_with("o ") {
                    if let Some(last) = labels.last_mut() {
                        last.push_str(l);
                        last.push('\n');
                    }
                }
            }
            let original = labels.len();
            if !test(&labels) {
                println!("# shrink: the file does not reproduce a {} violation; nothing done", want);
                std::process::exit(1);
            }
            // cut everything after the label at which the violation shows up first
            {
                let mut lo = 1usize;
                let mut hi = labels.len();
                while lo < hi {
                    let mid = (lo + hi) / 2;
                    if test(&labels[..mid]) {
                        hi = mid;
                    } else {
                        lo = mid + 1;
                    }
                }
                labels.truncate(hi);
            }
            let mut chunk = (labels.len() / 2).max(1);
            loop {
                let mut changed = false;
                let mut pos = 0usize;
                while pos < labels.len() {
                    let end = (pos + chunk).min(labels.len());
                    let mut cand: Vec<String> = labels[..pos].to_vec();
                    cand.extend_from_slice(&labels[end..]);
                    if !cand.is_empty() && test(&cand) {
                        labels = cand;
                        changed = true;
                    } else {
                        pos = end;
                    }
                }
                if chunk == 1 {
                    if !changed {
                        break;
                    }
                } else {
                    chunk = (chunk / 2).max(1);
                }
                if start.elapsed().as_secs() >= budget {
                    break;
                }
            }
            let t: String = labels.concat();
            let r = replay::replay(&t, "shrunk", backend, owned, &format!("from={}{}", file, if fine { " fine=1" } else { "" }));
            println!("# shrink: {} -> {} labels, {} replays, want={}", original, labels.len(), runs, want);
            print!("{}", r.text);
        }
        "explore" => {
            let mut o = explore::ExploreOpts {
                family: String::new(),
                backend: Backend::H,
                seed: 1,
                count: 100,
                out: String::new(),
                threads: 16,
                owned: None,
                replay_dir: "/verif/replays".into(),
                max_replays: 20,
                fork: None,
            };
            let mut i = 1;
            let val = |i: &mut usize| -> String {
                *i += 1;
                args.get(*i).cloned().unwrap_or_else(|| usage())
            };
            while i < args.len() {
                match args[i].as_str() {
                    "--family" => o.family = val(&mut i),
                    "--backend" => o.backend = Backend::parse(&val(&mut i)).unwrap_or_else(|| usage()),
                    "--seed" => o.seed = val(&mut i).parse().unwrap_or_else(|_| usage()),
                    "--count" => o.count = val(&mut i).parse().unwrap_or_else(|_| usage()),
                    "--out" => o.out = val(&mut i),
                    "--threads" => o.threads = val(&mut i).parse().unwrap_or_else(|_| usage()),
                    "--owned" => o.owned = Some(true),
                    "--borrowed" => o.owned = Some(false),
                    "--replay-dir" => o.replay_dir = val(&mut i),
                    "--max-replays" => o.max_replays = val(&mut i).parse().unwrap_or_else(|_| usage()),
                    "--monitors" => {
                        let v: Vec<String> = val(&mut i).split(',').filter(|x| !x.is_empty()).map(|x| x.to_string()).collect();
                        let _ = monitor::ONLY.set(v);
                    }
                    "--fork" => {
                        // --fork RUN:NLABELS
                        let v = val(&mut i);
                        let mut it = v.split(':');
                        let r = it.next().and_then(|x| x.parse().ok()).unwrap_or_else(|| usage());
                        let n = it.next().and_then(|x| x.parse().ok()).unwrap_or_else(|| usage());
                        o.fork = Some((r, n));
                    }
                    _ => usage(),
                }
                i += 1;
            }
            if o.family.is_empty() || o.out.is_empty() {
                usage();
            }
            match explore::explore(o) {
                Ok(json) => println!("{}", json),
                Err(e) => {
                    eprintln!("{}", e);
                    std::process::exit(2);
                }
            }
        }
        "selftest" => selftest(),
        "families" => {
            println!("random: {}", explore::FAMILY_NAMES.join(" "));
            println!("dfs:    {}", explore::DFS_FAMILY_NAMES.join(" "));
        }
        _ => usage(),
    }
}

/// Checks of the scheduler machinery that no library behaviour exercises reliably.
fn selftest() {
    use sched::{Outcome, Report, Step};
    let run = sched::RunShared::new();
    // 1. a second panic while unwinding must not abort the process
    struct Bomb;
    impl Drop for Bomb {
        fn drop(&mut self) {
            panic!("second panic (in a destructor)");
        }
    }
    let (_cx, step) = sched::spawn_agent(
        &run,
        0,
        Box::new(|_| {
            let _b = Bomb;
            panic!("first panic");
        }),
    );
    match step {
        Step::Report(Report::DoublePanic(m)) => println!("ok   double panic intercepted: {}", m),
        other => {
            println!("FAIL double panic: {:?}", other);
            std::process::exit(1);
        }
    }
    // 2. plain panic, user panic
    let (_cx, step) = sched::spawn_agent(&run, 1, Box::new(|_| panic!("plain {}", 42)));
    match step {
        Step::Report(Report::Finished(Outcome::Panic(m))) if m.starts_with("plain 42 @ main.rs:") => println!("ok   panic captured: {}", m),
        other => {
            println!("FAIL panic capture: {:?}", other);
            std::process::exit(1);
        }
    }
    let (_cx, step) = sched::spawn_agent(&run, 2, Box::new(|_| std::panic::panic_any(sched::UserPanic)));
    match step {
        Step::Report(Report::Finished(Outcome::UserPanic)) => println!("ok   user panic classified"),
        other => {
            println!("FAIL user panic: {:?}", other);
            std::process::exit(1);
        }
    }
    // 3. watchdog
    let t0 = std::time::Instant::now();
    let (_cx, step) = sched::spawn_agent(
        &run,
        3,
        Box::new(|_| {
            std::thread::sleep(sched::WATCHDOG + std::time::Duration::from_millis(500));
            Outcome::Unit
        }),
    );
    match step {
        Step::Timeout => println!("ok   watchdog fired after {:?}", t0.elapsed()),
        other => {
            println!("FAIL watchdog: {:?}", other);
            std::process::exit(1);
        }
    }
    // 4. hooks are no-ops on threads without agent context
    let ex = exec::Executor::new(Backend::H, false);
    drop(ex);
    println!("ok   selftest done (leaked threads: {})", sched::LEAKED_THREADS.load(std::sync::atomic::Ordering::Relaxed));
}
