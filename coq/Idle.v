(* C10: while an entry is unlocked, neither its value nor its last_unlocked stamp ever changes, and it stays
   in the map -- its idle age keeps counting whatever else happens -- so every later expiry call whose
   cut-off has reached the stamp returns it. *)
From Coq Require Import List Arith ZArith Bool Lia.
From LK Require Import AList AListFacts Model Inv StepInv NoPanic PropLemmas DropInv.
Import ListNotations.

Definition frozen (k : key) (vs : Z * Z) (ents : list (key * entry)) : Prop :=
  exists e, aget k ents = Some e /\ e_val e = Some vs.

Lemma frozen_aset_other k vs ents k' e' : k' <> k -> frozen k vs ents -> frozen k vs (aset k' e' ents).
Proof. intros Hne (e & He & Hv). exists e. rewrite aget_aset_neq; auto. Qed.

Lemma frozen_aset_same k vs ents e e' : aget k ents = Some e -> e_val e' = e_val e -> frozen k vs ents -> frozen k vs (aset k e' ents).
Proof. intros He Hv (e0 & He0 & Hv0). rewrite He in He0. inv He0. exists e'. rewrite aget_aset_eq. split; auto. congruence. Qed.

Lemma frozen_aset k vs ents k' e e' :
  aget k' ents = Some e -> e_val e' = e_val e -> frozen k vs ents -> frozen k vs (aset k' e' ents).
Proof.
  intros He Hv Hf. destruct (Nat.eq_dec k' k) as [->|Hne]; [eapply frozen_aset_same; eauto|apply frozen_aset_other; auto].
Qed.

Lemma frozen_insert k vs ents k' e' : aget k' ents = None -> frozen k vs ents -> frozen k vs (aset k' e' ents).
Proof.
  intros He (e & Hk & Hv). destruct (Nat.eq_dec k' k) as [->|Hne]; [congruence|]. apply frozen_aset_other; auto. exists e; auto.
Qed.

Lemma frozen_adel k vs ents k' e : aget k' ents = Some e -> e_val e = None -> frozen k vs ents -> frozen k vs (adel k' ents).
Proof.
  intros He Hv (e0 & Hk & Hv0). destruct (Nat.eq_dec k' k) as [->|Hne]; [congruence|].
  exists e0. rewrite aget_adel_neq; auto.
Qed.

Lemma frozen_promote c k vs ents k' : frozen k vs ents -> frozen k vs (promote_if_lru c k' ents).
Proof. intros (e & He & Hv). exists e. rewrite promote_if_lru_get. auto. Qed.

Lemma lock_keys_frozen k vs ks : forall s, frozen k vs (s_ents s) -> frozen k vs (s_ents (fst (lock_keys s ks))).
Proof.
  induction ks as [|k' rest IH]; intros s Hf; cbn [lock_keys]; auto.
  destruct (aget k' (s_ents s)) as [e|] eqn:He; [|apply IH; auto]. cbn [new_guard].
  match goal with |- context [lock_keys ?x rest] => set (s2 := x) end.
  specialize (IH s2). destruct (lock_keys s2 rest) as [s3 l]. cbn [fst] in *. apply IH.
  unfold s2. cbn. eapply frozen_aset; eauto.
Qed.

Lemma clone_all_frozen k vs order : forall ents, frozen k vs ents -> frozen k vs (clone_all ents order).
Proof.
  induction order as [|k' rest IH]; intros ents Hf; cbn [clone_all]; auto.
  destruct (aget k' ents) as [e|] eqn:He; [|apply IH; auto]. apply IH. eapply frozen_aset; eauto.
Qed.

Lemma cleanup_frozen k vs ents k' ents' : cleanup_ents ents k' = inl (Some ents') -> frozen k vs ents -> frozen k vs ents'.
Proof.
  unfold cleanup_ents. destruct (aget k' ents) as [e|] eqn:He; [|discriminate].
  destruct (Nat.eqb _ 1).
  - destruct (e_owner e); [discriminate|]. destruct (e_val e) eqn:Ev; intros H; inv H.
    + eapply frozen_aset; eauto.
    + eapply frozen_adel; eauto.
  - intros H; inv H. eapply frozen_aset; eauto.
Qed.

Lemma cancel_frozen c k vs ents a k' ents' : cancel_ents c ents a k' = inl (Some ents') -> frozen k vs ents -> frozen k vs ents'.
Proof.
  unfold cancel_ents. destruct (aget k' ents) as [e|] eqn:He; [|discriminate]. cbn [e_repl set_repl e_owner e_val].
  intros H Hf.
  assert (F1 : frozen k vs (aset k' (set_repl (mx_cancel e a) (e_repl e - 1)) ents)).
  { eapply frozen_aset; eauto. cbn. apply mx_cancel_val. }
  destruct (Nat.eqb _ 0).
  - destruct (e_owner _); [discriminate|]. destruct (e_val (mx_cancel e a)) eqn:Ev; inv H; auto.
    eapply frozen_adel; [apply aget_aset_eq| |exact F1]. cbn. auto.
  - inv H. auto.
Qed.

Lemma unlock_cs_frozen c k vs s g s1 : unlock_cs c s g = inl (Some s1) -> frozen k vs (s_ents s) -> frozen k vs (s_ents s1).
Proof.
  unfold unlock_cs. destruct (aget g (s_guards s)) as [k'|]; [|discriminate].
  destruct (aget k' (s_ents s)) as [e|] eqn:He; [|discriminate]. intros H Hf.
  assert (F1 : frozen k vs (aset k' (set_repl (mx_release e) (e_repl e - 1)) (s_ents s))).
  { eapply frozen_aset; eauto. cbn. apply mx_release_val. }
  destruct (e_val e) eqn:Ev; [inv H; auto|]. cbn [e_repl set_repl] in H.
  destruct (Nat.eqb _ 0); inv H; cbn.
  - eapply frozen_adel; [rewrite promote_if_lru_get; apply aget_aset_eq| |apply frozen_promote; auto].
    cbn. rewrite mx_release_val. auto.
  - apply frozen_promote. auto.
Qed.

(* on_unlock of a guard for a different key, or for a key that is not the frozen one *)
Lemma begin_unlock_frozen c s g k vs :
  aget g (s_guards s) <> Some k -> frozen k vs (s_ents s) -> frozen k vs (s_ents (begin_unlock c s g)).
Proof.
  intros Hg Hf. unfold begin_unlock. destruct (c_lru c); auto.
  destruct (aget g (s_guards s)) as [k'|] eqn:Eg; auto.
  destruct (aget k' (s_ents s)) as [e|] eqn:He; auto. destruct (e_val e) as [[v st]|] eqn:Ev; auto.
  cbn. apply frozen_aset_other; auto; congruence.
Qed.

(* no guard exists for an unlocked key *)
Lemma unlocked_no_guard s k e g : Inv s -> aget k (s_ents s) = Some e -> e_owner e = None -> aget g (s_guards s) <> Some k.
Proof.
  intros HI He Ho Hg. destruct (Inv_guard_present s g k HI Hg) as (e0 & He0 & Ho0). congruence.
Qed.

Theorem step_unlocked_frozen c s l s' o k e vs :
  Inv s -> step c s l = ROk s' o -> (forall o', l <> LConsume o') ->
  aget k (s_ents s) = Some e -> e_owner e = None -> e_val e = Some vs ->
  frozen k vs (s_ents s').
Proof.
  intros HI H Hnc He Ho Hv.
  assert (F0 : frozen k vs (s_ents s)) by (exists e; auto).
  assert (NG : forall g, aget g (s_guards s) <> Some k) by (intros g; eapply unlocked_no_guard; eauto).
  destruct l; cbn [step] in H.
  - unfold do_start in H. destruct (amem a (s_ops s)); [discriminate|]. destruct c0.
    + destruct (lim_ok lim); inv H; auto.
    + destruct (guard_live s g); inv H. cbn. apply begin_unlock_frozen; auto.
    + destruct (c_lru c && Z.leb 0 d)%bool; [|discriminate]. destruct (cutoff_of _ _); inv H; auto.
    + inv H; auto.
    + inv H; auto.
    + inv H; auto.
  - unfold do_resume in H. destruct (aget a (s_ops s)) as [p|] eqn:Ha; [|discriminate].
    assert (L : forall sh k0 s' o, do_lookup c s a sh k0 = ROk s' o -> frozen k vs (s_ents s')).
    { intros sh k0 s1 o1 H1. unfold do_lookup in H1. destruct (aget k0 (s_ents s)) as [e0|] eqn:He0.
      - inv H1. cbn. eapply frozen_aset; [rewrite promote_if_lru_get; eauto|auto|apply frozen_promote; auto].
      - cbn [new_guard] in H1. inv H1. cbn. apply frozen_insert; auto. }
    destruct p; try discriminate; try (apply cs_ok in H).
    + unfold do_enter in H. destruct lim as [n|]; [|eapply L; eauto].
      destruct (length (s_ents s) - (n - 1)); [eapply L; eauto|].
      destruct (iter_order c s o0); [|discriminate].
      destruct (evict_scan (s_ents s) l (S n0)) as [[[|k1 ks]|]|]; try discriminate; [eapply L; eauto|].
      pose proof (lock_keys_frozen k vs (k1 :: ks) s F0) as V. destruct (lock_keys s (k1 :: ks)) as [s1 off]. inv H. apply V.
    + unfold do_key_try in H. destruct (aget k0 (s_ents s)) as [e0|] eqn:He0; [|discriminate].
      destruct (e_owner e0); inv H; auto. cbn. eapply frozen_aset; eauto.
    + unfold do_key_wait in H. destruct (aget k0 (s_ents s)) as [e0|] eqn:He0; [|discriminate].
      destruct (e_owner e0); inv H; cbn; eapply frozen_aset; eauto.
    + unfold do_queued in H. destruct (aget k0 (s_ents s)) as [e0|] eqn:He0; [|discriminate].
      destruct (own_is_waiter _ a); inv H. cbn. eapply frozen_aset; eauto.
    + unfold do_cleanup in H. destruct (cleanup_ents (s_ents s) k0) as [[ents|]|] eqn:Hc; inv H.
      cbn. eapply cleanup_frozen; eauto.
    + destruct (cancel_ents c (s_ents s) a k0) as [[ents|]|] eqn:Hc; inv H. cbn. eapply cancel_frozen; eauto.
    + unfold do_drops in H. destruct gs as [|g rest]; [discriminate|].
      destruct (unlock_cs c s g) as [[s1|]|] eqn:Hu; try discriminate.
      pose proof (unlock_cs_frozen c k vs s g s1 Hu F0) as V.
      destruct rest as [|g' rest']; [destruct af|]; inv H; auto.
      cbn. apply begin_unlock_frozen; auto.
      rewrite (unlock_cs_guards c s g s1 Hu). rewrite aget_adel. destruct (Nat.eqb g' g); [discriminate|apply NG].
    + unfold do_scan in H. destruct (iter_order c s o0); [|discriminate].
      pose proof (lock_keys_frozen k vs (expired_keys (s_ents s) l cutoff) s F0) as V.
      destruct (lock_keys s _) as [s1 ll]. inv H. apply V.
    + unfold do_stream_enter in H. destruct (iter_order c s o0); inv H. cbn. apply clone_all_frozen; auto.
    + inv H. auto.
    + destruct (iter_order c s o0); inv H. auto.
  - unfold do_sub in H. destruct (aget a (s_ops s)) as [p|] eqn:Ha; [|discriminate].
    destruct p; try discriminate.
    + assert (P : do_sub_poll c s a subs k0 = ROk s' o -> frozen k vs (s_ents s')).
      { intros H1. unfold do_sub_poll in H1. destruct (aget k0 subs) as [st|]; [|discriminate].
        destruct (aget k0 (s_ents s)) as [e0|] eqn:He0; [|discriminate].
        destruct st.
        - destruct (e_owner e0).
          + inv H1. cbn. eapply frozen_aset; eauto.
          + cbn [new_guard] in H1. destruct (val_of e0); inv H1; cbn; eapply frozen_aset; eauto.
        - destruct (own_is_waiter _ a); [|discriminate]. cbn [new_guard] in H1.
          destruct (val_of e0); inv H1; cbn; eapply frozen_aset; eauto.
        - destruct (unlock_cs c s g) as [[s1|]|] eqn:Hu; inv H1. cbn. eapply unlock_cs_frozen; eauto. }
      destruct (aget k0 subs) as [[| |g]|]; try (apply cs_ok in H); apply P; auto.
    + apply cs_ok in H. unfold do_sub_drop in H. destruct (aget k0 subs) as [st|]; [|discriminate].
      destruct st; try discriminate;
        (destruct (cancel_ents c (s_ents s) a k0) as [[ents|]|] eqn:Hc; try discriminate;
         pose proof (cancel_frozen c k vs _ a k0 ents Hc F0) as V;
         destruct (adel k0 subs); inv H; auto).
  - unfold do_pollend in H. destruct (aget a (s_ops s)) as [[]|]; try discriminate. destruct subs; inv H; auto.
  - unfold do_cancel in H. destruct (aget a (s_ops s)) as [[]|]; try discriminate.
    + destruct (sh_is_async sh); inv H; auto.
    + destruct (sh_is_async sh); inv H; auto.
    + destruct (existsb _ subs); [discriminate|]. destruct subs; inv H; auto.
  - unfold do_guard_op in H. destruct (negb (guard_live s g)); [discriminate|].
    destruct (aget g (s_guards s)) as [k0|] eqn:Hg; [|discriminate].
    destruct (aget k0 (s_ents s)) as [e0|] eqn:He0; [|discriminate].
    assert (k0 <> k) by (intros ->; eapply NG; eauto).
    destruct op; try (destruct (e_val e0) as [[? ?]|]); inv H; auto; cbn; apply frozen_aset_other; auto.
  - unfold do_cbreturn in H. destruct (aget a (s_ops s)) as [[]|]; try discriminate.
    destruct hold.
    + destruct offered as [|g rest]; [discriminate|]. destruct (all_live s _ && _)%bool; inv H.
      cbn. apply begin_unlock_frozen; auto.
    + destruct r; inv H; auto.
  - destruct (Z.leb 0 d); inv H. auto.
  - exfalso. eapply Hnc; eauto.
Qed.

(* along any run during which the entry is never locked (its owner is None in every state before a step) *)
Inductive steps_unlocked (c : cfg) (k : key) : state -> list label -> state -> Prop :=
| su_nil s : steps_unlocked c k s [] s
| su_cons s l s' o ls s'' e :
    step c s l = ROk s' o -> (forall o', l <> LConsume o') ->
    aget k (s_ents s) = Some e -> e_owner e = None ->
    steps_unlocked c k s' ls s'' -> steps_unlocked c k s (l :: ls) s''.

Theorem idle_entry_keeps_value_and_stamp c k s ls s' vs :
  Inv s -> frozen k vs (s_ents s) -> steps_unlocked c k s ls s' -> frozen k vs (s_ents s').
Proof.
  intros HI Hf H. induction H; auto.
  destruct Hf as (e0 & He0 & Hv0). rewrite H1 in He0. inv He0.
  apply IHsteps_unlocked; [eapply step_inv; eauto|eapply step_unlocked_frozen; eauto].
Qed.

(* ... hence a later expiry scan whose cut-off has reached the stamp returns it (if it is still unlocked) *)
Theorem idle_entry_eventually_returned c k s ls s' v st a ct o s'' l e' :
  Inv s -> frozen k (v, st) (s_ents s) -> steps_unlocked c k s ls s' ->
  aget k (s_ents s') = Some e' -> e_owner e' = None ->
  aget a (s_ops s') = Some (PScan ct) -> (st <= ct)%Z ->
  step c s' (LResume a o) = ROk s'' (OExpired l) ->
  In k (map okey l).
Proof.
  intros HI Hf Hs He' Ho' Ha Hle H.
  assert (HI' : Inv s').
  { clear -HI Hs. induction Hs; auto. apply IHHs. eapply step_inv; eauto. }
  destruct (idle_entry_keeps_value_and_stamp c k s ls s' (v, st) HI Hf Hs) as (e1 & He1 & Hv1).
  rewrite He' in He1. inv He1.
  destruct (scan_exact c s' a ct o s'' l HI' Ha H) as (_ & Hiff & _).
  apply Hiff. exists e1, v, st. auto.
Qed.
