(* C11, end to end: over the whole life of a lock_all_entries stream -- any run, any interleaving with other
   agents -- every key of its snapshot is yielded at most once, nothing else is yielded, and when the
   stream reports its end every snapshot key was either yielded or found without a value at the moment
   the stream obtained its lock. *)
From Coq Require Import List Arith ZArith Bool Lia.
From LK Require Import AList AListFacts Model Inv StepInv NoPanic PropLemmas DropInv.
Import ListNotations.

Definition label_agent (l : label) : option aid :=
  match l with
  | LStart a _ | LResume a _ | LSub a _ _ | LPollEnd a | LCancel a | LCbReturn a _ _ => Some a
  | LGuardOp _ _ | LTick _ | LConsume _ => None
  end.

Ltac ops_done Hne :=
  cbn [s_ops set_pc fin with_ops with_ents with_guards with_gid with_clock new_guard fst snd];
  rewrite ?begin_unlock_ops; rewrite ?aget_aset_neq by (intros E; apply Hne; rewrite E; reflexivity);
  rewrite ?aget_adel_neq by (intros E; apply Hne; rewrite E; reflexivity); auto.

(* a step of one agent (or of no agent) leaves the program counter of every other agent alone *)
Lemma step_ops_other c s l s' o a :
  step c s l = ROk s' o -> label_agent l <> Some a -> (forall oc, l <> LConsume oc) ->
  aget a (s_ops s') = aget a (s_ops s).
Proof.
  intros H Hne Hnc. destruct l; cbn [step] in H; cbn [label_agent] in Hne.
  - unfold do_start in H. destruct (amem a0 (s_ops s)); [discriminate|]. destruct c0.
    + destruct (lim_ok lim); inv H. ops_done Hne.
    + destruct (guard_live s g); inv H. ops_done Hne.
    + destruct (c_lru c && Z.leb 0 d)%bool; [|discriminate]. destruct (cutoff_of _ _); inv H; ops_done Hne.
    + inv H; ops_done Hne.
    + inv H; ops_done Hne.
    + inv H; ops_done Hne.
  - unfold do_resume in H. destruct (aget a0 (s_ops s)) as [p|] eqn:Ha; [|discriminate].
    assert (L : forall sh k0 s' o, do_lookup c s a0 sh k0 = ROk s' o -> aget a (s_ops s') = aget a (s_ops s)).
    { intros sh k0 s1 o1 H1. unfold do_lookup in H1. destruct (aget k0 (s_ents s)) as [e0|].
      - inv H1. destruct (sh_is_try sh); ops_done Hne.
      - cbn [new_guard] in H1. inv H1. ops_done Hne. }
    destruct p; try discriminate; try (apply cs_ok in H).
    + unfold do_enter in H. destruct lim as [n|]; [|eapply L; eauto].
      destruct (length (s_ents s) - (n - 1)); [eapply L; eauto|].
      destruct (iter_order c s o0); [|discriminate].
      destruct (evict_scan (s_ents s) l (S n0)) as [[[|k1 ks]|]|]; try discriminate; [eapply L; eauto|].
      destruct (lock_keys_ops_guards (k1 :: ks) s) as [V _].
      destruct (lock_keys s (k1 :: ks)) as [s1 off]. cbn [fst] in V. inv H. ops_done Hne. rewrite V. auto.
    + unfold do_key_try in H. destruct (aget k (s_ents s)) as [e0|]; [|discriminate].
      destruct (e_owner e0); inv H; ops_done Hne.
    + unfold do_key_wait in H. destruct (aget k (s_ents s)) as [e0|]; [|discriminate].
      destruct (e_owner e0); inv H; ops_done Hne.
    + unfold do_queued in H. destruct (aget k (s_ents s)) as [e0|]; [|discriminate].
      destruct (own_is_waiter _ a0); inv H. ops_done Hne.
    + unfold do_cleanup in H. destruct (cleanup_ents (s_ents s) k) as [[ents|]|]; inv H. ops_done Hne.
    + destruct (cancel_ents c (s_ents s) a0 k) as [[ents|]|]; inv H. ops_done Hne.
    + unfold do_drops in H. destruct gs as [|g rest]; [discriminate|].
      destruct (unlock_cs c s g) as [[s1|]|] eqn:Hu; try discriminate.
      pose proof (unlock_cs_ops c s g s1 Hu) as V.
      destruct rest as [|g' rest']; [destruct af|]; inv H; ops_done Hne; rewrite V; auto.
    + unfold do_scan in H. destruct (iter_order c s o0); [|discriminate].
      destruct (lock_keys_ops_guards (expired_keys (s_ents s) l cutoff) s) as [V _].
      destruct (lock_keys s _) as [s1 ll]. cbn [fst] in V. inv H. ops_done Hne. rewrite V. auto.
    + unfold do_stream_enter in H. destruct (iter_order c s o0); inv H. ops_done Hne.
    + inv H. ops_done Hne.
    + destruct (iter_order c s o0); inv H. ops_done Hne.
  - unfold do_sub in H. destruct (aget a0 (s_ops s)) as [p|] eqn:Ha; [|discriminate].
    destruct p; try discriminate.
    + assert (P : do_sub_poll c s a0 subs k = ROk s' o -> aget a (s_ops s') = aget a (s_ops s)).
      { intros H1. unfold do_sub_poll in H1. destruct (aget k subs) as [st|]; [|discriminate].
        destruct (aget k (s_ents s)) as [e0|]; [|discriminate].
        destruct st.
        - destruct (e_owner e0).
          + inv H1. ops_done Hne.
          + cbn [new_guard] in H1. destruct (val_of e0); inv H1; ops_done Hne.
        - destruct (own_is_waiter _ a0); [|discriminate]. cbn [new_guard] in H1.
          destruct (val_of e0); inv H1; ops_done Hne.
        - destruct (unlock_cs c s g) as [[s1|]|] eqn:Hu; inv H1. pose proof (unlock_cs_ops c s g s1 Hu) as V.
          ops_done Hne. rewrite V. auto. }
      destruct (aget k subs) as [[| |g]|]; try (apply cs_ok in H); apply P; auto.
    + apply cs_ok in H. unfold do_sub_drop in H. destruct (aget k subs) as [st|]; [|discriminate].
      destruct st; try discriminate;
        (destruct (cancel_ents c (s_ents s) a0 k) as [[ents|]|]; try discriminate;
         destruct (adel k subs); inv H; ops_done Hne).
  - unfold do_pollend in H. destruct (aget a0 (s_ops s)) as [[]|]; try discriminate. destruct subs; inv H; auto.
  - unfold do_cancel in H. destruct (aget a0 (s_ops s)) as [[]|]; try discriminate.
    + destruct (sh_is_async sh); inv H; ops_done Hne.
    + destruct (sh_is_async sh); inv H; ops_done Hne.
    + destruct (existsb _ subs); [discriminate|]. destruct subs; inv H; ops_done Hne.
  - unfold do_guard_op in H. destruct (negb (guard_live s g)); [discriminate|].
    destruct (aget g (s_guards s)) as [k0|]; [|discriminate].
    destruct (aget k0 (s_ents s)) as [e0|]; [|discriminate].
    destruct op; try (destruct (e_val e0) as [[? ?]|]); inv H; auto.
  - unfold do_cbreturn in H. destruct (aget a0 (s_ops s)) as [[]|]; try discriminate.
    destruct hold.
    + destruct offered as [|g rest]; [discriminate|]. destruct (all_live s _ && _)%bool; inv H. ops_done Hne.
    + destruct r; inv H; ops_done Hne.
  - destruct (Z.leb 0 d); inv H. auto.
  - exfalso. eapply Hnc; eauto.
Qed.

(* ------------------------------------------------------------------ *)
(* what a step of the stream itself does to its pending set *)

Definition waiting_sub (o : option sub) : Prop := o = Some SInit \/ o = Some SQueued.

Lemma stream_own_step c s a subs k orc s' ob :
  aget a (s_ops s) = Some (PStream subs) -> step c s (LSub a k orc) = ROk s' ob ->
  exists subs', aget a (s_ops s') = Some (PStream subs') /\
    (forall k', k' <> k -> aget k' subs' = aget k' subs) /\
    ( (exists g v, ob = OItem g k v /\ waiting_sub (aget k subs) /\ aget k subs' = None /\ vof s k = Some v)
    \/ (ob = ONothing /\ aget k subs = Some SInit /\ aget k subs' = Some SQueued)
    \/ (ob = ONothing /\ waiting_sub (aget k subs) /\ vof s k = None /\
        exists g, aget k subs' = Some (SUnlocking g) /\ In (g, k) (s_guards s'))
    \/ (ob = ONothing /\ exists g, aget k subs = Some (SUnlocking g) /\ aget k subs' = None)).
Proof.
  intros Ha H. cbn in H. unfold do_sub in H. rewrite Ha in H.
  match goal with |- ?G => assert (P : do_sub_poll c s a subs k = ROk s' ob -> G) end;
    [|destruct (aget k subs) as [[| |g]|]; try (apply cs_ok in H); apply P; exact H].
  intros H1. unfold do_sub_poll in H1. destruct (aget k subs) as [st|] eqn:Hk; [|discriminate].
  destruct (aget k (s_ents s)) as [e0|] eqn:He; [|discriminate].
  assert (ACQ : waiting_sub (Some st) ->
    (let (s1, g) := new_guard s k in
     let s2 := with_ents s1 (aset k (set_owner e0 (Some (OwnG g))) (s_ents s1)) in
     match val_of e0 with
     | Some v => ROk (set_pc s2 a (PStream (adel k subs))) (OItem g k v)
     | None => ROk (set_pc s2 a (PStream (aset k (SUnlocking g) subs))) ONothing
     end) = ROk s' ob ->
    exists subs', aget a (s_ops s') = Some (PStream subs') /\
    (forall k', k' <> k -> aget k' subs' = aget k' subs) /\
    ( (exists g v, ob = OItem g k v /\ waiting_sub (Some st) /\ aget k subs' = None /\ vof s k = Some v)
    \/ (ob = ONothing /\ Some st = Some SInit /\ aget k subs' = Some SQueued)
    \/ (ob = ONothing /\ waiting_sub (Some st) /\ vof s k = None /\
        exists g, aget k subs' = Some (SUnlocking g) /\ In (g, k) (s_guards s'))
    \/ (ob = ONothing /\ exists g, Some st = Some (SUnlocking g) /\ aget k subs' = None))).
  { intros W H2. cbn [new_guard] in H2. destruct (val_of e0) as [v|] eqn:Ev; inv H2.
    - exists (adel k subs). split; [cbn; apply aget_aset_eq|]. split; [intros; apply aget_adel_neq; auto|].
      left. exists (s_gid s), v. split; auto. split; auto. split; [apply aget_adel_eq|].
      unfold vof, vof_e. rewrite He. auto.
    - exists (aset k (SUnlocking (s_gid s)) subs). split; [cbn; apply aget_aset_eq|].
      split; [intros; apply aget_aset_neq; auto|].
      right. right. left. split; auto. split; auto. split; [unfold vof, vof_e; rewrite He; auto|].
      exists (s_gid s). split; [apply aget_aset_eq|]. cbn. auto. }
  destruct st.
  - destruct (e_owner e0).
    + inv H1. exists (aset k SQueued subs). split; [cbn; apply aget_aset_eq|].
      split; [intros; apply aget_aset_neq; auto|]. right. left. split; auto. split; auto. apply aget_aset_eq.
    + apply ACQ; [left; auto|exact H1].
  - destruct (own_is_waiter _ a); [|discriminate]. apply ACQ; [right; auto|exact H1].
  - destruct (unlock_cs c s g) as [[s1|]|] eqn:Hu; inv H1.
    exists (adel k subs). split; [cbn; apply aget_aset_eq|]. split; [intros; apply aget_adel_neq; auto|].
    right. right. right. split; auto. exists g. split; auto. apply aget_adel_eq.
Qed.

(* the labels the stream's own agent can take while it is live *)
Lemma stream_labels c s a subs l s' ob :
  aget a (s_ops s) = Some (PStream subs) -> step c s l = ROk s' ob -> label_agent l = Some a ->
  (exists k orc, l = LSub a k orc) \/ (l = LPollEnd a /\ s' = s) \/ l = LCancel a.
Proof.
  intros Ha H Hl. destruct l; cbn in Hl; inv Hl; cbn [step] in H.
  - unfold do_start in H. unfold amem in H. rewrite Ha in H. discriminate.
  - unfold do_resume in H. rewrite Ha in H. discriminate.
  - left. eauto.
  - right. left. split; auto. unfold do_pollend in H. rewrite Ha in H. destruct subs; inv H; auto.
  - right. right. auto.
  - unfold do_cbreturn in H. rewrite Ha in H. discriminate.
Qed.

Lemma option_eq_dec_aid (o : option aid) (a : aid) : {o = Some a} + {o <> Some a}.
Proof. destruct o as [x|]; [destruct (Nat.eq_dec x a); [left; congruence|right; congruence]|right; discriminate]. Qed.

(* ------------------------------------------------------------------ *)
(* runs with their observations *)

Definition ev := (state * label * obs * state)%type.
Definition ev_label (e : ev) : label := snd (fst (fst e)).

Inductive otrace (c : cfg) : state -> list ev -> state -> Prop :=
| ot_nil s : otrace c s [] s
| ot_cons s l o s' tr s'' : step c s l = ROk s' o -> otrace c s' tr s'' -> otrace c s ((s, l, o, s') :: tr) s''.

Definition yield_of (a : aid) (e : ev) : list key :=
  match e with
  | (_, LSub a' _ _, OItem _ k _, _) => if Nat.eqb a' a then [k] else []
  | _ => []
  end.
Definition yields (a : aid) (tr : list ev) : list key := flat_map (yield_of a) tr.

(* the stream obtained the lock of k in this step and found no value under it *)
Definition locked_valueless (a : aid) (k : key) (e : ev) : Prop :=
  let '(s, l, o, s') := e in
  exists orc subs g subs', l = LSub a k orc /\ aget a (s_ops s) = Some (PStream subs) /\ waiting_sub (aget k subs) /\
    vof s k = None /\ aget a (s_ops s') = Some (PStream subs') /\ aget k subs' = Some (SUnlocking g) /\ In (g, k) (s_guards s').

Theorem stream_exactly_once c a : forall tr s0 s' subs0,
  otrace c s0 tr s' -> aget a (s_ops s0) = Some (PStream subs0) ->
  (forall e, In e tr -> ev_label e <> LCancel a) ->
  exists subs', aget a (s_ops s') = Some (PStream subs') /\
    NoDup (yields a tr) /\
    (forall k, In k (yields a tr) -> waiting_sub (aget k subs0) /\ aget k subs' = None) /\
    (forall k, aget k subs' <> None -> aget k subs0 <> None) /\
    (forall k, waiting_sub (aget k subs0) ->
       In k (yields a tr) \/ (exists e, In e tr /\ locked_valueless a k e) \/ waiting_sub (aget k subs')).
Proof.
  intros tr s0 s' subs0 H. revert subs0. induction H as [s|s l o s1 tr s'' Hstep Htr IH]; intros subs0 Ha Hnc.
  - exists subs0. split; auto. split; [constructor|]. split; [intros k []|]. split; auto.
  - assert (Hnc' : forall e, In e tr -> ev_label e <> LCancel a) by (intros e He; apply Hnc; right; auto).
    assert (Hl : l <> LCancel a) by (apply (Hnc (s, l, o, s1)); left; auto).
    assert (Hncons : forall oc, l <> LConsume oc).
    { intros oc ->. cbn in Hstep. unfold do_consume in Hstep. destruct (s_ops s); [discriminate|]. discriminate. }
    (* what the first step does to the pending set *)
    assert (ST : exists subs1, aget a (s_ops s1) = Some (PStream subs1) /\
              ( (yield_of a (s, l, o, s1) = [] /\ subs1 = subs0) \/
                (exists k orc, l = LSub a k orc /\ (forall k', k' <> k -> aget k' subs1 = aget k' subs0) /\
                   ( (exists g v, o = OItem g k v /\ waiting_sub (aget k subs0) /\ aget k subs1 = None)
                   \/ (o = ONothing /\ aget k subs0 = Some SInit /\ aget k subs1 = Some SQueued)
                   \/ (o = ONothing /\ waiting_sub (aget k subs0) /\ locked_valueless a k (s, l, o, s1) /\
                       exists g, aget k subs1 = Some (SUnlocking g))
                   \/ (o = ONothing /\ exists g, aget k subs0 = Some (SUnlocking g) /\ aget k subs1 = None))))).
    { destruct (option_eq_dec_aid (label_agent l) a) as [E|E].
      - destruct (stream_labels c s a subs0 l s1 o Ha Hstep E) as [(k & orc & ->)|[[-> ->]| -> ]]; [|eauto|congruence].
        destruct (stream_own_step c s a subs0 k orc s1 o Ha Hstep) as (subs1 & Ha1 & Hoth & Hcase).
        exists subs1. split; auto. right. exists k, orc. split; auto. split; auto.
        destruct Hcase as [(g & v & -> & W & N & _)|[(-> & I & Q)|[(-> & W & V & g & U & G)|(-> & g & U & N)]]].
        + left. eauto.
        + right. left. auto.
        + right. right. left. split; auto. split; auto. split; [|eauto].
          exists orc, subs0, g, subs1. auto 10.
        + right. right. right. eauto.
      - exists subs0. split.
        + rewrite (step_ops_other c s l s1 o a Hstep E Hncons). auto.
        + left. split; auto. destruct l; cbn in E |- *; auto. destruct o; auto.
          destruct (Nat.eqb_spec a0 a); [subst; congruence|auto]. }
    destruct ST as (subs1 & Ha1 & ST).
    destruct (IH subs1 Ha1 Hnc') as (subs' & Ha' & Y1 & Y2 & Y3 & Y4).
    exists subs'. split; auto.
    destruct ST as [[Ey ->]|(k & orc & -> & Hoth & Hcase)].
    + unfold yields. cbn [flat_map]. fold (yields a tr). rewrite Ey. cbn [app].
      split; auto. split; auto. split; auto.
      intros k W. destruct (Y4 k W) as [?|[(e & He & L)|?]]; auto. right. left. exists e. split; auto. right. auto.
    + assert (FR : forall k', k' <> k -> waiting_sub (aget k' subs0) ->
               In k' (yields a tr) \/ (exists e, In e ((s, LSub a k orc, o, s1) :: tr) /\ locked_valueless a k' e) \/
               waiting_sub (aget k' subs')).
      { intros k' Hne W. rewrite <- (Hoth k' Hne) in W.
        destruct (Y4 k' W) as [?|[(e & He & L)|?]]; auto. right. left. exists e. split; auto. right. auto. }
      unfold yields. cbn [flat_map]. fold (yields a tr).
      destruct Hcase as [(g & v & -> & W & N)|[(-> & I & Q)|[(-> & W & LV & g & U)|(-> & g & U & N)]]].
      * (* yielded now: cannot be yielded again *)
        cbn [yield_of]. rewrite Nat.eqb_refl. cbn [app].
        assert (Hnot : ~ In k (yields a tr)).
        { intros Hin. destruct (Y2 k Hin) as [[W1|W1] _]; congruence. }
        split; [constructor; auto|].
        split.
        { intros k' [<-|Hin]; [split; auto; destruct (aget k subs') eqn:E; auto; exfalso; apply (Y3 k); congruence|].
          destruct (Y2 k' Hin) as [W' N']. split; auto.
          destruct (Nat.eq_dec k' k) as [->|Hne]; [exfalso; auto|]. rewrite <- (Hoth k' Hne). auto. }
        split.
        { intros k' Hk'. destruct (Nat.eq_dec k' k) as [->|Hne].
          - destruct W as [W|W]; congruence.
          - rewrite <- (Hoth k' Hne). auto. }
        intros k' W'. destruct (Nat.eq_dec k' k) as [->|Hne]; [left; left; auto|].
        destruct (FR k' Hne W') as [?|[?|?]]; auto. left. right. auto.
      * (* enqueued *)
        cbn [yield_of app].
        split; auto.
        split.
        { intros k' Hin. destruct (Y2 k' Hin) as [W' N']. split; auto.
          destruct (Nat.eq_dec k' k) as [->|Hne]; [left; auto|]. rewrite <- (Hoth k' Hne). auto. }
        split.
        { intros k' Hk'. destruct (Nat.eq_dec k' k) as [->|Hne]; [congruence|]. rewrite <- (Hoth k' Hne). auto. }
        intros k' W'. destruct (Nat.eq_dec k' k) as [->|Hne]; [|apply FR; auto].
        destruct (Y4 k (or_intror Q)) as [?|[(e & He & L)|?]]; auto. right. left. exists e. split; auto. right. auto.
      * (* locked, valueless *)
        cbn [yield_of app].
        split; auto.
        split.
        { intros k' Hin. destruct (Y2 k' Hin) as [W' N']. split; auto.
          destruct (Nat.eq_dec k' k) as [->|Hne]; [auto|]. rewrite <- (Hoth k' Hne). auto. }
        split.
        { intros k' Hk'. destruct (Nat.eq_dec k' k) as [->|Hne]; [destruct W as [W|W]; congruence|].
          rewrite <- (Hoth k' Hne). auto. }
        intros k' W'. destruct (Nat.eq_dec k' k) as [->|Hne]; [|apply FR; auto].
        right. left. exists (s, LSub a k orc, ONothing, s1). split; [left; auto|auto].
      * (* the valueless guard is dropped *)
        cbn [yield_of app].
        split; auto.
        split.
        { intros k' Hin. destruct (Y2 k' Hin) as [W' N']. split; auto.
          destruct (Nat.eq_dec k' k) as [->|Hne]; [destruct W' as [W'|W']; congruence|]. rewrite <- (Hoth k' Hne). auto. }
        split.
        { intros k' Hk'. destruct (Nat.eq_dec k' k) as [->|Hne]; [congruence|]. rewrite <- (Hoth k' Hne). auto. }
        intros k' W'. destruct (Nat.eq_dec k' k) as [->|Hne]; [destruct W' as [W'|W']; congruence|apply FR; auto].
Qed.

(* a fresh stream (pending set = its snapshot ks) that has reported its end *)
Corollary stream_fresh_complete c a tr s0 s' ks :
  otrace c s0 tr s' -> aget a (s_ops s0) = Some (PStream (init_subs ks)) ->
  (forall e, In e tr -> ev_label e <> LCancel a) ->
  aget a (s_ops s') = Some (PStream []) ->
  NoDup (yields a tr) /\ (forall k, In k (yields a tr) -> In k ks) /\
  (forall k, In k ks -> In k (yields a tr) \/ exists e, In e tr /\ locked_valueless a k e).
Proof.
  intros H Ha Hnc Hend.
  destruct (stream_exactly_once c a tr s0 s' (init_subs ks) H Ha Hnc) as (subs' & Ha' & Y1 & Y2 & Y3 & Y4).
  rewrite Hend in Ha'. inv Ha'.
  assert (M : forall k, waiting_sub (aget k (init_subs ks)) <-> In k ks).
  { intros k. rewrite aget_init_subs. destruct (mem_nat k ks) eqn:E.
    - apply mem_nat_In in E. split; auto. intros _. left. auto.
    - split; [intros [W|W]; discriminate|]. intros Hin. apply mem_nat_In in Hin. congruence. }
  split; auto. split.
  - intros k Hin. apply M. apply (Y2 k Hin).
  - intros k Hin. destruct (Y4 k (proj2 (M k) Hin)) as [?|[?|[W|W]]]; auto; discriminate.
Qed.

(* ------------------------------------------------------------------ *)
(* C02 over whole runs: between two moments, the value under a key is what it was unless a guard
   operation on a guard for that key (or consuming the container) happened in between. *)

Definition touches (k : key) (e : ev) : Prop :=
  let '(s, l, o, s') := e in
  match l with
  | LGuardOp g _ => aget g (s_guards s) = Some k
  | LConsume _ => True
  | _ => False
  end.

Theorem value_only_changed_by_own_guard_ops c k : forall tr s s',
  otrace c s tr s' -> (forall e, In e tr -> ~ touches k e) -> vof s' k = vof s k.
Proof.
  intros tr s s' H. induction H as [s|s l o s1 tr s'' Hstep Htr IH]; intros Hno; auto.
  rewrite IH by (intros e He; apply Hno; right; auto).
  assert (Hl : ~ touches k (s, l, o, s1)) by (apply Hno; left; auto).
  destruct (changes_values l) eqn:Ec.
  - destruct l; try discriminate.
    + (* a guard operation on another key *)
      cbn in Hl. pose proof Hstep as H0. cbn in H0. unfold do_guard_op in H0.
      destruct (negb (guard_live s g)); [discriminate|].
      destruct (aget g (s_guards s)) as [k0|] eqn:Hg; [|discriminate].
      apply (guard_op_local c s g op s1 o k0 Hstep Hg). intros ->. auto.
    + exfalso. apply Hl. cbn. auto.
  - apply (step_values_unchanged c s l s1 o Hstep Ec).
Qed.

Lemma otrace_inv c tr : forall s s', Inv s -> otrace c s tr s' -> Inv s'.
Proof. intros s s' HI H. induction H; auto. apply IHotrace. eapply step_inv; eauto. Qed.

(* ... so a guard obtained later shows exactly what was there: what the previous guard for the key left *)
Theorem next_guard_sees_what_was_left c k tr s s' l s'' g v :
  Inv s -> otrace c s tr s' -> (forall e, In e tr -> ~ touches k e) ->
  step c s' l = ROk s'' (OGuard g k v) -> v = vof s k.
Proof.
  intros HI Htr Hno Hstep.
  rewrite (guard_obs_value c s' l s'' g k v (otrace_inv c tr s s' HI Htr) Hstep).
  apply (value_only_changed_by_own_guard_ops c k tr s s' Htr Hno).
Qed.
