(* C01 — per-key mutual exclusion.  Statements only; proofs are in PropLemmas.v / StepInv.v. *)
From Coq Require Import List Arith ZArith.
From LK Require Import AList Model Inv StepInv PropLemmas Fine Seq DropInv Stream SeqRefine SeqLimit Conc.
Import ListNotations.

(* In every reachable state of either back-end (c_lru c = true: LockableLruCache, false: LockableHashMap
   and LockPool) no two live Guard objects have the same key -- whatever produced them: a lock call of
   any of the four shapes, the eviction scan, the expiry scan or a lock_all_entries stream. *)
Theorem C01_mutex : forall c s, reachable c s -> NoDup (map snd (s_guards s)).
Proof. intros c s H. exact (guards_unique_key s (reachable_inv c s H)). Qed.

(* ... also in the middle of a critical section: in every state of a fine-grained run (Fine.v: `_unlock` and
   `PendingLock::drop` split at the release of the key mutex, lock-free steps of other agents in between)
   no two guards the clients hold have the same key *)
Theorem C01_mutex_fine_grained : forall c s0 evs fs g1 g2 k,
  reachable c s0 -> fruns c (s0, None) evs fs ->
  In (g1, k) (s_guards (fst fs)) -> In (g2, k) (s_guards (fst fs)) -> g1 = g2.
Proof.
  intros c s0 evs fs g1 g2 k Hr Hrun.
  assert (HR : Rel c (s0, None)).
  { split; [eapply reachable_inv; eauto|]. split; [eapply DropInv.reachable_dinv; eauto|exact I]. }
  destruct (fine_run_linearises c _ _ _ HR Hrun) as [_ HR']. exact (fine_mutual_exclusion c fs g1 g2 k HR').
Qed.

(* While a guard for k is alive ... a try variant takes the failure path (and reports None), *)
Theorem C01_try_fails_while_held : forall c s a sh k g o,
  reachable c s -> aget g (s_guards s) = Some k -> aget a (s_ops s) = Some (PKeyTry sh k) ->
  step c s (LResume a o) = ROk (set_pc s a (PCleanup sh k)) ONothing.
Proof. intros c s a sh k g o H. exact (held_try_fails c s a sh k g o (reachable_inv c s H)). Qed.

Theorem C01_failed_try_reports_none : forall c s a sh k o s' ob,
  aget a (s_ops s) = Some (PCleanup sh k) -> step c s (LResume a o) = ROk s' ob -> ob = OTryFail.
Proof. exact cleanup_reports_fail. Qed.

(* ... a blocking/async acquirer is queued without getting a guard, *)
Theorem C01_wait_enqueues_while_held : forall c s a sh k g o,
  reachable c s -> aget g (s_guards s) = Some k -> aget a (s_ops s) = Some (PKeyWait sh k) ->
  exists s', step c s (LResume a o) = ROk s' ONothing /\ aget a (s_ops s') = Some (PQueued sh k) /\
             s_guards s' = s_guards s.
Proof. intros c s a sh k g o H. exact (held_wait_enqueues c s a sh k g o (reachable_inv c s H)). Qed.

(* ... and a queued acquirer cannot make a step. *)
Theorem C01_waiter_blocked_while_held : forall c s a sh k g o,
  reachable c s -> aget g (s_guards s) = Some k -> aget a (s_ops s) = Some (PQueued sh k) ->
  step c s (LResume a o) = RInvalid.
Proof. intros c s a sh k g o H. exact (held_waiter_blocked c s a sh k g o (reachable_inv c s H)). Qed.

(* non-vacuity: a reachable state with a live guard on an absent key and a failed try *)
(* "A second acquirer waits until the first guard has been dropped", over whole histories: in every history of the
   plain map + locked set -- hence, by C05_concurrent_histories_linearise, in the history that explains any
   interleaving of the model -- two acquisitions of the same key have the release of the first guard between them. *)
Theorem C01_reacquisition_needs_release : forall sp sh k mid sh' sp' g v os_mid g' v',
  spec_acts sp (SLock sh k :: mid ++ [SLock sh' k]) = Some (sp', OGuard g k v :: os_mid ++ [OGuard g' k v']) ->
  In (SDrop g) mid.
Proof. exact reacquisition_needs_release. Qed.

Example C01_witness :
  run (mkCfg false) [LStart 0 (CLock ShBlocking 1 None); LResume 0 []; LStart 1 (CLock ShTry 1 None);
                     LResume 1 [1]; LResume 1 [1]; LResume 1 [1]]
  = RunOk (mkS [(1, mkE None (Some (OwnG 0)) [] 1)] [(0, 1)] [] 0%Z 1)
          [ONothing; OGuard 0 1 None; ONothing; ONothing; ONothing; OTryFail].
Proof. vm_compute. reflexivity. Qed.
