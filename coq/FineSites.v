(* The argument behind the pause points that need no theorem of their own (DESIGN section 4.7), made formal where it is a
   statement about the model: when the clean-up after a failed try takes its key's mutex (site 9) -- it does so only if
   its own handle is the last one -- nobody else can reach that mutex: no guard on the key exists and no other call
   in flight holds a handle for it. *)
From Coq Require Import List Arith ZArith Bool Lia.
From LK Require Import AList AListFacts Model Inv StepInv NoPanic PropLemmas.
Import ListNotations.

Lemma ops_handles_two ops : forall a a' p p' k,
  NoDup (akeys ops) -> a <> a' -> aget a ops = Some p -> aget a' ops = Some p' ->
  pc_handles p k + pc_handles p' k <= ops_handles ops k.
Proof.
  induction ops as [|[b q] t IH]; intros a a' p p' k Hnd Hne Ha Ha'; [discriminate|].
  cbn [akeys map fst] in Hnd. inversion Hnd as [|? ? Hnb Hnd']; subst.
  cbn [aget] in Ha, Ha'. cbn [ops_handles snd].
  destruct (Nat.eqb_spec a b) as [->|Hab]; destruct (Nat.eqb_spec a' b) as [->|Ha'b]; try congruence.
  - inv Ha. pose proof (agent_handles (mkS [] [] t 0%Z 0) a' p' k Ha'). cbn in *. lia.
  - inv Ha'. pose proof (agent_handles (mkS [] [] t 0%Z 0) a p k Ha). cbn in *. lia.
  - specialize (IH a a' p p' k Hnd' Hne Ha Ha'). lia.
Qed.

Theorem cleanup_last_handle_is_alone s a sh k e :
  Inv s -> aget a (s_ops s) = Some (PCleanup sh k) -> aget k (s_ents s) = Some e -> e_repl e = 1 ->
  (forall g, ~ In (g, k) (s_guards s)) /\
  (forall a' p', a' <> a -> aget a' (s_ops s) = Some p' -> pc_handles p' k = 0).
Proof.
  intros HI Ha He Hr.
  pose proof (ki_r _ _ (inv_k _ HI k) e He) as Hh. unfold handles in Hh. rewrite Hr in Hh.
  assert (Hown : pc_handles (PCleanup sh k) k = 1) by (cbn; rewrite Nat.eqb_refl; reflexivity).
  pose proof (agent_handles s a _ k Ha) as Hle. rewrite Hown in Hle.
  assert (Hg0 : gcount (s_guards s) k = 0) by lia.
  split.
  - intros g Hin. unfold gcount in Hg0.
    apply length_zero_iff_nil in Hg0.
    assert (Hf : In (g, k) (filter (fun gk : gid * nat => Nat.eqb (snd gk) k) (s_guards s))).
    { apply filter_In. split; auto. cbn. apply Nat.eqb_refl. }
    rewrite Hg0 in Hf. destruct Hf.
  - intros a' p' Hne Ha'.
    pose proof (ops_handles_two (s_ops s) a a' _ p' k (inv_nd_o _ HI) (fun E => Hne (eq_sym E)) Ha Ha') as H2.
    rewrite Hown in H2. lia.
Qed.

(* Site 4 (a pause after a look-up, still under the global lock): an entry whose only handle is the guard that locks it
   -- in particular the placeholder a look-up has just inserted and pre-locked -- cannot be reached by any call in
   flight: nobody holds a handle for it, so nobody can try, lock or queue on its mutex until the global lock is free. *)
Theorem entry_held_by_its_only_handle_is_unreachable s k e g :
  Inv s -> aget k (s_ents s) = Some e -> e_repl e = 1 -> e_owner e = Some (OwnG g) ->
  forall a p, aget a (s_ops s) = Some p -> pc_handles p k = 0.
Proof.
  intros HI He Hr Ho a p Ha.
  pose proof (ki_r _ _ (inv_k _ HI k) e He) as Hh. unfold handles in Hh. rewrite Hr in Hh.
  assert (Hg : aget g (s_guards s) = Some k) by (apply (ki_g _ _ (inv_k _ HI k)); eauto).
  assert (1 <= gcount (s_guards s) k).
  { unfold gcount. apply aget_In in Hg.
    assert (Hf : In (g, k) (filter (fun gk : gid * nat => Nat.eqb (snd gk) k) (s_guards s))).
    { apply filter_In. split; auto. cbn. apply Nat.eqb_refl. }
    destruct (filter (fun gk : gid * nat => Nat.eqb (snd gk) k) (s_guards s)); [destruct Hf|cbn; lia]. }
  pose proof (agent_handles s a p k Ha). lia.
Qed.

(* Site 5 (pauses between the try_locks of a scan) and every other pause inside a critical section: what other agents
   can do meanwhile are the lock-free steps of Fine.v.  None of them releases a key mutex: a mutex that is owned (by a
   guard, or handed to a waiter) before such a step is owned after it.  So the keys a scan found locked stay locked
   until the scan is over, and the keys it locked itself stay its own. *)
From LK Require Import Seq DropInv Fine.

Definition owned (s : state) (k : key) : Prop :=
  exists e, aget k (s_ents s) = Some e /\ e_owner e <> None.

Lemma owned_aset_other s ents k k0 (e0 : entry) :
  owned s k -> k <> k0 -> aget k ents = aget k (s_ents s) -> owned (with_ents s (aset k0 e0 ents)) k.
Proof.
  intros (e & He & Ho) Hne Hsame. exists e. split; auto. cbn. rewrite aget_aset_neq by auto. congruence.
Qed.

Lemma begin_unlock_owned c s g k : owned s k -> owned (begin_unlock c s g) k.
Proof.
  intros (e & He & Ho). unfold begin_unlock. destruct (c_lru c); [|exists e; auto].
  destruct (aget g (s_guards s)) as [k0|]; [|exists e; auto].
  destruct (aget k0 (s_ents s)) as [e0|] eqn:E0; [|exists e; auto].
  destruct (e_val e0) as [[v st]|]; [|exists e; auto].
  destruct (Nat.eq_dec k k0) as [->|Hne].
  - rewrite He in E0. inv E0. eexists. split; [cbn; apply aget_aset_eq|]. cbn. exact Ho.
  - exists e. split; auto. cbn. rewrite aget_aset_neq; auto.
Qed.

Theorem lockfree_step_releases_nothing c s l s' o k :
  lockfree s l = true -> step c s l = ROk s' o -> owned s k -> owned s' k.
Proof.
  intros Hlf H Hown. pose proof Hown as (e & He & Ho).
  assert (SAME : forall s2 : state, s_ents s2 = s_ents s -> owned s2 k) by (intros s2 E; exists e; rewrite E; auto).
  assert (UPD : forall (s2 : state) k0 e0 e0',
             aget k0 (s_ents s) = Some e0 -> (e_owner e0 <> None -> e_owner e0' <> None) ->
             s_ents s2 = aset k0 e0' (s_ents s) -> owned s2 k).
  { intros s2 k0 e0 e0' E0 Hkeep E2. destruct (Nat.eq_dec k k0) as [->|Hne].
    - rewrite He in E0. inv E0. exists e0'. rewrite E2, aget_aset_eq. auto.
    - exists e. rewrite E2, aget_aset_neq; auto. }
  destruct l as [a cl|a ord|a k0 ord|a|a|g op|a r hold|d|ord]; cbn [lockfree] in Hlf; try discriminate; cbn [step] in H.
  - (* start *) unfold do_start in H. destruct (amem a (s_ops s)); [discriminate|].
    destruct cl.
    + destruct (lim_ok lim); inv H. apply SAME. reflexivity.
    + destruct (guard_live s g); inv H. destruct (begin_unlock_owned c s g k Hown) as (e1 & E1 & O1). exists e1. auto.
    + destruct (c_lru c && Z.leb 0 d)%bool; [|discriminate]. destruct (cutoff_of _ _); inv H; apply SAME; reflexivity.
    + inv H. apply SAME. reflexivity.
    + inv H. apply SAME. reflexivity.
    + inv H. apply SAME. reflexivity.
  - (* resume: key try / key wait / re-poll *)
    unfold do_resume in H. destruct (aget a (s_ops s)) as [p|] eqn:Ha; [|discriminate].
    destruct p; try discriminate.
    + unfold do_key_try in H. destruct (aget k0 (s_ents s)) as [e0|] eqn:E0; [|discriminate].
      destruct (e_owner e0) eqn:O0; inv H; [apply SAME; reflexivity|].
      eapply UPD; [exact E0| |reflexivity]. cbn. discriminate.
    + unfold do_key_wait in H. destruct (aget k0 (s_ents s)) as [e0|] eqn:E0; [|discriminate].
      destruct (e_owner e0) eqn:O0; inv H.
      * eapply UPD; [exact E0| |reflexivity]. cbn. rewrite O0. discriminate.
      * eapply UPD; [exact E0| |reflexivity]. cbn. discriminate.
    + unfold do_queued in H. destruct (aget k0 (s_ents s)) as [e0|] eqn:E0; [|discriminate].
      destruct (own_is_waiter _ a); inv H. eapply UPD; [exact E0| |reflexivity]. cbn. discriminate.
  - (* sub-future of a stream: first poll or re-poll *)
    unfold do_sub in H. destruct (aget a (s_ops s)) as [[]|] eqn:Ha; try discriminate.
    destruct (aget k0 subs) as [[| |g]|] eqn:Es; try discriminate;
      unfold do_sub_poll in H; rewrite Es in H;
      (destruct (aget k0 (s_ents s)) as [e0|] eqn:E0; [|discriminate]).
    + destruct (e_owner e0) eqn:O0.
      * inv H. eapply UPD; [exact E0| |reflexivity]. cbn. rewrite O0. discriminate.
      * cbn [new_guard] in H. destruct (val_of e0); inv H; (eapply UPD; [exact E0| |reflexivity]); cbn; discriminate.
    + destruct (own_is_waiter _ a); [|discriminate]. cbn [new_guard] in H.
      destruct (val_of e0); inv H; (eapply UPD; [exact E0| |reflexivity]); cbn; discriminate.
  - unfold do_pollend in H. destruct (aget a (s_ops s)) as [[]|]; try discriminate. destruct subs; inv H; apply SAME; reflexivity.
  - unfold do_cancel in H. destruct (aget a (s_ops s)) as [[]|]; try discriminate.
    + destruct (sh_is_async sh); inv H; apply SAME; reflexivity.
    + destruct (sh_is_async sh); inv H; apply SAME; reflexivity.
    + destruct (existsb _ subs); [discriminate|]. destruct subs; inv H; apply SAME; reflexivity.
  - (* guard operation *)
    unfold do_guard_op in H. destruct (negb (guard_live s g)); [discriminate|].
    destruct (aget g (s_guards s)) as [k1|]; [|discriminate].
    destruct (aget k1 (s_ents s)) as [e1|] eqn:E1; [|discriminate].
    destruct op; try (destruct (e_val e1) as [[? ?]|]); inv H;
      try (apply SAME; reflexivity); (eapply UPD; [exact E1| |reflexivity]); cbn; auto.
  - (* callback return *)
    unfold do_cbreturn in H. destruct (aget a (s_ops s)) as [[]|]; try discriminate.
    destruct hold.
    + destruct offered as [|g rest]; [discriminate|]. destruct (all_live s _ && _)%bool; inv H.
      destruct (begin_unlock_owned c s g k Hown) as (e1 & E1 & O1). exists e1. auto.
    + destruct r; inv H; apply SAME; reflexivity.
Qed.
