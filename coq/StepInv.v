(* Every step of the model preserves the invariant. *)
From Coq Require Import List Arith ZArith Bool Lia.
From LK Require Import AList AListFacts Model Inv.
Import ListNotations.

Ltac inv H := inversion H; subst; clear H.

(* chain of same_at facts through nested state transformers *)
Ltac same_chain :=
  lazymatch goal with
  | |- same_at ?s ?s _ => apply same_at_refl
  | |- same_at ?s (fin ?s1 ?a) _ =>
      eapply same_at_trans; [|eapply same_at_fin; cbn; eauto]; [same_chain|..]
  | |- same_at ?s (set_pc ?s1 ?a ?p) _ =>
      eapply same_at_trans; [|first [eapply same_at_set_pc; cbn; eauto | eapply same_at_start; cbn; eauto]]; [same_chain|..]
  | |- same_at ?s (with_ents ?s1 ?e) _ =>
      eapply same_at_trans; [|eapply same_at_ents; cbn]; [same_chain|..]
  | |- same_at ?s (with_clock ?s1 ?c) _ =>
      eapply same_at_trans; [|eapply same_at_clock]; same_chain
  | |- same_at ?s (with_gid (with_guards ?s1 ((s_gid ?s1, ?k) :: s_guards ?s1)) (S (s_gid ?s1))) _ =>
      eapply same_at_trans; [|apply (same_at_new_guard s1 k)]; [same_chain|..]
  | |- same_at ?s (with_guards ?s1 (adel ?g (s_guards ?s1))) _ =>
      eapply same_at_trans; [|eapply same_at_del_guard; cbn; eauto]; [same_chain|..]
  end.

Lemma pc_handles_bykey_other p k k' :
  match p with
  | PKeyTry _ k0 | PKeyWait _ k0 | PQueued _ k0 | PCleanup _ k0 | PCancel k0 => k0 = k
  | PEnter _ _ _ | PInCb _ _ _ _ | PDrops _ _ | PScan _ | PStreamEnter | PCount | PKeys => True
  | _ => False
  end -> k' <> k -> pc_handles p k' = 0 /\ pc_waits p k' = false.
Proof.
  destruct p; cbn; try tauto; intros -> Hn; destruct (Nat.eqb_spec k' k); try congruence; auto.
Qed.

(* ------------------------------------------------------------------ *)
(* A. acquiring the per-key mutex: the agent's handle moves into a new Guard *)

Definition acq (s : state) (k : key) (e : entry) : state :=
  let (s1, g) := new_guard s k in
  with_ents s1 (aset k (set_owner e (Some (OwnG g))) (s_ents s1)).

(* the agent-side change: either the call finishes or its pc changes *)
Definition upd_ops (s : state) (a : aid) (np : option pc) : state :=
  match np with Some p' => set_pc s a p' | None => fin s a end.

Definition np_handles (np : option pc) k := match np with Some p' => pc_handles p' k | None => 0 end.
Definition np_waits (np : option pc) k := match np with Some p' => pc_waits p' k | None => false end.

Lemma waits_on_upd s a np a' k :
  waits_on (upd_ops s a np) a' k <-> (a' = a /\ np_waits np k = true) \/ (a' <> a /\ waits_on s a' k).
Proof.
  destruct np; cbn; [apply waits_on_set_pc|]. rewrite waits_on_fin. intuition discriminate.
Qed.

Lemma handles_upd s a np p k : NoDup (akeys (s_ops s)) -> aget a (s_ops s) = Some p ->
  handles (upd_ops s a np) k + pc_handles p k = handles s k + np_handles np k.
Proof.
  intros Hnd Ha. destruct np; cbn.
  - pose proof (handles_set_pc s a p0 k Hnd). rewrite Ha in H. lia.
  - pose proof (handles_fin s a k Hnd). rewrite Ha in H. lia.
Qed.

Lemma NoDup_upd s a np : NoDup (akeys (s_ops s)) -> NoDup (akeys (s_ops (upd_ops s a np))).
Proof. destruct np; cbn; [apply NoDup_aset|apply NoDup_adel]. Qed.

Lemma upd_ents s a np : s_ents (upd_ops s a np) = s_ents s. Proof. destruct np; auto. Qed.
Lemma upd_guards s a np : s_guards (upd_ops s a np) = s_guards s. Proof. destruct np; auto. Qed.
Lemma upd_gid s a np : s_gid (upd_ops s a np) = s_gid s. Proof. destruct np; auto. Qed.

Lemma same_at_upd s a p np k :
  NoDup (akeys (s_ops s)) -> aget a (s_ops s) = Some p ->
  pc_handles p k = np_handles np k -> pc_waits p k = np_waits np k ->
  same_at s (upd_ops s a np) k.
Proof.
  intros Hnd Ha Hh Hw. destruct np; cbn in *.
  - eapply same_at_set_pc; eauto.
  - eapply same_at_fin; eauto.
Qed.

Lemma handles_ents s ents k : handles (with_ents s ents) k = handles s k.
Proof. reflexivity. Qed.

Lemma guard_on_new_guard s k0 g' k :
  guard_on (fst (new_guard s k0)) g' k <-> (g' = s_gid s /\ k = k0) \/ (g' <> s_gid s /\ guard_on s g' k).
Proof.
  unfold guard_on. cbn. destruct (Nat.eqb_spec g' (s_gid s)).
  - split; [intros H; inv H; auto|intros [[_ ->]|[H _]]; [auto|congruence]].
  - split; [auto|intros [[H _]|[_ H]]; [congruence|auto]].
Qed.

Lemma same_at_components s s' k :
  aget k (s_ents s') = aget k (s_ents s) ->
  (forall g, guard_on s' g k <-> guard_on s g k) ->
  gcount (s_guards s') k = gcount (s_guards s) k ->
  s_ops s' = s_ops s ->
  same_at s s' k.
Proof.
  intros H1 H2 H3 H4. constructor; auto; unfold waits_on; rewrite H4; tauto.
Qed.

Lemma acquire_core s s2 a p np k e :
  Inv s -> aget a (s_ops s) = Some p -> aget k (s_ents s) = Some e ->
  pc_handles p k = 1 -> np_handles np k = 0 -> np_waits np k = false ->
  (forall k', k' <> k -> pc_handles p k' = np_handles np k' /\ pc_waits p k' = np_waits np k') ->
  (e_owner e = None /\ pc_waits p k = false \/ e_owner e = Some (OwnW a) /\ pc_waits p k = true) ->
  s_ents s2 = aset k (set_owner e (Some (OwnG (s_gid s)))) (s_ents s) ->
  s_guards s2 = (s_gid s, k) :: s_guards s -> s_ops s2 = s_ops s -> s_gid s2 = S (s_gid s) ->
  Inv (upd_ops s2 a np).
Proof.
  intros HI Ha He Hp Hnp Hnw Hoth Hown E1 E2 E3 E4.
  pose proof (Inv_fresh_gid s HI) as Hfresh.
  destruct HI as [nde ndg ndo hgid hk]. pose proof (hk k) as [kmx kg kw kr k2 kp].
  set (g := s_gid s) in *.
  set (e' := set_owner e (Some (OwnG g))) in *.
  assert (Hg1 : forall g' k', guard_on s2 g' k' <-> (g' = g /\ k' = k) \/ (g' <> g /\ guard_on s g' k')).
  { intros g' k'. unfold guard_on. rewrite E2. cbn. destruct (Nat.eqb_spec g' g).
    - split; [intros H; inv H; auto|intros [[_ ->]|[H _]]; [auto|congruence]].
    - split; [auto|intros [[H _]|[_ H]]; [congruence|auto]]. }
  assert (Hw2 : forall a' k', waits_on s2 a' k' <-> waits_on s a' k') by (intros; unfold waits_on; rewrite E3; tauto).
  assert (ndo2 : NoDup (akeys (s_ops s2))) by (rewrite E3; auto).
  assert (Ha2 : aget a (s_ops s2) = Some p) by (rewrite E3; auto).
  constructor.
  - rewrite upd_ents, E1. apply NoDup_aset; auto.
  - rewrite upd_guards, E2. cbn. constructor; auto.
  - apply NoDup_upd. auto.
  - rewrite upd_guards, upd_gid, E2, E4. cbn. intros g' [<-|H]; [lia|]. apply hgid in H. lia.
  - intros k'. destruct (Nat.eq_dec k' k) as [->|Hne].
    + (* the key itself *)
      specialize (kmx e He) as (m1 & m2 & m3).
      assert (Hq : forall a', In a' (e_queue e) <-> (a' <> a /\ waits_on s a' k)).
      { intros a'. rewrite kw. split.
        - intros H. split; [|exists e; auto].
          intros ->. destruct Hown as [[Ho _]|[Ho _]]; [rewrite (m1 Ho) in H; destruct H|apply (m3 a Ho); auto].
        - intros [Hn (e0 & He0 & H)]. rewrite He in He0. inv He0.
          destruct H as [H|H]; auto. destruct Hown as [[Ho _]|[Ho _]]; congruence. }
      assert (Hge : aget k (s_ents (upd_ops s2 a np)) = Some e')
        by (rewrite upd_ents, E1; apply aget_aset_eq).
      assert (Hh : handles (upd_ops s2 a np) k = handles s k).
      { pose proof (handles_upd s2 a np p k ndo2 Ha2) as H.
        assert (handles s2 k = S (handles s k)).
        { unfold handles. rewrite E2, E3, gcount_cons, Nat.eqb_refl. lia. }
        lia. }
      constructor.
      * intros e0. rewrite Hge. intros H; inv H. repeat split; cbn; auto; discriminate.
      * intros g'. unfold guard_on. rewrite upd_guards. fold (guard_on s2 g' k). rewrite Hg1, Hge. split.
        -- intros [[-> _]|[Hn H]]; [eauto|].
           apply kg in H as (e0 & He0 & Ho). rewrite He in He0. inv He0.
           destruct Hown as [[Ho' _]|[Ho' _]]; congruence.
        -- intros (e0 & He0 & Ho). inv He0. cbn in Ho. inv Ho. auto.
      * intros a'. rewrite waits_on_upd, Hge, Hw2. split.
        -- intros [[_ H]|[Hn H]]; [congruence|]. exists e'. split; auto. left. cbn. apply Hq. auto.
        -- intros (e0 & He0 & H). inv He0. cbn in H. destruct H as [H|H]; [|discriminate].
           apply Hq in H. right. auto.
      * intros e0. rewrite Hge, Hh. intros H; inv H. cbn. auto.
      * intros e0. rewrite Hge. intros H; inv H. cbn. auto.
      * intros _. rewrite upd_ents, E1. apply akeys_aset_In. auto.
    + apply (KInv_same s); auto.
      eapply same_at_trans; [|eapply same_at_upd; eauto; apply Hoth; auto].
      apply same_at_components; auto.
      * rewrite E1. apply aget_aset_neq; auto.
      * intros g'. rewrite Hg1. split; [intros [[_ H]|[_ H]]; [congruence|auto]|].
        intros H. right. split; auto. intros ->. apply Hfresh. eapply aget_Some_keys; eauto.
      * rewrite E2, gcount_cons. destruct (Nat.eqb_spec k k'); [congruence|auto].
Qed.

Lemma acquire_inv s a p np k e :
  Inv s -> aget a (s_ops s) = Some p -> aget k (s_ents s) = Some e ->
  pc_handles p k = 1 -> np_handles np k = 0 -> np_waits np k = false ->
  (forall k', k' <> k -> pc_handles p k' = np_handles np k' /\ pc_waits p k' = np_waits np k') ->
  (e_owner e = None /\ pc_waits p k = false \/ e_owner e = Some (OwnW a) /\ pc_waits p k = true) ->
  Inv (upd_ops (acq s k e) a np).
Proof.
  intros. eapply acquire_core; eauto.
Qed.

(* ------------------------------------------------------------------ *)
(* generic frame for a step of agent a that touches only key k *)

Lemma local_step s s2 a p np k :
  Inv s -> aget a (s_ops s) = Some p ->
  s_ops s2 = s_ops s ->
  NoDup (akeys (s_ents s2)) -> NoDup (akeys (s_guards s2)) ->
  (forall g, In g (akeys (s_guards s2)) -> g < s_gid s2) ->
  (forall k', k' <> k ->
     aget k' (s_ents s2) = aget k' (s_ents s) /\
     (forall g, guard_on s2 g k' <-> guard_on s g k') /\
     gcount (s_guards s2) k' = gcount (s_guards s) k') ->
  (forall k', k' <> k -> pc_handles p k' = np_handles np k' /\ pc_waits p k' = np_waits np k') ->
  KInv (upd_ops s2 a np) k ->
  Inv (upd_ops s2 a np).
Proof.
  intros HI Ha E3 N1 N2 N3 Hoth Hp Hk.
  destruct HI as [nde ndg ndo hgid hk].
  constructor.
  - rewrite upd_ents; auto.
  - rewrite upd_guards; auto.
  - apply NoDup_upd. rewrite E3; auto.
  - rewrite upd_guards, upd_gid. auto.
  - intros k'. destruct (Nat.eq_dec k' k) as [->|Hne]; auto.
    apply (KInv_same s); auto.
    destruct (Hoth k' Hne) as (H1 & H2 & H3).
    eapply same_at_trans; [apply (same_at_components s s2); auto|].
    eapply same_at_upd; try apply Hp; auto; rewrite E3; auto.
Qed.

Section LocalFacts.
  Variables (s s2 : state) (a : aid) (p : pc) (np : option pc).
  Hypothesis (HI : Inv s) (Ha : aget a (s_ops s) = Some p) (E3 : s_ops s2 = s_ops s).

  Lemma lf_handles k :
    handles (upd_ops s2 a np) k + pc_handles p k
    = gcount (s_guards s2) k + ops_handles (s_ops s) k + np_handles np k.
  Proof.
    assert (N : NoDup (akeys (s_ops s2))) by (rewrite E3; apply (inv_nd_o _ HI)).
    assert (A : aget a (s_ops s2) = Some p) by (rewrite E3; auto).
    pose proof (handles_upd s2 a np p k N A). unfold handles in *. rewrite E3 in *. lia.
  Qed.

  Lemma lf_waits a' k :
    waits_on (upd_ops s2 a np) a' k <-> (a' = a /\ np_waits np k = true) \/ (a' <> a /\ waits_on s a' k).
  Proof. rewrite waits_on_upd. unfold waits_on. rewrite E3. tauto. Qed.

  Lemma lf_guard g k : guard_on (upd_ops s2 a np) g k <-> guard_on s2 g k.
  Proof. unfold guard_on. rewrite upd_guards. tauto. Qed.

  Lemma lf_ents k : aget k (s_ents (upd_ops s2 a np)) = aget k (s_ents s2).
  Proof. rewrite upd_ents. auto. Qed.
End LocalFacts.

Lemma waits_on_handles s a k : waits_on s a k -> 0 < ops_handles (s_ops s) k.
Proof.
  intros (p & Ha & Hw). apply ops_handles_pos. exists a, p. split; [apply aget_In; auto|].
  rewrite (pc_waits_handles _ _ Hw). lia.
Qed.

Lemma agent_handles s a p k : aget a (s_ops s) = Some p -> pc_handles p k <= ops_handles (s_ops s) k.
Proof.
  intros Ha. apply aget_In in Ha. induction (s_ops s) as [|[a' p'] t IH]; [destruct Ha|].
  cbn. destruct Ha as [H|H]; [inv H; lia|]. specialize (IH H). lia.
Qed.

(* ------------------------------------------------------------------ *)
(* per-key mutex facts *)

Lemma mx_release_wf e g : mx_wf e -> e_owner e = Some (OwnG g) -> mx_wf (mx_release e).
Proof.
  intros (m1 & m2 & m3) Ho. unfold mx_release. destruct (e_queue e) as [|a q] eqn:Eq; cbn.
  - repeat split; cbn; auto; [rewrite Eq; constructor|discriminate].
  - inversion m2; subst. repeat split; cbn; auto; [discriminate|]. intros a' H; inv H. auto.
Qed.

Lemma mx_release_waiters e a' :
  (In a' (e_queue (mx_release e)) \/ e_owner (mx_release e) = Some (OwnW a')) <-> In a' (e_queue e).
Proof.
  unfold mx_release. destruct (e_queue e) as [|a q] eqn:Eq; cbn.
  - rewrite Eq. intuition discriminate.
  - split; [intros [H|H]; [auto|inv H; auto]|intros [->|H]; auto].
Qed.

Lemma mx_release_not_guard e g : e_owner (mx_release e) <> Some (OwnG g).
Proof. unfold mx_release. destruct (e_queue e); cbn; discriminate. Qed.

Lemma mx_release_val e : e_val (mx_release e) = e_val e.
Proof. unfold mx_release. destruct (e_queue e); auto. Qed.
Lemma mx_release_repl e : e_repl (mx_release e) = e_repl e.
Proof. unfold mx_release. destruct (e_queue e); auto. Qed.

Lemma mx_release_free e : e_owner (mx_release e) = None -> e_queue (mx_release e) = [].
Proof. unfold mx_release. destruct (e_queue e) eqn:E; cbn; [auto|discriminate]. Qed.

Lemma mx_cancel_val e a : e_val (mx_cancel e a) = e_val e.
Proof.
  unfold mx_cancel. destruct (e_owner e) as [[|a']|]; auto.
  destruct (Nat.eqb a a'); auto. apply mx_release_val.
Qed.
Lemma mx_cancel_repl e a : e_repl (mx_cancel e a) = e_repl e.
Proof.
  unfold mx_cancel. destruct (e_owner e) as [[|a']|]; auto.
  destruct (Nat.eqb a a'); auto. apply mx_release_repl.
Qed.

Lemma mx_cancel_wf e a : mx_wf e -> mx_wf (mx_cancel e a).
Proof.
  intros (m1 & m2 & m3). unfold mx_cancel.
  destruct (e_owner e) as [[g|a']|] eqn:Eo.
  - repeat split; cbn; try congruence. apply remove_nat_NoDup; auto.
  - destruct (Nat.eqb_spec a a').
    + subst. unfold mx_release. destruct (e_queue e) as [|a2 q] eqn:Eq; cbn.
      * repeat split; cbn; auto; [rewrite Eq; constructor|discriminate].
      * inversion m2; subst. repeat split; cbn; auto; [discriminate|]. intros a3 H; inv H. auto.
    + repeat split; cbn; try congruence; [apply remove_nat_NoDup; auto|].
      intros a3 H. rewrite Eo in H. inv H. rewrite remove_nat_In. intros [H _]. apply (m3 a3); auto.
  - repeat split; cbn; try congruence.
    + intros _. rewrite (m1 eq_refl). auto.
    + apply remove_nat_NoDup; auto.
Qed.

Lemma mx_cancel_waiters e a a' : mx_wf e ->
  (In a' (e_queue (mx_cancel e a)) \/ e_owner (mx_cancel e a) = Some (OwnW a')) <->
  (a' <> a /\ (In a' (e_queue e) \/ e_owner e = Some (OwnW a'))).
Proof.
  intros (m1 & m2 & m3). unfold mx_cancel.
  destruct (e_owner e) as [[g|a0]|] eqn:Eo.
  - cbn. rewrite remove_nat_In, Eo. intuition discriminate.
  - destruct (Nat.eqb_spec a a0).
    + subst a0. rewrite mx_release_waiters. split.
      * intros H. split; auto. intros ->. apply (m3 a); auto.
      * intros [Hn [H|H]]; auto. congruence.
    + cbn. rewrite remove_nat_In, Eo. split.
      * intros [[H Hn]|H]; [auto|]. inv H. split; auto.
      * intros [Hn [H|H]]; auto.
  - cbn. rewrite remove_nat_In, Eo. intuition discriminate.
Qed.

Lemma mx_cancel_guard e a g : e_owner (mx_cancel e a) = Some (OwnG g) <-> e_owner e = Some (OwnG g).
Proof.
  unfold mx_cancel. destruct (e_owner e) as [[g0|a0]|] eqn:Eo; cbn; try (rewrite Eo; tauto).
  destruct (Nat.eqb a a0); cbn; [|rewrite Eo; tauto].
  split; [intros H; exfalso; eapply mx_release_not_guard; eauto|discriminate].
Qed.

Lemma mx_cancel_free e a : mx_wf e -> e_owner (mx_cancel e a) = None -> e_queue (mx_cancel e a) = [].
Proof. intros H. apply (mx_cancel_wf e a H). Qed.

(* agent-free variant of local_step *)
Lemma local_step0 s s2 k :
  Inv s -> s_ops s2 = s_ops s ->
  NoDup (akeys (s_ents s2)) -> NoDup (akeys (s_guards s2)) ->
  (forall g, In g (akeys (s_guards s2)) -> g < s_gid s2) ->
  (forall k', k' <> k ->
     aget k' (s_ents s2) = aget k' (s_ents s) /\
     (forall g, guard_on s2 g k' <-> guard_on s g k') /\
     gcount (s_guards s2) k' = gcount (s_guards s) k') ->
  KInv s2 k -> Inv s2.
Proof.
  intros HI E3 N1 N2 N3 Hoth Hk. destruct HI as [nde ndg ndo hgid hk].
  constructor; auto; [rewrite E3; auto|].
  intros k'. destruct (Nat.eq_dec k' k) as [->|Hne]; auto.
  apply (KInv_same s); auto. destruct (Hoth k' Hne) as (H1 & H2 & H3).
  apply same_at_components; auto.
Qed.

(* a pure change of program counter that keeps handles and waits *)
Lemma pc_change_inv s a p np :
  Inv s -> aget a (s_ops s) = Some p ->
  (forall k, pc_handles p k = np_handles np k /\ pc_waits p k = np_waits np k) ->
  Inv (upd_ops s a np).
Proof.
  intros HI Ha H. pose proof HI as [nde ndg ndo hgid hk].
  constructor.
  - rewrite upd_ents; auto.
  - rewrite upd_guards; auto.
  - apply NoDup_upd; auto.
  - rewrite upd_guards, upd_gid; auto.
  - intros k. apply (KInv_same s); auto. eapply same_at_upd; eauto; apply H.
Qed.

(* a new agent that holds nothing *)
Lemma start_inv s a p' :
  Inv s -> aget a (s_ops s) = None -> (forall k, pc_handles p' k = 0 /\ pc_waits p' k = false) ->
  Inv (set_pc s a p').
Proof.
  intros HI Ha H. pose proof HI as [nde ndg ndo hgid hk].
  constructor; cbn; auto.
  - apply NoDup_aset; auto.
  - intros k. apply (KInv_same s); auto. apply same_at_start; auto; apply H.
Qed.

Lemma agent_not_waiting s a p k : aget a (s_ops s) = Some p -> pc_waits p k = false -> ~ waits_on s a k.
Proof. intros Ha Hw (p' & Ha' & Hw'). congruence. Qed.

Lemma agent_waiting s a p k : aget a (s_ops s) = Some p -> pc_waits p k = true -> waits_on s a k.
Proof. intros Ha Hw. exists p. auto. Qed.

(* ------------------------------------------------------------------ *)
(* B. lookup of an existing entry: the agent gains a handle *)

Lemma gain_core s s2 a p np k e ents0 :
  Inv s -> aget a (s_ops s) = Some p -> aget k (s_ents s) = Some e ->
  pc_handles p k = 0 -> np_handles np k = 1 -> pc_waits p k = false -> np_waits np k = false ->
  (forall k', k' <> k -> pc_handles p k' = np_handles np k' /\ pc_waits p k' = np_waits np k') ->
  NoDup (akeys ents0) -> (forall k', aget k' ents0 = aget k' (s_ents s)) ->
  s_ents s2 = aset k (set_repl e (S (e_repl e))) ents0 ->
  s_guards s2 = s_guards s -> s_ops s2 = s_ops s -> s_gid s2 = s_gid s ->
  Inv (upd_ops s2 a np).
Proof.
  intros HI Ha He Hp Hnp Hpw Hnw Hoth N0 H0 E1 E2 E3 E4.
  pose proof HI as [nde ndg ndo hgid hk]. pose proof (hk k) as [kmx kg kw kr k2 kp].
  eapply (local_step s s2 a p np k); eauto.
  - rewrite E1. apply NoDup_aset; auto.
  - rewrite E2; auto.
  - rewrite E2, E4; auto.
  - intros k' Hne. rewrite E1, E2. unfold guard_on. rewrite E2. rewrite aget_aset_neq, H0 by auto. tauto.
  - assert (Hge : aget k (s_ents (upd_ops s2 a np)) = Some (set_repl e (S (e_repl e))))
      by (rewrite upd_ents, E1; apply aget_aset_eq).
    pose proof (lf_handles s s2 a p np HI Ha E3 k) as Hh. rewrite E2 in Hh. fold (handles s k) in Hh.
    constructor.
    + intros e0. rewrite Hge. intros H; inv H. apply (kmx e He).
    + intros g. rewrite lf_guard. unfold guard_on. rewrite E2. fold (guard_on s g k). rewrite kg, Hge, He.
      split; intros (e0 & H1 & H2); inv H1; eauto.
    + intros a'. rewrite (lf_waits s s2 a np E3), Hge. split.
      * intros [[_ H]|[_ H]]; [congruence|]. apply kw in H as (e0 & H1 & H2). rewrite He in H1. inv H1. eauto.
      * intros (e0 & H1 & H2). inv H1. cbn in H2. right.
        assert (W : waits_on s a' k) by (apply kw; eauto). split; auto.
        intros ->. eapply agent_not_waiting; eauto.
    + intros e0. rewrite Hge. intros H; inv H. cbn. rewrite (kr e He). lia.
    + intros e0. rewrite Hge. intros H; inv H. cbn. lia.
    + intros _. rewrite upd_ents, E1. apply akeys_aset_In. auto.
Qed.

(* C. lookup of an absent key: insert a pre-locked placeholder *)

Lemma absent_no_handles s k : Inv s -> aget k (s_ents s) = None -> handles s k = 0.
Proof.
  intros HI H. destruct (Nat.eq_dec (handles s k) 0); auto.
  exfalso. apply aget_None_keys in H. apply H. apply (ki_p _ _ (inv_k _ HI k)). lia.
Qed.

Lemma insert_core s s2 a p k :
  Inv s -> aget a (s_ops s) = Some p -> aget k (s_ents s) = None ->
  (forall k', pc_handles p k' = 0 /\ pc_waits p k' = false) ->
  s_ents s2 = aset k (mkE None (Some (OwnG (s_gid s))) [] 1) (s_ents s) ->
  s_guards s2 = (s_gid s, k) :: s_guards s -> s_ops s2 = s_ops s -> s_gid s2 = S (s_gid s) ->
  Inv (upd_ops s2 a None).
Proof.
  intros HI Ha He Hp E1 E2 E3 E4.
  pose proof (Inv_fresh_gid s HI) as Hfresh.
  pose proof (absent_no_handles s k HI He) as Hz.
  pose proof HI as [nde ndg ndo hgid hk]. pose proof (hk k) as [kmx kg kw kr k2 kp].
  set (g := s_gid s) in *.
  assert (Hg1 : forall g' k', guard_on s2 g' k' <-> (g' = g /\ k' = k) \/ (g' <> g /\ guard_on s g' k')).
  { intros g' k'. unfold guard_on. rewrite E2. cbn. destruct (Nat.eqb_spec g' g).
    - split; [intros H; inv H; auto|intros [[_ ->]|[H _]]; [auto|congruence]].
    - split; [auto|intros [[H _]|[_ H]]; [congruence|auto]]. }
  eapply (local_step s s2 a p None k); eauto.
  - rewrite E1. apply NoDup_aset; auto.
  - rewrite E2. cbn. constructor; auto.
  - rewrite E2, E4. cbn. intros g' [<-|H]; [lia|]. apply hgid in H. lia.
  - intros k' Hne. rewrite E1. rewrite aget_aset_neq by auto. split; auto. split.
    + intros g'. rewrite Hg1. split; [intros [[_ H]|[_ H]]; [congruence|auto]|].
      intros H. right. split; auto. intros ->. apply Hfresh. eapply aget_Some_keys; eauto.
    + rewrite E2, gcount_cons. destruct (Nat.eqb_spec k k'); [congruence|auto].
  - assert (Hge : aget k (s_ents (upd_ops s2 a None)) = Some (mkE None (Some (OwnG g)) [] 1))
      by (rewrite upd_ents, E1; apply aget_aset_eq).
    pose proof (lf_handles s s2 a p None HI Ha E3 k) as Hh.
    rewrite E2, gcount_cons, Nat.eqb_refl in Hh. cbn [np_handles] in Hh.
    destruct (Hp k) as [Hp1 Hp2]. unfold handles in Hz.
    constructor.
    + intros e0. rewrite Hge. intros H; inv H. repeat split; cbn; auto; try constructor; try discriminate.
    + intros g'. rewrite lf_guard, Hg1, Hge. split.
      * intros [[-> _]|[_ H]]; [eauto|]. apply kg in H as (e0 & H1 & _). congruence.
      * intros (e0 & H1 & H2). inv H1. cbn in H2. inv H2. auto.
    + intros a'. rewrite (lf_waits s s2 a None E3), Hge. split.
      * intros [[_ H]|[_ H]]; [discriminate|]. apply kw in H as (e0 & H1 & _). congruence.
      * intros (e0 & H1 & [H2|H2]); inv H1; cbn in H2; [destruct H2|discriminate].
    + intros e0. rewrite Hge. intros H; inv H. cbn [e_repl]. lia.
    + intros e0. rewrite Hge. intros H; inv H. cbn [e_repl]. lia.
    + intros _. rewrite upd_ents, E1. apply akeys_aset_In. auto.
Qed.

(* D. first poll of a wait on a held mutex: enqueue *)

Lemma enqueue_core s s2 a p np k e :
  Inv s -> aget a (s_ops s) = Some p -> aget k (s_ents s) = Some e ->
  e_owner e <> None ->
  pc_handles p k = 1 -> np_handles np k = 1 -> pc_waits p k = false -> np_waits np k = true ->
  (forall k', k' <> k -> pc_handles p k' = np_handles np k' /\ pc_waits p k' = np_waits np k') ->
  s_ents s2 = aset k (set_queue e (e_queue e ++ [a])) (s_ents s) ->
  s_guards s2 = s_guards s -> s_ops s2 = s_ops s -> s_gid s2 = s_gid s ->
  Inv (upd_ops s2 a np).
Proof.
  intros HI Ha He Ho Hp Hnp Hpw Hnw Hoth E1 E2 E3 E4.
  pose proof HI as [nde ndg ndo hgid hk]. pose proof (hk k) as [kmx kg kw kr k2 kp].
  pose proof (agent_not_waiting s a p k Ha Hpw) as Hnwait.
  eapply (local_step s s2 a p np k); eauto.
  - rewrite E1. apply NoDup_aset; auto.
  - rewrite E2; auto.
  - rewrite E2, E4; auto.
  - intros k' Hne. rewrite E1, E2. unfold guard_on. rewrite E2. rewrite aget_aset_neq by auto. tauto.
  - set (e' := set_queue e (e_queue e ++ [a])).
    assert (Hge : aget k (s_ents (upd_ops s2 a np)) = Some e')
      by (rewrite upd_ents, E1; apply aget_aset_eq).
    pose proof (lf_handles s s2 a p np HI Ha E3 k) as Hh. rewrite E2 in Hh. fold (handles s k) in Hh.
    specialize (kmx e He) as (m1 & m2 & m3).
    assert (Hna : ~ In a (e_queue e)) by (intros H; apply Hnwait; apply kw; eauto).
    constructor.
    + intros e0. rewrite Hge. intros H; inv H. repeat split; cbn.
      * intros H; congruence.
      * apply NoDup_app_snoc; auto.
      * intros a' H. rewrite in_app_iff. cbn. intros [H1|[H1|[]]].
        -- apply (m3 a'); auto.
        -- subst. apply Hnwait. apply kw. eauto.
    + intros g. rewrite lf_guard. unfold guard_on. rewrite E2. fold (guard_on s g k). rewrite kg, Hge, He.
      split; intros (e0 & H1 & H2); inv H1; eauto.
    + intros a'. rewrite (lf_waits s s2 a np E3), Hge. split.
      * intros [[-> _]|[_ H]].
        -- exists e'. split; auto. left. cbn. rewrite in_app_iff. cbn. auto.
        -- apply kw in H as (e0 & H1 & H2). rewrite He in H1. inv H1. exists e'. split; auto.
           cbn. rewrite in_app_iff. tauto.
      * intros (e0 & H1 & H2). inv H1. cbn in H2. rewrite in_app_iff in H2. cbn in H2.
        destruct (Nat.eq_dec a' a); [left; auto|right; split; auto].
        apply kw. exists e. split; auto. intuition congruence.
    + intros e0. rewrite Hge. intros H; inv H. cbn. rewrite (kr e He). lia.
    + intros e0. rewrite Hge. intros H; inv H. cbn. auto.
    + intros _. rewrite upd_ents, E1. apply akeys_aset_In. auto.
Qed.

(* K/L. changing only the value stored in an entry *)
Lemma set_val_inv s k e v :
  Inv s -> aget k (s_ents s) = Some e -> (v = None -> 0 < e_repl e) ->
  Inv (with_ents s (aset k (set_val e v) (s_ents s))).
Proof.
  intros HI He Hv. pose proof HI as [nde ndg ndo hgid hk]. pose proof (hk k) as [kmx kg kw kr k2 kp].
  apply (local_step0 s _ k); cbn; auto.
  - apply NoDup_aset; auto.
  - intros k' Hne. rewrite aget_aset_neq by auto. unfold guard_on. cbn. tauto.
  - constructor; cbn; unfold guard_on, waits_on, handles; cbn; rewrite ?aget_aset_eq.
    + intros e0 H; inv H. apply (kmx e He).
    + intros g. fold (guard_on s g k). rewrite kg, He. split; intros (e0 & H1 & H2); inv H1; eauto.
    + intros a. fold (waits_on s a k). rewrite kw, He. split; intros (e0 & H1 & H2); inv H1; eauto.
    + intros e0 H; inv H. cbn. apply (kr e He).
    + intros e0 H; inv H. cbn. auto.
    + intros _. apply akeys_aset_In. auto.
Qed.

(* F. cleanup after a failed try / drop of a replica under the global lock *)
Lemma cleanup_core s s2 a p np k ents' :
  Inv s -> aget a (s_ops s) = Some p ->
  pc_handles p k = 1 -> pc_waits p k = false -> np_handles np k = 0 -> np_waits np k = false ->
  (forall k', k' <> k -> pc_handles p k' = np_handles np k' /\ pc_waits p k' = np_waits np k') ->
  cleanup_ents (s_ents s) k = inl (Some ents') ->
  s_ents s2 = ents' -> s_guards s2 = s_guards s -> s_ops s2 = s_ops s -> s_gid s2 = s_gid s ->
  Inv (upd_ops s2 a np).
Proof.
  intros HI Ha Hp Hpw Hnp Hnw Hoth Hc E1 E2 E3 E4. subst ents'.
  pose proof HI as [nde ndg ndo hgid hk]. pose proof (hk k) as [kmx kg kw kr k2 kp].
  pose proof (agent_not_waiting s a p k Ha Hpw) as Hnwait.
  unfold cleanup_ents in Hc. destruct (aget k (s_ents s)) as [e|] eqn:He; [|discriminate].
  pose proof (lf_handles s s2 a p np HI Ha E3 k) as Hh. rewrite E2 in Hh. fold (handles s k) in Hh.
  pose proof (kr e eq_refl) as Hr. specialize (kmx e eq_refl) as (m1 & m2 & m3).
  assert (Hw' : forall a', waits_on (upd_ops s2 a np) a' k <-> waits_on s a' k).
  { intros a'. rewrite (lf_waits s s2 a np E3). split; [intros [[_ H]|[_ H]]; [congruence|auto]|].
    intros H. right. split; auto. intros ->. auto. }
  assert (Hg' : forall g, guard_on (upd_ops s2 a np) g k <-> guard_on s g k).
  { intros g. rewrite lf_guard. unfold guard_on. rewrite E2. tauto. }
  (* the two shapes of the result: entry kept with one replica less, or deleted *)
  assert (Kept : forall r, s_ents s2 = aset k (set_repl e r) (s_ents s) -> r + 1 = e_repl e ->
                 (e_val e = None -> 0 < r) -> Inv (upd_ops s2 a np)).
  { intros r E1 Hr1 Hr2. eapply (local_step s s2 a p np k); eauto.
    - rewrite E1. apply NoDup_aset; auto.
    - rewrite E2; auto.
    - rewrite E2, E4; auto.
    - intros k' Hne. rewrite E1, E2. unfold guard_on. rewrite E2. rewrite aget_aset_neq by auto. tauto.
    - assert (Hge : aget k (s_ents (upd_ops s2 a np)) = Some (set_repl e r))
        by (rewrite upd_ents, E1; apply aget_aset_eq).
      constructor.
      + intros e0. rewrite Hge. intros H; inv H. repeat split; auto.
      + intros g. rewrite Hg', kg, Hge. split; intros (e0 & H1 & H2); inv H1; eauto.
      + intros a'. rewrite Hw', kw, Hge. split; intros (e0 & H1 & H2); inv H1; eauto.
      + intros e0. rewrite Hge. intros H; inv H. cbn [e_repl set_repl]. lia.
      + intros e0. rewrite Hge. intros H; inv H. cbn. auto.
      + intros _. rewrite upd_ents, E1. apply akeys_aset_In. auto. }
  destruct (Nat.eqb_spec (e_repl e) 1) as [R1|R1].
  - destruct (e_owner e) as [o|] eqn:Eo; [discriminate|].
    destruct (e_val e) as [v|] eqn:Ev.
    + injection Hc as E1. apply (Kept 0); auto; try lia; try discriminate.
    + injection Hc as E1. symmetry in E1. eapply (local_step s s2 a p np k); eauto.
      * rewrite E1. apply NoDup_adel; auto.
      * rewrite E2; auto.
      * rewrite E2, E4; auto.
      * intros k' Hne. rewrite E1, E2. unfold guard_on. rewrite E2. rewrite aget_adel_neq by auto. tauto.
      * assert (Hge : aget k (s_ents (upd_ops s2 a np)) = None)
          by (rewrite upd_ents, E1; apply aget_adel_eq).
        constructor.
        -- intros e0. rewrite Hge. discriminate.
        -- intros g. rewrite Hg', kg, Hge. split; [|intros (? & ? & _); discriminate].
           intros (e0 & H1 & H2). inv H1. congruence.
        -- intros a'. rewrite Hw', kw, Hge. split; [|intros (? & ? & _); discriminate].
           intros (e0 & H1 & H2). inv H1. rewrite (m1 eq_refl) in H2. destruct H2 as [[]|H2]; congruence.
        -- intros e0. rewrite Hge. discriminate.
        -- intros e0. rewrite Hge. discriminate.
        -- lia.
  - injection Hc as E1. pose proof (agent_handles s a p k Ha). unfold handles in Hr.
    apply (Kept (e_repl e - 1)); auto; lia.
Qed.

(* G. cancellation of a pending wait under the global lock *)
Lemma cancel_core c s s2 a p np k ents' :
  Inv s -> aget a (s_ops s) = Some p ->
  pc_handles p k = 1 -> pc_waits p k = true -> np_handles np k = 0 -> np_waits np k = false ->
  (forall k', k' <> k -> pc_handles p k' = np_handles np k' /\ pc_waits p k' = np_waits np k') ->
  cancel_ents c (s_ents s) a k = inl (Some ents') ->
  s_ents s2 = ents' -> s_guards s2 = s_guards s -> s_ops s2 = s_ops s -> s_gid s2 = s_gid s ->
  Inv (upd_ops s2 a np).
Proof.
  intros HI Ha Hp Hpw Hnp Hnw Hoth Hc E1 E2 E3 E4. subst ents'.
  pose proof HI as [nde ndg ndo hgid hk]. pose proof (hk k) as [kmx kg kw kr k2 kp].
  unfold cancel_ents in Hc. destruct (aget k (s_ents s)) as [e|] eqn:He; [|discriminate].
  pose proof (lf_handles s s2 a p np HI Ha E3 k) as Hh. rewrite E2 in Hh. fold (handles s k) in Hh.
  pose proof (kr e eq_refl) as Hr. pose proof (kmx e eq_refl) as Hwf.
  pose proof (agent_handles s a p k Ha) as Hge1.
  assert (Hd : handles s k = gcount (s_guards s) k + ops_handles (s_ops s) k) by reflexivity.
  set (e1 := set_repl (mx_cancel e a) (e_repl e - 1)) in *.
  set (ents1 := promote_if_lru c k (aset k e1 (s_ents s))) in *.
  assert (G1 : forall k', aget k' ents1 = aget k' (aset k e1 (s_ents s))).
  { intros k'. unfold ents1, promote_if_lru. destruct (c_lru c); auto. apply aget_apromote. }
  assert (N1 : NoDup (akeys ents1)).
  { unfold ents1, promote_if_lru. destruct (c_lru c); [apply NoDup_apromote|]; apply NoDup_aset; auto. }
  assert (Hg' : forall g, guard_on (upd_ops s2 a np) g k <-> guard_on s g k).
  { intros g. rewrite lf_guard. unfold guard_on. rewrite E2. tauto. }
  assert (Hw' : forall a', waits_on (upd_ops s2 a np) a' k <->
                           (In a' (e_queue e1) \/ e_owner e1 = Some (OwnW a'))).
  { intros a'. rewrite (lf_waits s s2 a np E3). unfold e1. cbn [e_queue e_owner set_repl].
    rewrite (mx_cancel_waiters e a a' Hwf). split.
    - intros [[_ H]|[Hn H]]; [congruence|]. split; auto. apply kw in H as (e0 & H1 & H2). inv H1. auto.
    - intros [Hn H]. right. split; auto. apply kw. eauto. }
  assert (Kept : s_ents s2 = ents1 -> (e_val e = None -> 0 < e_repl e - 1) -> Inv (upd_ops s2 a np)).
  { intros E1 Hr2. eapply (local_step s s2 a p np k); eauto.
    - rewrite E1; auto.
    - rewrite E2; auto.
    - rewrite E2, E4; auto.
    - intros k' Hne. rewrite E1, E2, G1. unfold guard_on. rewrite E2. rewrite aget_aset_neq by auto. tauto.
    - assert (Hge : aget k (s_ents (upd_ops s2 a np)) = Some e1)
        by (rewrite upd_ents, E1, G1; apply aget_aset_eq).
      constructor.
      + intros e0. rewrite Hge. intros H; inv H. apply (mx_cancel_wf e a Hwf).
      + intros g. rewrite Hg', kg, Hge. split.
        * intros (e0 & H1 & H2). inv H1. exists e1. split; auto. unfold e1; cbn. apply mx_cancel_guard; auto.
        * intros (e0 & H1 & H2). inv H1. exists e. split; auto. unfold e1 in H2; cbn in H2.
          apply (mx_cancel_guard e a); auto.
      + intros a'. rewrite Hw', Hge. split; [eauto|]. intros (e0 & H1 & H2). inv H1. auto.
      + intros e0. rewrite Hge. intros H; inv H. cbn [e_repl set_repl e1]. lia.
      + intros e0. rewrite Hge. intros H; inv H. cbn [e_repl e_val set_repl e1]. rewrite mx_cancel_val. auto.
      + intros _. rewrite upd_ents, E1. apply keys_aget_iff. rewrite G1, aget_aset_eq. eauto. }
  destruct (Nat.eqb_spec (e_repl e1) 0) as [R1|R1].
  - destruct (e_owner e1) as [o|] eqn:Eo; [discriminate|].
    destruct (e_val e1) as [v|] eqn:Ev.
    + injection Hc as E1. symmetry in E1. apply Kept; auto.
      unfold e1 in Ev. cbn in Ev. rewrite mx_cancel_val in Ev. congruence.
    + injection Hc as E1. symmetry in E1. eapply (local_step s s2 a p np k); eauto.
      * rewrite E1. apply NoDup_adel; auto.
      * rewrite E2; auto.
      * rewrite E2, E4; auto.
      * intros k' Hne. rewrite E1, E2. unfold guard_on. rewrite E2.
        rewrite aget_adel_neq, G1, aget_aset_neq by auto. tauto.
      * assert (Hge : aget k (s_ents (upd_ops s2 a np)) = None)
          by (rewrite upd_ents, E1; apply aget_adel_eq).
        constructor.
        -- intros e0. rewrite Hge. discriminate.
        -- intros g. rewrite Hg', kg, Hge. split; [|intros (? & ? & _); discriminate].
           intros (e0 & H1 & H2). inv H1. apply (mx_cancel_guard e0 a) in H2.
           unfold e1 in Eo. cbn in Eo. congruence.
        -- intros a'. rewrite Hw', Hge. split; [|intros (? & ? & _); discriminate].
           unfold e1 in *. cbn [e_queue e_owner set_repl] in *.
           rewrite (mx_cancel_free e a Hwf Eo). intros [[]|H]; congruence.
        -- intros e0. rewrite Hge. discriminate.
        -- intros e0. rewrite Hge. discriminate.
        -- unfold e1 in R1. cbn in R1. lia.
  - injection Hc as E1. symmetry in E1. apply Kept; auto.
    unfold e1 in R1. cbn in R1. lia.
Qed.

(* H. the critical section of _unlock *)
Lemma unlock_cs_inv c s g s1 :
  Inv s -> unlock_cs c s g = inl (Some s1) -> Inv s1.
Proof.
  intros HI Hu. pose proof HI as [nde ndg ndo hgid hk].
  unfold unlock_cs in Hu. destruct (aget g (s_guards s)) as [k|] eqn:Hg; [|discriminate].
  pose proof (hk k) as [kmx kg kw kr k2 kp].
  destruct (aget k (s_ents s)) as [e|] eqn:He; [|discriminate].
  assert (Ho : e_owner e = Some (OwnG g)).
  { destruct (proj1 (kg g) Hg) as (e0 & H1 & H2). inv H1. auto. }
  pose proof (kmx e eq_refl) as Hwf. pose proof (kr e eq_refl) as Hr.
  set (e1 := set_repl (mx_release e) (e_repl e - 1)) in *.
  set (guards := adel g (s_guards s)) in *.
  pose proof (gcount_adel (s_guards s) g k ndg) as Hgc. rewrite Hg, Nat.eqb_refl in Hgc. fold guards in Hgc.
  assert (Hd : handles s k = gcount (s_guards s) k + ops_handles (s_ops s) k) by reflexivity.
  assert (Hgo : forall s2, s_guards s2 = guards -> forall g' k', k' <> k -> guard_on s2 g' k' <-> guard_on s g' k').
  { intros s2 E g' k' Hne. unfold guard_on. rewrite E. unfold guards. rewrite aget_adel.
    destruct (Nat.eqb_spec g' g); [|tauto]. subst. split; [discriminate|congruence]. }
  assert (Hgk : forall s2, s_guards s2 = guards -> forall g', ~ guard_on s2 g' k).
  { intros s2 E g'. unfold guard_on. rewrite E. unfold guards. rewrite aget_adel.
    destruct (Nat.eqb_spec g' g); [discriminate|]. intros H. apply kg in H as (e0 & H1 & H2). inv H1. congruence. }
  assert (Hgc' : forall k', k' <> k -> gcount guards k' = gcount (s_guards s) k').
  { intros k' Hne. pose proof (gcount_adel (s_guards s) g k' ndg) as H. rewrite Hg in H. fold guards in H.
    destruct (Nat.eqb_spec k k'); [congruence|lia]. }
  assert (Hwq : forall a', waits_on s a' k <-> (In a' (e_queue e1) \/ e_owner e1 = Some (OwnW a'))).
  { intros a'. unfold e1. cbn [e_queue e_owner set_repl]. rewrite mx_release_waiters, kw. split.
    - intros (e0 & H1 & [H2|H2]); inv H1; [auto|congruence].
    - intros H. eauto. }
  assert (Ndg : NoDup (akeys guards)) by (apply NoDup_adel; auto).
  assert (Hgid : forall g', In g' (akeys guards) -> g' < s_gid s).
  { intros g' H. apply hgid. unfold guards in H. rewrite akeys_adel in H. apply remove_nat_In in H. tauto. }
  (* entry kept *)
  assert (Kept : forall ents1, (forall k', aget k' ents1 = aget k' (aset k e1 (s_ents s))) -> NoDup (akeys ents1) ->
                 (e_val e = None -> 0 < e_repl e - 1) ->
                 Inv (with_guards (with_ents s ents1) guards)).
  { intros ents1 G1 N1 Hr2. apply (local_step0 s _ k); cbn [s_ops s_ents s_guards s_gid with_guards with_ents]; auto.
    - intros k' Hne. rewrite G1, aget_aset_neq by auto.
      split; [reflexivity|split; [intros g'; apply Hgo; auto|apply Hgc'; auto]].
    - assert (Hge : aget k ents1 = Some e1) by (rewrite G1; apply aget_aset_eq).
      constructor; cbn [s_ops s_ents s_guards s_gid with_guards with_ents]; unfold handles, waits_on;
        cbn [s_ops s_ents s_guards s_gid with_guards with_ents]; rewrite ?Hge.
      + intros e0 H; inv H. apply mx_release_wf with (g := g); auto.
      + intros g'. split; [intros H; exfalso; eapply (Hgk (with_guards (with_ents s ents1) guards)); eauto|].
        intros (e0 & H1 & H2). inv H1. unfold e1 in H2. cbn in H2. exfalso. eapply mx_release_not_guard; eauto.
      + intros a'. fold (waits_on s a' k). rewrite Hwq. split; [eauto|]. intros (e0 & H1 & H2). inv H1. auto.
      + intros e0 H; inv H. cbn [e_repl set_repl e1]. lia.
      + intros e0 H; inv H. cbn [e_repl e_val set_repl e1]. rewrite mx_release_val. auto.
      + intros _. apply keys_aget_iff. eauto. }
  destruct (e_val e) as [v|] eqn:Ev.
  - inv Hu. apply Kept; auto; [apply NoDup_aset; auto|discriminate].
  - assert (G1 : forall k', aget k' (promote_if_lru c k (aset k e1 (s_ents s))) = aget k' (aset k e1 (s_ents s))).
    { intros k'. unfold promote_if_lru. destruct (c_lru c); auto. apply aget_apromote. }
    assert (N1 : NoDup (akeys (promote_if_lru c k (aset k e1 (s_ents s))))).
    { unfold promote_if_lru. destruct (c_lru c); [apply NoDup_apromote|]; apply NoDup_aset; auto. }
    destruct (Nat.eqb_spec (e_repl e1) 0) as [R1|R1].
    + inv Hu. unfold e1 in R1. cbn in R1.
      apply (local_step0 s _ k); cbn [s_ops s_ents s_guards s_gid with_guards with_ents]; auto.
      * apply NoDup_adel; auto.
      * intros k' Hne. rewrite aget_adel_neq, G1, aget_aset_neq by auto.
        split; [reflexivity|split; [intros g'; apply Hgo; auto|apply Hgc'; auto]].
      * constructor; cbn [s_ops s_ents s_guards s_gid with_guards with_ents]; unfold handles, waits_on;
          cbn [s_ops s_ents s_guards s_gid with_guards with_ents]; rewrite ?aget_adel_eq.
        -- discriminate.
        -- intros g'. split; [|intros (? & ? & _); discriminate].
           intros H. exfalso. eapply (Hgk (with_guards (with_ents s (s_ents s)) guards)); eauto.
        -- intros a'. fold (waits_on s a' k). split; [|intros (? & ? & _); discriminate].
           intros H. apply waits_on_handles in H. lia.
        -- discriminate.
        -- discriminate.
        -- lia.
    + inv Hu. apply Kept; auto. unfold e1 in R1. cbn in R1. lia.
Qed.

(* I. locking an unlocked entry with a fresh guard inside a critical section (eviction, expiry scan) *)
Lemma lock_one_inv s k e :
  Inv s -> aget k (s_ents s) = Some e -> e_owner e = None ->
  Inv (with_ents (fst (new_guard s k))
         (aset k (set_repl (set_owner e (Some (OwnG (s_gid s)))) (S (e_repl e))) (s_ents s))).
Proof.
  intros HI He Ho. pose proof (Inv_fresh_gid s HI) as Hfresh.
  pose proof HI as [nde ndg ndo hgid hk]. pose proof (hk k) as [kmx kg kw kr k2 kp].
  set (g := s_gid s) in *.
  set (e' := set_repl (set_owner e (Some (OwnG g))) (S (e_repl e))).
  specialize (kmx e He) as (m1 & m2 & m3).
  apply (local_step0 s _ k); cbn [new_guard fst s_ops s_ents s_guards s_gid with_guards with_ents with_gid]; auto.
  - apply NoDup_aset; auto.
  - cbn. constructor; auto.
  - cbn. intros g' [<-|H]; [lia|]. apply hgid in H. fold g. lia.
  - intros k' Hne. rewrite aget_aset_neq by auto. split; auto. split.
    + intros g'. unfold guard_on. cbn. fold g. destruct (Nat.eqb_spec g' g); [|tauto].
      subst. split; [intros H; inv H; congruence|]. intros H. apply aget_Some_keys in H. tauto.
    + rewrite gcount_cons. destruct (Nat.eqb_spec k k'); [congruence|auto].
  - constructor; cbn [s_ops s_ents s_guards s_gid with_guards with_ents with_gid]; unfold handles, waits_on, guard_on;
      cbn [s_ops s_ents s_guards s_gid with_guards with_ents with_gid]; rewrite ?aget_aset_eq.
    + intros e0 H; inv H. repeat split; cbn; auto; discriminate.
    + intros g'. cbn. fold g. destruct (Nat.eqb_spec g' g).
      * subst. split; eauto.
      * fold (guard_on s g' k). rewrite kg. split.
        -- intros (e0 & H1 & H2). rewrite He in H1. inv H1. congruence.
        -- intros (e0 & H1 & H2). inv H1. cbn in H2. inv H2. congruence.
    + intros a'. fold (waits_on s a' k). rewrite kw. split.
      * intros (e0 & H1 & H2). rewrite He in H1. inv H1. exfalso. rewrite (m1 Ho) in H2. destruct H2 as [[]|H2]; congruence.
      * intros (e0 & H1 & H2). inv H1. cbn in H2. exists e. split; auto. intuition discriminate.
    + intros e0 H; inv H. cbn [e_repl set_repl e']. rewrite gcount_cons, Nat.eqb_refl.
      rewrite (kr e He). unfold handles. lia.
    + intros e0 H; inv H. cbn. lia.
    + intros _. apply akeys_aset_In. auto.
Qed.
