(* The protocol invariant and the generic framing lemmas.
   Inv s = global well-formedness /\ forall k, KInv s k  (per-key invariant). *)
From Coq Require Import List Arith ZArith Bool Lia.
From LK Require Import AList AListFacts Model.
Import ListNotations.

(* ------------------------------------------------------------------ *)
(* who holds a handle (ReplicaArc / ReplicaOwnedMutexGuard) on key k *)

Definition sub_handles (subs : list (key * sub)) (k : key) : nat :=
  match aget k subs with Some SInit | Some SQueued => 1 | _ => 0 end.

Definition sub_waits (subs : list (key * sub)) (k : key) : bool :=
  match aget k subs with Some SQueued => true | _ => false end.

Definition pc_handles (p : pc) (k : key) : nat :=
  match p with
  | PKeyTry _ k' | PKeyWait _ k' | PQueued _ k' | PCleanup _ k' | PCancel k' =>
      if Nat.eqb k k' then 1 else 0
  | PStream subs | PStreamDrop subs => sub_handles subs k
  | _ => 0
  end.

Definition pc_waits (p : pc) (k : key) : bool :=
  match p with
  | PQueued _ k' | PCancel k' => Nat.eqb k k'
  | PStream subs | PStreamDrop subs => sub_waits subs k
  | _ => false
  end.

Fixpoint ops_handles (ops : list (aid * pc)) (k : key) : nat :=
  match ops with
  | [] => 0
  | ap :: t => pc_handles (snd ap) k + ops_handles t k
  end.

Definition gcount (gs : list (gid * key)) (k : key) : nat :=
  length (filter (fun gk => Nat.eqb (snd gk) k) gs).

Definition handles (s : state) (k : key) : nat :=
  gcount (s_guards s) k + ops_handles (s_ops s) k.

Arguments gcount : simpl never.
Arguments handles : simpl never.

Definition waits_on (s : state) (a : aid) (k : key) : Prop :=
  exists p, aget a (s_ops s) = Some p /\ pc_waits p k = true.

Definition guard_on (s : state) (g : gid) (k : key) : Prop := aget g (s_guards s) = Some k.

(* ------------------------------------------------------------------ *)
(* per-key invariant *)

Definition mx_wf (e : entry) : Prop :=
  (e_owner e = None -> e_queue e = []) /\
  NoDup (e_queue e) /\
  (forall a, e_owner e = Some (OwnW a) -> ~ In a (e_queue e)).

Record KInv (s : state) (k : key) : Prop := {
  ki_mx : forall e, aget k (s_ents s) = Some e -> mx_wf e;
  ki_g : forall g, guard_on s g k <-> exists e, aget k (s_ents s) = Some e /\ e_owner e = Some (OwnG g);
  ki_w : forall a, waits_on s a k <->
           exists e, aget k (s_ents s) = Some e /\ (In a (e_queue e) \/ e_owner e = Some (OwnW a));
  ki_r : forall e, aget k (s_ents s) = Some e -> e_repl e = handles s k;
  ki_2 : forall e, aget k (s_ents s) = Some e -> e_val e = None -> 0 < e_repl e;
  ki_p : 0 < handles s k -> In k (akeys (s_ents s))
}.

Record Inv (s : state) : Prop := {
  inv_nd_e : NoDup (akeys (s_ents s));
  inv_nd_g : NoDup (akeys (s_guards s));
  inv_nd_o : NoDup (akeys (s_ops s));
  inv_gid : forall g, In g (akeys (s_guards s)) -> g < s_gid s;
  inv_k : forall k, KInv s k
}.

(* ------------------------------------------------------------------ *)
(* two states look the same at key k *)

Record same_at (s s' : state) (k : key) : Prop := {
  sa_e : aget k (s_ents s') = aget k (s_ents s);
  sa_g : forall g, guard_on s' g k <-> guard_on s g k;
  sa_gc : gcount (s_guards s') k = gcount (s_guards s) k;
  sa_h : ops_handles (s_ops s') k = ops_handles (s_ops s) k;
  sa_w : forall a, waits_on s' a k <-> waits_on s a k
}.

Lemma same_at_refl s k : same_at s s k.
Proof. constructor; tauto || reflexivity. Qed.

Lemma same_at_trans s1 s2 s3 k : same_at s1 s2 k -> same_at s2 s3 k -> same_at s1 s3 k.
Proof.
  intros [a1 b1 c1 d1 e1] [a2 b2 c2 d2 e2]. constructor; try congruence.
  - intros g. rewrite b2. apply b1.
  - intros a. rewrite e2. apply e1.
Qed.

Lemma KInv_same s s' k : same_at s s' k -> KInv s k -> KInv s' k.
Proof.
  intros [He Hg Hgc Hh Hw] [i1 i2 i3 i4 i5 i6].
  assert (Hhd : handles s' k = handles s k) by (unfold handles; congruence).
  constructor.
  - intros e. rewrite He. auto.
  - intros g. rewrite Hg, He. auto.
  - intros a. rewrite Hw, He. auto.
  - intros e. rewrite He, Hhd. auto.
  - intros e. rewrite He. auto.
  - rewrite Hhd. intros H. apply i6 in H. apply keys_aget in H as [v H].
    rewrite <- He in H. eapply aget_Some_keys; eauto.
Qed.

(* ------------------------------------------------------------------ *)
(* counting lemmas *)

Lemma ops_handles_aset ops a p k : NoDup (akeys ops) ->
  ops_handles (aset a p ops) k + match aget a ops with Some p0 => pc_handles p0 k | None => 0 end
  = ops_handles ops k + pc_handles p k.
Proof.
  induction ops as [|[a' p'] t IH]; cbn; intros Hnd; [lia|].
  inversion Hnd as [|? ? Hn Hnd']; subst.
  destruct (Nat.eqb_spec a a'); cbn.
  - lia.
  - specialize (IH Hnd'). lia.
Qed.

Lemma ops_handles_adel ops a k : NoDup (akeys ops) ->
  ops_handles (adel a ops) k + match aget a ops with Some p0 => pc_handles p0 k | None => 0 end
  = ops_handles ops k.
Proof.
  induction ops as [|[a' p'] t IH]; cbn; intros Hnd; [lia|].
  inversion Hnd as [|? ? Hn Hnd']; subst.
  destruct (Nat.eqb_spec a a') as [E|E]; cbn.
  - rewrite E. rewrite adel_notin by auto. lia.
  - specialize (IH Hnd'). lia.
Qed.

Lemma gcount_cons g k0 gs k :
  gcount ((g, k0) :: gs) k = (if Nat.eqb k0 k then 1 else 0) + gcount gs k.
Proof. unfold gcount. cbn. destruct (Nat.eqb k0 k); cbn; auto. Qed.

Lemma gcount_adel gs g k : NoDup (akeys gs) ->
  gcount (adel g gs) k + match aget g gs with Some k0 => if Nat.eqb k0 k then 1 else 0 | None => 0 end
  = gcount gs k.
Proof.
  induction gs as [|[g' k'] t IH]; intros Hnd; [reflexivity|].
  cbn in Hnd. inversion Hnd as [|? ? Hn Hnd']; subst.
  cbn [adel aget]. destruct (Nat.eqb_spec g g') as [E|E].
  - rewrite E, adel_notin by auto. rewrite gcount_cons. lia.
  - rewrite !gcount_cons. specialize (IH Hnd'). lia.
Qed.

Lemma gcount_pos gs k : 0 < gcount gs k <-> exists g, In (g, k) gs.
Proof.
  unfold gcount. induction gs as [|[g' k'] t IH]; cbn.
  - split; [lia|intros [? []]].
  - destruct (Nat.eqb_spec k' k); cbn.
    + subst. split; [eauto|lia].
    + rewrite IH. split; intros [g H]; [eauto|].
      destruct H as [H|H]; [inversion H; congruence|eauto].
Qed.

Lemma ops_handles_pos ops k : 0 < ops_handles ops k <-> exists a p, In (a, p) ops /\ 0 < pc_handles p k.
Proof.
  induction ops as [|[a' p'] t IH]; cbn.
  - split; [lia|intros (? & ? & [] & _)].
  - split.
    + intros H. destruct (Nat.eq_dec (pc_handles p' k) 0) as [E|E].
      * rewrite E in H. apply IH in H as (a & p & Hi & Hp). eauto.
      * exists a', p'. split; auto. lia.
    + intros (a & p & [Hi|Hi] & Hp).
      * inversion Hi; subst. lia.
      * assert (0 < ops_handles t k) by (apply IH; eauto). lia.
Qed.

Lemma pc_waits_handles p k : pc_waits p k = true -> pc_handles p k = 1.
Proof.
  destruct p; cbn; try discriminate; try (intros ->; reflexivity);
  unfold sub_waits, sub_handles; destruct (aget k subs) as [[]|]; try discriminate; auto.
Qed.

(* ------------------------------------------------------------------ *)
(* effect of the state transformers on the per-key view *)

Lemma waits_on_set_pc s a p a' k :
  waits_on (set_pc s a p) a' k <-> (a' = a /\ pc_waits p k = true) \/ (a' <> a /\ waits_on s a' k).
Proof.
  unfold waits_on, set_pc. cbn. rewrite aget_aset. destruct (Nat.eqb_spec a' a).
  - subst. split.
    + intros (p0 & H & Hw). inversion H; subst. auto.
    + intros [[_ H]|[H _]]; [eauto|congruence].
  - split; [auto|]. intros [[H _]|[_ H]]; [congruence|auto].
Qed.

Lemma waits_on_fin s a a' k :
  waits_on (fin s a) a' k <-> (a' <> a /\ waits_on s a' k).
Proof.
  unfold waits_on, fin. cbn. rewrite aget_adel. destruct (Nat.eqb_spec a' a).
  - subst. split; [intros (? & H & _); discriminate|tauto].
  - tauto.
Qed.

Lemma handles_set_pc s a p k : NoDup (akeys (s_ops s)) ->
  handles (set_pc s a p) k + match aget a (s_ops s) with Some p0 => pc_handles p0 k | None => 0 end
  = handles s k + pc_handles p k.
Proof.
  intros H. unfold handles, set_pc. cbn [s_ops s_guards with_ops]. pose proof (ops_handles_aset (s_ops s) a p k H) as H0. destruct (aget a (s_ops s)); lia.
Qed.

Lemma handles_fin s a k : NoDup (akeys (s_ops s)) ->
  handles (fin s a) k + match aget a (s_ops s) with Some p0 => pc_handles p0 k | None => 0 end
  = handles s k.
Proof.
  intros H. unfold handles, fin. cbn [s_ops s_guards with_ops]. pose proof (ops_handles_adel (s_ops s) a k H) as H0. destruct (aget a (s_ops s)); lia.
Qed.

Lemma same_at_set_pc s a p p' k :
  NoDup (akeys (s_ops s)) -> aget a (s_ops s) = Some p ->
  pc_handles p k = pc_handles p' k -> pc_waits p k = pc_waits p' k ->
  same_at s (set_pc s a p') k.
Proof.
  intros Hnd Ha Hh Hw. constructor; cbn; try reflexivity; try tauto.
  - pose proof (ops_handles_aset (s_ops s) a p' k Hnd). rewrite Ha in H. lia.
  - intros a'. rewrite waits_on_set_pc. unfold waits_on. split.
    + intros [[-> H]|[_ H]]; auto. exists p. rewrite Hw. auto.
    + intros (p0 & H1 & H2). destruct (Nat.eq_dec a' a); [left|right; split; eauto].
      subst. split; auto. rewrite Ha in H1. inversion H1; subst. congruence.
Qed.

Lemma same_at_start s a p' k :
  aget a (s_ops s) = None -> NoDup (akeys (s_ops s)) ->
  pc_handles p' k = 0 -> pc_waits p' k = false ->
  same_at s (set_pc s a p') k.
Proof.
  intros Ha Hnd Hh Hw. constructor; cbn; try reflexivity; try tauto.
  - pose proof (ops_handles_aset (s_ops s) a p' k Hnd). rewrite Ha in H. lia.
  - intros a'. rewrite waits_on_set_pc. unfold waits_on. split.
    + intros [[-> H]|[_ H]]; auto. congruence.
    + intros (p0 & H1 & H2). right. split; eauto. congruence.
Qed.

Lemma same_at_fin s a p k :
  NoDup (akeys (s_ops s)) -> aget a (s_ops s) = Some p ->
  pc_handles p k = 0 -> pc_waits p k = false ->
  same_at s (fin s a) k.
Proof.
  intros Hnd Ha Hh Hw. constructor; cbn; try reflexivity; try tauto.
  - pose proof (ops_handles_adel (s_ops s) a k Hnd). rewrite Ha in H. lia.
  - intros a'. rewrite waits_on_fin. unfold waits_on. split; [tauto|].
    intros (p0 & H1 & H2). split; eauto. intros ->. congruence.
Qed.

Lemma same_at_ents s ents' k :
  aget k ents' = aget k (s_ents s) -> same_at s (with_ents s ents') k.
Proof. intros H. constructor; cbn; tauto || auto. Qed.

Lemma same_at_clock s c k : same_at s (with_clock s c) k.
Proof. constructor; cbn; tauto || auto. Qed.

Lemma same_at_new_guard s k0 k : k <> k0 -> ~ In (s_gid s) (akeys (s_guards s)) ->
  same_at s (fst (new_guard s k0)) k.
Proof.
  intros Hn Hf. constructor; cbn; try reflexivity; try tauto.
  - intros g. unfold guard_on. cbn. destruct (Nat.eqb_spec g (s_gid s)); [|tauto].
    subst. split; [intros H; inversion H; congruence|].
    intros H. apply aget_Some_keys in H. tauto.
  - rewrite gcount_cons. destruct (Nat.eqb_spec k0 k); [congruence|auto].
Qed.

Lemma same_at_del_guard s g k0 k : NoDup (akeys (s_guards s)) ->
  aget g (s_guards s) = Some k0 -> k <> k0 ->
  same_at s (with_guards s (adel g (s_guards s))) k.
Proof.
  intros Hnd Hg Hn. constructor; cbn; try reflexivity; try tauto.
  - intros g'. unfold guard_on. cbn. rewrite aget_adel. destruct (Nat.eqb_spec g' g); [|tauto].
    subst. split; [discriminate|congruence].
  - pose proof (gcount_adel (s_guards s) g k Hnd). rewrite Hg in H.
    destruct (Nat.eqb_spec k0 k); [congruence|lia].
Qed.

(* ------------------------------------------------------------------ *)
(* the invariant holds initially *)

Lemma Inv_init : Inv init.
Proof.
  constructor; cbn; try constructor; try tauto.
  - intros e; discriminate.
  - intros g. unfold guard_on. cbn. split; [discriminate|intros (? & ? & _); discriminate].
  - intros a. unfold waits_on. cbn. split; [intros (? & ? & _); discriminate|intros (? & ? & _); discriminate].
  - discriminate.
  - discriminate.
  - unfold handles, gcount. cbn. lia.
Qed.

(* basic consequences *)
Lemma Inv_guard_present s g k : Inv s -> aget g (s_guards s) = Some k ->
  exists e, aget k (s_ents s) = Some e /\ e_owner e = Some (OwnG g).
Proof. intros HI H. apply (ki_g _ _ (inv_k _ HI k)). auto. Qed.

Lemma Inv_fresh_gid s : Inv s -> ~ In (s_gid s) (akeys (s_guards s)).
Proof. intros HI H. apply (inv_gid _ HI) in H. lia. Qed.
