(* Guards that are in the middle of being dropped stay in the guard table until their unlock critical
   section runs, and no guard is being dropped by two agents.  Closes the enabledness gap for PDrops. *)
From Coq Require Import List Arith ZArith Bool Lia.
From LK Require Import AList AListFacts Model Inv StepInv NoPanic PropLemmas Seq.
Import ListNotations.

Definition sub_drops (subs : list (key * sub)) : list gid :=
  flat_map (fun ks => match snd ks with SUnlocking g => [g] | _ => [] end) subs.

Definition drops_of (p : pc) : list gid :=
  match p with
  | PDrops gs _ => gs
  | PStream subs | PStreamDrop subs => sub_drops subs
  | _ => []
  end.

Lemma sub_drops_in subs g : In g (sub_drops subs) <-> exists k, In (k, SUnlocking g) subs.
Proof.
  unfold sub_drops. rewrite in_flat_map. split.
  - intros ([k st] & Hin & H). cbn in H. destruct st; try (destruct H; fail).
    destruct H as [H|H]; [subst; eauto|destruct H].
  - intros [k Hin]. exists (k, SUnlocking g). split; auto. cbn. auto.
Qed.

Lemma existsb_unlocking subs g :
  existsb (fun ks : key * sub => match snd ks with SUnlocking g' => Nat.eqb g g' | _ => false end) subs = true
  <-> In g (sub_drops subs).
Proof.
  rewrite existsb_exists, sub_drops_in. split.
  - intros ([k st] & Hin & H). cbn in H. destruct st; try discriminate. apply Nat.eqb_eq in H. subst. eauto.
  - intros [k Hin]. exists (k, SUnlocking g). split; auto. cbn. apply Nat.eqb_refl.
Qed.

Lemma pc_drops_spec p g : pc_drops p g = true <-> In g (drops_of p).
Proof.
  destruct p; cbn [pc_drops drops_of]; try (split; [discriminate|intros []]).
  - apply mem_nat_In.
  - apply existsb_unlocking.
  - apply existsb_unlocking.
Qed.

Lemma sub_drops_app l1 l2 : sub_drops (l1 ++ l2) = sub_drops l1 ++ sub_drops l2.
Proof. unfold sub_drops. apply flat_map_app. Qed.

Definition subs_of (p : pc) : list (key * sub) :=
  match p with PStream subs | PStreamDrop subs => subs | _ => [] end.

Record DInv (s : state) : Prop := {
  di_live : forall a p g, aget a (s_ops s) = Some p -> In g (drops_of p) -> In g (akeys (s_guards s));
  di_nodup : forall a p, aget a (s_ops s) = Some p -> NoDup (drops_of p);
  di_excl : forall a1 a2 p1 p2 g, aget a1 (s_ops s) = Some p1 -> aget a2 (s_ops s) = Some p2 ->
              In g (drops_of p1) -> In g (drops_of p2) -> a1 = a2;
  di_subs : forall a p, aget a (s_ops s) = Some p -> NoDup (akeys (subs_of p))
}.

Lemma DInv_init : DInv init.
Proof. constructor; cbn; intros; discriminate. Qed.


(* ------------------------------------------------------------------ *)
(* generic update lemma *)

Definition np_drops (np : option pc) : list gid := match np with Some p => drops_of p | None => [] end.
Definition np_subs (np : option pc) : list (key * sub) := match np with Some p => subs_of p | None => [] end.

Lemma dinv_update s s' a np :
  DInv s ->
  s_ops s' = s_ops (upd_ops s a np) ->
  (forall a' p' g, a' <> a -> aget a' (s_ops s) = Some p' -> In g (drops_of p') -> In g (akeys (s_guards s'))) ->
  (forall g, In g (np_drops np) -> In g (akeys (s_guards s'))) ->
  NoDup (np_drops np) -> NoDup (akeys (np_subs np)) ->
  (forall a' p' g, a' <> a -> aget a' (s_ops s) = Some p' -> In g (drops_of p') -> ~ In g (np_drops np)) ->
  DInv s'.
Proof.
  intros [d1 d2 d3 d4] Eo H1 H2 H3 H3' H4.
  assert (G : forall a' p', aget a' (s_ops s') = Some p' ->
              (a' = a /\ np = Some p') \/ (a' <> a /\ aget a' (s_ops s) = Some p')).
  { intros a' p'. rewrite Eo. destruct np as [p0|]; cbn.
    - rewrite aget_aset. destruct (Nat.eqb_spec a' a); [intros H; inv H; auto|auto].
    - rewrite aget_adel. destruct (Nat.eqb_spec a' a); [discriminate|auto]. }
  constructor.
  - intros a' p' g Ha Hg. destruct (G a' p' Ha) as [[-> ->]|[Hne Ha0]]; [apply H2; auto|eapply H1; eauto].
  - intros a' p' Ha. destruct (G a' p' Ha) as [[-> ->]|[Hne Ha0]]; [auto|eapply d2; eauto].
  - intros a1 a2 p1 p2 g Ha1 Ha2 Hg1 Hg2.
    destruct (G a1 p1 Ha1) as [[-> ->]|[Hn1 Hb1]]; destruct (G a2 p2 Ha2) as [[-> E2]|[Hn2 Hb2]]; auto.
    + exfalso. eapply (H4 a2 p2 g); eauto.
    + exfalso. subst. eapply (H4 a1 p1 g); eauto.
    + eapply d3; eauto.
  - intros a' p' Ha. destruct (G a' p' Ha) as [[-> ->]|[Hne Ha0]]; [auto|eapply d4; eauto].
Qed.

(* the common case: agent a's set of dropped guards does not grow, guards do not shrink *)
Lemma dinv_shrink s s' a p np :
  DInv s -> aget a (s_ops s) = Some p ->
  s_ops s' = s_ops (upd_ops s a np) ->
  (forall g, In g (akeys (s_guards s)) -> In g (akeys (s_guards s'))) ->
  (forall g, In g (np_drops np) -> In g (drops_of p)) ->
  NoDup (np_drops np) -> NoDup (akeys (np_subs np)) ->
  DInv s'.
Proof.
  intros HD Ha Eo Hg Hsub Hnd Hnd'. pose proof HD as [d1 d2 d3 d4].
  apply (dinv_update s s' a np HD Eo); auto.
  - intros a' p' g Hne Ha' Hin. apply Hg. eapply d1; eauto.
  - intros g Hin. apply Hg. eapply d1; eauto.
  - intros a' p' g Hne Ha' Hin Hin'. apply Hne. eapply (d3 a' a); eauto.
Qed.

(* no agent involved, ops unchanged, guards do not shrink *)
Lemma dinv_same_ops s s' :
  DInv s -> s_ops s' = s_ops s -> (forall g, In g (akeys (s_guards s)) -> In g (akeys (s_guards s'))) -> DInv s'.
Proof.
  intros [d1 d2 d3 d4] Eo Hg. constructor; rewrite Eo; eauto.
Qed.

(* a new agent *)
Lemma dinv_start s a p' :
  DInv s -> aget a (s_ops s) = None ->
  (forall g, In g (drops_of p') -> In g (akeys (s_guards s)) /\ guard_busy s g = false) ->
  NoDup (drops_of p') -> NoDup (akeys (subs_of p')) ->
  forall s', s_ops s' = aset a p' (s_ops s) -> (forall g, In g (akeys (s_guards s)) -> In g (akeys (s_guards s'))) ->
  DInv s'.
Proof.
  intros HD Ha Hl Hnd Hnd' s' Eo Hg. pose proof HD as [d1 d2 d3 d4].
  apply (dinv_update s s' a (Some p')); auto.
  - intros a' p0 g Hne Ha' Hin. apply Hg. eapply d1; eauto.
  - intros g Hin. apply Hg. apply Hl; auto.
  - intros a' p0 g Hne Ha' Hin Hin'. destruct (Hl g Hin') as [_ Hb].
    unfold guard_busy in Hb. assert (existsb (fun ap => pc_drops (snd ap) g) (s_ops s) = true); [|congruence].
    apply existsb_exists. exists (a', p0). split; [apply aget_In; auto|]. cbn. apply pc_drops_spec. auto.
Qed.

Lemma guard_busy_false s g a p : guard_busy s g = false -> aget a (s_ops s) = Some p -> ~ In g (drops_of p).
Proof.
  intros Hb Ha Hin. unfold guard_busy in Hb.
  assert (existsb (fun ap => pc_drops (snd ap) g) (s_ops s) = true); [|congruence].
  apply existsb_exists. exists (a, p). split; [apply aget_In; auto|]. cbn. apply pc_drops_spec. auto.
Qed.

Lemma guard_live_spec s g : guard_live s g = true -> In g (akeys (s_guards s)) /\ guard_busy s g = false.
Proof.
  unfold guard_live. intros H. apply andb_true_iff in H as [H1 H2]. split.
  - apply amem_keys; auto.
  - apply negb_true_iff; auto.
Qed.

Lemma all_live_spec s gs : all_live s gs = true -> forall g, In g gs -> In g (akeys (s_guards s)) /\ guard_busy s g = false.
Proof.
  induction gs as [|x t IH]; cbn; [intros _ g []|].
  intros H. apply andb_true_iff in H as [H1 H2]. intros g [<-|Hin]; [apply guard_live_spec; auto|apply IH; auto].
Qed.

(* unconditional facts about the multi-key helpers *)
Lemma lock_keys_ops_guards ks : forall s,
  s_ops (fst (lock_keys s ks)) = s_ops s /\
  (forall g, In g (akeys (s_guards s)) -> In g (akeys (s_guards (fst (lock_keys s ks))))).
Proof.
  induction ks as [|k rest IH]; intros s; cbn [lock_keys]; [auto|].
  destruct (aget k (s_ents s)) as [e|]; [|apply IH]. cbn [new_guard].
  match goal with |- context [lock_keys ?x rest] => set (s2 := x) end.
  destruct (IH s2) as [H1 H2]. destruct (lock_keys s2 rest) as [s3 l]. cbn [fst] in *. split.
  - rewrite H1. reflexivity.
  - intros g Hg. apply H2. unfold s2. cbn. right. exact Hg.
Qed.

Lemma unlock_cs_guards c s g s1 : unlock_cs c s g = inl (Some s1) -> s_guards s1 = adel g (s_guards s).
Proof.
  unfold unlock_cs. destruct (aget g (s_guards s)) as [k|]; [|discriminate].
  destruct (aget k (s_ents s)) as [e|]; [|discriminate].
  destruct (e_val e); [intros H; inv H; auto|]. destruct (Nat.eqb _ 0); intros H; inv H; auto.
Qed.

(* the unlock critical section of agent a for the head g of its drops *)
Lemma dinv_unlock c s g s1 a p np s' :
  DInv s -> aget a (s_ops s) = Some p -> unlock_cs c s g = inl (Some s1) ->
  s_ops s' = s_ops (upd_ops s a np) -> s_guards s' = s_guards s1 ->
  In g (drops_of p) ->
  (forall x, In x (np_drops np) -> In x (drops_of p) /\ x <> g) ->
  NoDup (np_drops np) -> NoDup (akeys (np_subs np)) ->
  DInv s'.
Proof.
  intros HD Ha Hu Eo Eg Hg Hsub Hnd Hnd'. pose proof HD as [d1 d2 d3 d4].
  rewrite (unlock_cs_guards c s g s1 Hu) in Eg.
  assert (Hk : forall x, x <> g -> In x (akeys (s_guards s)) -> In x (akeys (s_guards s'))).
  { intros x Hne Hx. rewrite Eg, akeys_adel. apply remove_nat_In. auto. }
  apply (dinv_update s s' a np HD Eo); auto.
  - intros a' p' x Hne Ha' Hin. apply Hk; [|eapply d1; eauto].
    intros ->. apply Hne. eapply (d3 a' a); eauto.
  - intros x Hin. destruct (Hsub x Hin). apply Hk; auto. eapply d1; eauto.
  - intros a' p' x Hne Ha' Hin Hin'. destruct (Hsub x Hin'). apply Hne. eapply (d3 a' a); eauto.
Qed.

(* ------------------------------------------------------------------ *)
(* stream sub-lists *)

Definition st_drops (st : sub) : list gid := match st with SUnlocking g => [g] | _ => [] end.

Lemma sub_drops_split subs k st : NoDup (akeys subs) -> aget k subs = Some st ->
  exists d1 d2, sub_drops subs = d1 ++ st_drops st ++ d2 /\
                sub_drops (adel k subs) = d1 ++ d2 /\
                (forall st', sub_drops (aset k st' subs) = d1 ++ st_drops st' ++ d2).
Proof.
  intros Hnd Hk. destruct (alist_split k st subs Hnd Hk) as (l1 & l2 & E1 & E2 & E3 & _ & _).
  exists (sub_drops l1), (sub_drops l2). repeat split.
  - rewrite E1, sub_drops_app. cbn. unfold sub_drops at 2. cbn. fold (sub_drops l2). destruct st; reflexivity.
  - rewrite E2. apply sub_drops_app.
  - intros st'. rewrite E3, sub_drops_app. unfold sub_drops at 2. cbn. fold (sub_drops l2). destruct st'; reflexivity.
Qed.

Lemma NoDup_app_remove_mid {A} (l1 m l2 : list A) : NoDup (l1 ++ m ++ l2) -> NoDup (l1 ++ l2).
Proof.
  induction l1 as [|x t IH]; cbn.
  - induction m as [|y u IHm]; cbn; auto. intros H. inversion H; auto.
  - intros H. inversion H; subst. constructor; [|auto].
    rewrite !in_app_iff in *. tauto.
Qed.

Lemma akeys_aset_nodup {V} k (v : V) m : NoDup (akeys m) -> NoDup (akeys (aset k v m)).
Proof. apply NoDup_aset. Qed.

(* ------------------------------------------------------------------ *)
(* every step preserves DInv *)

Ltac simp_st := cbn [s_ops s_guards s_ents s_gid s_clock fin set_pc with_ents with_ops with_guards with_gid with_clock
                     upd_ops new_guard fst snd np_drops np_subs drops_of subs_of].

(* agent a goes from p to np, both without guards in drop, guards only grow *)
Ltac triv a p np :=
  match goal with HD : DInv ?s |- DInv ?s' =>
    apply (dinv_shrink s s' a p np HD); simp_st; auto;
    try (intros ? ?; simp_st; unfold akeys; cbn; auto; fail);
    try (intros ? []; fail);
    try (constructor; fail)
  end.

Lemma fresh_gid_not_dropped s a p : Inv s -> DInv s -> aget a (s_ops s) = Some p -> ~ In (s_gid s) (drops_of p).
Proof.
  intros HI HD Ha Hin. apply (Inv_fresh_gid s HI). eapply (di_live _ HD); eauto.
Qed.

Theorem step_dinv c s l s' o : Inv s -> DInv s -> step c s l = ROk s' o -> DInv s'.
Proof.
  intros HI HD H. destruct l; cbn [step] in H.
  - (* start *)
    unfold do_start in H. destruct (amem a (s_ops s)) eqn:Hm; [discriminate|].
    assert (Ha : aget a (s_ops s) = None) by (unfold amem in Hm; destruct (aget a (s_ops s)); [discriminate|auto]).
    assert (T : forall p', drops_of p' = [] -> subs_of p' = [] -> DInv (set_pc s a p')).
    { intros p' E1 E2. apply (dinv_start s a p' HD Ha).
      - rewrite E1. intros g [].
      - rewrite E1. constructor.
      - rewrite E2. constructor.
      - reflexivity.
      - auto. }
    destruct c0.
    + destruct (lim_ok lim); inv H. apply T; auto.
    + destruct (guard_live s g) eqn:Hl; inv H. destruct (guard_live_spec s g Hl) as [L1 L2].
      apply (dinv_start s a (PDrops [g] ADoneUnit) HD Ha); simp_st; auto.
      * intros x [<-|[]]. auto.
      * constructor; [intros []|constructor].
      * constructor.
      * cbn. rewrite begin_unlock_ops. reflexivity.
      * cbn. rewrite begin_unlock_guards. auto.
    + destruct (c_lru c && Z.leb 0 d)%bool; [|discriminate]. destruct (cutoff_of _ _); inv H; auto.
    + inv H. apply T; auto.
    + inv H. apply T; auto.
    + inv H. apply T; auto.
  - (* resume *)
    unfold do_resume in H. destruct (aget a (s_ops s)) as [p|] eqn:Ha; [|discriminate].
    assert (L : forall sh k lim s' o, p = PEnter sh k lim -> do_lookup c s a sh k = ROk s' o -> DInv s').
    { intros sh k lim s1 o1 -> H1. unfold do_lookup in H1. destruct (aget k (s_ents s)) as [e|].
      - inv H1. destruct (sh_is_try sh); [triv a (PEnter sh k lim) (Some (PKeyTry sh k))|triv a (PEnter sh k lim) (Some (PKeyWait sh k))].
      - cbn [new_guard] in H1. inv H1. triv a (PEnter sh k lim) (@None pc). }
    destruct p; try discriminate; try (apply cs_ok in H).
    + unfold do_enter in H. destruct lim as [n|]; [|eapply L; eauto].
      destruct (length (s_ents s) - (n - 1)); [eapply L; eauto|].
      destruct (iter_order c s o0); [|discriminate].
      destruct (evict_scan (s_ents s) l (S n0)) as [[[|k1 ks]|]|]; try discriminate; [eapply L; eauto|].
      destruct (lock_keys_ops_guards (k1 :: ks) s) as [V1 V2].
      destruct (lock_keys s (k1 :: ks)) as [s1 off]. cbn [fst] in *. inv H.
      apply (dinv_shrink s _ a (PEnter sh k (Some n)) (Some (PInCb sh k n (map (fun x => fst (fst x)) off))) HD Ha);
        simp_st; auto; try constructor; try (intros ? []). rewrite V1. reflexivity.
    + unfold do_key_try in H. destruct (aget k (s_ents s)) as [e|]; [|discriminate].
      destruct (e_owner e); inv H.
      * triv a (PKeyTry sh k) (Some (PCleanup sh k)).
      * triv a (PKeyTry sh k) (@None pc).
    + unfold do_key_wait in H. destruct (aget k (s_ents s)) as [e|]; [|discriminate].
      destruct (e_owner e); inv H.
      * triv a (PKeyWait sh k) (Some (PQueued sh k)).
      * triv a (PKeyWait sh k) (@None pc).
    + unfold do_queued in H. destruct (aget k (s_ents s)) as [e|]; [|discriminate].
      destruct (own_is_waiter _ a); inv H. triv a (PQueued sh k) (@None pc).
    + unfold do_cleanup in H. destruct (cleanup_ents (s_ents s) k) as [[ents|]|]; inv H.
      triv a (PCleanup sh k) (@None pc).
    + destruct (cancel_ents c (s_ents s) a k) as [[ents|]|]; inv H. triv a (PCancel k) (@None pc).
    + (* drops *)
      unfold do_drops in H. destruct gs as [|g rest]; [discriminate|].
      destruct (unlock_cs c s g) as [[s1|]|] eqn:Hu; try discriminate.
      pose proof (unlock_cs_ops c s g s1 Hu) as Ho.
      pose proof (di_nodup _ HD a _ Ha) as Hnd. cbn in Hnd. inversion Hnd as [|? ? Hng Hnd']; subst.
      destruct rest as [|g' rest'].
      * assert (T : forall np, np_drops np = [] -> np_subs np = [] -> DInv (upd_ops s1 a np)).
        { intros np E1 E2. apply (dinv_unlock c s g s1 a (PDrops [g] af) np _ HD Ha Hu); rewrite ?E1, ?E2; auto;
            try constructor; try (intros ? []); cbn; auto.
          - destruct np; cbn; rewrite Ho; reflexivity.
          - apply upd_guards. }
        destruct af; inv H; try (apply (T None); reflexivity). apply (T (Some (PEnter sh k (Some lim)))); reflexivity.
      * inv H. apply (dinv_unlock c s g s1 a (PDrops (g :: g' :: rest') af) (Some (PDrops (g' :: rest') af)) _ HD Ha Hu);
          simp_st.
        -- rewrite begin_unlock_ops, Ho. reflexivity.
        -- rewrite begin_unlock_guards. reflexivity.
        -- left. reflexivity.
        -- intros y Hy. split; [right; auto|]. intros ->. tauto.
        -- exact Hnd'.
        -- constructor.
    + unfold do_scan in H. destruct (iter_order c s o0); [|discriminate].
      destruct (lock_keys_ops_guards (expired_keys (s_ents s) l cutoff) s) as [V1 V2].
      destruct (lock_keys s _) as [s1 ll]. cbn [fst] in *. inv H.
      apply (dinv_shrink s _ a (PScan cutoff) None HD Ha); simp_st; auto; try constructor; try (intros ? []).
      rewrite V1. reflexivity.
    + unfold do_stream_enter in H. destruct (iter_order c s o0) as [order|] eqn:Eo; [|discriminate]. inv H.
      destruct (iter_order_spec c s o0 order (inv_nd_e _ HI) Eo) as (Hnd & _ & _).
      apply (dinv_shrink s _ a PStreamEnter (Some (PStream (map (fun k => (k, SInit)) order))) HD Ha); simp_st; auto.
      * intros g Hin. exfalso. clear -Hin. induction order; cbn in *; auto.
      * assert (E : sub_drops (map (fun k : key => (k, SInit)) order) = []) by (clear; induction order; cbn; auto).
        rewrite E. constructor.
      * unfold akeys. rewrite map_map. cbn. rewrite map_id. auto.
    + inv H. triv a PCount (@None pc).
    + destruct (iter_order c s o0); inv H. triv a PKeys (@None pc).
  - (* sub *)
    unfold do_sub in H. destruct (aget a (s_ops s)) as [p|] eqn:Ha; [|discriminate].
    destruct p; try discriminate.
    + (* poll *)
      pose proof (di_subs _ HD a _ Ha) as Hsk. cbn in Hsk.
      pose proof (di_nodup _ HD a _ Ha) as Hsd. cbn in Hsd.
      assert (P : do_sub_poll c s a subs k = ROk s' o -> DInv s').
      { intros H1. unfold do_sub_poll in H1. destruct (aget k subs) as [st|] eqn:Hs; [|discriminate].
        destruct (aget k (s_ents s)) as [e|]; [|discriminate].
        destruct (sub_drops_split subs k st Hsk Hs) as (d1 & d2 & S1 & S2 & S3).
        rewrite S1 in Hsd.
        assert (Acq : st = SInit \/ st = SQueued -> forall s' o,
          (let (s1, g) := new_guard s k in
           let s2 := with_ents s1 (aset k (set_owner e (Some (OwnG g))) (s_ents s1)) in
           match val_of e with
           | Some v => ROk (set_pc s2 a (PStream (adel k subs))) (OItem g k v)
           | None => ROk (set_pc s2 a (PStream (aset k (SUnlocking g) subs))) ONothing
           end) = ROk s' o -> DInv s').
        { intros Hst s1 o1 Hr. cbn [new_guard] in Hr.
          assert (Est : st_drops st = []) by (destruct Hst; subst; auto). rewrite Est in *. cbn in Hsd.
          destruct (val_of e); inv Hr.
          - apply (dinv_shrink s _ a (PStream subs) (Some (PStream (adel k subs))) HD Ha); simp_st; auto.
            + intros g Hg. unfold akeys in *. cbn. auto.
            + intros g. rewrite S2, S1. cbn [app]. auto.
            + rewrite S2. auto.
            + apply NoDup_adel; auto.
          - apply (dinv_update s _ a (Some (PStream (aset k (SUnlocking (s_gid s)) subs))) HD); simp_st; auto.
            + intros a' p' g Hne Ha' Hin. change (In g (s_gid s :: akeys (s_guards s))). right. eapply (di_live _ HD); eauto.
            + intros g. rewrite S3. cbn [st_drops app]. rewrite in_app_iff.
              change (In g (akeys ((s_gid s, k) :: s_guards s))) with (In g (s_gid s :: akeys (s_guards s))).
              intros [Hg|[<-|Hg]]; [right|left; auto|right];
                apply (di_live _ HD a (PStream subs) g Ha); cbn [drops_of]; rewrite S1, in_app_iff; cbn; auto.
            + rewrite S3. cbn.
              assert (Hf : ~ In (s_gid s) (d1 ++ d2)).
              { intros Hin. apply (fresh_gid_not_dropped s a _ HI HD Ha). cbn [drops_of]. rewrite S1. cbn [app]. auto. }
              clear -Hsd Hf. induction d1 as [|x t IH]; cbn in *.
              * constructor; auto.
              * inversion Hsd; subst. constructor.
                -- rewrite in_app_iff in *. cbn. intros [?|[?|?]]; [tauto|subst; tauto|tauto].
                -- apply IH; auto.
            + apply NoDup_aset; auto.
            + intros a' p' g Hne Ha' Hin. rewrite S3. cbn. rewrite in_app_iff. cbn. intros [Hg|[<-|Hg]].
              * apply Hne. apply (di_excl _ HD a' a p' (PStream subs) g); auto. cbn [drops_of]. rewrite S1, in_app_iff. cbn. auto.
              * eapply (fresh_gid_not_dropped s a'); eauto.
              * apply Hne. apply (di_excl _ HD a' a p' (PStream subs) g); auto. cbn [drops_of]. rewrite S1, in_app_iff. cbn. auto. }
        destruct st.
        - destruct (e_owner e); [|eapply Acq; eauto].
          inv H1. apply (dinv_shrink s _ a (PStream subs) (Some (PStream (aset k SQueued subs))) HD Ha); simp_st; auto.
          + intros g. rewrite S3, S1. cbn. auto.
          + rewrite S3. cbn. cbn in Hsd. auto.
          + apply NoDup_aset; auto.
        - destruct (own_is_waiter _ a); [eapply Acq; eauto|discriminate].
        - destruct (unlock_cs c s g) as [[s1|]|] eqn:Hu; inv H1.
          pose proof (unlock_cs_ops c s g s1 Hu) as Ho. cbn in Hsd.
          apply (dinv_unlock c s g s1 a (PStream subs) (Some (PStream (adel k subs))) _ HD Ha Hu); simp_st; auto.
          + rewrite Ho. reflexivity.
          + rewrite S1. cbn. rewrite in_app_iff. cbn. auto.
          + intros x. rewrite S2, S1. cbn. rewrite !in_app_iff. cbn. intros Hx. split; [tauto|].
            intros ->. apply NoDup_remove_2 in Hsd. rewrite in_app_iff in Hsd. tauto.
          + rewrite S2. apply NoDup_remove_1 in Hsd. auto.
          + apply NoDup_adel; auto. }
      destruct (aget k subs) as [[| |g]|]; try (apply cs_ok in H); apply P; auto.
    + (* drop of a per-entry future *)
      apply cs_ok in H. unfold do_sub_drop in H. destruct (aget k subs) as [st|] eqn:Hs; [|discriminate].
      pose proof (di_subs _ HD a _ Ha) as Hsk. cbn in Hsk.
      pose proof (di_nodup _ HD a _ Ha) as Hsd. cbn in Hsd.
      destruct (sub_drops_split subs k st Hsk Hs) as (d1 & d2 & S1 & S2 & S3).
      assert (G : (st = SInit \/ st = SQueued) -> forall ents,
        match adel k subs with
        | [] => ROk (fin (with_ents s ents) a) OCancelled
        | _ => ROk (set_pc (with_ents s ents) a (PStreamDrop (adel k subs))) ONothing
        end = ROk s' o -> DInv s').
      { intros Hst ents Hr. assert (Est : st_drops st = []) by (destruct Hst; subst; auto).
        rewrite Est in S1. cbn [app] in S1.
        assert (Nr : NoDup (akeys (adel k subs))) by (apply NoDup_adel; auto).
        remember (adel k subs) as r eqn:Er. clear Er.
        assert (Sub : forall g, In g (sub_drops r) -> In g (sub_drops subs)).
        { intros g. rewrite S2, S1. auto. }
        assert (Ndr : NoDup (sub_drops r)) by (rewrite S2; rewrite S1 in Hsd; auto).
        destruct r as [|x t]; inv Hr.
        - apply (dinv_shrink s _ a (PStreamDrop subs) None HD Ha); simp_st; auto; try constructor; try (intros ? []).
        - apply (dinv_shrink s _ a (PStreamDrop subs) (Some (PStreamDrop (x :: t))) HD Ha); simp_st; auto. }
      destruct st; try discriminate;
        (destruct (cancel_ents c (s_ents s) a k) as [[ents|]|]; try discriminate; eapply G; eauto).
  - unfold do_pollend in H. destruct (aget a (s_ops s)) as [[]|]; try discriminate. destruct subs; inv H; auto.
  - (* cancel *)
    unfold do_cancel in H. destruct (aget a (s_ops s)) as [p|] eqn:Ha; [|discriminate].
    destruct p; try discriminate.
    + destruct (sh_is_async sh); inv H. triv a (PInCb sh k lim offered) (@None pc).
    + destruct (sh_is_async sh); inv H. triv a (PQueued sh k) (Some (PCancel k)).
    + destruct (existsb _ subs); [discriminate|].
      pose proof (di_subs _ HD a _ Ha) as Hsk. pose proof (di_nodup _ HD a _ Ha) as Hsd. cbn in Hsk, Hsd.
      destruct subs as [|x t]; inv H.
      * triv a (PStream []) (@None pc).
      * apply (dinv_shrink s _ a (PStream (x :: t)) (Some (PStreamDrop (x :: t))) HD Ha); simp_st; auto.
  - (* guard op *)
    unfold do_guard_op in H. destruct (negb (guard_live s g)); [discriminate|].
    destruct (aget g (s_guards s)) as [k|]; [|discriminate]. destruct (aget k (s_ents s)) as [e|]; [|discriminate].
    destruct op; try (destruct (e_val e) as [[? ?]|]); inv H; auto; apply (dinv_same_ops s); auto.
  - (* cbreturn *)
    unfold do_cbreturn in H. destruct (aget a (s_ops s)) as [p|] eqn:Ha; [|discriminate].
    destruct p; try discriminate. destruct hold.
    + destruct offered as [|g rest]; [discriminate|].
      destruct (all_live s (g :: rest) && nodup_nat (g :: rest))%bool eqn:E; inv H.
      apply andb_true_iff in E as [E1 E2]. apply nodup_nat_NoDup in E2.
      pose proof (all_live_spec s _ E1) as Hl.
      match goal with |- DInv (set_pc _ _ (PDrops _ ?af)) => set (af0 := af) end.
      apply (dinv_update s _ a (Some (PDrops (g :: rest) af0)) HD); simp_st; auto.
      * cbn. rewrite begin_unlock_ops. reflexivity.
      * intros a' p' x Hne Ha' Hin. cbn. rewrite begin_unlock_guards. eapply (di_live _ HD); eauto.
      * intros x Hx. cbn. rewrite begin_unlock_guards. apply Hl; auto.
      * constructor.
      * intros a' p' x Hne Ha' Hin Hx. destruct (Hl x Hx) as [_ Hb]. eapply guard_busy_false; eauto.
    + destruct r; inv H.
      * triv a (PInCb sh k lim offered) (Some (PEnter sh k (Some lim))).
      * triv a (PInCb sh k lim offered) (@None pc).
      * triv a (PInCb sh k lim offered) (@None pc).
  - destruct (Z.leb 0 d); inv H. apply (dinv_same_ops s); auto.
  - unfold do_consume in H. destruct (s_ops s) eqn:Eo; [|discriminate]. destruct (s_guards s); [|discriminate].
    destruct (negb _); [discriminate|]. destruct (iter_order c s o0); [|discriminate].
    destruct (consume_list _ _); inv H. constructor; cbn; rewrite Eo; cbn; intros; discriminate.
Qed.

Theorem reachable_dinv c s : reachable c s -> DInv s.
Proof.
  intros [ls H]. assert (G : forall s0 ls s1, steps c s0 ls s1 -> Inv s0 -> DInv s0 -> DInv s1).
  { intros s0 ls0 s1 Hs. induction Hs; auto. intros HI HD. apply IHHs; [eapply step_inv; eauto|eapply step_dinv; eauto]. }
  eapply G; eauto; [apply Inv_init|apply DInv_init].
Qed.

(* a guard drop in progress can always take its next step: the unlock critical section is enabled *)
Theorem drop_enabled c s a g rest af o :
  Inv s -> DInv s -> aget a (s_ops s) = Some (PDrops (g :: rest) af) ->
  exists s' ob, step c s (LResume a o) = ROk s' ob.
Proof.
  intros HI HD Ha.
  assert (Hg : In g (akeys (s_guards s))) by (eapply (di_live _ HD); eauto; cbn; auto).
  apply keys_aget in Hg as [k Hg].
  destruct (Inv_guard_present s g k HI Hg) as (e & He & _).
  assert (exists s1, unlock_cs c s g = inl (Some s1)) as [s1 Hu].
  { unfold unlock_cs. rewrite Hg, He. destruct (e_val e); eauto. destruct (Nat.eqb _ 0); eauto. }
  assert (exists s' ob, do_drops c s a (g :: rest) af = ROk s' ob) as (s' & ob & Hd).
  { unfold do_drops. rewrite Hu. destruct rest; [destruct af|]; eauto. }
  exists s', ob. cbn. unfold do_resume. rewrite Ha, Hd. apply cs_intro; auto. eapply do_drops_inv; eauto.
Qed.

(* the same for a stream that is dropping a valueless guard *)
Theorem stream_unlock_enabled c s a subs k g o :
  Inv s -> DInv s -> aget a (s_ops s) = Some (PStream subs) -> aget k subs = Some (SUnlocking g) ->
  aget k (s_ents s) <> None ->
  exists s' ob, step c s (LSub a k o) = ROk s' ob.
Proof.
  intros HI HD Ha Hs Hk.
  assert (Hg : In g (akeys (s_guards s))).
  { eapply (di_live _ HD); eauto. cbn. apply sub_drops_in. exists k. apply aget_In; auto. }
  apply keys_aget in Hg as [k' Hg].
  destruct (Inv_guard_present s g k' HI Hg) as (e' & He' & _).
  assert (exists s1, unlock_cs c s g = inl (Some s1)) as [s1 Hu].
  { unfold unlock_cs. rewrite Hg, He'. destruct (e_val e'); eauto. destruct (Nat.eqb _ 0); eauto. }
  destruct (aget k (s_ents s)) as [e|] eqn:He; [|congruence].
  assert (Hp : do_sub_poll c s a subs k = ROk (set_pc s1 a (PStream (adel k subs))) ONothing).
  { unfold do_sub_poll. rewrite Hs, He, Hu. reflexivity. }
  eexists _, _. cbn. unfold do_sub. rewrite Ha, Hs, Hp. apply cs_intro; auto. eapply do_sub_poll_inv; eauto.
Qed.

(* a per-entry future that has not been polled yet can always be polled; one that was handed the key can
   always take the guard: together with stream_unlock_enabled, every pending key of a stream makes
   progress as soon as its mutex is free or handed over *)
Theorem stream_first_poll_enabled c s a subs k o :
  Inv s -> aget a (s_ops s) = Some (PStream subs) -> aget k subs = Some SInit ->
  exists s' ob, step c s (LSub a k o) = ROk s' ob.
Proof.
  intros HI Ha Hs.
  destruct (handle_present s a (PStream subs) k HI Ha) as [e He]; [cbn; unfold sub_handles; rewrite Hs; auto|].
  cbn. unfold do_sub. rewrite Ha, Hs. unfold do_sub_poll. rewrite Hs, He.
  destruct (e_owner e); [eauto|]. cbn [new_guard]. destruct (val_of e); eauto.
Qed.

Theorem stream_handed_poll_enabled c s a subs k e o :
  aget a (s_ops s) = Some (PStream subs) -> aget k subs = Some SQueued ->
  aget k (s_ents s) = Some e -> e_owner e = Some (OwnW a) ->
  exists s' ob, step c s (LSub a k o) = ROk s' ob.
Proof.
  intros Ha Hs He Ho. cbn. unfold do_sub. rewrite Ha, Hs. unfold do_sub_poll. rewrite Hs, He, Ho. cbn.
  rewrite Nat.eqb_refl. destruct (val_of e); eauto.
Qed.

(* ------------------------------------------------------------------ *)
(* C05: lock an absent key (any variant) and drop the guard again: nothing remains *)

Lemma then_inv (r : result) (f : state -> result) s' o :
  (forall s1, r = ROk s1 ONothing -> Inv s1) ->
  (forall s1 o1, r = ROk s1 o1 -> Inv s1) ->
  (forall s1 s2 o2, Inv s1 -> f s1 = ROk s2 o2 -> Inv s2) ->
  then_ r f = ROk s' o -> Inv s'.
Proof.
  intros H1 H1' H2. unfold then_. destruct r as [s1 o1| |]; try discriminate.
  destruct o1; try (intros H; inv H; eapply H1'; eauto; fail). intros H. eapply H2; eauto.
Qed.

Lemma seq_lock_inv c s a sh k s' o : Inv s -> seq_lock c s a sh k = ROk s' o -> Inv s'.
Proof.
  intros HI. unfold seq_lock.
  assert (S1 : forall s0 l s1 o1, Inv s0 -> step c s0 l = ROk s1 o1 -> Inv s1) by (intros; eapply step_inv; eauto).
  apply then_inv; try (intros; eapply S1; eauto; fail).
  intros s1 s2 o2 I1. apply then_inv; try (intros; eapply S1; eauto; fail).
  intros s3 s4 o4 I3. apply then_inv; try (intros; eapply S1; eauto; fail).
Qed.

Theorem lock_drop_absent_roundtrip c s a a' sh k :
  Inv s -> DInv s -> aget a (s_ops s) = None -> aget a' (s_ops s) = None -> aget k (s_ents s) = None ->
  exists s1, seq_lock c s a sh k = ROk s1 (OGuard (s_gid s) k None) /\
             seq_drop c s1 a' (s_gid s) = ROk (with_gid s (S (s_gid s))) OUnit.
Proof.
  intros HI HD Ha Ha' Hk.
  assert (Hf : key_free s k) by (unfold key_free; rewrite Hk; auto).
  pose proof (seq_lock_free c s a sh k HI Ha Hf) as E1.
  assert (Hv : vof s k = None) by (unfold vof, vof_e; rewrite Hk; auto). rewrite Hv in E1.
  exists (locked_state c s k). split; auto.
  pose proof (seq_lock_inv c s a sh k _ _ HI E1) as HI1.
  unfold locked_state in *. rewrite Hk in *. cbv beta iota zeta in *.
  set (g := s_gid s) in *.
  set (e1 := mkE None (Some (OwnG g)) [] 1).
  set (s1 := mkS (aset k e1 (s_ents s)) ((g, k) :: s_guards s) (s_ops s) (s_clock s) (S g)) in *.
  assert (Hfresh : ~ In g (akeys (s_guards s))) by (apply Inv_fresh_gid; auto).
  assert (Hb : guard_busy s1 g = false).
  { unfold guard_busy. cbn [s_ops s1]. destruct (existsb _ (s_ops s)) eqn:E; auto.
    apply existsb_exists in E as ([a0 p0] & Hin & Hp). cbn in Hp. apply pc_drops_spec in Hp.
    exfalso. apply Hfresh. apply (di_live _ HD a0 p0 g); auto. apply In_aget; auto. apply (inv_nd_o _ HI). }
  change (seq_drop c s1 a' g = ROk (with_gid s (S g)) OUnit).
  rewrite (seq_drop_sole c s1 a' g k e1 HI1); auto.
  - f_equal. unfold dropped_state, e1, s1, with_gid. cbn [e_val s_ents s_guards s_ops s_clock s_gid adel].
    rewrite Nat.eqb_refl, adel_aset_absent by auto. rewrite adel_notin by auto. reflexivity.
  - cbn. rewrite Nat.eqb_refl. auto.
  - cbn. apply aget_aset_eq.
Qed.
