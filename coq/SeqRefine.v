(* C05 as a refinement theorem: any single-threaded sequence of complete calls on the model behaves like a
   plain map plus a set of locked keys. *)
From Coq Require Import List Arith ZArith Bool Lia.
From LK Require Import AList AListFacts Model Inv StepInv NoPanic PropLemmas Seq DropInv.
Import ListNotations.

(* ------------------------------------------------------------------ *)
(* the abstract machine *)

Record spec := mkSp {
  sp_val : key -> option Z;          (* the plain map *)
  sp_guards : list (gid * key);      (* the locked keys, named by the guards that lock them *)
  sp_next : gid                      (* next guard name *)
}.

Definition sp_locked (sp : spec) (k : key) : bool := existsb (fun gk => Nat.eqb (snd gk) k) (sp_guards sp).

Definition upd (f : key -> option Z) (k : key) (v : option Z) : key -> option Z :=
  fun k' => if Nat.eqb k' k then v else f k'.

(* the sequential client's complete calls; every acquisition shape, no limit *)
Inductive scall :=
| SLock (sh : shape) (k : key)
| SGop (g : gid) (op : gop)
| SDrop (g : gid)
| SCount
| SKeys.

(* what the plain map + locked set does; None = not a call a single thread can make (a guard that does not
   exist, or a waiting acquisition of a key the thread itself holds: that would be a self-deadlock) *)
Definition spec_call (sp : spec) (call : scall) : option (spec * option obs) :=
  match call with
  | SLock sh k =>
      if sp_locked sp k
      then if sh_is_try sh then Some (sp, Some OTryFail) else None
      else Some (mkSp (sp_val sp) ((sp_next sp, k) :: sp_guards sp) (S (sp_next sp)),
                 Some (OGuard (sp_next sp) k (sp_val sp k)))
  | SGop g op =>
      match aget g (sp_guards sp) with
      | Some k => let (v', o) := spec_gop op (sp_val sp k) in
                  Some (mkSp (upd (sp_val sp) k v') (sp_guards sp) (sp_next sp), Some o)
      | None => None
      end
  | SDrop g =>
      match aget g (sp_guards sp) with
      | Some k => Some (mkSp (sp_val sp) (adel g (sp_guards sp)) (sp_next sp), Some OUnit)
      | None => None
      end
  | SCount | SKeys => Some (sp, None)   (* observation characterised by [keys_ok] below *)
  end.

(* the keys the counting and listing calls must report: those with a value or locked, each once *)
Definition keys_ok (sp : spec) (l : list key) : Prop :=
  NoDup l /\ forall k, In k l <-> sp_val sp k <> None \/ sp_locked sp k = true.

Definition obs_ok (sp : spec) (call : scall) (ospec : option obs) (o : obs) : Prop :=
  match ospec with
  | Some o' => o = o'
  | None =>
      match call with
      | SCount => exists l, keys_ok sp l /\ o = OCount (length l)
      | SKeys => exists l, keys_ok sp l /\ o = OKeys l
      | _ => False
      end
  end.

(* ------------------------------------------------------------------ *)
(* the model, driven sequentially: each call runs to completion before the next starts *)

Definition seq_count (c : cfg) (s : state) (a : aid) : result :=
  then_ (step c s (LStart a CCount)) (fun s1 => step c s1 (LResume a [])).
Definition seq_keys (c : cfg) (s : state) (a : aid) : result :=
  then_ (step c s (LStart a CKeys)) (fun s1 => step c s1 (LResume a (akeys (s_ents s1)))).

Definition seq_call (c : cfg) (s : state) (a : aid) (call : scall) : result :=
  match call with
  | SLock sh k => seq_lock c s a sh k
  | SGop g op => step c s (LGuardOp g op)
  | SDrop g => seq_drop c s a g
  | SCount => seq_count c s a
  | SKeys => seq_keys c s a
  end.

(* quiescent states: between two calls of a single-threaded client nothing is in flight *)
Definition Q (s : state) : Prop := Inv s /\ s_ops s = [].

(* the abstraction relation *)
Definition R (s : state) (sp : spec) : Prop :=
  (forall k, vof s k = sp_val sp k) /\ s_guards s = sp_guards sp /\ s_gid s = sp_next sp.

(* ------------------------------------------------------------------ *)
(* facts about quiescent states *)

Lemma gcount_le1 gs k : NoDup (akeys gs) -> (forall g1 g2, In (g1, k) gs -> In (g2, k) gs -> g1 = g2) -> gcount gs k <= 1.
Proof.
  unfold gcount. induction gs as [|[g' k'] t IH]; cbn; intros Hnd Hu; [lia|].
  inversion Hnd as [|? ? Hn Hnd']; subst.
  destruct (Nat.eqb_spec k' k).
  - subst. cbn [length].
    match goal with |- S (length ?X) <= 1 =>
      assert (Z0 : forall x, ~ In x X); [|destruct X as [|x r]; [cbn; lia|exfalso; apply (Z0 x); left; auto]] end.
    intros [g2 k2] Hin.
    apply filter_In in Hin as [Hin Hk]. cbn in Hk. apply Nat.eqb_eq in Hk. subst.
    assert (g' = g2) by (apply Hu; [left; auto|right; auto]). subst.
    apply Hn. apply (in_map fst) in Hin. auto.
  - apply IH; auto.
Qed.

Lemma Q_no_busy s g : s_ops s = [] -> guard_busy s g = false.
Proof. intros H. unfold guard_busy. rewrite H. reflexivity. Qed.

Lemma Q_entry s k e : Q s -> aget k (s_ents s) = Some e ->
  e_queue e = [] /\ (forall a, e_owner e <> Some (OwnW a)) /\ e_repl e = gcount (s_guards s) k.
Proof.
  intros [HI Ho] He. pose proof (inv_k _ HI k) as K.
  assert (NW : forall a, ~ waits_on s a k).
  { intros a (p & Hp & _). rewrite Ho in Hp. discriminate. }
  split; [|split].
  - destruct (e_queue e) as [|a q] eqn:Eq; auto. exfalso. apply (NW a). apply (ki_w _ _ K). exists e. split; auto.
    left. rewrite Eq. left. auto.
  - intros a Ha. apply (NW a). apply (ki_w _ _ K). exists e. auto.
  - rewrite (ki_r _ _ K e He). unfold handles. rewrite Ho. cbn. lia.
Qed.

Lemma Q_locked_iff s sp k : Inv s -> R s sp -> (sp_locked sp k = true <-> exists g, aget g (s_guards s) = Some k).
Proof.
  intros HI (_ & Hg & _). unfold sp_locked. rewrite <- Hg. rewrite existsb_exists. split.
  - intros ([g k'] & Hin & Hk). cbn in Hk. apply Nat.eqb_eq in Hk. subst. exists g. apply In_aget; auto. apply (inv_nd_g _ HI).
  - intros [g Hgk]. exists (g, k). split; [apply aget_In; auto|cbn; apply Nat.eqb_refl].
Qed.

Lemma Q_guarded_entry s g k e : Q s -> aget g (s_guards s) = Some k -> aget k (s_ents s) = Some e ->
  e_owner e = Some (OwnG g) /\ e_queue e = [] /\ e_repl e = 1.
Proof.
  intros HQ Hg He. pose proof HQ as [HI Ho]. destruct (Q_entry s k e HQ He) as (Hq & _ & Hr).
  destruct (Inv_guard_present s g k HI Hg) as (e0 & He0 & Ho0). rewrite He in He0. inv He0.
  split; auto. split; auto. rewrite Hr.
  assert (0 < gcount (s_guards s) k) by (apply gcount_pos; exists g; apply aget_In; auto).
  assert (gcount (s_guards s) k <= 1); [|lia].
  apply gcount_le1; [apply (inv_nd_g _ HI)|].
  intros g1 g2 H1 H2. apply In_aget in H1; [|apply (inv_nd_g _ HI)]. apply In_aget in H2; [|apply (inv_nd_g _ HI)].
  pose proof (inv_k _ HI k) as K.
  apply (ki_g _ _ K) in H1 as (e1 & He1 & Ho1). apply (ki_g _ _ K) in H2 as (e2 & He2 & Ho2). congruence.
Qed.

Lemma Q_unlocked_free s sp k : Q s -> R s sp -> sp_locked sp k = false -> key_free s k.
Proof.
  intros HQ HR Hl. pose proof HQ as [HI Ho]. unfold key_free. destruct (aget k (s_ents s)) as [e|] eqn:He; auto.
  destruct (e_owner e) as [[g|a]|] eqn:Eo; auto; exfalso.
  - assert (sp_locked sp k = true); [|congruence]. apply (Q_locked_iff s sp k HI HR). exists g.
    apply (ki_g _ _ (inv_k _ HI k)). eauto.
  - destruct (Q_entry s k e HQ He) as (_ & Hn & _). eapply Hn; eauto.
Qed.

Lemma Q_keys s sp : Q s -> R s sp -> keys_ok sp (akeys (s_ents s)).
Proof.
  intros HQ HR. pose proof HQ as [HI Ho]. pose proof HR as (Hv & Hg & _). split; [apply (inv_nd_e _ HI)|].
  intros k. rewrite (Q_locked_iff s sp k HI HR). rewrite <- Hv. split.
  - intros Hin. apply keys_aget in Hin as [e He]. destruct (e_val e) as [[v st]|] eqn:Ev.
    + left. unfold vof, vof_e, val_of. rewrite He, Ev. discriminate.
    + right. pose proof (inv_k _ HI k) as K. pose proof (ki_2 _ _ K e He Ev) as Hpos.
      destruct (Q_entry s k e HQ He) as (_ & _ & Hr). rewrite Hr in Hpos.
      apply gcount_pos in Hpos as [g Hin]. exists g. apply In_aget; auto. apply (inv_nd_g _ HI).
  - intros [Hval|[g Hgk]].
    + unfold vof, vof_e in Hval. destruct (aget k (s_ents s)) as [e|] eqn:He; [|congruence]. eapply aget_Some_keys; eauto.
    + destruct (Inv_guard_present s g k HI Hgk) as (e & He & _). eapply aget_Some_keys; eauto.
Qed.

(* ------------------------------------------------------------------ *)
(* invariance along the composite calls *)

Lemma then_inv r f s' o : then_ r f = ROk s' o ->
  (exists s1, r = ROk s1 ONothing /\ f s1 = ROk s' o) \/ (r = ROk s' o /\ o <> ONothing).
Proof.
  unfold then_. destruct r as [s1 o1| |]; try discriminate. destruct o1; intros H; try (right; split; [exact H|inv H; discriminate]).
  left. eauto.
Qed.

Lemma seq_lock_inv c s a sh k s' o : Inv s -> seq_lock c s a sh k = ROk s' o -> Inv s'.
Proof.
  intros HI H. unfold seq_lock in H.
  apply then_inv in H as [(s1 & E1 & H)|[E1 _]]; [|eapply step_inv; eauto].
  assert (HI1 : Inv s1) by (eapply step_inv; eauto).
  apply then_inv in H as [(s2 & E2 & H)|[E2 _]]; [|eapply step_inv; eauto].
  assert (HI2 : Inv s2) by (eapply step_inv; eauto).
  apply then_inv in H as [(s3 & E3 & H)|[E3 _]]; [|eapply step_inv; eauto].
  assert (HI3 : Inv s3) by (eapply step_inv; eauto).
  eapply step_inv; eauto.
Qed.

Lemma seq_drop_inv c s a g s' o : Inv s -> seq_drop c s a g = ROk s' o -> Inv s'.
Proof.
  intros HI H. unfold seq_drop in H.
  apply then_inv in H as [(s1 & E1 & H)|[E1 _]]; [|eapply step_inv; eauto].
  assert (HI1 : Inv s1) by (eapply step_inv; eauto). eapply step_inv; eauto.
Qed.

(* ------------------------------------------------------------------ *)
(* one call *)

Theorem seq_call_refines c s sp a call sp' ospec :
  Q s -> R s sp -> spec_call sp call = Some (sp', ospec) ->
  exists s' o, seq_call c s a call = ROk s' o /\ Q s' /\ R s' sp' /\ obs_ok sp call ospec o.
Proof.
  intros HQ HR Hsp. pose proof HQ as [HI Ho]. pose proof HR as (Hv & Hg & Hn).
  assert (Ha : aget a (s_ops s) = None) by (rewrite Ho; reflexivity).
  destruct call as [sh k|g op|g| |]; cbn [spec_call seq_call] in *.
  - (* lock *)
    destruct (sp_locked sp k) eqn:Hl.
    + destruct (sh_is_try sh) eqn:Hsh; inv Hsp.
      apply (Q_locked_iff s sp' k HI HR) in Hl as [g Hgk].
      destruct (Inv_guard_present s g k HI Hgk) as (e & He & Hoe).
      destruct (seq_try_fails_when_locked c s a sh k e HI Ha Hsh He) as (s' & E & G1 & G2 & G3 & _ & _ & G6); [congruence|].
      exists s', OTryFail. split; auto. split; [split; [eapply seq_lock_inv; eauto|congruence]|].
      split; [|reflexivity]. split; [intros k'; rewrite G3; auto|split; congruence].
    + inv Hsp. pose proof (Q_unlocked_free s sp k HQ HR Hl) as Hf.
      pose proof (seq_lock_free c s a sh k HI Ha Hf) as E.
      exists (locked_state c s k), (OGuard (s_gid s) k (vof s k)). split; auto.
      split; [split; [eapply seq_lock_inv; eauto|unfold locked_state; destruct (aget k (s_ents s)); auto]|].
      split; [|cbn; rewrite Hn, Hv; reflexivity].
      split; [|unfold locked_state; destruct (aget k (s_ents s)); cbn; rewrite Hg, Hn; auto].
      intros k'. cbn [sp_val]. rewrite <- Hv. unfold locked_state, vof, vof_e.
      destruct (aget k (s_ents s)) as [e|] eqn:He; cbn [s_ents].
      * rewrite aget_aset, promote_if_lru_get. destruct (Nat.eqb_spec k' k); [subst; rewrite He; reflexivity|reflexivity].
      * rewrite aget_aset. destruct (Nat.eqb_spec k' k); [subst; rewrite He; reflexivity|reflexivity].
  - (* guard operation *)
    rewrite <- Hg in Hsp. destruct (aget g (s_guards s)) as [k|] eqn:Hgk; [|discriminate].
    destruct (spec_gop op (sp_val sp k)) as [v' o'] eqn:Es. inv Hsp.
    destruct (guard_op_enabled c s g op k HI Hgk (Q_no_busy s g Ho)) as (s' & o & E).
    destruct (guard_op_refines c s g op s' o k E Hgk) as (P1 & P2 & P3 & P4).
    rewrite Hv, Es in P1. inv P1.
    exists s', o'. split; auto. split; [split; [eapply step_inv; eauto|congruence]|].
    split; [|reflexivity]. split; [|split; [cbn; congruence|]].
    + intros k'. unfold upd. cbn. destruct (Nat.eqb_spec k' k); [subst; auto|].
      rewrite (guard_op_local c s g op s' o' k E Hgk k'); auto.
    + cbn. rewrite <- Hn. cbn in E. unfold do_guard_op in E. destruct (negb (guard_live s g)); [discriminate|].
      rewrite Hgk in E. destruct (aget k (s_ents s)) as [e|]; [|discriminate].
      destruct op; try (destruct (e_val e) as [[? ?]|]); inv E; reflexivity.
  - (* drop *)
    rewrite <- Hg in Hsp. destruct (aget g (s_guards s)) as [k|] eqn:Hgk; [|discriminate]. inv Hsp.
    destruct (Inv_guard_present s g k HI Hgk) as (e & He & _).
    destruct (Q_guarded_entry s g k e HQ Hgk He) as (_ & Hq & Hr).
    pose proof (seq_drop_sole c s a g k e HI Ha Hgk (Q_no_busy s g Ho) He Hq Hr) as E.
    exists (dropped_state c s g k e), OUnit. split; auto.
    split; [split; [eapply seq_drop_inv; eauto|unfold dropped_state; destruct (e_val e) as [[? ?]|]; auto]|].
    split; [|reflexivity].
    split; [|unfold dropped_state; destruct (e_val e) as [[? ?]|]; cbn; rewrite Hg, Hn; auto].
    intros k'. cbn [sp_val]. rewrite <- Hv. unfold dropped_state, vof, vof_e.
    destruct (e_val e) as [[v st]|] eqn:Ev; cbn [s_ents].
    + rewrite aget_aset. destruct (Nat.eqb_spec k' k); [subst; rewrite He; unfold val_of; cbn; rewrite Ev; reflexivity|reflexivity].
    + rewrite aget_adel. destruct (Nat.eqb_spec k' k); [subst; rewrite He; unfold val_of; rewrite Ev; reflexivity|reflexivity].
  - (* count *)
    inv Hsp. unfold seq_count.
    assert (E1 : step c s (LStart a CCount) = ROk (set_pc s a PCount) ONothing).
    { cbn. unfold do_start, amem. rewrite Ha. reflexivity. }
    rewrite E1. cbn [then_]. set (s1 := set_pc s a PCount).
    assert (HI1 : Inv s1) by (eapply step_inv; eauto).
    assert (E2 : step c s1 (LResume a []) = ROk (fin s1 a) (OCount (length (s_ents s)))).
    { cbn. unfold do_resume. cbn. rewrite aget_aset_eq.
      destruct (step c s1 (LResume a [])) as [s2 o2| |] eqn:E.
      - pose proof (step_inv c s1 _ _ _ HI1 E) as HI2. cbn in E. unfold do_resume in E. cbn in E. rewrite aget_aset_eq in E.
        pose proof (cs_ok _ _ _ _ E) as E'. inv E'. apply cs_intro; auto.
      - exfalso. destruct (resume_enabled c s1 a PCount [] HI1) as (s2 & o2 & E'); [cbn; apply aget_aset_eq|reflexivity|discriminate|congruence].
      - exfalso. eapply step_no_panic; eauto. }
    rewrite E2. exists (fin s1 a), (OCount (length (s_ents s))). split; auto.
    assert (Hfin : fin s1 a = s).
    { unfold fin, s1, set_pc, with_ops. cbn. rewrite adel_aset_absent; auto. destruct s; reflexivity. }
    rewrite Hfin. split; auto. split; auto.
    exists (akeys (s_ents s)). split; [apply Q_keys; auto|]. unfold akeys. rewrite map_length. reflexivity.
  - (* keys *)
    inv Hsp. unfold seq_keys.
    assert (E1 : step c s (LStart a CKeys) = ROk (set_pc s a PKeys) ONothing).
    { cbn. unfold do_start, amem. rewrite Ha. reflexivity. }
    rewrite E1. cbn [then_]. set (s1 := set_pc s a PKeys).
    assert (HI1 : Inv s1) by (eapply step_inv; eauto).
    assert (Hord : iter_order c s1 (akeys (s_ents s1)) = Some (akeys (s_ents s))).
    { unfold iter_order. cbn. destruct (c_lru c); auto.
      assert (is_perm_of (akeys (s_ents s)) (akeys (s_ents s)) = true) as ->; auto.
      unfold is_perm_of. rewrite Nat.eqb_refl. cbn.
      assert (nodup_nat (akeys (s_ents s)) = true) as -> by (apply nodup_nat_NoDup; apply (inv_nd_e _ HI)). cbn.
      apply forallb_forall. intros x Hx. apply mem_nat_In. auto. }
    assert (E2 : step c s1 (LResume a (akeys (s_ents s1))) = ROk (fin s1 a) (OKeys (akeys (s_ents s)))).
    { destruct (step c s1 (LResume a (akeys (s_ents s1)))) as [s2 o2| |] eqn:E.
      - cbn in E. unfold do_resume in E. cbn in E. rewrite aget_aset_eq in E.
        pose proof (cs_ok _ _ _ _ E) as E'. cbn in Hord. rewrite Hord in E'. inv E'. reflexivity.
      - exfalso. destruct (resume_enabled c s1 a PKeys (akeys (s_ents s1)) HI1) as (s2 & o2 & E'); [cbn; apply aget_aset_eq|reflexivity| |congruence].
        intros _. right. cbn. unfold iter_order in Hord. cbn in Hord. destruct (c_lru c) eqn:El.
        + unfold is_perm_of. rewrite Nat.eqb_refl. cbn.
          assert (nodup_nat (akeys (s_ents s)) = true) as -> by (apply nodup_nat_NoDup; apply (inv_nd_e _ HI)). cbn.
          apply forallb_forall. intros x Hx. apply mem_nat_In. auto.
        + destruct (is_perm_of (akeys (s_ents s)) (akeys (s_ents s))); [auto|discriminate].
      - exfalso. eapply step_no_panic; eauto. }
    rewrite E2. exists (fin s1 a), (OKeys (akeys (s_ents s))). split; auto.
    assert (Hfin : fin s1 a = s).
    { unfold fin, s1, set_pc, with_ops. cbn. rewrite adel_aset_absent; auto. destruct s; reflexivity. }
    rewrite Hfin. split; auto. split; auto.
    exists (akeys (s_ents s)). split; [apply Q_keys; auto|reflexivity].
Qed.

(* ------------------------------------------------------------------ *)
(* whole histories *)

Inductive seq_trace (c : cfg) (a : aid) : state -> list scall -> list obs -> state -> Prop :=
| sq_nil s : seq_trace c a s [] [] s
| sq_cons s call s1 o calls os s' :
    seq_call c s a call = ROk s1 o -> seq_trace c a s1 calls os s' -> seq_trace c a s (call :: calls) (o :: os) s'.

Inductive spec_trace : spec -> list scall -> list obs -> spec -> Prop :=
| st_nil sp : spec_trace sp [] [] sp
| st_cons sp call sp1 ospec o calls os sp' :
    spec_call sp call = Some (sp1, ospec) -> obs_ok sp call ospec o -> spec_trace sp1 calls os sp' ->
    spec_trace sp (call :: calls) (o :: os) sp'.

(* the history is one a single thread can make: every call names an existing guard and no waiting
   acquisition asks for a key the thread holds itself *)
Fixpoint admissible (sp : spec) (calls : list scall) : option spec :=
  match calls with
  | [] => Some sp
  | call :: rest => match spec_call sp call with Some (sp1, _) => admissible sp1 rest | None => None end
  end.

Theorem seq_history_refines c a : forall calls s sp sp',
  Q s -> R s sp -> admissible sp calls = Some sp' ->
  exists s' os, seq_trace c a s calls os s' /\ spec_trace sp calls os sp' /\ Q s' /\ R s' sp'.
Proof.
  induction calls as [|call rest IH]; intros s sp sp' HQ HR Had; cbn in Had.
  - inv Had. exists s, []. split; [apply sq_nil|]. split; [apply st_nil|]. auto.
  - destruct (spec_call sp call) as [[sp1 ospec]|] eqn:Es; [|discriminate].
    destruct (seq_call_refines c s sp a call sp1 ospec HQ HR Es) as (s1 & o & E & HQ1 & HR1 & Hob).
    destruct (IH s1 sp1 sp' HQ1 HR1 Had) as (s' & os & T1 & T2 & HQ' & HR').
    exists s', (o :: os). split; [econstructor; eauto|]. split; [econstructor; eauto|]. auto.
Qed.

(* the model's sequential behaviour is a function of the history, so the observations above are the only ones *)
Lemma seq_trace_fun c a calls : forall s os1 s1 os2 s2,
  seq_trace c a s calls os1 s1 -> seq_trace c a s calls os2 s2 -> os1 = os2 /\ s1 = s2.
Proof.
  induction calls as [|call rest IH]; intros s os1 s1 os2 s2 H1 H2; inv H1; inv H2; auto.
  match goal with A : seq_call c s a call = _, B : seq_call c s a call = _ |- _ => rewrite A in B; inv B end.
  match goal with A : seq_trace c a _ rest _ s1, B : seq_trace c a _ rest _ s2 |- _ => destruct (IH _ _ _ _ _ A B) end.
  subst. auto.
Qed.

Definition spec_init : spec := mkSp (fun _ => None) [] 0.

Lemma Q_init : Q init.
Proof. split; [apply Inv_init|reflexivity]. Qed.

Lemma R_init : R init spec_init.
Proof. split; [intros k; reflexivity|split; reflexivity]. Qed.

(* from the empty container: every admissible single-threaded history runs to completion on the model (no
   call blocks, fails or panics) and its observations are those of the plain map + locked set *)
Corollary seq_refinement c a calls sp' :
  admissible spec_init calls = Some sp' ->
  exists s' os, seq_trace c a init calls os s' /\ spec_trace spec_init calls os sp' /\
    (forall k, vof s' k = sp_val sp' k) /\ s_guards s' = sp_guards sp' /\ s_ops s' = [] /\ Inv s'.
Proof.
  intros H. destruct (seq_history_refines c a calls init spec_init sp' Q_init R_init H) as (s' & os & T1 & T2 & [HI Ho] & (R1 & R2 & _)).
  exists s', os. auto 10.
Qed.
