(* C12 — into_entries_unordered returns every value exactly once. *)
From Coq Require Import List Arith ZArith.
From LK Require Import AList AListFacts Model Inv StepInv NoPanic PropLemmas.
Import ListNotations.

(* In any reachable state without live guards and in-flight calls (what Rust's ownership rules require
   for the call), consuming does not panic and returns one pair per key that has a value, with that value. *)
Theorem C12_consume : forall c s o s' l,
  reachable c s -> step c s (LConsume o) = ROk s' (OConsumed l) ->
  NoDup (map fst l) /\
  (forall k, In k (map fst l) <-> valued s k) /\
  (forall k v, In (k, v) l -> vof s k = Some v).
Proof.
  intros c s o s' l Hr H. pose proof (reachable_inv c s Hr) as HI.
  cbn in H. unfold do_consume in H.
  destruct (s_ops s) eqn:Eo; [|discriminate]. destruct (s_guards s) eqn:Eg; [|discriminate].
  destruct (negb (inv2_ok (s_ents s))); [discriminate|].
  destruct (iter_order c s o) as [order|] eqn:Eord; [|discriminate].
  destruct (consume_list (s_ents s) order) as [l0|] eqn:Ec; [|discriminate]. inversion H; subst l0.
  destruct (iter_order_spec c s o order (inv_nd_e _ HI) Eord) as (Hnd & Hin & _).
  destruct (consume_list_spec s order l HI Eo Eg (fun k Hk => proj1 (Hin k) Hk) Ec) as [G1 G2].
  rewrite G1. split; auto. split.
  - intros k. rewrite Hin. apply (quiescent_keys s k HI Eg Eo).
  - intros k v Hkv. destruct (G2 k v Hkv) as (e & He & Hv). unfold vof, vof_e. rewrite He. auto.
Qed.

Theorem C12_consume_never_panics : forall c s o site,
  reachable c s -> step c s (LConsume o) <> RPanic site.
Proof. intros c s o site H. exact (step_no_panic c s (LConsume o) site (reachable_inv c s H)). Qed.

(* in a quiescent reachable state the call is enabled (given a valid iteration-order oracle) *)
Theorem C12_consume_enabled : forall c s,
  reachable c s -> s_guards s = [] -> s_ops s = [] ->
  exists s' l, step c s (LConsume (akeys (s_ents s))) = ROk s' (OConsumed l).
Proof.
  intros c s Hr Eg Eo. pose proof (reachable_inv c s Hr) as HI.
  pose proof (step_no_panic c s (LConsume (akeys (s_ents s))) ) as Hnp.
  cbn in *. unfold do_consume in *. rewrite Eo, Eg in *.
  rewrite (Inv_inv2_ok s HI) in *. cbn in *.
  assert (Ho : iter_order c s (akeys (s_ents s)) = Some (akeys (s_ents s))).
  { unfold iter_order. destruct (c_lru c); auto.
    assert (is_perm_of (akeys (s_ents s)) (akeys (s_ents s)) = true) as ->; auto.
    unfold is_perm_of. rewrite Nat.eqb_refl. cbn.
    rewrite (proj2 (nodup_nat_NoDup _) (inv_nd_e _ HI)). cbn.
    apply forallb_forall. intros x Hx. apply mem_nat_In. auto. }
  rewrite Ho in *. destruct (consume_list (s_ents s) (akeys (s_ents s))) as [l|site]; [eauto|].
  exfalso. apply (Hnp site HI). reflexivity.
Qed.
