//! Plain data types shared by all modules: keys, labels (= model labels of
//! `/verif/coq/Model.v`), harness-level actions, observations, snapshots and
//! trace lines, together with their text syntax (spec §2 and §4).

use std::fmt::Write as _;

pub type Key = u64;
pub type Val = i64;
/// Agent id: 0,1,2,... in order of `start`.
pub type Aid = usize;
/// Guard id: the n-th `GuardCreated` hook event of a run has gid n.
pub type Gid = usize;

/// Key used when a hook reports a key hash the harness does not know.
pub const UNKNOWN_KEY: Key = u64::MAX;
/// `Duration::MAX` in whole seconds, the text form of `expire max`.
pub const EXPIRE_MAX_TEXT: &str = "18446744073709551615";

#[derive(Debug, Clone, Copy, PartialEq, Eq, Hash, PartialOrd, Ord)]
pub enum Backend {
    /// `LockableHashMap<u64, i64>`
    H,
    /// `LockableLruCache<u64, i64, MockClock>`
    L,
    /// `LockPool<u64>`
    P,
}

impl Backend {
    pub fn parse(s: &str) -> Option<Backend> {
        match s {
            "H" | "h" => Some(Backend::H),
            "L" | "l" => Some(Backend::L),
            "P" | "p" => Some(Backend::P),
            _ => None,
        }
    }
    pub fn name(self) -> &'static str {
        match self {
            Backend::H => "H",
            Backend::L => "L",
            Backend::P => "P",
        }
    }
}

/// Shape of an acquisition call (model `shape`).
#[derive(Debug, Clone, Copy, PartialEq, Eq, Hash, PartialOrd, Ord)]
pub enum Shape {
    /// `blocking_lock`
    B,
    /// `async_lock`
    A,
    /// `try_lock`
    T,
    /// `try_lock_async`
    TA,
}

impl Shape {
    pub fn is_async(self) -> bool {
        matches!(self, Shape::A | Shape::TA)
    }
    pub fn is_try(self) -> bool {
        matches!(self, Shape::T | Shape::TA)
    }
    pub fn text(self) -> &'static str {
        match self {
            Shape::B => "b",
            Shape::A => "a",
            Shape::T => "t",
            Shape::TA => "ta",
        }
    }
    pub fn parse(s: &str) -> Option<Shape> {
        match s {
            "b" => Some(Shape::B),
            "a" => Some(Shape::A),
            "t" => Some(Shape::T),
            "ta" => Some(Shape::TA),
            _ => None,
        }
    }
}

/// A library call started by the client (model `call`).
#[derive(Debug, Clone, Copy, PartialEq, Eq, Hash)]
pub enum Call {
    /// `lim == 0`: no limit, otherwise `SoftLimit { max_entries: lim }`.
    Lock { sh: Shape, key: Key, lim: u64 },
    Drop(Gid),
    /// Seconds; `None` = `Duration::MAX`.
    Expire(Option<u64>),
    Stream,
    Count,
    Keys,
}

impl Call {
    pub fn text(&self) -> String {
        match self {
            Call::Lock { sh, key, lim } => format!("lock {} {} {}", sh.text(), key, lim),
            Call::Drop(g) => format!("drop {}", g),
            Call::Expire(Some(d)) => format!("expire {}", d),
            Call::Expire(None) => format!("expire {}", EXPIRE_MAX_TEXT),
            Call::Stream => "stream".to_string(),
            Call::Count => "count".to_string(),
            Call::Keys => "keys".to_string(),
        }
    }
    /// Short name for histograms.
    pub fn kind(&self) -> &'static str {
        match self {
            Call::Lock { .. } => "start-lock",
            Call::Drop(_) => "start-drop",
            Call::Expire(_) => "start-expire",
            Call::Stream => "start-stream",
            Call::Count => "start-count",
            Call::Keys => "start-keys",
        }
    }
}

/// Guard operation (model `gop`).
#[derive(Debug, Clone, Copy, PartialEq, Eq, Hash)]
pub enum Gop {
    Ins(Val),
    Rem,
    Set(Val),
    TryIns(Val),
    GetIns(Val),
    Read,
    CPanic,
}

impl Gop {
    /// The same operation with another value argument.
    pub fn with_value(self, v: Val) -> Gop {
        match self {
            Gop::Ins(_) => Gop::Ins(v),
            Gop::Set(_) => Gop::Set(v),
            Gop::TryIns(_) => Gop::TryIns(v),
            Gop::GetIns(_) => Gop::GetIns(v),
            other => other,
        }
    }
    pub fn text(&self) -> String {
        match self {
            Gop::Ins(v) => format!("ins {}", v),
            Gop::Rem => "rem".into(),
            Gop::Set(v) => format!("set {}", v),
            Gop::TryIns(v) => format!("tryins {}", v),
            Gop::GetIns(v) => format!("getins {}", v),
            Gop::Read => "read".into(),
            Gop::CPanic => "cpanic".into(),
        }
    }
    pub fn kind(&self) -> &'static str {
        match self {
            Gop::Ins(_) => "gop-ins",
            Gop::Rem => "gop-rem",
            Gop::Set(_) => "gop-set",
            Gop::TryIns(_) => "gop-tryins",
            Gop::GetIns(_) => "gop-getins",
            Gop::Read => "gop-read",
            Gop::CPanic => "gop-cpanic",
        }
    }
}

/// Result the eviction callback is told to return (model `cbres`).
#[derive(Debug, Clone, Copy, PartialEq, Eq, Hash)]
pub enum CbRes {
    Ok,
    Err,
    Panic,
}

impl CbRes {
    pub fn text(self) -> &'static str {
        match self {
            CbRes::Ok => "ok",
            CbRes::Err => "err",
            CbRes::Panic => "panic",
        }
    }
}

/// A harness-level action: what a scheduler (explorer / replayer) can ask the
/// executor to do.  Every action except `StreamStep` corresponds to exactly one
/// model label; `StreamStep` runs one segment of a stream agent and yields zero
/// or more `sub` / `pollend` labels (spec §3).
#[derive(Debug, Clone, Copy, PartialEq, Eq, Hash)]
pub enum Action {
    Start(Call),
    Resume(Aid),
    /// Poll an idle stream once (starts `poll_next`), or continue a stream agent
    /// that is parked inside `poll_next` / inside its drop.
    StreamStep(Aid),
    Cancel(Aid),
    Gop(Gid, Gop),
    CbRet(Aid, CbRes, bool),
    Tick(u64),
    Consume,
}

/// Iteration-order oracle attached to some labels: `None` prints as `-`.
pub type Ord_ = Option<Vec<Key>>;

/// A model label (what goes on an `l` line).
#[derive(Debug, Clone, PartialEq, Eq)]
pub enum Label {
    Start(Aid, Call),
    Resume(Aid, Ord_),
    Sub(Aid, Key, Ord_),
    PollEnd(Aid),
    Cancel(Aid),
    Gop(Gid, Gop),
    CbRet(Aid, CbRes, bool),
    Tick(u64),
    Consume(Ord_),
}

pub fn keys_text(ks: &[Key]) -> String {
    if ks.is_empty() {
        "-".to_string()
    } else {
        let mut s = String::new();
        for (i, k) in ks.iter().enumerate() {
            if i > 0 {
                s.push(',');
            }
            let _ = write!(s, "{}", k);
        }
        s
    }
}

fn ord_text(o: &Ord_) -> String {
    match o {
        None => "-".to_string(),
        Some(ks) => keys_text(ks),
    }
}

impl Label {
    pub fn text(&self) -> String {
        match self {
            Label::Start(a, c) => format!("start {} {}", a, c.text()),
            Label::Resume(a, o) => format!("resume {} {}", a, ord_text(o)),
            Label::Sub(a, k, o) => format!("sub {} {} {}", a, k, ord_text(o)),
            Label::PollEnd(a) => format!("pollend {}", a),
            Label::Cancel(a) => format!("cancel {}", a),
            Label::Gop(g, op) => format!("gop {} {}", g, op.text()),
            Label::CbRet(a, r, hold) => {
                format!("cbret {} {} {}", a, r.text(), if *hold { "hold" } else { "table" })
            }
            Label::Tick(d) => format!("tick {}", d),
            Label::Consume(o) => format!("consume {}", ord_text(o)),
        }
    }

    /// Kind name for the label histogram of the explorer summary.
    pub fn kind(&self) -> &'static str {
        match self {
            Label::Start(_, c) => c.kind(),
            Label::Resume(..) => "resume",
            Label::Sub(..) => "sub",
            Label::PollEnd(_) => "pollend",
            Label::Cancel(_) => "cancel",
            Label::Gop(_, op) => op.kind(),
            Label::CbRet(..) => "cbret",
            Label::Tick(_) => "tick",
            Label::Consume(_) => "consume",
        }
    }

    /// Parse the text after `l `.  ORD arguments are accepted but ignored on
    /// replay (the real map decides), so they are parsed leniently.
    pub fn parse(s: &str) -> Result<Label, String> {
        let t: Vec<&str> = s.split_whitespace().collect();
        let n = |x: &str| -> Result<usize, String> {
            x.parse::<usize>().map_err(|_| format!("bad number '{}' in label '{}'", x, s))
        };
        let k = |x: &str| -> Result<u64, String> {
            x.parse::<u64>().map_err(|_| format!("bad number '{}' in label '{}'", x, s))
        };
        let v = |x: &str| -> Result<i64, String> {
            x.parse::<i64>().map_err(|_| format!("bad value '{}' in label '{}'", x, s))
        };
        let ord = |x: Option<&&str>| -> Ord_ {
            match x {
                None => None,
                Some(&"-") => None,
                Some(l) => Some(l.split(',').filter_map(|y| y.parse().ok()).collect()),
            }
        };
        match t.as_slice() {
            ["start", a, "lock", sh, key, lim] => Ok(Label::Start(
                n(a)?,
                Call::Lock {
                    sh: Shape::parse(sh).ok_or_else(|| format!("bad shape in '{}'", s))?,
                    key: k(key)?,
                    lim: k(lim)?,
                },
            )),
            ["start", a, "drop", g] => Ok(Label::Start(n(a)?, Call::Drop(n(g)?))),
            ["start", a, "expire", d] => {
                let d = if *d == "max" || *d == EXPIRE_MAX_TEXT { None } else { Some(k(d)?) };
                Ok(Label::Start(n(a)?, Call::Expire(d)))
            }
            ["start", a, "stream"] => Ok(Label::Start(n(a)?, Call::Stream)),
            ["start", a, "count"] => Ok(Label::Start(n(a)?, Call::Count)),
            ["start", a, "keys"] => Ok(Label::Start(n(a)?, Call::Keys)),
            ["resume", a, rest @ ..] => Ok(Label::Resume(n(a)?, ord(rest.first()))),
            ["sub", a, key, rest @ ..] => Ok(Label::Sub(n(a)?, k(key)?, ord(rest.first()))),
            ["pollend", a] => Ok(Label::PollEnd(n(a)?)),
            ["cancel", a] => Ok(Label::Cancel(n(a)?)),
            ["gop", g, "ins", x] => Ok(Label::Gop(n(g)?, Gop::Ins(v(x)?))),
            ["gop", g, "rem"] => Ok(Label::Gop(n(g)?, Gop::Rem)),
            ["gop", g, "set", x] => Ok(Label::Gop(n(g)?, Gop::Set(v(x)?))),
            ["gop", g, "tryins", x] => Ok(Label::Gop(n(g)?, Gop::TryIns(v(x)?))),
            ["gop", g, "getins", x] => Ok(Label::Gop(n(g)?, Gop::GetIns(v(x)?))),
            ["gop", g, "read"] => Ok(Label::Gop(n(g)?, Gop::Read)),
            ["gop", g, "cpanic"] => Ok(Label::Gop(n(g)?, Gop::CPanic)),
            ["cbret", a, r, h] => {
                let r = match *r {
                    "ok" => CbRes::Ok,
                    "err" => CbRes::Err,
                    "panic" => CbRes::Panic,
                    _ => return Err(format!("bad cbres in '{}'", s)),
                };
                let h = match *h {
                    "hold" => true,
                    "table" => false,
                    _ => return Err(format!("bad hold/table in '{}'", s)),
                };
                Ok(Label::CbRet(n(a)?, r, h))
            }
            ["tick", d] => Ok(Label::Tick(k(d)?)),
            ["consume", rest @ ..] => Ok(Label::Consume(ord(rest.first()))),
            _ => Err(format!("unknown label '{}'", s)),
        }
    }
}

/// `(gid, key, value)`; the value is `None` only if the implementation handed
/// out a valueless guard where it must not (printed as `-`).
pub type Gkv = (Gid, Key, Option<Val>);

/// What the implementation did in response to a label (an `o` line).
#[derive(Debug, Clone, PartialEq, Eq)]
pub enum Obs {
    /// `-`: nothing / the agent is still running.
    Nothing,
    Guard(Gid, Key, Option<Val>),
    TryFail,
    Err,
    /// A *user* panic (callback / closure) reached the caller.
    Panicked,
    Unit,
    Cancelled,
    Offered(Vec<Gkv>),
    Expired(Vec<Gkv>),
    Stream(Vec<Key>),
    Item(Gid, Key, Option<Val>),
    Pending,
    End,
    Count(usize),
    Keys(Vec<Key>),
    Val(Option<Val>),
    Exists,
    Consumed(Vec<(Key, Val)>),
    /// The library panicked.
    Panic(String),
    Hang(String),
}

fn optval(v: &Option<Val>) -> String {
    match v {
        None => "-".to_string(),
        Some(v) => v.to_string(),
    }
}

fn gkv_text(l: &[Gkv]) -> String {
    if l.is_empty() {
        return "-".to_string();
    }
    l.iter()
        .map(|(g, k, v)| format!("{}:{}:{}", g, k, optval(v)))
        .collect::<Vec<_>>()
        .join(",")
}

impl Obs {
    pub fn text(&self) -> String {
        match self {
            Obs::Nothing => "-".into(),
            Obs::Guard(g, k, v) => format!("guard {} {} {}", g, k, optval(v)),
            Obs::TryFail => "tryfail".into(),
            Obs::Err => "err".into(),
            Obs::Panicked => "panicked".into(),
            Obs::Unit => "unit".into(),
            Obs::Cancelled => "cancelled".into(),
            Obs::Offered(l) => format!("offered {}", gkv_text(l)),
            Obs::Expired(l) => format!("expired {}", gkv_text(l)),
            Obs::Stream(ks) => format!("stream {}", keys_text(ks)),
            Obs::Item(g, k, v) => format!("item {} {} {}", g, k, optval(v)),
            Obs::Pending => "pending".into(),
            Obs::End => "end".into(),
            Obs::Count(n) => format!("count {}", n),
            Obs::Keys(ks) => format!("keys {}", keys_text(ks)),
            Obs::Val(v) => format!("val {}", optval(v)),
            Obs::Exists => "exists".into(),
            Obs::Consumed(l) => {
                if l.is_empty() {
                    "consumed -".into()
                } else {
                    format!(
                        "consumed {}",
                        l.iter().map(|(k, v)| format!("{}:{}", k, v)).collect::<Vec<_>>().join(",")
                    )
                }
            }
            Obs::Panic(m) => format!("PANIC {}", one_line(m)),
            Obs::Hang(m) => format!("HANG {}", one_line(m)),
        }
    }
    pub fn is_failure(&self) -> bool {
        matches!(self, Obs::Panic(_) | Obs::Hang(_))
    }
}

/// Make a message safe for a one-line trace record.
pub fn one_line(s: &str) -> String {
    s.replace(['\n', '\r'], " ")
}

/// One entry of a snapshot, already translated to harness terms.
#[derive(Debug, Clone, PartialEq, Eq)]
pub struct SnapEnt {
    pub key: Key,
    pub locked: bool,
    /// `None` if locked (unknown) or no value; see `has_value`.
    pub value: Option<Val>,
    /// `None` if locked.
    pub has_value: Option<bool>,
    /// Clock seconds of `last_unlocked` (backend L, unlocked valued entries only).
    pub stamp: Option<i64>,
    pub replicas: usize,
    pub addr: usize,
}

/// State of the container between two segments.
#[derive(Debug, Clone, PartialEq, Eq, Default)]
pub struct Snap {
    pub poisoned: bool,
    pub glock_held: bool,
    /// The container no longer exists (after `consume`).
    pub gone: bool,
    /// In iteration order.
    pub entries: Vec<SnapEnt>,
}

impl Snap {
    pub fn keys(&self) -> Vec<Key> {
        self.entries.iter().map(|e| e.key).collect()
    }
    pub fn get(&self, k: Key) -> Option<&SnapEnt> {
        self.entries.iter().find(|e| e.key == k)
    }
    pub fn key_of_addr(&self, addr: usize) -> Option<Key> {
        self.entries.iter().find(|e| e.addr == addr).map(|e| e.key)
    }
    /// Text after `s `.
    pub fn text(&self, backend: Backend) -> String {
        if self.glock_held {
            return "GLOCKHELD".into();
        }
        let mut s = String::new();
        if self.poisoned {
            s.push_str("POISONED");
        }
        if self.entries.is_empty() {
            if !self.poisoned {
                s.push('-');
            }
            return s;
        }
        for e in &self.entries {
            if !s.is_empty() {
                s.push(' ');
            }
            let v = if e.locked {
                "?".to_string()
            } else {
                optval(&e.value)
            };
            let st = if backend != Backend::L {
                "0".to_string()
            } else {
                match e.stamp {
                    Some(x) => x.to_string(),
                    None => "?".to_string(),
                }
            };
            let _ = write!(s, "{}:{}:{}:{}:{}", e.key, v, st, if e.locked { 1 } else { 0 }, e.replicas);
        }
        s
    }
}

/// One line of a trace file (spec §4), without the trailing newline.
#[derive(Debug, Clone, PartialEq, Eq)]
pub enum TraceLine {
    L(String),
    O(String),
    B(String),
    U(String),
    S(String),
    /// Fine-grained mode: the segment that follows ends with this agent parked in the middle of a
    /// critical section (`<aid> <InCs site>`); printed before the segment's `l` lines.
    M(String),
    /// Fine-grained mode: the segment that follows ends with its acting agent parked at a `Between` site
    /// (`<aid> <site>`, outside any critical section); its next segment is a continuation without a model step.
    N(String),
    Comment(String),
}

impl TraceLine {
    pub fn text(&self) -> String {
        match self {
            TraceLine::L(s) => format!("l {}", s),
            TraceLine::O(s) => format!("o {}", s),
            TraceLine::B(s) => format!("b {}", s),
            TraceLine::U(s) => format!("u {}", s),
            TraceLine::S(s) => format!("s {}", s),
            TraceLine::M(s) => format!("m {}", s),
            TraceLine::N(s) => format!("n {}", s),
            TraceLine::Comment(s) => format!("# {}", s),
        }
    }
}

pub fn ids_text(ids: &[Aid]) -> String {
    if ids.is_empty() {
        "-".into()
    } else {
        ids.iter().map(|a| a.to_string()).collect::<Vec<_>>().join(" ")
    }
}

/// A monitor hit.
#[derive(Debug, Clone, PartialEq, Eq)]
pub struct Violation {
    pub id: &'static str,
    pub text: String,
}
