//! Model-independent monitors (spec §5, DESIGN.md §4.4).
//!
//! The monitors see only what the executor observed (labels, observations,
//! snapshots, hook events, harness-level agent states) and keep their own
//! shadow state; they know nothing about the Coq model.  They are evaluated
//! incrementally, once per segment.
//!
//! Ids:
//! * `C01.two_guards`        two live client-visible guards for one key
//! * `C02.shadow`            a value seen through a guard / a gop result / an unlocked snapshot
//!                           value differs from the shadow copy
//! * `C04.keys`              key set of the snapshot vs valued ∪ guarded ∪ in-flight;
//!                           `count` / `keys` results vs the snapshot
//! * `C07.callback_args`     eviction callback arguments
//! * `C07.missed_eviction`   a soft-limited call went on to lock its key over the limit although an unlocked
//!                           valued entry could have been evicted
//! * `C08.callback_under_lock` callback invoked while holding the global lock
//! * `C10.expiry`            result of `lock_entries_unlocked_for_at_least` (L)
//! * `C11.stream`            stream items / end
//! * `C12.consume`           `into_entries_unordered` multiset
//! * `C09.lru_order`         (L) an eviction round passed over an unlocked entry whose uses all ended before
//!                           the last use of an offered entry began
//! * `C13.panic`             PANIC / poisoned or held global lock
//! * `C13.hang`              HANG (watchdog or self-deadlock on the global lock)
//! * `C14.lost_wakeup`       an agent is blocked although its key's mutex is free
//! * `C03.stream_stall`      a stream returned `Pending` although a key of its snapshot is unlocked and valued
//! * `C07.bound`             the critical section in which a soft-limited call looks its key up (gets its handle /
//!                           inserts the placeholder) leaves more than max(N, entries that were locked or
//!                           valueless before + 1) entries
//! * `C03.try_waits`         a try variant is waiting for its key's mutex
//! * `C05.spurious_try_fail` the `try_lock` of a try variant failed although the key's mutex was free (neither
//!                           held nor handed to a waiter) in the state the try ran in

use crate::exec::{AgentKind, Segment};
use crate::sched::Event;
use crate::types::*;
use std::collections::{BTreeMap, BTreeSet, VecDeque};
use std::sync::OnceLock;

/// If set (`--monitors a,b,..`), only hits whose id starts with one of these prefixes are reported;
/// other monitors still keep their shadow state but neither stop a run nor count.
pub static ONLY: OnceLock<Vec<String>> = OnceLock::new();

#[derive(Debug, Clone)]
struct MGuard {
    key: Key,
    /// From creation until its drop has returned.
    live: bool,
    /// Its drop has begun (the client can no longer use it; the key may be released at any moment).
    dying: bool,
    /// Obtained by a lock call for this key (a "use" in the sense of C09), not by a bulk operation.
    by_key: bool,
}

/// C09 bookkeeping per key: the uses (lock call for the key ... drop of its guard) seen so far.
#[derive(Debug, Clone, Default)]
struct Uses {
    /// lock calls for the key in flight + live guards obtained by such calls
    open: usize,
    /// label index at which the last such call / guard drop finished
    last_end: Option<usize>,
    /// label index of the `start` of the last lock call that obtained a guard
    last_success_start: Option<usize>,
}

#[derive(Debug, Clone, Default)]
struct MAgent {
    call: Option<Call>,
    /// Guards this agent still has to drop (drop agent: the guard; after `cbret .. hold`:
    /// the offered guards); emptied by the harness-side `GuardGone` events.
    dropq: VecDeque<Gid>,
    /// Guards of the last `offered` observation.
    offered: Vec<Gid>,
    /// Expire agent: clock at `start`, and the expected result computed at the scan step.
    expire_now: u64,
    expire_expected: Option<BTreeSet<Key>>,
    /// Soft-limited lock agent: its next step is the eviction/look-up critical section.
    expect_enter: bool,
    /// Fine-grained mode: other agents ran in the middle of this agent's current scan (eviction candidates / idle
    /// entries), so what the scan finds is no longer determined by the state before it (the co-simulation judges it).
    scan_interrupted: bool,
    /// ... after the guards it still owns have been dropped (`cbret ok hold`).
    reenter_after_drops: bool,
    /// Stream agent.
    stream_keys: Vec<Key>,
    stream_items: BTreeSet<Key>,
}

pub struct Monitors {
    backend: Backend,
    /// Per-key shadow value: what the map must contain for the key.
    shadow: BTreeMap<Key, Val>,
    /// C10: clock time of the last "touch" of a valued key (value creation / begin of unlock).
    touch: BTreeMap<Key, u64>,
    guards: BTreeMap<Gid, MGuard>,
    agents: BTreeMap<Aid, MAgent>,
    clock: u64,
    hits: Vec<Violation>,
    /// The library panicked, hung or poisoned its lock: the container is broken (a C13 violation) and the
    /// other monitors' bookkeeping (e.g. which guards are live) is no longer meaningful.
    pub lib_failed: bool,
    /// C09: number of labels seen, per-key uses, start index of lock agents
    idx: usize,
    uses: BTreeMap<Key, Uses>,
    lock_start: BTreeMap<Aid, (Key, usize)>,
    /// C05.spurious_try_fail: try-variant agents that were parked right before their `try_lock` of the key
    /// mutex after the previous segment (their next segment is that try), and whether the snapshot taken
    /// after the previous segment describes the state that try runs in.
    at_key_try: BTreeSet<Aid>,
    prev_snap_exact: bool,
    /// ... and, for the case that no snapshot could be taken because an agent was parked in the middle of a
    /// critical section (which one, at which site), the agents as they were then.
    prev_mid: Option<(Aid, u32)>,
    prev_agents: Vec<crate::exec::AgentView>,
}

impl Monitors {
    pub fn new(backend: Backend) -> Monitors {
        Monitors {
            backend,
            shadow: BTreeMap::new(),
            touch: BTreeMap::new(),
            guards: BTreeMap::new(),
            agents: BTreeMap::new(),
            clock: 0,
            hits: Vec::new(),
            lib_failed: false,
            idx: 0,
            uses: BTreeMap::new(),
            lock_start: BTreeMap::new(),
            at_key_try: BTreeSet::new(),
            prev_mid: None,
            prev_agents: Vec::new(),
            prev_snap_exact: false,
        }
    }

    fn hit(&mut self, id: &'static str, text: String) {
        self.hits.push(Violation { id, text: one_line(&text) });
    }

    fn live_keys(&self) -> BTreeSet<Key> {
        self.guards.values().filter(|g| g.live).map(|g| g.key).collect()
    }

    /// A client-visible guard appeared.
    fn new_guard(&mut self, what: &str, g: Gid, k: Key, v: Option<Val>) {
        if let Some((og, _)) = self.guards.iter().find(|(og, x)| x.live && !x.dying && x.key == k && **og != g) {
            let og = *og;
            self.hit("C01.two_guards", format!("{}: guard {} for key {} while guard {} for the same key is live", what, g, k, og));
        }
        let sv = self.shadow.get(&k).copied();
        if v != sv {
            self.hit(
                "C02.shadow",
                format!("{}: guard {} for key {} shows value {:?}, the previous holder left {:?}", what, g, k, v, sv),
            );
        }
        self.guards.insert(g, MGuard { key: k, live: true, dying: false, by_key: false });
    }

    /// `_unlock` of guard `g` begins now (LRU: a valued entry gets stamped with the current time).
    fn begin_unlock(&mut self, g: Gid) {
        if let Some(mg) = self.guards.get_mut(&g) {
            mg.dying = true;
        }
        if let Some(mg) = self.guards.get(&g) {
            if self.shadow.contains_key(&mg.key) {
                self.touch.insert(mg.key, self.clock);
            }
        }
    }

    /// The drop of guard `g` has returned (harness-side event): the guard no longer exists.
    fn guard_gone(&mut self, g: Gid) {
        let mut ended: Option<Key> = None;
        if let Some(mg) = self.guards.get_mut(&g) {
            if mg.live && mg.by_key {
                ended = Some(mg.key);
            }
            mg.live = false;
        }
        if let Some(k) = ended {
            // the label being processed is the one during which the drop returned
            let idx = self.idx + 1;
            let u = self.uses.entry(k).or_default();
            u.open = u.open.saturating_sub(1);
            u.last_end = Some(idx);
        }
    }

    /// Evaluate one segment; returns the new hits.
    pub fn observe(&mut self, seg: &Segment) -> Vec<Violation> {
        self.hits.clear();
        // Which client guards exist is taken from the harness' own record of its drops (`DropBegin` /
        // `GuardGone` are pushed around every `drop(guard)` the harness executes), never from where the
        // library happens to park: a guard whose drop has returned is gone before anything this segment
        // reports is judged.
        for e in &seg.events {
            if let Event::GuardGone(g) = e {
                self.guard_gone(*g);
            }
        }
        for (label, obs) in &seg.steps {
            self.step(seg, label, obs);
        }
        for e in &seg.events {
            match e {
                Event::DropBegin(g) => self.begin_unlock(*g),
                Event::GuardGone(g) => {
                    for ag in self.agents.values_mut() {
                        ag.dropq.retain(|x| x != g);
                    }
                }
                _ => {}
            }
        }
        if seg.events.iter().any(|e| *e == Event::BeforeCallback(true)) {
            self.hit("C08.callback_under_lock", "eviction callback invoked while the global lock is held".into());
        }
        if !seg.snap.gone && !seg.mid_cs {
            self.check_snapshot(seg);
        }
        // C03: try variants never wait (a try-variant call whose future is pending on a key mutex)
        for a in &seg.blocked {
            if let Some(v) = seg.agents.iter().find(|v| v.aid == *a) {
                if let AgentKind::Lock { sh, key, .. } = &v.kind {
                    if sh.is_try() && v.alive && !v.in_callback {
                        self.hit("C03.try_waits", format!("agent {} (a try variant) is waiting for key {}", a, key));
                    }
                }
            }
        }
        if !seg.mid_cs && (seg.snap.poisoned || seg.snap.glock_held) {
            self.lib_failed = true;
        }
        self.at_key_try = seg
            .agents
            .iter()
            .filter(|v| v.alive && v.at_key_try)
            .filter(|v| matches!(&v.kind, AgentKind::Lock { sh, .. } if sh.is_try()))
            .map(|v| v.aid)
            .collect();
        self.prev_snap_exact = !seg.mid_cs && !seg.snap.gone && !seg.snap.glock_held && !seg.snap.poisoned;
        self.prev_mid = seg.mid;
        self.prev_agents = seg.agents.clone();
        if self.lib_failed {
            self.hits.retain(|h| h.id.starts_with("C13."));
        }
        if let Some(only) = ONLY.get() {
            self.hits.retain(|h| only.iter().any(|p| h.id.starts_with(p.as_str())));
        }
        std::mem::take(&mut self.hits)
    }

    fn step(&mut self, seg: &Segment, label: &Label, obs: &Obs) {
        self.idx += 1;
        if let Label::Start(a, Call::Lock { key, .. }) = label {
            self.lock_start.insert(*a, (*key, self.idx));
            self.uses.entry(*key).or_default().open += 1;
        }
        if let Obs::Panic(m) = obs {
            self.lib_failed = true;
            self.hit("C13.panic", format!("{} -> PANIC {}", label.text(), m));
        }
        if let Obs::Hang(m) = obs {
            self.lib_failed = true;
            self.hit("C13.hang", format!("{} -> HANG {}", label.text(), m));
        }
        match label {
            Label::Start(a, call) => {
                let mut ag = MAgent { call: Some(*call), ..MAgent::default() };
                match call {
                    Call::Drop(g) => {
                        ag.dropq.push_back(*g);
                        self.agents.insert(*a, ag);
                    }
                    Call::Expire(_) => {
                        ag.expire_now = self.clock;
                        self.agents.insert(*a, ag);
                    }
                    Call::Lock { lim, .. } if *lim > 0 => {
                        ag.expect_enter = true;
                        self.agents.insert(*a, ag);
                    }
                    _ => {
                        self.agents.insert(*a, ag);
                    }
                }
                self.agent_obs(seg, *a, label, obs);
            }
            Label::Resume(a, _) => {
                // C05/C14: a try variant whose `try_lock` of the key mutex ran in this segment and failed
                // (the call goes on to its clean-up) although the mutex was free when the segment began
                if self.at_key_try.contains(a) && self.prev_snap_exact && *obs == Obs::Nothing && !seg.pre.glock_held {
                    if let Some(Call::Lock { key, .. }) = self.agents.get(a).and_then(|x| x.call) {
                        if let Some(e) = seg.pre.get(key) {
                            if !e.locked {
                                self.hit(
                                    "C05.spurious_try_fail",
                                    format!(
                                        "{}: the try_lock of key {} failed although its mutex was free (nobody held it, nobody had been handed it; {} handles)",
                                        label.text(), key, e.replicas
                                    ),
                                );
                            }
                        }
                    }
                }
                // The same while another agent is parked in the middle of a critical section (no snapshot then): judged
                // from what the client knows. Nobody can legitimately hold the key's mutex if no guard for the key is
                // alive (a guard counts until its drop has returned), no waiting acquisition of the key is past its
                // look-up, no stream has the key in its snapshot, and the critical section in progress is not a scan
                // (a scan locks what it finds; site 5). A critical section that takes a key mutex others can reach,
                // even for a moment, makes such a try fail.
                if self.at_key_try.contains(a) && !self.prev_snap_exact && *obs == Obs::Nothing {
                    if let (Some((_, site)), Some(Call::Lock { key, .. })) = (self.prev_mid, self.agents.get(a).and_then(|x| x.call)) {
                        let held = self.guards.values().any(|g| g.live && g.key == key);
                        let awaited = self.prev_agents.iter().any(|v| {
                            v.alive
                                && v.aid != *a
                                && match &v.kind {
                                    AgentKind::Lock { sh, key: k2, .. } => *k2 == key && !sh.is_try() && v.past_lookup,
                                    AgentKind::Stream => v.stream_keys.contains(&key),
                                    AgentKind::Expire => true,
                                    _ => false,
                                }
                        });
                        if site != 5 && !held && !awaited && !self.lib_failed {
                            self.hit(
                                "C05.spurious_try_fail",
                                format!(
                                    "{}: the try_lock of key {} failed although no guard for it is alive and no acquisition or stream is waiting for it (judged while another agent is in the middle of a critical section, site {})",
                                    label.text(), key, site
                                ),
                            );
                        }
                    }
                }
                // C07: the bound, judged at the segment in which the call's look-up happened (its key appeared in
                // the map or gained a replica): that critical section must have seen room or nothing evictable
                if let Some(Call::Lock { key, lim, .. }) = self.agents.get(a).and_then(|x| x.call) {
                    if lim > 0 && self.prev_snap_exact && !seg.mid_cs && !seg.snap.gone && !seg.snap.glock_held && !obs.is_failure() {
                        let before = seg.pre.get(key).map(|e| e.replicas);
                        let after = seg.snap.get(key).map(|e| e.replicas);
                        let looked_up = match (before, after) {
                            (None, Some(_)) => true,
                            (Some(b), Some(x)) => x > b,
                            _ => false,
                        };
                        if looked_up && !matches!(obs, Obs::Offered(_)) {
                            let nonev = seg.pre.entries.iter().filter(|e| e.locked || e.has_value == Some(false)).count();
                            let n = seg.snap.entries.len();
                            if n > std::cmp::max(lim as usize, nonev + 1) {
                                self.hit(
                                    "C07.bound",
                                    format!(
                                        "{}: the look-up of a call with limit {} left {} entries although only {} were locked or valueless before",
                                        label.text(), lim, n, nonev
                                    ),
                                );
                            }
                        }
                    }
                }
                // C07: the enter step of a soft-limited call that does not invoke the callback
                let in_scan = seg.mid == Some((*a, 5));
                if in_scan {
                    if let Some(x) = self.agents.get_mut(a) {
                        x.scan_interrupted = true;
                    }
                }
                let enter = !in_scan && self.agents.get(a).map(|x| x.expect_enter && x.dropq.is_empty()).unwrap_or(false);
                if enter && !obs.is_failure() {
                    let interrupted = std::mem::take(&mut self.agents.get_mut(a).unwrap().scan_interrupted);
                    self.agents.get_mut(a).unwrap().expect_enter = false;
                    if !matches!(obs, Obs::Offered(_)) && !interrupted {
                        if let Some(Call::Lock { lim, .. }) = self.agents.get(a).and_then(|x| x.call) {
                            let n = seg.pre.entries.len();
                            let live = self.live_keys();
                            let evictable: Vec<Key> = seg
                                .pre
                                .entries
                                .iter()
                                .filter(|e| !e.locked && e.value.is_some() && !live.contains(&e.key))
                                .map(|e| e.key)
                                .collect();
                            if n >= lim as usize && !evictable.is_empty() {
                                self.hit(
                                    "C07.missed_eviction",
                                    format!(
                                        "{}: the call proceeded without invoking the callback although the map held {} entries (limit {}) and {:?} were unlocked and valued",
                                        label.text(), n, lim, evictable
                                    ),
                                );
                            }
                        }
                    }
                }
                // expiry scan: the first resume of an expire agent
                if let Some(Call::Expire(d)) = self.agents.get(a).and_then(|x| x.call) {
                    if self.agents[a].expire_expected.is_none() {
                        let exp = self.expected_expired(seg, self.agents[a].expire_now, d);
                        self.agents.get_mut(a).unwrap().expire_expected = Some(exp);
                    }
                }
                self.agent_obs(seg, *a, label, obs);
            }
            Label::Sub(a, _, _) => {
                if let Obs::Item(g, k, v) = obs {
                    let (dup, foreign) = {
                        let ag = self.agents.entry(*a).or_default();
                        (!ag.stream_items.insert(*k), !ag.stream_keys.contains(k))
                    };
                    if dup {
                        self.hit("C11.stream", format!("stream {} yielded key {} twice", a, k));
                    }
                    if foreign {
                        self.hit("C11.stream", format!("stream {} yielded key {} which was not in its snapshot", a, k));
                    }
                    if v.is_none() {
                        self.hit("C11.stream", format!("stream {} yielded a valueless guard for key {}", a, k));
                    }
                    self.new_guard(&label.text(), *g, *k, *v);
                }
            }
            Label::PollEnd(a) => {
                if *obs == Obs::Pending && !seg.snap.gone && !seg.mid_cs {
                    // `Pending` means: every per-entry future has been polled and none could get its lock.
                    // A snapshot key that is still pending although nobody holds it is a stalled stream.
                    if let Some(v) = seg.agents.iter().find(|v| v.aid == *a) {
                        let free: Vec<Key> = v
                            .stream_pending
                            .iter()
                            .copied()
                            .filter(|k| seg.snap.entries.iter().any(|e| e.key == *k && !e.locked && e.value.is_some()))
                            .collect();
                        if !free.is_empty() {
                            self.hit(
                                "C03.stream_stall",
                                format!("stream {} returned Pending although keys {:?} of its snapshot are unlocked and have values", a, free),
                            );
                        }
                    }
                }
                if *obs == Obs::End {
                    if let Some(v) = seg.agents.iter().find(|v| v.aid == *a) {
                        if !v.stream_pending.is_empty() {
                            self.hit(
                                "C11.stream",
                                format!("stream {} ended while keys {:?} were neither yielded nor resolved", a, v.stream_pending),
                            );
                        }
                    }
                }
            }
            Label::Cancel(_) => {}
            Label::Gop(g, op) => self.gop(*g, *op, obs),
            Label::CbRet(a, res, hold) => {
                if *res == CbRes::Ok {
                    if let Some(ag) = self.agents.get_mut(a) {
                        ag.expect_enter = true;
                    }
                }
                if *hold {
                    let off = self.agents.get(a).map(|x| x.offered.clone()).unwrap_or_default();
                    if !off.is_empty() {
                        self.agents.get_mut(a).unwrap().dropq = off.into_iter().collect();
                    }
                }
                self.agent_obs(seg, *a, label, obs);
            }
            Label::Tick(d) => self.clock += *d,
            Label::Consume(_) => {
                if let Obs::Consumed(l) = obs {
                    let mut got: Vec<(Key, Val)> = l.clone();
                    got.sort();
                    let want: Vec<(Key, Val)> = self.shadow.iter().map(|(k, v)| (*k, *v)).collect();
                    if got != want {
                        self.hit("C12.consume", format!("consumed {:?}, expected {:?}", got, want));
                    }
                }
            }
        }
    }

    /// Observations that can come out of any by-key / expire / count / keys step.
    fn agent_obs(&mut self, seg: &Segment, a: Aid, label: &Label, obs: &Obs) {
        // C09: the end of a lock call
        if let Some((key, start)) = self.lock_start.get(&a).copied() {
            match obs {
                Obs::Guard(..) => {
                    self.lock_start.remove(&a);
                    self.uses.entry(key).or_default().last_success_start = Some(start);
                }
                Obs::TryFail | Obs::Err | Obs::Panicked | Obs::Cancelled | Obs::Panic(_) | Obs::Hang(_) => {
                    self.lock_start.remove(&a);
                    let idx = self.idx;
                    let u = self.uses.entry(key).or_default();
                    u.open = u.open.saturating_sub(1);
                    u.last_end = Some(idx);
                }
                _ => {}
            }
        }
        match obs {
            Obs::Guard(g, k, v) => {
                self.new_guard(&label.text(), *g, *k, *v);
                if let Some(mg) = self.guards.get_mut(g) {
                    mg.by_key = true;
                }
            }
            Obs::Offered(list) => {
                let lim = match self.agents.get(&a).and_then(|x| x.call) {
                    Some(Call::Lock { lim, .. }) => lim as usize,
                    _ => 0,
                };
                let live = self.live_keys();
                let mut seen = BTreeSet::new();
                for (g, k, _) in list {
                    if !seen.insert(*k) {
                        self.hit("C07.callback_args", format!("{}: key {} offered twice", label.text(), k));
                    }
                    if !self.shadow.contains_key(k) {
                        self.hit("C07.callback_args", format!("{}: offered guard {} for key {} which has no value", label.text(), g, k));
                    }
                    if live.contains(k) {
                        self.hit("C07.callback_args", format!("{}: offered guard {} for key {} which is locked by a client guard", label.text(), g, k));
                    }
                }
                let n = seg.pre.entries.len();
                if lim == 0 || n < lim {
                    self.hit("C07.callback_args", format!("{}: callback invoked with {} entries, limit {}", label.text(), n, lim));
                } else if list.len() > n - (lim - 1) {
                    self.hit(
                        "C07.callback_args",
                        format!("{}: {} guards offered, at most {} needed ({} entries, limit {})", label.text(), list.len(), n - (lim - 1), n, lim),
                    );
                }
                if list.is_empty() {
                    self.hit("C07.callback_args", format!("{}: callback invoked with no guards", label.text()));
                }
                if self.backend == Backend::L {
                    // C09: candidates = entries that were unlocked and valued before the round
                    let cands: Vec<Key> = seg
                        .pre
                        .entries
                        .iter()
                        .filter(|e| !e.locked && self.shadow.contains_key(&e.key) && !live.contains(&e.key))
                        .map(|e| e.key)
                        .collect();
                    let pos = |k: Key| list.iter().position(|x| x.1 == k);
                    for (j, (_, kb, _)) in list.iter().enumerate() {
                        let Some(sb) = self.uses.get(kb).and_then(|u| u.last_success_start) else { continue };
                        for ka in &cands {
                            if ka == kb {
                                continue;
                            }
                            let Some(ua) = self.uses.get(ka) else { continue };
                            if ua.open != 0 {
                                continue;
                            }
                            let Some(ea) = ua.last_end else { continue };
                            if ea < sb && pos(*ka).map(|i| i > j).unwrap_or(true) {
                                self.hit(
                                    "C09.lru_order",
                                    format!(
                                        "{}: key {} offered {} although every use of unlocked key {} ended (label {}) before the last use of {} began (label {})",
                                        label.text(),
                                        kb,
                                        if pos(*ka).is_some() { "before it" } else { "and it was passed over" },
                                        ka,
                                        ea,
                                        kb,
                                        sb
                                    ),
                                );
                            }
                        }
                    }
                }
                for (g, k, v) in list {
                    self.new_guard(&label.text(), *g, *k, *v);
                }
                self.agents.entry(a).or_default().offered = list.iter().map(|x| x.0).collect();
            }
            Obs::Expired(list) => {
                let got: BTreeSet<Key> = list.iter().map(|x| x.1).collect();
                if got.len() != list.len() {
                    self.hit("C10.expiry", format!("{}: duplicate keys in {:?}", label.text(), list));
                }
                if self.backend == Backend::L {
                    let interrupted = self.agents.get(&a).map(|x| x.scan_interrupted).unwrap_or(false);
                    if let Some(exp) = self.agents.get(&a).and_then(|x| x.expire_expected.clone()) {
                        if exp != got && !interrupted {
                            self.hit("C10.expiry", format!("{}: returned keys {:?}, expected {:?}", label.text(), got, exp));
                        }
                    }
                }
                for (g, k, v) in list {
                    if v.is_none() {
                        self.hit("C10.expiry", format!("{}: valueless guard {} for key {}", label.text(), g, k));
                    }
                    self.new_guard(&label.text(), *g, *k, *v);
                }
            }
            Obs::Stream(ks) => {
                self.agents.entry(a).or_default().stream_keys = ks.clone();
                // C11: the snapshot covers every key that has a value or is locked by a client guard when the
                // call is made (judged against the harness' own shadow map and guard table)
                if !seg.mid_cs && !seg.snap.gone {
                    let mut must: BTreeSet<Key> = self.shadow.keys().copied().collect();
                    must.extend(self.guards.values().filter(|g| g.live && !g.dying).map(|g| g.key));
                    let missing: Vec<Key> = must.into_iter().filter(|k| !ks.contains(k)).collect();
                    if !missing.is_empty() {
                        self.hit(
                            "C11.stream",
                            format!("stream {}: its snapshot {:?} misses keys {:?} which have a value or are locked", a, ks, missing),
                        );
                    }
                }
            }
            Obs::Count(n) => {
                if *n != seg.pre.entries.len() {
                    self.hit("C04.keys", format!("{}: count {} but the map has {} entries", label.text(), n, seg.pre.entries.len()));
                }
            }
            Obs::Keys(ks) => {
                // as sets (with multiplicity): the order of the returned Vec is not part of any property
                let mut got = ks.clone();
                got.sort();
                let mut want = seg.pre.keys();
                want.sort();
                if got != want {
                    self.hit("C04.keys", format!("{}: keys {:?} but the map has {:?}", label.text(), ks, seg.pre.keys()));
                }
            }
            _ => {}
        }
    }

    fn expected_expired(&self, seg: &Segment, now: u64, d: Option<u64>) -> BTreeSet<Key> {
        let Some(d) = d else { return BTreeSet::new() }; // Duration::MAX: nothing can be that old
        let live = self.live_keys();
        self.shadow
            .keys()
            .filter(|k| !live.contains(k))
            .filter(|k| seg.pre.get(**k).map(|e| !e.locked).unwrap_or(false))
            .filter(|k| {
                let t = self.touch.get(k).copied().unwrap_or(0);
                t.checked_add(d).map(|x| x <= now).unwrap_or(false)
            })
            .copied()
            .collect()
    }

    fn gop(&mut self, g: Gid, op: Gop, obs: &Obs) {
        let Some(k) = self.guards.get(&g).map(|x| x.key) else { return };
        let old = self.shadow.get(&k).copied();
        let expect: Obs = match op {
            Gop::Ins(v) => {
                self.shadow.insert(k, v);
                self.touch.insert(k, self.clock);
                Obs::Val(old)
            }
            Gop::Rem => {
                self.shadow.remove(&k);
                Obs::Val(old)
            }
            Gop::Set(v) => {
                if old.is_some() {
                    self.shadow.insert(k, v);
                    Obs::Val(Some(v))
                } else {
                    Obs::Val(None)
                }
            }
            Gop::TryIns(v) => {
                if old.is_some() {
                    Obs::Exists
                } else {
                    self.shadow.insert(k, v);
                    self.touch.insert(k, self.clock);
                    Obs::Val(Some(v))
                }
            }
            Gop::GetIns(v) => match old {
                Some(o) => Obs::Val(Some(o)),
                None => {
                    self.shadow.insert(k, v);
                    self.touch.insert(k, self.clock);
                    Obs::Val(Some(v))
                }
            },
            Gop::Read => Obs::Val(old),
            Gop::CPanic => match old {
                Some(o) => Obs::Val(Some(o)),
                None => Obs::Panicked,
            },
        };
        if *obs != expect && !obs.is_failure() {
            self.hit("C02.shadow", format!("gop {} {} on key {}: got '{}', expected '{}'", g, op.text(), k, obs.text(), expect.text()));
        }
    }

    fn check_snapshot(&mut self, seg: &Segment) {
        let snap = &seg.snap;
        if snap.glock_held {
            self.hit("C13.panic", "the global lock is held between two segments".into());
            return;
        }
        if snap.poisoned {
            self.hit("C13.panic", "the global lock is poisoned".into());
        }
        // C02: unlocked entries show the shadow value
        for e in &snap.entries {
            if e.locked {
                continue;
            }
            let sv = self.shadow.get(&e.key).copied();
            if e.value != sv {
                self.hit("C02.shadow", format!("unlocked entry {} holds {:?}, expected {:?}", e.key, e.value, sv));
            }
        }
        // C04: keys
        let have: BTreeSet<Key> = snap.entries.iter().map(|e| e.key).collect();
        if have.len() != snap.entries.len() {
            self.hit("C04.keys", format!("duplicate keys in the map: {:?}", snap.keys()));
        }
        let valued: BTreeSet<Key> = self.shadow.keys().copied().collect();
        let live = self.live_keys();
        let mut inflight: BTreeSet<Key> = BTreeSet::new();
        let mut any_alive = false;
        for v in &seg.agents {
            if !v.alive {
                continue;
            }
            any_alive = true;
            match &v.kind {
                AgentKind::Lock { key, .. } if v.past_lookup => {
                    inflight.insert(*key);
                }
                AgentKind::Stream => inflight.extend(v.stream_pending.iter().copied()),
                _ => {}
            }
        }
        for k in valued.union(&live) {
            if !have.contains(k) {
                self.hit("C04.keys", format!("key {} (valued or guarded) is missing from the map {:?}", k, snap.keys()));
            }
        }
        for k in &have {
            if !valued.contains(k) && !live.contains(k) && !inflight.contains(k) {
                let quiet = !any_alive && live.is_empty();
                self.hit(
                    "C04.keys",
                    format!(
                        "key {} is in the map but has no value, no guard and no in-flight call{}",
                        k,
                        if quiet { " (quiescent: leak)" } else { "" }
                    ),
                );
            }
        }
        // C14: blocked although the mutex is free
        for a in &seg.blocked {
            if let Some(v) = seg.agents.iter().find(|v| v.aid == *a) {
                if let AgentKind::Lock { key, .. } = &v.kind {
                    if let Some(e) = snap.get(*key) {
                        if !e.locked {
                            self.hit("C14.lost_wakeup", format!("agent {} is blocked on key {} whose mutex is free", a, key));
                        }
                    }
                }
            }
        }
    }
}
