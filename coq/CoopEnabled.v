(* C07: existence form of the cooperative eviction round -- every step of the round is enabled, so the
   conditional theorems of Evict.v apply to a run that exists. *)
From Coq Require Import List Arith ZArith Bool Lia.
From LK Require Import AList AListFacts Model Inv StepInv NoPanic PropLemmas Seq DropInv Evict.
Import ListNotations.

Lemma guard_live_intro s g : In g (akeys (s_guards s)) -> guard_busy s g = false -> guard_live s g = true.
Proof.
  intros H1 H2. unfold guard_live. rewrite H2. cbn. rewrite andb_true_r. unfold amem.
  apply keys_aget in H1 as [k ->]. reflexivity.
Qed.

Lemma all_live_intro s gs : (forall g, In g gs -> guard_live s g = true) -> all_live s gs = true.
Proof.
  induction gs as [|g t IH]; intros H; cbn; auto. rewrite H by (cbn; auto). cbn. apply IH. intros; apply H; cbn; auto.
Qed.

Lemma guard_live_ext s s' g : s_guards s' = s_guards s -> s_ops s' = s_ops s -> guard_live s' g = guard_live s g.
Proof. intros H1 H2. unfold guard_live, guard_busy. rewrite H1, H2. reflexivity. Qed.

(* removing through live guards is always possible and changes neither the guard table nor the calls *)
Lemma remove_enabled c s g : Inv s -> guard_live s g = true ->
  exists s' ob, step c s (LGuardOp g GRemove) = ROk s' ob /\ s_guards s' = s_guards s /\ s_ops s' = s_ops s.
Proof.
  intros HI Hl. destruct (guard_live_spec s g Hl) as [Hin _]. apply keys_aget in Hin as [k Hg].
  destruct (Inv_guard_present s g k HI Hg) as (e & He & _).
  cbn. unfold do_guard_op. rewrite Hl, Hg, He. cbn. eauto.
Qed.

Lemma removes_enabled c gs : forall s, Inv s -> (forall g, In g gs -> guard_live s g = true) ->
  exists s', steps c s (map (fun g => LGuardOp g GRemove) gs) s' /\ s_guards s' = s_guards s /\ s_ops s' = s_ops s.
Proof.
  induction gs as [|g t IH]; intros s HI Hl; cbn.
  - exists s. split; [constructor|auto].
  - destruct (remove_enabled c s g HI (Hl g (or_introl eq_refl))) as (s1 & ob & H1 & G1 & O1).
    destruct (IH s1) as (s' & H2 & G2 & O2).
    + eapply step_inv; eauto.
    + intros g' Hg'. rewrite (guard_live_ext s s1 g' G1 O1). apply Hl. cbn. auto.
    + exists s'. split; [econstructor; eauto|split; congruence].
Qed.

(* dropping a list of guards: every unlock critical section is enabled *)
Lemma drops_enabled c a o : forall gs s af, Inv s -> DInv s -> gs <> [] ->
  aget a (s_ops s) = Some (PDrops gs af) ->
  exists s', steps c s (repeat (LResume a o) (length gs)) s'.
Proof.
  induction gs as [|g rest IH]; intros s af HI HD Hne Ha; [congruence|].
  destruct (drop_enabled c s a g rest af o HI HD Ha) as (s1 & ob & H1).
  cbn [length repeat].
  destruct rest as [|g' rest'].
  - exists s1. econstructor; eauto. constructor.
  - assert (Ha1 : aget a (s_ops s1) = Some (PDrops (g' :: rest') af)).
    { pose proof H1 as H0. cbn in H0. unfold do_resume in H0. rewrite Ha in H0. apply cs_ok in H0.
      unfold do_drops in H0. destruct (unlock_cs c s g) as [[s2|]|]; try discriminate. inv H0.
      cbn. rewrite begin_unlock_ops. apply aget_aset_eq. }
    destruct (IH s1 af) as (s' & H2); auto.
    + eapply step_inv; eauto.
    + exact (step_dinv c s _ s1 _ HI HD H1).
    + discriminate.
    + exists s'. econstructor; eauto.
Qed.

Theorem coop_round_enabled c s a sh k n o s1 l o' :
  Inv s -> DInv s -> aget a (s_ops s) = Some (PEnter sh k (Some n)) ->
  step c s (LResume a o) = ROk s1 (OOffered l) ->
  exists s', steps c s1 (map (fun g => LGuardOp g GRemove) (map ogid l) ++ [LCbReturn a CbOk true]
                          ++ repeat (LResume a o') (length l)) s'.
Proof.
  intros HI HD Ha H.
  destruct (offering_effect c s a sh k n o s1 l HI Ha H) as (_ & _ & Hops & Hnd & Hne & Hnew & _).
  assert (HI1 : Inv s1) by (eapply step_inv; eauto).
  assert (HD1 : DInv s1) by (exact (step_dinv c s _ s1 _ HI HD H)).
  set (gs := map ogid l) in *.
  assert (Ha1 : aget a (s_ops s1) = Some (PInCb sh k n gs)) by (rewrite Hops; apply aget_aset_eq).
  (* the offered guards are live: fresh ids cannot be in the middle of a drop *)
  assert (Hlive : forall g, In g gs -> guard_live s1 g = true).
  { intros g Hg. destruct (Hnew g Hg) as [Hge Hin]. apply guard_live_intro; auto.
    destruct (guard_busy s1 g) eqn:Eb; auto. exfalso.
    unfold guard_busy in Eb. apply existsb_exists in Eb as ([a' p'] & Hin' & Hp). cbn in Hp.
    apply pc_drops_spec in Hp.
    rewrite Hops in Hin'. apply In_aget in Hin'.
    2:{ rewrite <- Hops. apply (inv_nd_o _ HI1). }
    destruct (Nat.eq_dec a' a) as [->|Hna].
    - rewrite aget_aset_eq in Hin'. inv Hin'. destruct Hp.
    - rewrite aget_aset_neq in Hin' by auto.
      pose proof (di_live _ HD a' p' g Hin' Hp) as Hold. apply (inv_gid _ HI) in Hold. lia. }
  destruct (removes_enabled c gs s1 HI1 Hlive) as (s2 & S2 & G2 & O2).
  assert (HI2 : Inv s2) by (eapply steps_inv; eauto).
  assert (HD2 : DInv s2).
  { clear -S2 HI1 HD1. induction S2; auto. apply IHS2; [eapply step_inv; eauto|eapply step_dinv; [| |eassumption]; auto]. }
  (* the callback returns holding its guards: they start to be dropped *)
  assert (exists s3, step c s2 (LCbReturn a CbOk true) = ROk s3 ONothing /\
                     aget a (s_ops s3) = Some (PDrops gs (AReenter sh k n))) as (s3 & H3 & Ha3).
  { cbn. unfold do_cbreturn. rewrite O2, Ha1.
    destruct gs as [|g0 rest] eqn:Egs.
    - exfalso. apply Hne. destruct l; [auto|discriminate].
    - rewrite <- Egs in *.
      assert (all_live s2 gs = true) as ->.
      { apply all_live_intro. intros g Hg. rewrite (guard_live_ext s1 s2 g G2 O2). auto. }
      assert (nodup_nat gs = true) as -> by (apply nodup_nat_NoDup; auto).
      cbn. rewrite Egs. eexists. split; [reflexivity|]. cbn. rewrite begin_unlock_ops. apply aget_aset_eq. }
  assert (HI3 : Inv s3) by (eapply step_inv; eauto).
  assert (HD3 : DInv s3) by (exact (step_dinv c s2 _ s3 _ HI2 HD2 H3)).
  destruct (drops_enabled c a o' gs s3 (AReenter sh k n) HI3 HD3) as (s4 & S4); auto.
  { intros E. apply Hne. unfold gs in E. destruct l; [auto|discriminate]. }
  exists s4. apply steps_app. exists s2. split; auto.
  econstructor; eauto. unfold gs in S4. rewrite map_length in S4. exact S4.
Qed.

Lemma is_perm_of_refl l : NoDup l -> is_perm_of l l = true.
Proof.
  intros H. unfold is_perm_of. rewrite Nat.eqb_refl. cbn.
  assert (nodup_nat l = true) as -> by (apply nodup_nat_NoDup; auto). cbn.
  apply forallb_forall. intros x Hx. apply mem_nat_In. auto.
Qed.

Lemma steps_dinv c s ls s' : Inv s -> DInv s -> steps c s ls s' -> DInv s'.
Proof.
  intros HI HD H. induction H; auto. apply IHsteps; [eapply step_inv; eauto|].
  eapply step_dinv; [| |eassumption]; auto.
Qed.

(* The whole loop: from any reachable state in which a soft-limited call is about to enter, there is a run
   in which the callback is cooperative every time, it has at most (number of evictable entries) rounds,
   every step of it is enabled, and after it the call's next step is not another callback: it goes on to
   its look-up.  The identity permutation is used as the iteration-order oracle (any valid one would do). *)
Theorem coop_loop_reaches_lookup c a sh k n : forall s,
  Inv s -> DInv s -> aget a (s_ops s) = Some (PEnter sh k (Some n)) ->
  exists m s'', coop_rounds c a s m s'' /\ m <= evictable_n s /\
    exists s3 ob, step c s'' (LResume a (akeys (s_ents s''))) = ROk s3 ob /\ forall l, ob <> OOffered l.
Proof.
  intros s. remember (evictable_n s) as e eqn:Ee. revert s Ee.
  induction e as [e IH] using lt_wf_ind. intros s Ee HI HD Ha.
  assert (Hor : oracle_ok c s (akeys (s_ents s))) by (right; apply is_perm_of_refl; apply (inv_nd_e _ HI)).
  destruct (resume_enabled c s a _ (akeys (s_ents s)) HI Ha eq_refl (fun _ => Hor)) as (s1 & ob & H1).
  assert (D : (exists l0, ob = OOffered l0) \/ forall l0, ob <> OOffered l0).
  { destruct ob; try (right; intros l0; discriminate). left. eauto. }
  destruct D as [[l0 ->]|D].
  2:{ exists 0, s. split; [constructor|]. split; [lia|]. eauto. }
  destruct (coop_round_enabled c s a sh k n _ s1 l0 [] HI HD Ha H1) as (s' & Hs).
  destruct (coop_round_progress c s a sh k n _ s1 l0 [] s' HI Ha H1 Hs) as (P1 & P2 & P3 & P4).
  assert (HI1 : Inv s1) by (eapply step_inv; eauto).
  assert (HD1 : DInv s1) by (exact (step_dinv c s _ s1 _ HI HD H1)).
  assert (HI' : Inv s') by (eapply steps_inv; eauto).
  assert (HD' : DInv s') by (eapply steps_dinv; [| |eassumption]; auto).
  destruct (IH (evictable_n s') ltac:(lia) s' eq_refl HI' HD' P4) as (m & s'' & R & Hm & Hfin).
  exists (S m), s''. split; [econstructor; eauto|]. split; [lia|]. exact Hfin.
Qed.
