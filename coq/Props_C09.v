(* C09 — the LRU cache offers least-recently-used entries for eviction first. *)
From Coq Require Import List Arith ZArith.
From LK Require Import AList AListFacts Model Inv StepInv PropLemmas Lru.
Import ListNotations.

(* (1) What is offered is a prefix of the evictable entries in the cache's recency order
   (akeys (s_ents s), least recently used first): an unlocked valued entry is never passed over in
   favour of one that follows it in that order. *)
Theorem C09_offer_is_lru_prefix : forall s a sh k n o s' l,
  reachable (mkCfg true) s -> aget a (s_ops s) = Some (PEnter sh k (Some n)) ->
  step (mkCfg true) s (LResume a o) = ROk s' (OOffered l) ->
  map okey l = firstn (length (s_ents s) - (n - 1)) (filter (evictable_b (s_ents s)) (akeys (s_ents s))).
Proof.
  intros s a sh k n o s' l Hr Ha H.
  destruct (enter_offered _ s a sh k n o s' l (reachable_inv _ s Hr) Ha H) as (order & Ho & _ & _ & _ & Hf & _).
  unfold iter_order in Ho. cbn in Ho. inversion Ho; subst. exact Hf.
Qed.

(* (2) The look-up of a lock call for k moves k to the most-recently-used end. *)
Theorem C09_lookup_promotes : forall s a sh k s' o,
  do_lookup (mkCfg true) s a sh k = ROk s' o ->
  akeys (s_ents s') = remove_nat k (akeys (s_ents s)) ++ [k].
Proof. intros s a sh k s' o. exact (lookup_promotes (mkCfg true) s a sh k s' o eq_refl). Qed.

(* (3) Nothing else reorders: a step changes the recency order at most in the position of its subject key
   (the key of the lock call making the step, or of the guard being unlocked); the relative order of all
   other keys is untouched and no other key appears or disappears.  In particular values, guard operations,
   scans, streams, counting and the number of earlier uses play no role. *)
Theorem C09_only_the_subject_key_moves : forall c s l s' o,
  step c s l = ROk s' o -> (forall o', l <> LConsume o') ->
  order_rel (subject s l) (s_ents s) (s_ents s').
Proof. exact step_order_frame. Qed.

(* (4) The interval form of the property, for every run of the LRU cache from the empty state
   (gsteps = steps with a ghost that records, per key, the index of the last step that moved the key to
   the MRU end): let the look-up of a lock call for B happen at some step, and let no step of a lock call
   for A and no unlock of a guard for A (= no part of any use of A) happen at or after that step; then, if
   both are present at the end, A precedes B in the recency order ... *)
Theorem C09_interval_order : forall ls1 lB ls2 i s1 lm1 s2 j s3 lm3 A B ob,
  gsteps (mkCfg true) 0 init (fun _ => 0) ls1 i s1 lm1 ->
  step (mkCfg true) s1 lB = ROk s2 ob -> (forall o', lB <> LConsume o') -> is_lookup_of (mkCfg true) s1 lB s2 B ->
  gsteps (mkCfg true) (S i) s2 (ghost_upd s1 lB s2 i lm1) ls2 j s3 lm3 ->
  subject s1 lB <> Some A -> (forall s0 l, In l ls2 -> subject s0 l = Some A -> False) ->
  In A (akeys (s_ents s3)) -> In B (akeys (s_ents s3)) -> A <> B ->
  before (akeys (s_ents s3)) A B.
Proof. intros ls1 lB ls2 i s1 lm1 s2 j s3 lm3 A B ob. exact (lru_interval_order (mkCfg true) ls1 lB ls2 i s1 lm1 s2 j s3 lm3 A B ob eq_refl). Qed.

(* ... and therefore (with (1)) whenever B is offered for eviction and A is evictable, A is offered too. *)
Theorem C09_offer_respects_order : forall (f : key -> bool) l n A B,
  NoDup l -> before l A B -> f A = true -> In B (firstn n (filter f l)) -> In A (firstn n (filter f l)).
Proof. exact prefix_respects_before. Qed.

(* non-vacuity: A=1 used, then B=2 used, then A used again; at limit 2, B is offered (not A). *)
Example C09_witness :
  exists s, run (mkCfg true)
    [LStart 0 (CLock ShTry 1 None); LResume 0 []; LGuardOp 0 (GInsert 10); LStart 1 (CDrop 0); LResume 1 [];
     LStart 2 (CLock ShTry 2 None); LResume 2 []; LGuardOp 1 (GInsert 20); LStart 3 (CDrop 1); LResume 3 [];
     LStart 4 (CLock ShTry 1 None); LResume 4 []; LResume 4 []; LStart 5 (CDrop 2); LResume 5 [];
     LStart 6 (CLock ShBlocking 3 (Some 2)); LResume 6 []]
  = RunOk s [ONothing; OGuard 0 1 None; OVal None; ONothing; OUnit; ONothing; OGuard 1 2 None; OVal None; ONothing; OUnit;
             ONothing; ONothing; OGuard 2 1 (Some 10%Z); ONothing; OUnit;
             ONothing; OOffered [(3, 2, 20%Z)]].
Proof. eexists. vm_compute. reflexivity. Qed.
