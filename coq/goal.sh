#!/bin/sh
# usage: goal.sh File.v LINE  -- show the proof state after line LINE
f=$1; n=$2
head -n $n $f > /verif/build/_goal_tmp.v
echo "Show. Abort All." >> /verif/build/_goal_tmp.v
cd /verif/build/coqwork && coqc -Q . LK /verif/build/_goal_tmp.v 2>&1 | head -${3:-60}
rm -f /verif/build/_goal_tmp.vo /verif/build/_goal_tmp.glob /verif/build/._goal_tmp.aux
