(* Extraction of the abstract machine of C05 (plain map + locked set, SeqRefine.v) together with the model's
   sequential driver, for the linearisability check of real-thread histories (ocaml/lincheck.ml).
   ExtrOcamlBasic only, as in Extract.v. *)
From Coq Require Extraction ExtrOcamlBasic.
From Coq Require Import List Arith ZArith.
From LK Require Import AList Model Observe Seq SeqRefine.
Extraction Language OCaml.
Extraction "spec.ml" spec_call spec_init sp_locked seq_call init
  Z.add Z.mul Z.sub Z.of_nat Z.to_nat Z.opp Z.leb Z.eqb Nat.eqb.
