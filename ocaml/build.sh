#!/bin/sh
# Extract the Coq model and build the co-simulation driver. Output: /verif/build/cosim
set -e
cd "$(dirname "$0")"
mkdir -p gen ../build/ocaml
( cd gen && coqc -Q ../../coq LK ../../coq/Extract.v >/dev/null && rm -f ../../coq/Extract.vo ../../coq/Extract.glob ../../coq/.Extract.aux ../../coq/Extract.vok ../../coq/Extract.vos )
cp gen/model.ml gen/model.mli cosim.ml ../build/ocaml/
cd ../build/ocaml
ocamlfind ocamlopt -O3 -unboxed-types 2>/dev/null >/dev/null || true
ocamlfind ocamlopt -w -a -o ../cosim model.mli model.ml cosim.ml
