(* Lemmas behind the property theorems (Props_Cxx.v only restate them). *)
From Coq Require Import List Arith ZArith Bool Lia Permutation.
From LK Require Import AList AListFacts Model Observe Inv StepInv NoPanic.
Import ListNotations.

(* ------------------------------------------------------------------ *)
(* C01 *)

Lemma guards_unique_key s : Inv s -> NoDup (map snd (s_guards s)).
Proof.
  intros HI. pose proof (inv_nd_g _ HI) as Hnd.
  assert (H : forall g1 g2 k, In (g1, k) (s_guards s) -> In (g2, k) (s_guards s) -> g1 = g2).
  { intros g1 g2 k H1 H2. apply In_aget in H1; auto. apply In_aget in H2; auto.
    destruct (Inv_guard_present s g1 k HI H1) as (e1 & He1 & Ho1).
    destruct (Inv_guard_present s g2 k HI H2) as (e2 & He2 & Ho2). congruence. }
  revert Hnd H. generalize (s_guards s). induction l as [|[g k] t IH]; cbn; intros Hnd H; [constructor|].
  inversion Hnd as [|? ? Hn Hnd']; subst. constructor.
  - intros Hin. apply in_map_iff in Hin as ([g' k'] & Hk & Hin'). cbn in Hk. subst k'.
    assert (g = g') by (apply (H g g' k); auto). subst. apply Hn. apply (in_map fst) in Hin'. auto.
  - apply IH; auto. intros g1 g2 k0 H1 H2. apply (H g1 g2 k0); auto.
Qed.

(* while a guard for k is alive: a try on k fails, a waiter on k stays blocked *)
Lemma held_try_fails c s a sh k g o :
  Inv s -> aget g (s_guards s) = Some k -> aget a (s_ops s) = Some (PKeyTry sh k) ->
  step c s (LResume a o) = ROk (set_pc s a (PCleanup sh k)) ONothing.
Proof.
  intros HI Hg Ha. cbn. unfold do_resume. rewrite Ha. unfold do_key_try.
  destruct (Inv_guard_present s g k HI Hg) as (e & He & Ho). rewrite He, Ho. reflexivity.
Qed.

Lemma cleanup_reports_fail c s a sh k o s' ob :
  aget a (s_ops s) = Some (PCleanup sh k) -> step c s (LResume a o) = ROk s' ob -> ob = OTryFail.
Proof.
  intros Ha H. cbn in H. unfold do_resume in H. rewrite Ha in H. apply cs_ok in H.
  unfold do_cleanup in H. destruct (cleanup_ents (s_ents s) k) as [[ents|]|]; inv H; auto.
Qed.

Lemma held_waiter_blocked c s a sh k g o :
  Inv s -> aget g (s_guards s) = Some k -> aget a (s_ops s) = Some (PQueued sh k) ->
  step c s (LResume a o) = RInvalid.
Proof.
  intros HI Hg Ha. cbn. unfold do_resume. rewrite Ha. unfold do_queued.
  destruct (Inv_guard_present s g k HI Hg) as (e & He & Ho). rewrite He, Ho. reflexivity.
Qed.

Lemma held_wait_enqueues c s a sh k g o :
  Inv s -> aget g (s_guards s) = Some k -> aget a (s_ops s) = Some (PKeyWait sh k) ->
  exists s', step c s (LResume a o) = ROk s' ONothing /\ aget a (s_ops s') = Some (PQueued sh k) /\
             s_guards s' = s_guards s.
Proof.
  intros HI Hg Ha. cbn. unfold do_resume. rewrite Ha. unfold do_key_wait.
  destruct (Inv_guard_present s g k HI Hg) as (e & He & Ho). rewrite He, Ho.
  eexists. split; [reflexivity|]. cbn. rewrite aget_aset_eq. auto.
Qed.

(* ------------------------------------------------------------------ *)
(* C04 *)

Definition valued (s : state) (k : key) : Prop :=
  exists e, aget k (s_ents s) = Some e /\ e_val e <> None.

Lemma keys_exact s k : Inv s ->
  (In k (akeys (s_ents s)) <->
   valued s k \/ (exists g, In (g, k) (s_guards s)) \/
   (exists a p, In (a, p) (s_ops s) /\ 0 < pc_handles p k)).
Proof.
  intros HI. pose proof (inv_k _ HI k) as [kmx kg kw kr k2 kp]. split.
  - intros Hin. apply keys_aget in Hin as [e He].
    destruct (e_val e) eqn:Ev; [left; exists e; split; auto; congruence|].
    right. pose proof (k2 e He Ev) as Hpos. rewrite (kr e He) in Hpos. unfold handles in Hpos.
    destruct (Nat.eq_dec (gcount (s_guards s) k) 0) as [Z|Z].
    + right. apply ops_handles_pos. lia.
    + left. apply gcount_pos. lia.
  - intros [(e & He & _)|[Hg|Hh]].
    + eapply aget_Some_keys; eauto.
    + apply kp. unfold handles. apply gcount_pos in Hg. lia.
    + apply kp. unfold handles. apply ops_handles_pos in Hh. lia.
Qed.

Lemma quiescent_keys s k : Inv s -> s_guards s = [] -> s_ops s = [] ->
  (In k (akeys (s_ents s)) <-> valued s k).
Proof.
  intros HI Eg Eo. rewrite (keys_exact s k HI). rewrite Eg, Eo. split; [|auto].
  intros [H|[[g []]|(a & p & [] & _)]]. auto.
Qed.

Lemma count_obs c s a o s' n :
  aget a (s_ops s) = Some PCount -> step c s (LResume a o) = ROk s' (OCount n) -> n = length (akeys (s_ents s)).
Proof.
  intros Ha H. cbn in H. unfold do_resume in H. rewrite Ha in H. apply cs_ok in H. inv H.
  unfold akeys. rewrite map_length. auto.
Qed.

Lemma keys_obs c s a o s' l :
  Inv s -> aget a (s_ops s) = Some PKeys -> step c s (LResume a o) = ROk s' (OKeys l) ->
  NoDup l /\ (forall k, In k l <-> In k (akeys (s_ents s))) /\ length l = length (akeys (s_ents s)).
Proof.
  intros HI Ha H. cbn in H. unfold do_resume in H. rewrite Ha in H. apply cs_ok in H.
  destruct (iter_order c s o) as [order|] eqn:Eo; [|discriminate]. inv H.
  destruct (iter_order_spec c s o l (inv_nd_e _ HI) Eo) as (H1 & H2 & H3). repeat split; auto; try apply H2.
  rewrite H3. unfold akeys. rewrite map_length. auto.
Qed.

(* ------------------------------------------------------------------ *)
(* C12 *)

Lemma consume_list_spec s order l :
  Inv s -> s_ops s = [] -> s_guards s = [] ->
  (forall k, In k order -> In k (akeys (s_ents s))) ->
  consume_list (s_ents s) order = inl l ->
  map fst l = order /\ (forall k v, In (k, v) l -> exists e, aget k (s_ents s) = Some e /\ val_of e = Some v).
Proof.
  intros HI Eo Eg. revert l. induction order as [|k rest IH]; intros l Hin H; cbn in H.
  - inv H. split; auto. intros ? ? [].
  - pose proof (Hin k (or_introl eq_refl)) as Hk. apply keys_aget in Hk as [e He]. rewrite He in H.
    destruct (negb (Nat.eqb (e_repl e) 0)); [discriminate|].
    destruct (val_of e) as [v|] eqn:Ev; [|discriminate].
    destruct (consume_list (s_ents s) rest) as [l'|] eqn:El; [|discriminate]. inv H.
    destruct (IH l' (fun k0 H0 => Hin k0 (or_intror H0)) eq_refl) as [H1 H2]. split.
    + cbn. f_equal. exact H1.
    + intros k0 v0 [H|H]; [inv H; eauto|apply H2; auto].
Qed.

(* ------------------------------------------------------------------ *)
(* C02: nothing but an operation on a guard for k changes the value of k *)

Definition vof_e (ents : list (key * entry)) (k : key) : option Z :=
  match aget k ents with Some e => val_of e | None => None end.
Definition vof (s : state) (k : key) : option Z := vof_e (s_ents s) k.

Definition vsame (e1 e2 : list (key * entry)) : Prop := forall k, vof_e e2 k = vof_e e1 k.

Lemma vsame_refl e : vsame e e. Proof. intros k; reflexivity. Qed.
Lemma vsame_trans e1 e2 e3 : vsame e1 e2 -> vsame e2 e3 -> vsame e1 e3.
Proof. intros H1 H2 k. rewrite H2. apply H1. Qed.

Lemma vsame_aset ents k e e' : aget k ents = Some e -> val_of e' = val_of e -> vsame ents (aset k e' ents).
Proof.
  intros He Hv k'. unfold vof_e. rewrite aget_aset. destruct (Nat.eqb_spec k' k); [subst; rewrite He; auto|auto].
Qed.

Lemma vsame_insert ents k e' : aget k ents = None -> val_of e' = None -> vsame ents (aset k e' ents).
Proof.
  intros He Hv k'. unfold vof_e. rewrite aget_aset. destruct (Nat.eqb_spec k' k); [subst; rewrite He; auto|auto].
Qed.

Lemma vsame_adel ents k : vof_e ents k = None -> vsame ents (adel k ents).
Proof.
  intros Hv k'. unfold vof_e in *. rewrite aget_adel. destruct (Nat.eqb_spec k' k); [subst; auto|auto].
Qed.

Lemma vsame_promote c ents k : vsame ents (promote_if_lru c k ents).
Proof. intros k'. unfold vof_e. rewrite promote_if_lru_get. auto. Qed.

Lemma val_of_set_owner e o : val_of (set_owner e o) = val_of e. Proof. reflexivity. Qed.
Lemma val_of_set_repl e r : val_of (set_repl e r) = val_of e. Proof. reflexivity. Qed.
Lemma val_of_set_queue e q : val_of (set_queue e q) = val_of e. Proof. reflexivity. Qed.
Lemma val_of_mx_release e : val_of (mx_release e) = val_of e.
Proof. unfold val_of. rewrite mx_release_val. auto. Qed.
Lemma val_of_mx_cancel e a : val_of (mx_cancel e a) = val_of e.
Proof. unfold val_of. rewrite mx_cancel_val. auto. Qed.

Lemma val_of_None e : e_val e = None -> val_of e = None.
Proof. unfold val_of. intros ->. auto. Qed.

Lemma lock_keys_vsame ks : forall s, vsame (s_ents s) (s_ents (fst (lock_keys s ks))).
Proof.
  induction ks as [|k rest IH]; intros s; cbn [lock_keys]; [apply vsame_refl|].
  destruct (aget k (s_ents s)) as [e|] eqn:He; [|apply IH].
  cbn [new_guard].
  match goal with |- context [lock_keys ?x rest] => set (s2 := x) end.
  specialize (IH s2). destruct (lock_keys s2 rest) as [s3 l]. cbn [fst] in *.
  eapply vsame_trans; [|apply IH]. unfold s2. cbn. eapply vsame_aset; eauto.
Qed.

Lemma clone_all_vsame order : forall ents, vsame ents (clone_all ents order).
Proof.
  induction order as [|k rest IH]; intros ents; cbn; [apply vsame_refl|].
  destruct (aget k ents) as [e|] eqn:He; [|apply IH].
  eapply vsame_trans; [|apply IH]. eapply vsame_aset; eauto.
Qed.

Lemma cleanup_vsame ents k ents' : cleanup_ents ents k = inl (Some ents') -> vsame ents ents'.
Proof.
  unfold cleanup_ents. destruct (aget k ents) as [e|] eqn:He; [|discriminate].
  destruct (Nat.eqb (e_repl e) 1).
  - destruct (e_owner e); [discriminate|]. destruct (e_val e) eqn:Ev; intros H; inv H.
    + eapply vsame_aset; eauto.
    + apply vsame_adel. unfold vof_e. rewrite He. apply val_of_None; auto.
  - intros H; inv H. eapply vsame_aset; eauto.
Qed.

Lemma cancel_vsame c ents a k ents' : cancel_ents c ents a k = inl (Some ents') -> vsame ents ents'.
Proof.
  unfold cancel_ents. destruct (aget k ents) as [e|] eqn:He; [|discriminate].
  cbn [e_repl set_repl e_owner e_val].
  assert (V1 : vsame ents (aset k (set_repl (mx_cancel e a) (e_repl e - 1)) ents)).
  { eapply vsame_aset; eauto. rewrite val_of_set_repl. apply val_of_mx_cancel. }
  destruct (Nat.eqb (e_repl e - 1) 0).
  - destruct (e_owner (mx_cancel e a)); [discriminate|].
    destruct (e_val (mx_cancel e a)) eqn:Ev; intros H; inv H; auto.
    eapply vsame_trans; [apply V1|]. apply vsame_adel. unfold vof_e. rewrite aget_aset_eq.
    apply val_of_None. auto.
  - intros H; inv H; auto.
Qed.

Lemma unlock_cs_vsame c s g s1 : unlock_cs c s g = inl (Some s1) -> vsame (s_ents s) (s_ents s1).
Proof.
  unfold unlock_cs. destruct (aget g (s_guards s)) as [k|]; [|discriminate].
  destruct (aget k (s_ents s)) as [e|] eqn:He; [|discriminate].
  assert (V1 : vsame (s_ents s) (aset k (set_repl (mx_release e) (e_repl e - 1)) (s_ents s))).
  { eapply vsame_aset; eauto. rewrite val_of_set_repl. apply val_of_mx_release. }
  destruct (e_val e) eqn:Ev; [intros H; inv H; auto|].
  cbn [e_repl set_repl].
  assert (V2 : vsame (s_ents s) (promote_if_lru c k (aset k (set_repl (mx_release e) (e_repl e - 1)) (s_ents s)))).
  { eapply vsame_trans; [apply V1|apply vsame_promote]. }
  destruct (Nat.eqb (e_repl e - 1) 0); intros H; inv H; cbn; auto.
  eapply vsame_trans; [apply V2|]. apply vsame_adel. unfold vof_e. rewrite promote_if_lru_get, aget_aset_eq.
  apply val_of_None. cbn. rewrite mx_release_val. auto.
Qed.

Lemma begin_unlock_vsame c s g : vsame (s_ents s) (s_ents (begin_unlock c s g)).
Proof.
  unfold begin_unlock. destruct (c_lru c); [|apply vsame_refl].
  destruct (aget g (s_guards s)) as [k|]; [|apply vsame_refl].
  destruct (aget k (s_ents s)) as [e|] eqn:He; [|apply vsame_refl].
  destruct (e_val e) as [[v st]|] eqn:Ev; [|apply vsame_refl].
  cbn. eapply vsame_aset; eauto. unfold val_of. cbn. rewrite Ev. auto.
Qed.

Definition changes_values (l : label) : bool :=
  match l with LGuardOp _ _ | LConsume _ => true | _ => false end.

Lemma acquire_vsame s k e : aget k (s_ents s) = Some e ->
  vsame (s_ents s) (aset k (set_owner e (Some (OwnG (s_gid s)))) (s_ents s)).
Proof. intros He. eapply vsame_aset; eauto. Qed.

Theorem step_values_unchanged c s l s' o :
  step c s l = ROk s' o -> changes_values l = false -> forall k, vof s' k = vof s k.
Proof.
  intros H Hl. unfold vof. revert H. destruct l; try discriminate; cbn [step]; intros H.
  - (* start *) unfold do_start in H. destruct (amem a (s_ops s)); [discriminate|].
    destruct c0.
    + destruct (lim_ok lim); inv H; apply vsame_refl.
    + destruct (guard_live s g); inv H. apply begin_unlock_vsame.
    + destruct (c_lru c && Z.leb 0 d)%bool; [|discriminate]. destruct (cutoff_of _ _); inv H; apply vsame_refl.
    + inv H; apply vsame_refl.
    + inv H; apply vsame_refl.
    + inv H; apply vsame_refl.
  - (* resume *) unfold do_resume in H. destruct (aget a (s_ops s)) as [p|] eqn:Ha; [|discriminate].
    assert (L : forall sh k s' o, do_lookup c s a sh k = ROk s' o -> vsame (s_ents s) (s_ents s')).
    { intros sh k s1 o1 H1. unfold do_lookup in H1. destruct (aget k (s_ents s)) as [e|] eqn:He.
      - inv H1. cbn. eapply vsame_trans; [apply (vsame_promote c _ k)|].
        eapply vsame_aset; [rewrite promote_if_lru_get; eauto|auto].
      - cbn [new_guard] in H1. inv H1. cbn. apply vsame_insert; auto. }
    destruct p; try discriminate; try (apply cs_ok in H).
    + unfold do_enter in H. destruct lim as [n|]; [|eapply L; eauto].
      destruct (length (s_ents s) - (n - 1)); [eapply L; eauto|].
      destruct (iter_order c s o0); [|discriminate].
      destruct (evict_scan (s_ents s) l (S n0)) as [[[|k1 ks]|]|]; try discriminate; [eapply L; eauto|].
      pose proof (lock_keys_vsame (k1 :: ks) s) as V. destruct (lock_keys s (k1 :: ks)) as [s1 off]. inv H. apply V.
    + unfold do_key_try in H. destruct (aget k (s_ents s)) as [e|] eqn:He; [|discriminate].
      destruct (e_owner e); inv H; [apply vsame_refl|]. cbn. apply acquire_vsame; auto.
    + unfold do_key_wait in H. destruct (aget k (s_ents s)) as [e|] eqn:He; [|discriminate].
      destruct (e_owner e); inv H; cbn; [eapply vsame_aset; eauto|apply acquire_vsame; auto].
    + unfold do_queued in H. destruct (aget k (s_ents s)) as [e|] eqn:He; [|discriminate].
      destruct (own_is_waiter _ a); inv H. cbn. apply acquire_vsame; auto.
    + unfold do_cleanup in H. destruct (cleanup_ents (s_ents s) k) as [[ents|]|] eqn:Hc; inv H.
      cbn. eapply cleanup_vsame; eauto.
    + destruct (cancel_ents c (s_ents s) a k) as [[ents|]|] eqn:Hc; inv H. cbn. eapply cancel_vsame; eauto.
    + unfold do_drops in H. destruct gs as [|g rest]; [discriminate|].
      destruct (unlock_cs c s g) as [[s1|]|] eqn:Hu; try discriminate.
      pose proof (unlock_cs_vsame c s g s1 Hu) as V.
      destruct rest; [destruct af|]; inv H; auto.
      cbn. eapply vsame_trans; [apply V|apply begin_unlock_vsame].
    + unfold do_scan in H. destruct (iter_order c s o0); [|discriminate].
      pose proof (lock_keys_vsame (expired_keys (s_ents s) l cutoff) s) as V.
      destruct (lock_keys s _) as [s1 ll]. inv H. apply V.
    + unfold do_stream_enter in H. destruct (iter_order c s o0); inv H. cbn. apply clone_all_vsame.
    + inv H. apply vsame_refl.
    + destruct (iter_order c s o0); inv H. apply vsame_refl.
  - (* sub *) unfold do_sub in H. destruct (aget a (s_ops s)) as [p|] eqn:Ha; [|discriminate].
    destruct p; try discriminate.
    + assert (P : do_sub_poll c s a subs k = ROk s' o -> vsame (s_ents s) (s_ents s')).
      { intros H1. unfold do_sub_poll in H1. destruct (aget k subs) as [st|]; [|discriminate].
        destruct (aget k (s_ents s)) as [e|] eqn:He; [|discriminate].
        destruct st.
        - destruct (e_owner e).
          + inv H1. cbn. eapply vsame_aset; eauto.
          + cbn [new_guard] in H1. destruct (val_of e); inv H1; cbn; apply acquire_vsame; auto.
        - destruct (own_is_waiter _ a); [|discriminate]. cbn [new_guard] in H1.
          destruct (val_of e); inv H1; cbn; apply acquire_vsame; auto.
        - destruct (unlock_cs c s g) as [[s1|]|] eqn:Hu; inv H1. cbn. eapply unlock_cs_vsame; eauto. }
      destruct (aget k subs) as [[| |g]|]; try (apply cs_ok in H); apply P; auto.
    + apply cs_ok in H. unfold do_sub_drop in H. destruct (aget k subs) as [st|]; [|discriminate].
      destruct st; try discriminate;
        (destruct (cancel_ents c (s_ents s) a k) as [[ents|]|] eqn:Hc; try discriminate;
         pose proof (cancel_vsame c _ a k ents Hc) as V;
         destruct (adel k subs); inv H; auto).
  - unfold do_pollend in H. destruct (aget a (s_ops s)) as [[]|]; try discriminate. destruct subs; inv H; apply vsame_refl.
  - unfold do_cancel in H. destruct (aget a (s_ops s)) as [[]|]; try discriminate.
    + destruct (sh_is_async sh); inv H; apply vsame_refl.
    + destruct (sh_is_async sh); inv H; apply vsame_refl.
    + destruct (existsb _ subs); [discriminate|]. destruct subs; inv H; apply vsame_refl.
  - unfold do_cbreturn in H. destruct (aget a (s_ops s)) as [[]|]; try discriminate.
    destruct hold.
    + destruct offered as [|g rest]; [discriminate|]. destruct (all_live s _ && _)%bool; inv H.
      cbn. apply begin_unlock_vsame.
    + destruct r; inv H; apply vsame_refl.
  - destruct (Z.leb 0 d); inv H. apply vsame_refl.
Qed.

(* a guard operation changes at most the value of the guard's own key *)
Theorem guard_op_local c s g op s' o k0 :
  step c s (LGuardOp g op) = ROk s' o -> aget g (s_guards s) = Some k0 ->
  forall k, k <> k0 -> vof s' k = vof s k.
Proof.
  cbn. unfold do_guard_op. intros H Hg k Hne. destruct (negb (guard_live s g)); [discriminate|].
  rewrite Hg in H. destruct (aget k0 (s_ents s)) as [e|] eqn:He; [|discriminate].
  unfold vof, vof_e.
  destruct op; try (destruct (e_val e) as [[v0 st]|]); inv H; cbn; rewrite ?aget_aset_neq by auto; auto.
Qed.

(* the value a new guard reports is the stored one *)
Theorem guard_obs_value c s l s' g k v :
  Inv s -> step c s l = ROk s' (OGuard g k v) -> v = vof s k.
Proof.
  intros HI H. unfold vof, vof_e. destruct l; cbn [step] in H.
  - unfold do_start in H. destruct (amem a (s_ops s)); [discriminate|].
    destruct c0; try (inv H; fail).
    + destruct (lim_ok lim); inv H.
    + destruct (guard_live s g0); inv H.
    + destruct (c_lru c && Z.leb 0 d)%bool; [|discriminate]. destruct (cutoff_of _ _); inv H.
  - unfold do_resume in H. destruct (aget a (s_ops s)) as [p|] eqn:Ha; [|discriminate].
    assert (L : forall sh k0, do_lookup c s a sh k0 = ROk s' (OGuard g k v) -> v = vof_e (s_ents s) k).
    { intros sh k0 H1. unfold do_lookup in H1. destruct (aget k0 (s_ents s)) as [e|] eqn:He; [inv H1|].
      cbn [new_guard] in H1. inv H1. unfold vof_e. rewrite He. auto. }
    destruct p; try discriminate; try (apply cs_ok in H).
    + unfold do_enter in H. destruct lim as [n|]; [|eapply L; eauto].
      destruct (length (s_ents s) - (n - 1)); [eapply L; eauto|].
      destruct (iter_order c s o); [|discriminate].
      destruct (evict_scan (s_ents s) l (S n0)) as [[[|k1 ks]|]|]; try discriminate; [eapply L; eauto|].
      destruct (lock_keys s (k1 :: ks)). inv H.
    + unfold do_key_try in H. destruct (aget k0 (s_ents s)) as [e|] eqn:He; [|discriminate].
      destruct (e_owner e); inv H. rewrite He. auto.
    + unfold do_key_wait in H. destruct (aget k0 (s_ents s)) as [e|] eqn:He; [|discriminate].
      destruct (e_owner e); inv H. rewrite He. auto.
    + unfold do_queued in H. destruct (aget k0 (s_ents s)) as [e|] eqn:He; [|discriminate].
      destruct (own_is_waiter _ a); inv H. rewrite He. auto.
    + unfold do_cleanup in H. destruct (cleanup_ents (s_ents s) k0) as [[ents|]|]; inv H.
    + destruct (cancel_ents c (s_ents s) a k0) as [[ents|]|]; inv H.
    + unfold do_drops in H. destruct gs as [|g0 rest]; [discriminate|].
      destruct (unlock_cs c s g0) as [[s1|]|] eqn:Hu; try discriminate.
      destruct rest; [destruct af|]; inv H.
    + unfold do_scan in H. destruct (iter_order c s o); [|discriminate]. destruct (lock_keys s _). inv H.
    + unfold do_stream_enter in H. destruct (iter_order c s o); inv H.
    + inv H.
    + destruct (iter_order c s o); inv H.
  - unfold do_sub in H. destruct (aget a (s_ops s)) as [p|]; [|discriminate].
    destruct p; try discriminate.
    + assert (P : do_sub_poll c s a subs k0 <> ROk s' (OGuard g k v)).
      { unfold do_sub_poll. destruct (aget k0 subs) as [st|]; [|discriminate].
        destruct (aget k0 (s_ents s)) as [e|]; [|discriminate].
        destruct st.
        - destruct (e_owner e); [discriminate|]. cbn [new_guard]. destruct (val_of e); discriminate.
        - destruct (own_is_waiter _ a); [|discriminate]. cbn [new_guard]. destruct (val_of e); discriminate.
        - destruct (unlock_cs c s g0) as [[s1|]|]; discriminate. }
      destruct (aget k0 subs) as [[| |g0]|]; try (apply cs_ok in H); contradiction.
    + apply cs_ok in H. unfold do_sub_drop in H. destruct (aget k0 subs) as [st|]; [|discriminate].
      destruct st; try discriminate;
        (destruct (cancel_ents c (s_ents s) a k0) as [[ents|]|]; try discriminate; destruct (adel k0 subs); inv H).
  - unfold do_pollend in H. destruct (aget a (s_ops s)) as [[]|]; try discriminate. destruct subs; inv H.
  - unfold do_cancel in H. destruct (aget a (s_ops s)) as [[]|]; try discriminate.
    + destruct (sh_is_async sh); inv H.
    + destruct (sh_is_async sh); inv H.
    + destruct (existsb _ subs); [discriminate|]. destruct subs; inv H.
  - unfold do_guard_op in H. destruct (negb (guard_live s g0)); [discriminate|].
    destruct (aget g0 (s_guards s)) as [k0|]; [|discriminate].
    destruct (aget k0 (s_ents s)) as [e|]; [|discriminate].
    destruct op; try (destruct (e_val e) as [[? ?]|]); inv H.
  - unfold do_cbreturn in H. destruct (aget a (s_ops s)) as [[]|]; try discriminate.
    destruct hold.
    + destruct offered; [discriminate|]. destruct (all_live s _ && _)%bool; inv H.
    + destruct r; inv H.
  - destruct (Z.leb 0 d); inv H.
  - unfold do_consume in H. destruct (s_ops s); [|discriminate]. destruct (s_guards s); [|discriminate].
    destruct (negb (inv2_ok (s_ents s))); [discriminate|]. destruct (iter_order c s o); [|discriminate].
    destruct (consume_list (s_ents s) l); inv H.
Qed.

(* ------------------------------------------------------------------ *)
(* lock_keys: what it returns and what it leaves alone (C07, C09, C10) *)

Definition okey (x : gid * key * Z) : key := snd (fst x).
Definition ogid (x : gid * key * Z) : gid := fst (fst x).

Lemma lock_keys_spec ks : forall s s1 l,
  NoDup ks -> (forall k, In k ks -> exists e, aget k (s_ents s) = Some e /\ e_owner e = None) ->
  lock_keys s ks = (s1, l) ->
  map okey l = ks /\
  (forall g k v, In (g, k, v) l ->
     In (g, k) (s_guards s1) /\ s_gid s <= g /\
     exists e, aget k (s_ents s) = Some e /\ v = match val_of e with Some v => v | None => 0%Z end) /\
  (forall k, ~ In k ks -> aget k (s_ents s1) = aget k (s_ents s)) /\
  akeys (s_ents s1) = akeys (s_ents s) /\
  s_ops s1 = s_ops s /\ s_clock s1 = s_clock s /\ s_gid s <= s_gid s1 /\
  (forall g k, In (g, k) (s_guards s) -> In (g, k) (s_guards s1)).
Proof.
  induction ks as [|k rest IH]; intros s s1 l Hnd Hall H; cbn [lock_keys] in H.
  - inv H. split; [reflexivity|]. split; [intros ? ? ? []|]. repeat split; auto.
  - destruct (Hall k (or_introl eq_refl)) as (e & He & Ho). rewrite He in H. cbn [new_guard] in H.
    inversion Hnd as [|? ? Hnk Hnd']; subst.
    match type of H with context [lock_keys ?x rest] => set (s2 := x) in * end.
    destruct (lock_keys s2 rest) as [s3 l3] eqn:E3. inv H.
    assert (Hall2 : forall k', In k' rest -> exists e', aget k' (s_ents s2) = Some e' /\ e_owner e' = None).
    { intros k' Hin. destruct (Hall k' (or_intror Hin)) as (e' & He' & Ho'). exists e'. split; auto.
      unfold s2. cbn. rewrite aget_aset_neq; auto. intros ->. tauto. }
    destruct (IH s2 s1 l3 Hnd' Hall2 E3) as (I1 & I2 & I3 & I4 & I5 & I6 & I7 & I8).
    assert (K2 : akeys (s_ents s2) = akeys (s_ents s)).
    { unfold s2. cbn. apply akeys_aset_in. eapply aget_Some_keys; eauto. }
    split; [cbn; f_equal; auto|].
    split.
    { intros g k0 v [Hin|Hin].
      - inv Hin. split; [apply I8; unfold s2; cbn; auto|]. split; [lia|]. eauto.
      - destruct (I2 g k0 v Hin) as (J1 & J2 & e0 & J3 & J4). split; auto. split; [unfold s2 in J2; cbn in J2; lia|].
        assert (k0 <> k).
        { intros ->. apply Hnk. rewrite <- I1. apply in_map_iff. exists (g, k, v). auto. }
        exists e0. split; auto. unfold s2 in J3. cbn in J3. rewrite aget_aset_neq in J3; auto. }
    split.
    { intros k0 Hn. rewrite I3 by (intros Hin; apply Hn; right; auto).
      unfold s2. cbn. apply aget_aset_neq. intros ->. apply Hn. left; auto. }
    split; [congruence|]. split; [rewrite I5; reflexivity|]. split; [rewrite I6; reflexivity|].
    split; [unfold s2 in I7; cbn in I7; lia|].
    intros g k0 Hin. apply I8. unfold s2. cbn. auto.
Qed.

(* ------------------------------------------------------------------ *)
(* C10: the expiry scan *)

Definition expired (s : state) (ct : Z) (k : key) : Prop :=
  exists e v st, aget k (s_ents s) = Some e /\ e_owner e = None /\ e_val e = Some (v, st) /\ (st <= ct)%Z.

Lemma expired_keys_spec s order ct k :
  In k (expired_keys (s_ents s) order ct) <-> In k order /\ expired s ct k.
Proof.
  unfold expired_keys. rewrite filter_In. split; intros [H1 H2]; split; auto.
  - destruct (aget k (s_ents s)) as [e|] eqn:He; [|discriminate].
    destruct (e_owner e) eqn:Eo; [discriminate|]. destruct (e_val e) as [[v st]|] eqn:Ev; [|discriminate].
    exists e, v, st. repeat split; auto. apply Z.leb_le. auto.
  - destruct H2 as (e & v & st & He & Eo & Ev & Hle). rewrite He, Eo, Ev. apply Z.leb_le. auto.
Qed.

Theorem scan_exact c s a ct o s' l :
  Inv s -> aget a (s_ops s) = Some (PScan ct) -> step c s (LResume a o) = ROk s' (OExpired l) ->
  NoDup (map okey l) /\
  (forall k, In k (map okey l) <-> expired s ct k) /\
  (forall g k v, In (g, k, v) l -> In (g, k) (s_guards s') /\ vof s k = Some v) /\
  (forall k, ~ In k (map okey l) -> aget k (s_ents s') = aget k (s_ents s)) /\
  akeys (s_ents s') = akeys (s_ents s).
Proof.
  intros HI Ha H. cbn in H. unfold do_resume in H. rewrite Ha in H. apply cs_ok in H. unfold do_scan in H.
  destruct (iter_order c s o) as [order|] eqn:Eord; [|discriminate].
  destruct (iter_order_spec c s o order (inv_nd_e _ HI) Eord) as (Hnd & Hin & _).
  destruct (lock_keys s (expired_keys (s_ents s) order ct)) as [s1 l1] eqn:El. inv H.
  assert (Hnd2 : NoDup (expired_keys (s_ents s) order ct)) by (apply NoDup_filter; auto).
  assert (Hall : forall k, In k (expired_keys (s_ents s) order ct) -> exists e, aget k (s_ents s) = Some e /\ e_owner e = None).
  { intros k Hk. apply expired_keys_spec in Hk as [_ (e & v & st & He & Eo & _)]. eauto. }
  destruct (lock_keys_spec _ s s1 l Hnd2 Hall El) as (I1 & I2 & I3 & I4 & I5 & I6 & I7 & I8).
  rewrite I1. cbn [s_ents s_guards fin with_ops].
  split; [auto|]. split.
  { intros k. split.
    - intros Hk. apply expired_keys_spec in Hk. tauto.
    - intros Hk. apply expired_keys_spec. split; auto. apply Hin. destruct Hk as (e & _ & _ & He & _). eapply aget_Some_keys; eauto. }
  split.
  { intros g k v Hl. split; [apply (I2 g k v Hl)|].
    destruct (I2 g k v Hl) as (_ & _ & e & He & Hv). unfold vof, vof_e. rewrite He.
    assert (Hk : In k (expired_keys (s_ents s) order ct)) by (rewrite <- I1; apply in_map_iff; exists (g, k, v); auto).
    apply expired_keys_spec in Hk as [_ (e' & v' & st & He' & _ & Ev & _)]. rewrite He in He'. inv He'.
    unfold val_of in *. rewrite Ev in *. congruence. }
  split; auto.
Qed.

(* what the call computes from its duration argument *)
Theorem expire_start c s a d s' o :
  step c s (LStart a (CExpire d)) = ROk s' o ->
  c_lru c = true /\ (0 <= d)%Z /\
  ((s_clock s - d >= instant_floor)%Z /\ o = ONothing /\ s' = set_pc s a (PScan (s_clock s - d)) \/
   (s_clock s - d < instant_floor)%Z /\ o = OExpired [] /\ s' = s).
Proof.
  cbn. unfold do_start. destruct (amem a (s_ops s)); [discriminate|].
  destruct (c_lru c) eqn:El; [|discriminate]. cbn. destruct (Z.leb_spec 0 d) as [Hd|Hd]; [|discriminate].
  unfold cutoff_of. destruct (Z.ltb_spec (s_clock s - d) instant_floor) as [Hf|Hf]; intros Hs; inv Hs;
    (split; [reflexivity|split; [exact Hd|]]); [right|left]; repeat split; auto; try lia; unfold instant_floor in *; lia.
Qed.

(* the stamp of an entry is written when its guard starts to be dropped, and when a value is inserted *)
Theorem unlock_stamps c s g k e v st :
  c_lru c = true -> aget g (s_guards s) = Some k -> aget k (s_ents s) = Some e -> e_val e = Some (v, st) ->
  exists e', aget k (s_ents (begin_unlock c s g)) = Some e' /\ e_val e' = Some (v, s_clock s).
Proof.
  intros Hl Hg He Ev. unfold begin_unlock. rewrite Hl, Hg, He, Ev. cbn. rewrite aget_aset_eq. eauto.
Qed.

(* e_val (value and stamp) of every entry is untouched by a clock tick *)
Theorem tick_keeps_entries c s d s' o : step c s (LTick d) = ROk s' o -> s_ents s' = s_ents s /\ s_clock s' = (s_clock s + d)%Z /\ (0 <= d)%Z.
Proof. cbn. destruct (Z.leb_spec 0 d) as [Hd|Hd]; intros Hs; inv Hs. auto. Qed.

(* ------------------------------------------------------------------ *)
(* C07 / C08 / C09: the eviction critical section *)

Definition evictable_b (ents : list (key * entry)) (k : key) : bool :=
  match aget k ents with
  | Some e => match e_owner e, e_val e with None, Some _ => true | _, _ => false end
  | None => false
  end.

Lemma evict_scan_firstn ents order : forall n ks,
  evict_scan ents order n = inl (Some ks) -> ks = firstn n (filter (evictable_b ents) order).
Proof.
  induction order as [|k rest IH]; intros n ks H.
  - destruct n; cbn in H; inv H; reflexivity.
  - destruct n as [|n']; cbn [evict_scan] in H; [inv H; reflexivity|].
    cbn [filter]. unfold evictable_b at 1.
    destruct (aget k ents) as [e|] eqn:He; [|discriminate].
    destruct (e_owner e) as [ow|] eqn:Eo.
    + destruct (Nat.ltb 0 (e_repl e)); [|discriminate]. apply IH; auto.
    + destruct (e_val e) as [v|] eqn:Ev.
      * destruct (evict_scan ents rest n') as [[l|]|] eqn:Es; try discriminate. inv H.
        cbn. f_equal. apply IH; auto.
      * destruct (Nat.ltb 0 (e_repl e)); [|discriminate]. apply IH; auto.
Qed.

Lemma evict_scan_nil_none ents order n :
  evict_scan ents order (S n) = inl (Some []) -> forall k, In k order -> evictable_b ents k = false.
Proof.
  intros H k Hk. apply evict_scan_firstn in H.
  destruct (filter (evictable_b ents) order) as [|x t] eqn:Ef; [|discriminate].
  destruct (evictable_b ents k) eqn:E; auto.
  assert (In k (filter (evictable_b ents) order)) by (apply filter_In; auto). rewrite Ef in H0. destruct H0.
Qed.

(* what an eviction round offers *)
Theorem enter_offered c s a sh k n o s' l :
  Inv s -> aget a (s_ops s) = Some (PEnter sh k (Some n)) ->
  step c s (LResume a o) = ROk s' (OOffered l) ->
  exists order,
    iter_order c s o = Some order /\
    n <= length (s_ents s) /\
    l <> [] /\
    length l <= length (s_ents s) - (n - 1) /\
    map okey l = firstn (length (s_ents s) - (n - 1)) (filter (evictable_b (s_ents s)) order) /\
    NoDup (map okey l) /\
    (forall g k0 v, In (g, k0, v) l ->
        evictable_b (s_ents s) k0 = true /\ vof s k0 = Some v /\
        (forall g', ~ In (g', k0) (s_guards s)) /\ In (g, k0) (s_guards s')) /\
    aget a (s_ops s') = Some (PInCb sh k n (map ogid l)) /\
    akeys (s_ents s') = akeys (s_ents s).
Proof.
  intros HI Ha H. cbn in H. unfold do_resume in H. rewrite Ha in H. apply cs_ok in H. unfold do_enter in H.
  assert (L : forall s1 o1, do_lookup c s a sh k = ROk s1 o1 -> forall l, o1 <> OOffered l).
  { intros s1 o1 H1 l1. unfold do_lookup in H1. destruct (aget k (s_ents s)); [inv H1; discriminate|].
    cbn [new_guard] in H1. inv H1. discriminate. }
  destruct (length (s_ents s) - (n - 1)) as [|over] eqn:Eover; [exfalso; eapply L; eauto|].
  destruct (iter_order c s o) as [order|] eqn:Eord; [|discriminate].
  destruct (evict_scan (s_ents s) order (S over)) as [[ks|]|] eqn:Es; try discriminate.
  destruct ks as [|k1 ks']; [exfalso; eapply L; eauto|].
  destruct (iter_order_spec c s o order (inv_nd_e _ HI) Eord) as (Hnd & Hin & _).
  destruct (evict_scan_spec _ _ _ _ Es) as (H1 & H2 & H3).
  pose proof (evict_scan_firstn _ _ _ _ Es) as Hf.
  destruct (lock_keys s (k1 :: ks')) as [s1 l1] eqn:El. inv H.
  assert (Hall : forall k0, In k0 (k1 :: ks') -> exists e, aget k0 (s_ents s) = Some e /\ e_owner e = None).
  { intros k0 Hk. destruct (H1 k0 Hk) as (_ & e & He & Ho & _). eauto. }
  destruct (lock_keys_spec _ s s1 l (H2 Hnd) Hall El) as (I1 & I2 & I3 & I4 & I5 & I6 & I7 & I8).
  exists order. split; auto. split; [lia|]. split.
  { intros ->. discriminate. }
  split.
  { rewrite <- (map_length okey), I1. exact H3. }
  split; [rewrite I1; exact Hf|]. split; [rewrite I1; apply H2; auto|]. split.
  { intros g k0 v Hl.
    assert (Hk : In k0 (k1 :: ks')) by (rewrite <- I1; apply in_map_iff; exists (g, k0, v); auto).
    destruct (H1 k0 Hk) as (_ & e & He & Ho & Hv).
    destruct (I2 g k0 v Hl) as (J1 & J2 & e' & He' & Hv'). rewrite He in He'. inv He'.
    split; [unfold evictable_b; rewrite He, Ho; destruct (e_val e'); congruence|].
    split.
    { unfold vof, vof_e. rewrite He. unfold val_of in *. destruct (e_val e') as [[v0 st]|]; congruence. }
    split; [|cbn; auto].
    intros g' Hg'. apply In_aget in Hg'; [|apply (inv_nd_g _ HI)].
    destruct (Inv_guard_present s g' k0 HI Hg') as (e2 & He2 & Ho2). congruence. }
  split; [cbn; apply aget_aset_eq|]. cbn. auto.
Qed.

(* when no callback is invoked by a soft-limited call: below the limit, or nothing evictable *)
Theorem enter_proceeds c s a sh k n o s' ob :
  Inv s -> aget a (s_ops s) = Some (PEnter sh k (Some n)) ->
  step c s (LResume a o) = ROk s' ob -> (forall l, ob <> OOffered l) ->
  (length (s_ents s) <= n - 1 \/ (forall k0, In k0 (akeys (s_ents s)) -> evictable_b (s_ents s) k0 = false)) /\
  do_lookup c s a sh k = ROk s' ob.
Proof.
  intros HI Ha H Hno. cbn in H. unfold do_resume in H. rewrite Ha in H. apply cs_ok in H. unfold do_enter in H.
  destruct (length (s_ents s) - (n - 1)) as [|over] eqn:Eover; [split; auto; left; lia|].
  destruct (iter_order c s o) as [order|] eqn:Eord; [|discriminate].
  destruct (iter_order_spec c s o order (inv_nd_e _ HI) Eord) as (Hnd & Hin & _).
  destruct (evict_scan (s_ents s) order (S over)) as [[ks|]|] eqn:Es; try discriminate.
  destruct ks as [|k1 ks'].
  - split; auto. right. intros k0 Hk. eapply evict_scan_nil_none; eauto. apply Hin; auto.
  - destruct (lock_keys s (k1 :: ks')). inv H. exfalso. eapply Hno; eauto.
Qed.

Lemma lookup_size c s a sh k s' ob :
  Inv s -> do_lookup c s a sh k = ROk s' ob -> length (s_ents s') <= S (length (s_ents s)) /\
  (aget k (s_ents s) <> None -> length (s_ents s') = length (s_ents s)).
Proof.
  intros HI. pose proof (inv_nd_e _ HI) as Hnd.
  unfold do_lookup. destruct (aget k (s_ents s)) as [e|] eqn:He.
  - intros H; inv H. cbn. rewrite length_aset_in.
    + assert (length (promote_if_lru c k (s_ents s)) = length (s_ents s)); [|split; auto; lia].
      unfold promote_if_lru. destruct (c_lru c); [|auto].
      rewrite <- !length_akeys, (akeys_apromote k e _ He), app_length. cbn.
      apply remove_nat_length_in; auto. eapply aget_Some_keys; eauto.
    + apply keys_aget_iff. rewrite promote_if_lru_get. eauto.
  - cbn [new_guard]. intros H; inv H. cbn. split; [|congruence].
    rewrite <- !length_akeys. rewrite akeys_aset_notin by (apply aget_None_keys; auto).
    rewrite app_length. cbn. lia.
Qed.

Arguments akeys : simpl never.

Definition nonevictable (s : state) : nat :=
  length (filter (fun k => negb (evictable_b (s_ents s) k)) (akeys (s_ents s))).

Theorem enter_bound c s a sh k n o s' ob :
  Inv s -> 1 <= n -> aget a (s_ops s) = Some (PEnter sh k (Some n)) ->
  step c s (LResume a o) = ROk s' ob -> (forall l, ob <> OOffered l) ->
  length (s_ents s') <= Nat.max n (nonevictable s + 1).
Proof.
  intros HI Hn Ha H Hno. destruct (enter_proceeds c s a sh k n o s' ob HI Ha H Hno) as [Hc Hl].
  destruct (lookup_size c s a sh k s' ob HI Hl) as [Hs _].
  destruct Hc as [Hc|Hc]; [lia|].
  assert (nonevictable s = length (s_ents s)); [|lia].
  unfold nonevictable. rewrite <- length_akeys. f_equal.
  induction (akeys (s_ents s)) as [|x t IH]; cbn; auto.
  rewrite (Hc x (or_introl eq_refl)). cbn. f_equal. apply IH. intros k0 Hk. apply Hc. right; auto.
Qed.

(* ------------------------------------------------------------------ *)
(* C09: only a lock call for k or the unlock of a guard for k moves k in the iteration order *)

Definition subject (s : state) (l : label) : option key :=
  match l with
  | LResume a _ =>
      match aget a (s_ops s) with
      | Some (PEnter _ k _) | Some (PKeyTry _ k) | Some (PKeyWait _ k) | Some (PQueued _ k)
      | Some (PCleanup _ k) | Some (PCancel k) => Some k
      | Some (PDrops (g :: _) _) => aget g (s_guards s)
      | _ => None
      end
  | LSub a k _ =>
      match aget a (s_ops s) with
      | Some (PStream subs) =>
          match aget k subs with Some (SUnlocking g) => aget g (s_guards s) | _ => Some k end
      | _ => Some k
      end
  | _ => None
  end.

Definition order_rel (kp : option key) (e1 e2 : list (key * entry)) : Prop :=
  match kp with
  | Some k => remove_nat k (akeys e2) = remove_nat k (akeys e1)
  | None => akeys e2 = akeys e1
  end.

Lemma order_rel_weaken k e1 e2 : akeys e2 = akeys e1 -> order_rel (Some k) e1 e2.
Proof. cbn. congruence. Qed.

Lemma akeys_promote_if_lru_rm c k (ents : list (key * entry)) :
  remove_nat k (akeys (promote_if_lru c k ents)) = remove_nat k (akeys ents).
Proof.
  unfold promote_if_lru. destruct (c_lru c); auto. unfold apromote.
  destruct (aget k ents) as [e|] eqn:He; auto.
  rewrite akeys_app, akeys_adel, remove_nat_app, remove_nat_idem. unfold akeys. cbn. rewrite Nat.eqb_refl. apply app_nil_r.
Qed.

Lemma akeys_aset_rm k (e : entry) ents : remove_nat k (akeys (aset k e ents)) = remove_nat k (akeys ents).
Proof.
  destruct (in_dec Nat.eq_dec k (akeys ents)).
  - rewrite akeys_aset_in; auto.
  - rewrite akeys_aset_notin, remove_nat_app; auto. cbn. rewrite Nat.eqb_refl. apply app_nil_r.
Qed.

Lemma akeys_adel_rm k (ents : list (key * entry)) : remove_nat k (akeys (adel k ents)) = remove_nat k (akeys ents).
Proof. rewrite akeys_adel. apply remove_nat_idem. Qed.

Lemma akeys_aset_present k (e e' : entry) ents : aget k ents = Some e -> akeys (aset k e' ents) = akeys ents.
Proof. intros H. apply akeys_aset_in. eapply aget_Some_keys; eauto. Qed.

Lemma lock_keys_akeys ks : forall s, akeys (s_ents (fst (lock_keys s ks))) = akeys (s_ents s).
Proof.
  induction ks as [|k rest IH]; intros s; cbn [lock_keys]; auto.
  destruct (aget k (s_ents s)) as [e|] eqn:He; [|apply IH]. cbn [new_guard].
  match goal with |- context [lock_keys ?x rest] => set (s2 := x) end.
  specialize (IH s2). destruct (lock_keys s2 rest) as [s3 l]. cbn [fst] in *. rewrite IH.
  unfold s2. cbn. eapply akeys_aset_present; eauto.
Qed.

Lemma clone_all_akeys order : forall ents, akeys (clone_all ents order) = akeys ents.
Proof.
  induction order as [|k rest IH]; intros ents; cbn [clone_all]; auto.
  destruct (aget k ents) as [e|] eqn:He; [|apply IH]. rewrite IH. eapply akeys_aset_present; eauto.
Qed.

Lemma begin_unlock_akeys c s g : akeys (s_ents (begin_unlock c s g)) = akeys (s_ents s).
Proof.
  unfold begin_unlock. destruct (c_lru c); auto. destruct (aget g (s_guards s)) as [k|]; auto.
  destruct (aget k (s_ents s)) as [e|] eqn:He; auto. destruct (e_val e) as [[v st]|]; auto.
  cbn. eapply akeys_aset_present; eauto.
Qed.

Lemma cleanup_order ents k ents' : cleanup_ents ents k = inl (Some ents') -> order_rel (Some k) ents ents'.
Proof.
  unfold cleanup_ents. destruct (aget k ents) as [e|]; [|discriminate].
  destruct (Nat.eqb _ 1).
  - destruct (e_owner e); [discriminate|]. destruct (e_val e); intros H; inv H; cbn;
      [apply akeys_aset_rm|apply akeys_adel_rm].
  - intros H; inv H. cbn. apply akeys_aset_rm.
Qed.

Lemma cancel_order c ents a k ents' : cancel_ents c ents a k = inl (Some ents') -> order_rel (Some k) ents ents'.
Proof.
  unfold cancel_ents. destruct (aget k ents) as [e|]; [|discriminate]. cbn [e_repl set_repl e_owner e_val].
  destruct (Nat.eqb _ 0).
  - destruct (e_owner _); [discriminate|]. destruct (e_val _); intros H; inv H; cbn.
    + apply akeys_aset_rm.
    + rewrite akeys_adel_rm. apply akeys_aset_rm.
  - intros H; inv H. cbn. apply akeys_aset_rm.
Qed.

Lemma unlock_cs_order c s g s1 k : aget g (s_guards s) = Some k ->
  unlock_cs c s g = inl (Some s1) -> order_rel (Some k) (s_ents s) (s_ents s1).
Proof.
  intros Hg. unfold unlock_cs. rewrite Hg. destruct (aget k (s_ents s)) as [e|]; [|discriminate].
  destruct (e_val e); [intros H; inv H; cbn; apply akeys_aset_rm|].
  cbn [e_repl set_repl]. destruct (Nat.eqb _ 0); intros H; inv H; cbn.
  - rewrite akeys_adel_rm, akeys_promote_if_lru_rm. apply akeys_aset_rm.
  - rewrite akeys_promote_if_lru_rm. apply akeys_aset_rm.
Qed.

Theorem step_order_frame c s l s' o :
  step c s l = ROk s' o -> (forall o', l <> LConsume o') -> order_rel (subject s l) (s_ents s) (s_ents s').
Proof.
  intros H Hnc. destruct l; cbn [step subject] in *.
  - unfold do_start in H. destruct (amem a (s_ops s)); [discriminate|]. destruct c0.
    + destruct (lim_ok lim); inv H; reflexivity.
    + destruct (guard_live s g); inv H. cbn. apply begin_unlock_akeys.
    + destruct (c_lru c && Z.leb 0 d)%bool; [|discriminate]. destruct (cutoff_of _ _); inv H; reflexivity.
    + inv H; reflexivity.
    + inv H; reflexivity.
    + inv H; reflexivity.
  - unfold do_resume in H. destruct (aget a (s_ops s)) as [p|] eqn:Ha; [|discriminate].
    assert (L : forall sh k s' o, do_lookup c s a sh k = ROk s' o -> order_rel (Some k) (s_ents s) (s_ents s')).
    { intros sh k s1 o1 H1. unfold do_lookup in H1. destruct (aget k (s_ents s)) as [e|] eqn:He.
      - inv H1. cbn. rewrite akeys_aset_rm. apply akeys_promote_if_lru_rm.
      - cbn [new_guard] in H1. inv H1. cbn. apply akeys_aset_rm. }
    destruct p; try discriminate; try (apply cs_ok in H).
    + unfold do_enter in H. destruct lim as [n|]; [|eapply L; eauto].
      destruct (length (s_ents s) - (n - 1)); [eapply L; eauto|].
      destruct (iter_order c s o0); [|discriminate].
      destruct (evict_scan (s_ents s) l (S n0)) as [[[|k1 ks]|]|]; try discriminate; [eapply L; eauto|].
      pose proof (lock_keys_akeys (k1 :: ks) s) as V. destruct (lock_keys s (k1 :: ks)) as [s1 off]. inv H.
      apply order_rel_weaken. apply V.
    + unfold do_key_try in H. destruct (aget k (s_ents s)) as [e|] eqn:He; [|discriminate].
      destruct (e_owner e); inv H; apply order_rel_weaken; [reflexivity|]. cbn. eapply akeys_aset_present; eauto.
    + unfold do_key_wait in H. destruct (aget k (s_ents s)) as [e|] eqn:He; [|discriminate].
      destruct (e_owner e); inv H; apply order_rel_weaken; cbn; eapply akeys_aset_present; eauto.
    + unfold do_queued in H. destruct (aget k (s_ents s)) as [e|] eqn:He; [|discriminate].
      destruct (own_is_waiter _ a); inv H. apply order_rel_weaken. cbn. eapply akeys_aset_present; eauto.
    + unfold do_cleanup in H. destruct (cleanup_ents (s_ents s) k) as [[ents|]|] eqn:Hc; inv H.
      cbn [s_ents fin with_ents with_ops]. eapply cleanup_order; eauto.
    + destruct (cancel_ents c (s_ents s) a k) as [[ents|]|] eqn:Hc; inv H.
      cbn [s_ents fin with_ents with_ops]. eapply cancel_order; eauto.
    + unfold do_drops in H. destruct gs as [|g rest]; [discriminate|].
      destruct (unlock_cs c s g) as [[s1|]|] eqn:Hu; try discriminate.
      assert (Hg : exists k, aget g (s_guards s) = Some k).
      { unfold unlock_cs in Hu. destruct (aget g (s_guards s)); [eauto|discriminate]. }
      destruct Hg as [k Hg]. rewrite Hg. pose proof (unlock_cs_order c s g s1 k Hg Hu) as V.
      destruct rest; [destruct af|]; inv H; auto.
      cbn in *. rewrite begin_unlock_akeys. auto.
    + unfold do_scan in H. destruct (iter_order c s o0); [|discriminate].
      pose proof (lock_keys_akeys (expired_keys (s_ents s) l cutoff) s) as V.
      destruct (lock_keys s _) as [s1 ll]. inv H. apply V.
    + unfold do_stream_enter in H. destruct (iter_order c s o0); inv H. cbn. apply clone_all_akeys.
    + inv H. reflexivity.
    + destruct (iter_order c s o0); inv H. reflexivity.
  - unfold do_sub in H. destruct (aget a (s_ops s)) as [p|] eqn:Ha; [|discriminate].
    destruct p; try discriminate.
    + assert (P : do_sub_poll c s a subs k = ROk s' o ->
                  order_rel (match aget k subs with Some (SUnlocking g) => aget g (s_guards s) | _ => Some k end)
                            (s_ents s) (s_ents s')).
      { intros H1. unfold do_sub_poll in H1. destruct (aget k subs) as [st|]; [|discriminate].
        destruct (aget k (s_ents s)) as [e|] eqn:He; [|discriminate].
        destruct st.
        - destruct (e_owner e).
          + inv H1. apply order_rel_weaken. cbn. eapply akeys_aset_present; eauto.
          + cbn [new_guard] in H1. destruct (val_of e); inv H1; apply order_rel_weaken; cbn; eapply akeys_aset_present; eauto.
        - destruct (own_is_waiter _ a); [|discriminate]. cbn [new_guard] in H1.
          destruct (val_of e); inv H1; apply order_rel_weaken; cbn; eapply akeys_aset_present; eauto.
        - destruct (unlock_cs c s g) as [[s1|]|] eqn:Hu; inv H1. cbn [s_ents set_pc with_ops].
          assert (Hg : exists k', aget g (s_guards s) = Some k').
          { unfold unlock_cs in Hu. destruct (aget g (s_guards s)); [eauto|discriminate]. }
          destruct Hg as [k' Hg]. rewrite Hg. eapply unlock_cs_order; eauto. }
      destruct (aget k subs) as [[| |g]|]; try (apply cs_ok in H); apply P; auto.
    + apply cs_ok in H. unfold do_sub_drop in H. destruct (aget k subs) as [st|]; [|discriminate].
      destruct st; try discriminate;
        (destruct (cancel_ents c (s_ents s) a k) as [[ents|]|] eqn:Hc; try discriminate;
         pose proof (cancel_order c _ a k ents Hc) as V;
         destruct (adel k subs); inv H; auto).
  - unfold do_pollend in H. destruct (aget a (s_ops s)) as [[]|]; try discriminate. destruct subs; inv H; reflexivity.
  - unfold do_cancel in H. destruct (aget a (s_ops s)) as [[]|]; try discriminate.
    + destruct (sh_is_async sh); inv H; reflexivity.
    + destruct (sh_is_async sh); inv H; reflexivity.
    + destruct (existsb _ subs); [discriminate|]. destruct subs; inv H; reflexivity.
  - unfold do_guard_op in H. destruct (negb (guard_live s g)); [discriminate|].
    destruct (aget g (s_guards s)) as [k0|]; [|discriminate].
    destruct (aget k0 (s_ents s)) as [e|] eqn:He; [|discriminate].
    destruct op; try (destruct (e_val e) as [[? ?]|]); inv H; cbn; try reflexivity; eapply akeys_aset_present; eauto.
  - unfold do_cbreturn in H. destruct (aget a (s_ops s)) as [[]|]; try discriminate.
    destruct hold.
    + destruct offered as [|g rest]; [discriminate|]. destruct (all_live s _ && _)%bool; inv H.
      cbn. apply begin_unlock_akeys.
    + destruct r; inv H; reflexivity.
  - destruct (Z.leb 0 d); inv H. reflexivity.
  - exfalso. eapply Hnc; eauto.
Qed.

Lemma lookup_promotes c s a sh k s' o :
  c_lru c = true -> do_lookup c s a sh k = ROk s' o ->
  akeys (s_ents s') = remove_nat k (akeys (s_ents s)) ++ [k].
Proof.
  intros Hl. unfold do_lookup, promote_if_lru. rewrite Hl. destruct (aget k (s_ents s)) as [e|] eqn:He.
  - intros H; inv H. cbn [s_ents set_pc with_ents with_ops].
    rewrite akeys_aset_in; [apply (akeys_apromote k e); auto|].
    apply akeys_apromote_In. eapply aget_Some_keys; eauto.
  - cbn [new_guard]. intros H; inv H. cbn [s_ents fin with_ents with_ops with_gid with_guards].
    assert (Hn : ~ In k (akeys (s_ents s))) by (apply aget_None_keys; auto).
    rewrite akeys_aset_notin, remove_nat_notin; auto.
Qed.

(* ------------------------------------------------------------------ *)
(* enabledness (C03, C08) *)

Definition oracle_ok (c : cfg) (s : state) (o : list key) : Prop :=
  c_lru c = true \/ is_perm_of o (akeys (s_ents s)) = true.

Lemma iter_order_some c s o : oracle_ok c s o -> exists order, iter_order c s o = Some order.
Proof. unfold iter_order. intros [H|H]; rewrite H; eauto. destruct (c_lru c); eauto. Qed.

Lemma cs_intro s s1 o1 : Inv s -> Inv s1 -> cs s (ROk s1 o1) = ROk s1 o1.
Proof. intros H H1. unfold cs, check_inv2_after. rewrite (Inv_inv2_ok s H), (Inv_inv2_ok s1 H1). auto. Qed.

Lemma handle_present s a p k : Inv s -> aget a (s_ops s) = Some p -> pc_handles p k = 1 ->
  exists e, aget k (s_ents s) = Some e.
Proof.
  intros HI Ha Hp. apply keys_aget. apply (ki_p _ _ (inv_k _ HI k)). unfold handles.
  pose proof (agent_handles s a p k Ha). lia.
Qed.

Lemma evict_scan_total ents order n :
  (forall k, In k order -> aget k ents <> None) -> evict_scan ents order n <> inl None.
Proof.
  revert n. induction order as [|k rest IH]; intros n Hall; destruct n; cbn; try discriminate.
  destruct (aget k ents) as [e|] eqn:He; [|exfalso; apply (Hall k); auto; left; auto].
  assert (Hr : forall n, evict_scan ents rest n <> inl None) by (intros; apply IH; intros; apply Hall; right; auto).
  destruct (e_owner e); [destruct (e_repl e); [discriminate|apply Hr]|].
  destruct (e_val e).
  - specialize (Hr n). destruct (evict_scan ents rest n) as [[l|]|]; try discriminate. congruence.
  - destruct (e_repl e); [discriminate|apply Hr].
Qed.

Definition pc_runnable (p : pc) : bool :=
  match p with
  | PEnter _ _ _ | PKeyTry _ _ | PKeyWait _ _ | PCleanup _ _ | PCancel _ | PScan _ | PStreamEnter
  | PCount | PKeys => true
  | _ => false
  end.

Definition pc_needs_oracle (p : pc) : bool :=
  match p with PEnter _ _ (Some _) | PScan _ | PStreamEnter | PKeys => true | _ => false end.

Theorem resume_enabled c s a p o :
  Inv s -> aget a (s_ops s) = Some p -> pc_runnable p = true ->
  (pc_needs_oracle p = true -> oracle_ok c s o) ->
  exists s' ob, step c s (LResume a o) = ROk s' ob.
Proof.
  intros HI Ha Hp Hor0.
  destruct (step c s (LResume a o)) as [s' ob| |site] eqn:E; [eauto| |exfalso; eapply step_no_panic; eauto].
  exfalso. cbn in E. unfold do_resume in E. rewrite Ha in E.
  assert (Hor : pc_needs_oracle p = true -> exists order, iter_order c s o = Some order /\
                  NoDup order /\ (forall k, In k order <-> In k (akeys (s_ents s)))).
  { intros Hn. destruct (iter_order_some c s o (Hor0 Hn)) as [order Hord]. exists order. split; auto.
    destruct (iter_order_spec c s o order (inv_nd_e _ HI) Hord) as (Hnd & Hin & _). auto. }
  assert (CS : forall r, (exists s1 o1, r = ROk s1 o1 /\ Inv s1) -> cs s r <> RInvalid).
  { intros r (s1 & o1 & -> & H1). rewrite cs_intro; auto. discriminate. }
  destruct p; try discriminate.
  - (* PEnter *) revert E. apply CS.
    assert (L : exists s1 o1, do_lookup c s a sh k = ROk s1 o1).
    { unfold do_lookup. destruct (aget k (s_ents s)); [eauto|]. destruct (new_guard s k). eauto. }
    assert (exists s1 o1, do_enter c s a sh k lim o = ROk s1 o1) as (s1 & o1 & H1).
    { unfold do_enter. destruct lim as [n|]; auto. destruct (length (s_ents s) - (n - 1)); auto.
      destruct (Hor eq_refl) as (order & Hord & Hnd & Hin). rewrite Hord.
      pose proof (evict_scan_total (s_ents s) order (S n0)) as Ht.
      pose proof (evict_scan_no_panic s order (S n0)) as Hn.
      destruct (evict_scan (s_ents s) order (S n0)) as [[[|k1 ks]|]|site1]; auto.
      - destruct (lock_keys s (k1 :: ks)). eauto.
      - exfalso. apply Ht; auto. intros k0 Hk. apply Hin in Hk. apply keys_aget in Hk as [e He]. congruence.
      - exfalso. eapply Hn; eauto. }
    exists s1, o1. split; auto. eapply do_enter_inv; eauto.
  - (* PKeyTry *) destruct (handle_present s a _ k HI Ha) as [e He]; [cbn; rewrite Nat.eqb_refl; auto|].
    unfold do_key_try in E. rewrite He in E. destruct (e_owner e); [discriminate|]. destruct (new_guard s k). discriminate.
  - destruct (handle_present s a _ k HI Ha) as [e He]; [cbn; rewrite Nat.eqb_refl; auto|].
    unfold do_key_wait in E. rewrite He in E. destruct (e_owner e); [discriminate|]. destruct (new_guard s k). discriminate.
  - (* PCleanup *) revert E. apply CS.
    destruct (handle_present s a _ k HI Ha) as [e He]; [cbn; rewrite Nat.eqb_refl; auto|].
    pose proof (cleanup_no_panic s a (PCleanup sh k) k) as Hn.
    assert (exists ents, cleanup_ents (s_ents s) k = inl (Some ents)) as [ents Hc].
    { destruct (cleanup_ents (s_ents s) k) as [[ents|]|site1] eqn:Hc; [eauto| |].
      - unfold cleanup_ents in Hc. rewrite He in Hc. destruct (Nat.eqb _ 1); [|discriminate].
        destruct (e_owner e); [discriminate|]. destruct (e_val e); discriminate.
      - exfalso. eapply Hn; eauto; cbn; rewrite ?Nat.eqb_refl; auto. }
    unfold do_cleanup. rewrite Hc. eexists _, _. split; [reflexivity|].
    eapply (do_cleanup_inv c s a sh k); eauto. unfold do_cleanup. rewrite Hc. reflexivity.
  - (* PCancel *) revert E. apply CS.
    pose proof (cancel_no_panic c s a (PCancel k) k) as Hn.
    destruct (handle_present s a _ k HI Ha) as [e He]; [cbn; rewrite Nat.eqb_refl; auto|].
    assert (exists ents, cancel_ents c (s_ents s) a k = inl (Some ents)) as [ents Hc].
    { destruct (cancel_ents c (s_ents s) a k) as [[ents|]|site1] eqn:Hc; [eauto| |].
      - unfold cancel_ents in Hc. rewrite He in Hc. cbn [e_repl set_repl e_owner e_val] in Hc.
        destruct (Nat.eqb _ 0); [|discriminate]. destruct (e_owner _); [discriminate|]. destruct (e_val _); discriminate.
      - exfalso. eapply Hn; eauto; cbn; rewrite ?Nat.eqb_refl; auto. }
    rewrite Hc. eexists _, _. split; [reflexivity|]. eapply do_pcancel_inv; eauto.
  - (* PScan *) revert E. apply CS. unfold do_scan. destruct (Hor eq_refl) as (order & Hord & Hnd & Hin). rewrite Hord.
    destruct (lock_keys s (expired_keys (s_ents s) order cutoff)) as [s1 l] eqn:El.
    eexists _, _. split; [reflexivity|]. eapply (do_scan_inv c s a cutoff o); eauto.
    unfold do_scan. rewrite Hord, El. reflexivity.
  - revert E. apply CS. unfold do_stream_enter. destruct (Hor eq_refl) as (order & Hord & Hnd & Hin). rewrite Hord. eexists _, _. split; [reflexivity|].
    eapply (do_stream_enter_inv c s a o); eauto. unfold do_stream_enter. rewrite Hord. reflexivity.
  - revert E. apply CS. eexists _, _. split; [reflexivity|]. apply (pc_change_inv s a PCount None); auto; solve_pc.
  - revert E. apply CS. destruct (Hor eq_refl) as (order & Hord & Hnd & Hin). rewrite Hord. eexists _, _. split; [reflexivity|]. apply (pc_change_inv s a PKeys None); auto; solve_pc.
Qed.

(* a waiter that was handed the mutex can take its step and gets the guard *)
Theorem handed_waiter_runs c s a sh k e o :
  aget a (s_ops s) = Some (PQueued sh k) -> aget k (s_ents s) = Some e -> e_owner e = Some (OwnW a) ->
  exists s' g, step c s (LResume a o) = ROk s' (OGuard g k (val_of e)) /\ In (g, k) (s_guards s').
Proof.
  intros Ha He Ho. cbn. unfold do_resume. rewrite Ha. unfold do_queued. rewrite He, Ho. cbn. rewrite Nat.eqb_refl.
  eexists _, _. split; [reflexivity|]. cbn. auto.
Qed.

(* a key nobody holds or waits for is acquired without waiting *)
Theorem free_key_acquires c s a sh k e o :
  aget a (s_ops s) = Some (PKeyWait sh k) -> aget k (s_ents s) = Some e -> e_owner e = None ->
  exists s' g, step c s (LResume a o) = ROk s' (OGuard g k (val_of e)).
Proof.
  intros Ha He Ho. cbn. unfold do_resume. rewrite Ha. unfold do_key_wait. rewrite He, Ho. cbn. eauto.
Qed.

Theorem absent_key_acquires c s a sh k s' ob :
  aget k (s_ents s) = None -> do_lookup c s a sh k = ROk s' ob -> exists g, ob = OGuard g k None.
Proof. intros He. unfold do_lookup. rewrite He. cbn [new_guard]. intros H; inv H. eauto. Qed.

(* releasing a key hands it to the oldest waiter *)
Theorem release_hands_over c s g k e a q s1 :
  Inv s -> aget g (s_guards s) = Some k -> aget k (s_ents s) = Some e -> e_queue e = a :: q ->
  unlock_cs c s g = inl (Some s1) ->
  exists e1, aget k (s_ents s1) = Some e1 /\ e_owner e1 = Some (OwnW a) /\ e_queue e1 = q.
Proof.
  intros HI Hg He Hq. unfold unlock_cs. rewrite Hg, He.
  assert (M : mx_release e = set_queue (set_owner e (Some (OwnW a))) q) by (unfold mx_release; rewrite Hq; auto).
  assert (R : 2 <= e_repl e).
  { pose proof (inv_k _ HI k) as [kmx kg kw kr k2 kp]. rewrite (kr e He). unfold handles.
    assert (0 < gcount (s_guards s) k) by (apply gcount_pos; exists g; apply aget_In; auto).
    assert (0 < ops_handles (s_ops s) k).
    { apply waits_on_handles with (a := a). apply kw. exists e. split; auto. left. rewrite Hq. left; auto. }
    lia. }
  destruct (e_val e).
  - intros H; inv H. cbn. rewrite aget_aset_eq. rewrite M. eauto.
  - cbn [e_repl set_repl]. destruct (Nat.eqb_spec (e_repl e - 1) 0); [lia|].
    intros H; inv H. cbn. rewrite promote_if_lru_get, aget_aset_eq, M. eauto.
Qed.

(* nobody can run => every blocked waiter waits for a key held by a live (client-owned) guard *)
Theorem blocked_on_guard s a sh k :
  Inv s -> aget a (s_ops s) = Some (PQueued sh k) ->
  (forall a' sh' k', aget a' (s_ops s) = Some (PQueued sh' k') -> agent_blocked s a' (PQueued sh' k') = true) ->
  (forall a' subs, aget a' (s_ops s) = Some (PStream subs) -> subs <> [] -> agent_blocked s a' (PStream subs) = true) ->
  (forall a' subs, aget a' (s_ops s) <> Some (PStreamDrop subs)) ->
  (forall a' k', aget a' (s_ops s) <> Some (PCancel k')) ->
  exists g, aget g (s_guards s) = Some k.
Proof.
  intros HI Ha Hq Hs Hd Hc. pose proof (inv_k _ HI k) as [kmx kg kw kr k2 kp].
  assert (W : waits_on s a k) by (exists (PQueued sh k); split; auto; cbn; apply Nat.eqb_refl).
  apply kw in W as (e & He & Hw).
  pose proof (Hq a sh k Ha) as Hqa. cbn in Hqa. unfold handed in Hqa. rewrite He in Hqa. apply negb_true_iff in Hqa.
  destruct Hw as [Hin|Ho]; [|rewrite Ho in Hqa; cbn in Hqa; rewrite Nat.eqb_refl in Hqa; discriminate].
  destruct (e_owner e) as [[g|a']|] eqn:Eo.
  - exists g. apply kg. eauto.
  - (* handed to a': then a' could run, contradiction *)
    exfalso. assert (W' : waits_on s a' k) by (apply kw; eauto).
    destruct W' as (p' & Ha' & Hw').
    destruct p'; cbn in Hw'; try discriminate.
    + apply Nat.eqb_eq in Hw'. subst k0.
      pose proof (Hq a' sh0 k Ha') as B.
      cbn in B. unfold handed in B. rewrite He, Eo in B. cbn in B. rewrite Nat.eqb_refl in B. discriminate.
    + eapply Hc; eauto.
    + (* a stream with a handed sub-future is not blocked *)
      assert (subs <> []) by (intros ->; discriminate).
      specialize (Hs a' subs Ha' H). cbn in Hs. destruct subs as [|x t]; [congruence|].
      rewrite forallb_forall in Hs. unfold sub_waits in Hw'.
      destruct (aget k (x :: t)) as [[]|] eqn:Ek; try discriminate.
      apply aget_In in Ek. specialize (Hs _ Ek). cbn in Hs. unfold handed in Hs. rewrite He, Eo in Hs. cbn in Hs.
      rewrite Nat.eqb_refl in Hs. discriminate.
    + eapply Hd; eauto.
  - destruct (kmx e He) as (m1 & _). rewrite (m1 Eo) in Hin. destruct Hin.
Qed.

(* ------------------------------------------------------------------ *)
(* C11: lock_all_entries *)

Theorem stream_snapshot c s a o s' ks :
  Inv s -> aget a (s_ops s) = Some PStreamEnter -> step c s (LResume a o) = ROk s' (OStream ks) ->
  NoDup ks /\ (forall k, In k ks <-> In k (akeys (s_ents s))) /\
  aget a (s_ops s') = Some (PStream (init_subs ks)) /\ akeys (s_ents s') = akeys (s_ents s).
Proof.
  intros HI Ha H. cbn in H. unfold do_resume in H. rewrite Ha in H. apply cs_ok in H. unfold do_stream_enter in H.
  destruct (iter_order c s o) as [order|] eqn:Eo; [|discriminate]. inv H.
  destruct (iter_order_spec c s o ks (inv_nd_e _ HI) Eo) as (H1 & H2 & _).
  repeat split; auto; try apply H2.
  - cbn. apply aget_aset_eq.
  - cbn. apply clone_all_akeys.
Qed.

(* a stream step for key k: what can be observed and how the set of pending keys evolves *)
Theorem stream_sub_step c s a subs k o s' ob :
  aget a (s_ops s) = Some (PStream subs) -> step c s (LSub a k o) = ROk s' ob ->
  aget k subs <> None /\
  exists subs', aget a (s_ops s') = Some (PStream subs') /\
    (forall k', aget k' subs' <> None -> aget k' subs <> None) /\
    (forall k', k' <> k -> aget k' subs' = aget k' subs) /\
    match ob with
    | OItem g k' v => k' = k /\ vof s k = Some v /\ In (g, k) (s_guards s') /\ aget k subs' = None
    | ONothing => True
    | _ => False
    end.
Proof.
  intros Ha H. cbn in H. unfold do_sub in H. rewrite Ha in H.
  assert (P : do_sub_poll c s a subs k = ROk s' ob -> aget k subs <> None /\
    exists subs', aget a (s_ops s') = Some (PStream subs') /\
      (forall k', aget k' subs' <> None -> aget k' subs <> None) /\
      (forall k', k' <> k -> aget k' subs' = aget k' subs) /\
      match ob with
      | OItem g k' v => k' = k /\ vof s k = Some v /\ In (g, k) (s_guards s') /\ aget k subs' = None
      | ONothing => True
      | _ => False
      end).
  { intros H1. unfold do_sub_poll in H1. destruct (aget k subs) as [st|] eqn:Hs; [|discriminate].
    split; [discriminate|].
    destruct (aget k (s_ents s)) as [e|] eqn:He; [|discriminate].
    assert (Mono_del : forall k', aget k' (adel k subs) <> None -> aget k' subs <> None).
    { intros k'. rewrite aget_adel. destruct (Nat.eqb k' k); [congruence|auto]. }
    assert (Mono_set : forall st' k', aget k' (aset k st' subs) <> None -> aget k' subs <> None).
    { intros st' k'. rewrite aget_aset. destruct (Nat.eqb_spec k' k); [subst; congruence|auto]. }
    assert (Acq : forall s' ob,
      (let (s1, g) := new_guard s k in
       let s2 := with_ents s1 (aset k (set_owner e (Some (OwnG g))) (s_ents s1)) in
       match val_of e with
       | Some v => ROk (set_pc s2 a (PStream (adel k subs))) (OItem g k v)
       | None => ROk (set_pc s2 a (PStream (aset k (SUnlocking g) subs))) ONothing
       end) = ROk s' ob ->
      exists subs', aget a (s_ops s') = Some (PStream subs') /\
      (forall k', aget k' subs' <> None -> aget k' subs <> None) /\
      (forall k', k' <> k -> aget k' subs' = aget k' subs) /\
      match ob with
      | OItem g k' v => k' = k /\ vof s k = Some v /\ In (g, k) (s_guards s') /\ aget k subs' = None
      | ONothing => True
      | _ => False
      end).
    { intros s1 o1 Hr. cbn [new_guard] in Hr. destruct (val_of e) as [v|] eqn:Ev; inv Hr.
      - exists (adel k subs). cbn. rewrite aget_aset_eq. repeat split; auto.
        + intros k' Hne. apply aget_adel_neq; auto.
        + unfold vof, vof_e. rewrite He. auto.
        + apply aget_adel_eq.
      - exists (aset k (SUnlocking (s_gid s)) subs). cbn. rewrite aget_aset_eq. repeat split; eauto.
        intros k' Hne. apply aget_aset_neq; auto. }
    destruct st.
    - destruct (e_owner e); [|apply Acq; auto].
      inv H1. exists (aset k SQueued subs). cbn. rewrite aget_aset_eq. repeat split; eauto.
      intros k' Hne. apply aget_aset_neq; auto.
    - destruct (own_is_waiter _ a); [apply Acq; auto|discriminate].
    - destruct (unlock_cs c s g) as [[s1|]|] eqn:Hu; inv H1.
      exists (adel k subs). cbn. rewrite aget_aset_eq. repeat split; auto.
      intros k' Hne. apply aget_adel_neq; auto. }
  destruct (aget k subs) as [[| |g]|]; try (apply cs_ok in H); apply P; auto.
Qed.

Theorem stream_pollend c s a subs s' ob :
  aget a (s_ops s) = Some (PStream subs) -> step c s (LPollEnd a) = ROk s' ob ->
  s' = s /\ (ob = OEnd <-> subs = []) /\ (ob = OPending <-> subs <> []).
Proof.
  intros Ha H. cbn in H. unfold do_pollend in H. rewrite Ha in H.
  destruct subs; inv H; repeat split; auto; try discriminate; try congruence.
Qed.

(* a guard without a value is never yielded: it is dropped by the stream itself *)
Theorem stream_valueless_not_yielded c s a subs k o s' g k' v :
  aget a (s_ops s) = Some (PStream subs) -> step c s (LSub a k o) = ROk s' (OItem g k' v) -> vof s k <> None.
Proof.
  intros Ha H. destruct (stream_sub_step c s a subs k o s' _ Ha H) as (_ & subs' & _ & _ & _ & (_ & Hv & _)).
  congruence.
Qed.

(* ------------------------------------------------------------------ *)
(* C06: cancellation *)

Theorem cancel_pending_lock c s a sh k o :
  Inv s -> aget a (s_ops s) = Some (PQueued sh k) -> sh_is_async sh = true ->
  exists s1 s2,
    step c s (LCancel a) = ROk s1 ONothing /\ aget a (s_ops s1) = Some (PCancel k) /\
    s_ents s1 = s_ents s /\ s_guards s1 = s_guards s /\
    step c s1 (LResume a o) = ROk s2 OCancelled /\
    aget a (s_ops s2) = None /\ ~ waits_on s2 a k /\ Inv s2 /\
    (forall k', vof s2 k' = vof s k') /\ s_guards s2 = s_guards s.
Proof.
  intros HI Ha Hsh.
  assert (E1 : step c s (LCancel a) = ROk (set_pc s a (PCancel k)) ONothing).
  { cbn. unfold do_cancel. rewrite Ha, Hsh. reflexivity. }
  pose proof (step_inv c s _ _ _ HI E1) as HI1.
  assert (Ha1 : aget a (s_ops (set_pc s a (PCancel k))) = Some (PCancel k)) by (cbn; apply aget_aset_eq).
  destruct (resume_enabled c _ a (PCancel k) o HI1 Ha1 eq_refl) as (s2 & ob & E2); [discriminate|].
  pose proof (step_inv c _ _ _ _ HI1 E2) as HI2.
  exists (set_pc s a (PCancel k)), s2.
  assert (Hfin : ob = OCancelled /\ aget a (s_ops s2) = None /\ s_guards s2 = s_guards s).
  { pose proof E2 as E2'. cbn in E2'. unfold do_resume in E2'. rewrite Ha1 in E2'. apply cs_ok in E2'.
    cbn [s_ents set_pc with_ops] in E2'.
    destruct (cancel_ents c (s_ents s) a k) as [[ents|]|]; inv E2'. repeat split; auto. cbn. apply aget_adel_eq. }
  destruct Hfin as (-> & Hn & Hg).
  split; [exact E1|]. split; [exact Ha1|]. split; [reflexivity|]. split; [reflexivity|]. split; [exact E2|].
  split; [exact Hn|]. split; [intros (p & Hp & _); congruence|]. split; [exact HI2|]. split; [|exact Hg].
  intros k'. rewrite (step_values_unchanged c _ _ _ _ E2 eq_refl k').
  apply (step_values_unchanged c _ _ _ _ E1 eq_refl k').
Qed.

(* dropping a stream: every pending per-entry future can be dropped, and doing so removes it *)
Theorem cancel_stream_sub c s a subs k o :
  Inv s -> aget a (s_ops s) = Some (PStreamDrop subs) ->
  (aget k subs = Some SInit \/ aget k subs = Some SQueued) ->
  exists s' ob, step c s (LSub a k o) = ROk s' ob /\
    (adel k subs = [] -> ob = OCancelled /\ aget a (s_ops s') = None) /\
    (adel k subs <> [] -> ob = ONothing /\ aget a (s_ops s') = Some (PStreamDrop (adel k subs))) /\
    (forall k', vof s' k' = vof s k').
Proof.
  intros HI Ha Hk.
  destruct (step c s (LSub a k o)) as [s' ob| |site] eqn:E; [| |exfalso; eapply step_no_panic; eauto].
  - exists s', ob. split; auto. pose proof E as E'. cbn in E'. unfold do_sub in E'. rewrite Ha in E'. apply cs_ok in E'.
    unfold do_sub_drop in E'.
    assert (exists ents, cancel_ents c (s_ents s) a k = inl (Some ents) /\
              match adel k subs with
              | [] => ROk (fin (with_ents s ents) a) OCancelled
              | _ => ROk (set_pc (with_ents s ents) a (PStreamDrop (adel k subs))) ONothing
              end = ROk s' ob) as (ents & Hc & Hr).
    { destruct Hk as [Hk|Hk]; rewrite Hk in E';
        destruct (cancel_ents c (s_ents s) a k) as [[ents|]|]; try discriminate; eauto. }
    split; [|split].
    + intros Hd. rewrite Hd in Hr. inv Hr. split; auto. cbn. apply aget_adel_eq.
    + intros Hd. destruct (adel k subs) eqn:Ed; [congruence|]. inv Hr. split; auto. cbn. apply aget_aset_eq.
    + intros k'. apply (step_values_unchanged c _ _ _ _ E eq_refl k').
  - exfalso. cbn in E. unfold do_sub in E. rewrite Ha in E.
    assert (H1 : pc_handles (PStreamDrop subs) k = 1) by (cbn; unfold sub_handles; destruct Hk as [-> | ->]; auto).
    destruct (handle_present s a _ k HI Ha H1) as [e He].
    pose proof (cancel_no_panic c s a (PStreamDrop subs) k) as Hn.
    assert (exists ents, cancel_ents c (s_ents s) a k = inl (Some ents)) as [ents Hc].
    { destruct (cancel_ents c (s_ents s) a k) as [[ents|]|site1] eqn:Hc; [eauto| |].
      - unfold cancel_ents in Hc. rewrite He in Hc. cbn [e_repl set_repl e_owner e_val] in Hc.
        destruct (Nat.eqb _ 0); [|discriminate]. destruct (e_owner _); [discriminate|]. destruct (e_val _); discriminate.
      - exfalso. eapply Hn; eauto. }
    assert (exists s1 o1, do_sub_drop c s a subs k = ROk s1 o1) as (s1 & o1 & Hd).
    { unfold do_sub_drop. destruct Hk as [-> | ->]; rewrite Hc; destruct (adel k subs); eauto. }
    rewrite Hd in E. rewrite cs_intro in E; [discriminate|auto|].
    eapply do_sub_drop_inv; eauto.
Qed.

(* ------------------------------------------------------------------ *)
(* C08 / C15: callbacks *)

Theorem callback_error_propagates c s a sh k n offered s' ob :
  aget a (s_ops s) = Some (PInCb sh k n offered) ->
  step c s (LCbReturn a CbErr false) = ROk s' ob ->
  ob = OErr /\ s' = fin s a.
Proof.
  intros Ha H. cbn in H. unfold do_cbreturn in H. rewrite Ha in H. inv H. auto.
Qed.

(* a panicking callback leaves exactly the state an erroring one leaves (only the observation differs) *)
Theorem callback_panic_like_error c s a hold s1 o1 s2 o2 :
  step c s (LCbReturn a CbPanic hold) = ROk s1 o1 -> step c s (LCbReturn a CbErr hold) = ROk s2 o2 ->
  s_ents s1 = s_ents s2 /\ s_guards s1 = s_guards s2 /\ s_clock s1 = s_clock s2 /\ s_gid s1 = s_gid s2 /\
  (forall a', a' <> a -> aget a' (s_ops s1) = aget a' (s_ops s2)) /\
  match aget a (s_ops s1), aget a (s_ops s2) with
  | None, None => o1 = OPanicked /\ o2 = OErr
  | Some (PDrops gs1 ADonePanicked), Some (PDrops gs2 ADoneErr) => gs1 = gs2 /\ o1 = ONothing /\ o2 = ONothing
  | _, _ => False
  end.
Proof.
  cbn. unfold do_cbreturn. destruct (aget a (s_ops s)) as [[]|]; try discriminate.
  destruct hold.
  - destruct offered as [|g rest]; [discriminate|]. destruct (all_live s _ && _)%bool; [|discriminate].
    intros H1 H2; inv H1; inv H2. cbn. rewrite !aget_aset_eq. repeat split; auto.
    intros a' Hne. rewrite !aget_aset_neq; auto.
  - intros H1 H2; inv H1; inv H2. cbn. rewrite !aget_adel_eq. repeat split; auto.
Qed.

(* the drop sequence after a panic ends with the observation OPanicked: the panic reaches the caller *)
Theorem drops_after_panic_report c s a g o s' ob :
  aget a (s_ops s) = Some (PDrops [g] ADonePanicked) -> step c s (LResume a o) = ROk s' ob ->
  ob = OPanicked /\ aget a (s_ops s') = None /\ ~ In g (akeys (s_guards s')).
Proof.
  intros Ha H. cbn in H. unfold do_resume in H. rewrite Ha in H. apply cs_ok in H. unfold do_drops in H.
  destruct (unlock_cs c s g) as [[s1|]|] eqn:Hu; inv H. repeat split; auto.
  - cbn. apply aget_adel_eq.
  - cbn. unfold unlock_cs in Hu. destruct (aget g (s_guards s)) as [k|]; [|discriminate].
    destruct (aget k (s_ents s)) as [e|]; [|discriminate].
    assert (G : s_guards s1 = adel g (s_guards s)).
    { destruct (e_val e); [inv Hu; auto|]. destruct (Nat.eqb _ 0); inv Hu; auto. }
    rewrite G, akeys_adel. rewrite remove_nat_In. tauto.
Qed.

(* a panicking value_or_insert_with closure leaves the state untouched and the guard alive *)
Theorem closure_panic_no_effect c s g s' ob :
  step c s (LGuardOp g GClosurePanic) = ROk s' ob -> s' = s /\ (ob = OPanicked \/ exists v, ob = OVal (Some v)).
Proof.
  cbn. unfold do_guard_op. destruct (negb (guard_live s g)); [discriminate|].
  destruct (aget g (s_guards s)) as [k|]; [|discriminate]. destruct (aget k (s_ents s)) as [e|]; [|discriminate].
  destruct (e_val e) as [[v st]|]; intros H; inv H; split; eauto.
Qed.

(* while a callback runs, the library holds nothing: any new call can be started (re-entrancy) *)
Theorem reentrant_start c s a' sh k lim :
  aget a' (s_ops s) = None -> lim_ok lim = true ->
  step c s (LStart a' (CLock sh k lim)) = ROk (set_pc s a' (PEnter sh k lim)) ONothing.
Proof.
  intros Ha Hl. cbn. unfold do_start, amem. rewrite Ha, Hl. reflexivity.
Qed.

(* an agent inside its callback holds no handle of the library *)
Lemma incb_holds_nothing sh k n offered k' : pc_handles (PInCb sh k n offered) k' = 0 /\ pc_waits (PInCb sh k n offered) k' = false.
Proof. auto. Qed.

Theorem all_locked_proceeds c s a sh k n o s' ob :
  Inv s -> aget a (s_ops s) = Some (PEnter sh k (Some n)) ->
  (forall k0, In k0 (akeys (s_ents s)) -> evictable_b (s_ents s) k0 = false) ->
  step c s (LResume a o) = ROk s' ob ->
  (forall l, ob <> OOffered l) /\ do_lookup c s a sh k = ROk s' ob.
Proof.
  intros HI Ha Hne H.
  assert (Hno : forall l, ob <> OOffered l).
  { intros l ->. destruct (enter_offered c s a sh k n o s' l HI Ha H) as (order & Ho & _ & Hnn & _ & Hf & _).
    destruct (iter_order_spec c s o order (inv_nd_e _ HI) Ho) as (_ & Hin & _).
    assert (Hall : forall x, In x order -> evictable_b (s_ents s) x = false) by (intros x Hx; apply Hne; apply Hin; auto).
    assert (E : filter (evictable_b (s_ents s)) order = []).
    { clear -Hall. induction order as [|x t IH]; cbn; auto.
      rewrite (Hall x) by (left; auto). apply IH. intros k Hk. apply Hall. right; auto. }
    rewrite E, firstn_nil in Hf. destruct l; [congruence|discriminate]. }
  split; auto. apply (enter_proceeds c s a sh k n o s' ob HI Ha H Hno).
Qed.
