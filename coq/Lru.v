(* C09, interval form: in the LRU cache, if no step of a lock call for A and no unlock of a guard for A
   happens after the look-up of a lock call for B, then A precedes B in the recency order (and is
   therefore offered for eviction no later than B). *)
From Coq Require Import List Arith ZArith Bool Lia.
From LK Require Import AList AListFacts Model Inv StepInv NoPanic PropLemmas.
Import ListNotations.

(* ------------------------------------------------------------------ *)
(* a step moves only its subject key: it stays, disappears, or goes to the MRU end *)

Definition R3 (k : key) (l l' : list key) : Prop :=
  l' = l \/ l' = remove_nat k l \/ l' = remove_nat k l ++ [k].

Lemma R3_same k l : R3 k l l. Proof. left; auto. Qed.

Lemma cleanup_R3 ents k ents' : cleanup_ents ents k = inl (Some ents') -> R3 k (akeys ents) (akeys ents').
Proof.
  unfold cleanup_ents. destruct (aget k ents) as [e|] eqn:He; [|discriminate].
  destruct (Nat.eqb _ 1).
  - destruct (e_owner e); [discriminate|]. destruct (e_val e); intros H; inv H.
    + left. eapply akeys_aset_present; eauto.
    + right; left. apply akeys_adel.
  - intros H; inv H. left. eapply akeys_aset_present; eauto.
Qed.

Lemma cancel_R3 c ents a k ents' : cancel_ents c ents a k = inl (Some ents') -> R3 k (akeys ents) (akeys ents').
Proof.
  unfold cancel_ents. destruct (aget k ents) as [e|] eqn:He; [|discriminate]. cbn [e_repl set_repl e_owner e_val].
  assert (K : forall e1, akeys (aset k e1 ents) = akeys ents) by (intros; eapply akeys_aset_present; eauto).
  destruct (Nat.eqb _ 0).
  - destruct (e_owner _); [discriminate|]. destruct (e_val _); intros H; inv H.
    + left. apply K.
    + right; left. rewrite akeys_adel, K. auto.
  - intros H; inv H. left. apply K.
Qed.

Lemma unlock_cs_R3 c s g s1 k : aget g (s_guards s) = Some k ->
  unlock_cs c s g = inl (Some s1) -> R3 k (akeys (s_ents s)) (akeys (s_ents s1)).
Proof.
  intros Hg. unfold unlock_cs, promote_if_lru. rewrite Hg.
  destruct (aget k (s_ents s)) as [e|] eqn:He; [|discriminate].
  assert (K : forall e1, akeys (aset k e1 (s_ents s)) = akeys (s_ents s)) by (intros; eapply akeys_aset_present; eauto).
  destruct (e_val e); [intros H; inv H; cbn; left; apply K|].
  cbn [e_repl set_repl].
  assert (P : forall e1, akeys (apromote k (aset k e1 (s_ents s))) = remove_nat k (akeys (s_ents s)) ++ [k]).
  { intros e1. rewrite (akeys_apromote k e1); [rewrite K; auto|apply aget_aset_eq]. }
  destruct (c_lru c).
  - destruct (Nat.eqb _ 0); intros H; inv H; cbn.
    + right; left. rewrite akeys_adel, P, remove_nat_app, remove_nat_idem. unfold remove_nat at 2.
      rewrite Nat.eqb_refl. apply app_nil_r.
    + right; right. apply P.
  - destruct (Nat.eqb _ 0); intros H; inv H; cbn.
    + right; left. rewrite akeys_adel, K. auto.
    + left. apply K.
Qed.

Lemma lookup_R3 c s a sh k s' o : do_lookup c s a sh k = ROk s' o -> R3 k (akeys (s_ents s)) (akeys (s_ents s')).
Proof.
  unfold do_lookup, promote_if_lru. destruct (aget k (s_ents s)) as [e|] eqn:He.
  - intros H; inv H. cbn [s_ents set_pc with_ents with_ops]. destruct (c_lru c).
    + right; right. rewrite akeys_aset_in; [apply (akeys_apromote k e); auto|].
      apply akeys_apromote_In. eapply aget_Some_keys; eauto.
    + left. eapply akeys_aset_present; eauto.
  - cbn [new_guard]. intros H; inv H. cbn [s_ents fin with_ents with_ops with_gid with_guards].
    assert (Hn : ~ In k (akeys (s_ents s))) by (apply aget_None_keys; auto).
    right; right. rewrite akeys_aset_notin, remove_nat_notin; auto.
Qed.

Theorem step_order3 c s l s' o :
  step c s l = ROk s' o -> (forall o', l <> LConsume o') ->
  match subject s l with
  | Some k => R3 k (akeys (s_ents s)) (akeys (s_ents s'))
  | None => akeys (s_ents s') = akeys (s_ents s)
  end.
Proof.
  intros H Hnc.
  pose proof (step_order_frame c s l s' o H Hnc) as F.
  destruct (subject s l) as [k0|] eqn:Es; [|exact F]. clear F.
  destruct l; cbn [subject] in Es; try discriminate; cbn [step] in H.
  - (* resume *)
    unfold do_resume in H. destruct (aget a (s_ops s)) as [p|] eqn:Ha; [|discriminate].
    assert (L : forall sh k s' o, do_lookup c s a sh k = ROk s' o -> R3 k (akeys (s_ents s)) (akeys (s_ents s'))).
    { intros sh k s1 o1 H1. eapply lookup_R3; eauto. }
    destruct p; try discriminate; inv Es; try (apply cs_ok in H).
    + unfold do_enter in H. destruct lim as [n|]; [|eapply L; eauto].
      destruct (length (s_ents s) - (n - 1)); [eapply L; eauto|].
      destruct (iter_order c s o0); [|discriminate].
      destruct (evict_scan (s_ents s) l (S n0)) as [[[|k1 ks]|]|]; try discriminate; [eapply L; eauto|].
      pose proof (lock_keys_akeys (k1 :: ks) s) as V. destruct (lock_keys s (k1 :: ks)) as [s1 off]. inv H.
      left. apply V.
    + unfold do_key_try in H. destruct (aget k0 (s_ents s)) as [e|] eqn:He; [|discriminate].
      destruct (e_owner e); inv H; left; [reflexivity|]. cbn. eapply akeys_aset_present; eauto.
    + unfold do_key_wait in H. destruct (aget k0 (s_ents s)) as [e|] eqn:He; [|discriminate].
      destruct (e_owner e); inv H; left; cbn; eapply akeys_aset_present; eauto.
    + unfold do_queued in H. destruct (aget k0 (s_ents s)) as [e|] eqn:He; [|discriminate].
      destruct (own_is_waiter _ a); inv H. left. cbn. eapply akeys_aset_present; eauto.
    + unfold do_cleanup in H. destruct (cleanup_ents (s_ents s) k0) as [[ents|]|] eqn:Hc; inv H.
      cbn [s_ents fin with_ents with_ops]. eapply cleanup_R3; eauto.
    + destruct (cancel_ents c (s_ents s) a k0) as [[ents|]|] eqn:Hc; inv H.
      cbn [s_ents fin with_ents with_ops]. eapply cancel_R3; eauto.
    + destruct gs as [|g rest]; [discriminate|]. rename H1 into Hg.
      unfold do_drops in H. destruct (unlock_cs c s g) as [[s1|]|] eqn:Hu; try discriminate.
      pose proof (unlock_cs_R3 c s g s1 k0 Hg Hu) as V.
      destruct rest; [destruct af|]; inv H; auto.
      cbn [s_ents set_pc with_ops]. rewrite begin_unlock_akeys. auto.
  - (* sub *)
    unfold do_sub in H. destruct (aget a (s_ops s)) as [p|] eqn:Ha.
    + destruct p; try (inv Es; discriminate).
      * (* poll *)
        assert (P : do_sub_poll c s a subs k = ROk s' o -> R3 k0 (akeys (s_ents s)) (akeys (s_ents s'))).
        { intros H1. unfold do_sub_poll in H1. destruct (aget k subs) as [st|] eqn:Hs; [|discriminate].
          destruct (aget k (s_ents s)) as [e|] eqn:He; [|discriminate].
          destruct st.
          - inv Es. destruct (e_owner e).
            + inv H1. left. cbn. eapply akeys_aset_present; eauto.
            + cbn [new_guard] in H1. destruct (val_of e); inv H1; left; cbn; eapply akeys_aset_present; eauto.
          - inv Es. destruct (own_is_waiter _ a); [|discriminate]. cbn [new_guard] in H1.
            destruct (val_of e); inv H1; left; cbn; eapply akeys_aset_present; eauto.
          - destruct (unlock_cs c s g) as [[s1|]|] eqn:Hu; inv H1. cbn [s_ents set_pc with_ops].
            eapply unlock_cs_R3; eauto. }
        destruct (aget k subs) as [[| |g]|]; try (apply cs_ok in H); apply P; auto.
      * (* drop *)
        inv Es. apply cs_ok in H. unfold do_sub_drop in H. destruct (aget k0 subs) as [st|]; [|discriminate].
        destruct st; try discriminate;
          (destruct (cancel_ents c (s_ents s) a k0) as [[ents|]|] eqn:Hc; try discriminate;
           pose proof (cancel_R3 c _ a k0 ents Hc) as V;
           destruct (adel k0 subs); inv H; auto).
    + discriminate.
Qed.

(* ------------------------------------------------------------------ *)
(* "x comes before y" in a list *)

Definition before (l : list key) (x y : key) : Prop := exists l1 l2, l = l1 ++ x :: l2 /\ In y l2.

Lemma before_cons_iff l z x y : before (z :: l) x y <-> (z = x /\ In y l) \/ before l x y.
Proof.
  split.
  - intros (l1 & l2 & E & Hy). destruct l1 as [|w t]; cbn in E; inv E; [left; auto|right; exists t, l2; auto].
  - intros [[-> Hy]|(l1 & l2 & -> & Hy)]; [exists [], l; auto|exists (z :: l1), l2; auto].
Qed.

Lemma before_in l x y : before l x y -> In x l /\ In y l.
Proof. intros (l1 & l2 & -> & Hy). rewrite !in_app_iff. cbn. auto. Qed.

Lemma before_remove k l x y : before (remove_nat k l) x y -> before l x y.
Proof.
  induction l as [|z t IH]; cbn; [intros (l1 & l2 & E & _); destruct l1; discriminate|].
  destruct (Nat.eqb_spec k z).
  - intros H. apply before_cons_iff. right. auto.
  - rewrite !before_cons_iff. intros [[-> Hy]|H]; [left; split; auto; apply remove_nat_In in Hy; tauto|right; auto].
Qed.

Lemma before_snoc l k x y : before (l ++ [k]) x y -> before l x y \/ (In x l /\ y = k).
Proof.
  induction l as [|z t IH]; cbn.
  - intros (l1 & l2 & E & Hy). destruct l1 as [|w [|? ?]]; cbn in E; inv E; destruct Hy.
  - rewrite !before_cons_iff. intros [[-> Hy]|H].
    + apply in_app_iff in Hy as [Hy|[<-|[]]]; [left; left; auto|right; auto].
    + destruct (IH H) as [H1|[H1 H2]]; [left; right; auto|right; auto].
Qed.

Lemma before_total l x y : In x l -> In y l -> x <> y -> before l x y \/ before l y x.
Proof.
  induction l as [|z t IH]; cbn; [tauto|]. intros [->|Hx] [->|Hy] Hne; try congruence.
  - left. apply before_cons_iff. left; auto.
  - right. apply before_cons_iff. left; auto.
  - destruct (IH Hx Hy Hne); [left|right]; apply before_cons_iff; right; auto.
Qed.

Lemma before_irrefl_nodup l x y : NoDup l -> before l x y -> before l y x -> False.
Proof.
  induction 1 as [|z t Hz Hn IH]; [intros (l1 & ? & E & _); destruct l1; discriminate|].
  rewrite !before_cons_iff. intros [[-> Hy]|H1] [[-> Hx]|H2]; auto.
  - apply before_in in H2 as [_ H2]. auto.
  - apply before_in in H1 as [_ H1]. auto.
Qed.

(* ------------------------------------------------------------------ *)
(* ghost: the index of the last step that moved a key to the MRU end *)

Definition upd (lm : key -> nat) (k : key) (i : nat) : key -> nat := fun k' => if Nat.eqb k' k then i else lm k'.

Definition ghost_upd (s : state) (l : label) (s' : state) (i : nat) (lm : key -> nat) : key -> nat :=
  match subject s l with
  | Some k => if list_eq_dec Nat.eq_dec (akeys (s_ents s')) (remove_nat k (akeys (s_ents s)) ++ [k]) then upd lm k i else lm
  | None => lm
  end.

Inductive gsteps (c : cfg) : nat -> state -> (key -> nat) -> list label -> nat -> state -> (key -> nat) -> Prop :=
| g_nil i s lm : gsteps c i s lm [] i s lm
| g_cons i s lm l s' o ls j s'' lm'' :
    step c s l = ROk s' o -> (forall o', l <> LConsume o') ->
    gsteps c (S i) s' (ghost_upd s l s' i lm) ls j s'' lm'' ->
    gsteps c i s lm (l :: ls) j s'' lm''.

Definition GInv (i : nat) (s : state) (lm : key -> nat) : Prop :=
  (forall x y, before (akeys (s_ents s)) x y -> lm x < lm y) /\
  (forall x, In x (akeys (s_ents s)) -> lm x < i) /\
  (forall x, lm x <= i).

Lemma ginv_step c i s lm l s' o :
  c_lru c = true -> Inv s -> step c s l = ROk s' o -> (forall o', l <> LConsume o') ->
  GInv i s lm -> GInv (S i) s' (ghost_upd s l s' i lm).
Proof.
  intros Hl HI H Hnc (G1 & G2 & G3). pose proof (step_order3 c s l s' o H Hnc) as R.
  unfold ghost_upd, GInv. destruct (subject s l) as [k|].
  - destruct (list_eq_dec Nat.eq_dec (akeys (s_ents s')) (remove_nat k (akeys (s_ents s)) ++ [k])) as [E|E].
    + (* moved to the end *)
      rewrite E. split; [|split].
      * intros x y Hb. apply before_snoc in Hb as [Hb|[Hx ->]].
        -- pose proof (before_in _ _ _ Hb) as [Hx Hy]. apply remove_nat_In in Hx as [_ Hx]. apply remove_nat_In in Hy as [_ Hy].
           unfold upd. destruct (Nat.eqb_spec x k); [congruence|]. destruct (Nat.eqb_spec y k); [congruence|].
           apply G1. eapply before_remove; eauto.
        -- apply remove_nat_In in Hx as [Hx Hne]. unfold upd. rewrite Nat.eqb_refl.
           destruct (Nat.eqb_spec x k); [congruence|]. apply G2; auto.
      * intros x Hx. unfold upd. destruct (Nat.eqb_spec x k); [lia|].
        apply in_app_iff in Hx as [Hx|[<-|[]]]; [|congruence].
        apply remove_nat_In in Hx as [Hx _]. specialize (G2 x Hx). lia.
      * intros x. unfold upd. destruct (Nat.eqb x k); [lia|]. specialize (G3 x). lia.
    + assert (G3' : forall x, lm x <= S i) by (intros x; specialize (G3 x); lia).
      destruct R as [R|[R|R]]; [| |congruence]; rewrite R; (split; [|split; [|exact G3']]).
      * auto.
      * intros x Hx. specialize (G2 x Hx). lia.
      * intros x y Hb. apply G1. eapply before_remove; eauto.
      * intros x Hx. apply remove_nat_In in Hx as [Hx _]. specialize (G2 x Hx). lia.
  - rewrite R. split; [auto|split].
    + intros x Hx. specialize (G2 x Hx). lia.
    + intros x. specialize (G3 x). lia.
Qed.

Lemma gsteps_inv c i s lm ls j s' lm' :
  c_lru c = true -> Inv s -> GInv i s lm -> gsteps c i s lm ls j s' lm' -> Inv s' /\ GInv j s' lm'.
Proof.
  intros Hl HI HG H. induction H; auto.
  apply IHgsteps; [eapply step_inv; eauto|eapply ginv_step; eauto].
Qed.

(* the ghost of a key only changes at steps whose subject is that key, and then to the current index *)
Lemma gsteps_unchanged c i s lm ls j s' lm' k :
  gsteps c i s lm ls j s' lm' ->
  Forall (fun sl => True) ls ->
  (forall s0 l, In l ls -> subject s0 l = Some k -> False) ->
  lm' k = lm k.
Proof.
  intros H _ Hno. induction H; auto.
  rewrite IHgsteps; [|intros s0 l0 Hin; apply (Hno s0 l0); right; auto].
  unfold ghost_upd. destruct (subject s l) as [k'|] eqn:Es; auto.
  destruct (list_eq_dec _ _ _); auto. unfold upd. destruct (Nat.eqb_spec k k'); auto.
  subst. exfalso. apply (Hno s l); auto. left; auto.
Qed.

Lemma gsteps_mono c i s lm ls j s' lm' k n :
  gsteps c i s lm ls j s' lm' -> n <= i -> n <= lm k -> n <= lm' k.
Proof.
  intros H. revert n. induction H; intros n Hn Hk; auto.
  apply IHgsteps; [lia|]. unfold ghost_upd. destruct (subject s l) as [k'|]; auto.
  destruct (list_eq_dec _ _ _); auto. unfold upd. destruct (Nat.eqb_spec k k'); auto.
Qed.

(* ------------------------------------------------------------------ *)
(* the interval form of C09 *)

Definition is_lookup_of (c : cfg) (s : state) (l : label) (s' : state) (k : key) : Prop :=
  exists a o sh lim ob, l = LResume a o /\ aget a (s_ops s) = Some (PEnter sh k lim) /\
                        do_lookup c s a sh k = ROk s' ob.

Theorem lru_interval_order c ls1 lB ls2 i s1 lm1 s2 j s3 lm3 A B ob :
  c_lru c = true ->
  gsteps c 0 init (fun _ => 0) ls1 i s1 lm1 ->
  step c s1 lB = ROk s2 ob -> (forall o', lB <> LConsume o') -> is_lookup_of c s1 lB s2 B ->
  gsteps c (S i) s2 (ghost_upd s1 lB s2 i lm1) ls2 j s3 lm3 ->
  (* no step of a lock call for A and no unlock of a guard for A at or after the look-up of B *)
  subject s1 lB <> Some A -> (forall s0 l, In l ls2 -> subject s0 l = Some A -> False) ->
  In A (akeys (s_ents s3)) -> In B (akeys (s_ents s3)) -> A <> B ->
  before (akeys (s_ents s3)) A B.
Proof.
  intros Hl G1 HB HncB (a & o & sh & lim & ob' & -> & Ha & Hlook) G2 HsA HnoA HA HB' Hne.
  assert (GI0 : GInv 0 init (fun _ => 0)).
  { split; [intros x y (l1 & l2 & E & _); destruct l1; discriminate|split; [intros x []|intros; lia]]. }
  destruct (gsteps_inv c 0 init _ ls1 i s1 lm1 Hl Inv_init GI0 G1) as [HI1 GI1].
  pose proof (ginv_step c i s1 lm1 _ s2 ob Hl HI1 HB HncB GI1) as GI2.
  pose proof (step_inv c s1 _ s2 ob HI1 HB) as HI2.
  destruct (gsteps_inv c (S i) s2 _ ls2 j s3 lm3 Hl HI2 GI2 G2) as [HI3 [GS GB]].
  destruct GI1 as (_ & _ & GI1le).
  (* ghost of B after its look-up is i, and only grows; ghost of A is below i and frozen *)
  set (lm2 := ghost_upd s1 (LResume a o) s2 i lm1) in *.
  assert (EB : lm2 B = i).
  { unfold lm2, ghost_upd. cbn [subject]. rewrite Ha.
    pose proof (lookup_promotes c s1 a sh B s2 ob' Hl Hlook) as P.
    destruct (list_eq_dec _ _ _) as [_|N]; [|congruence]. unfold upd. rewrite Nat.eqb_refl. auto. }
  assert (EA : lm2 A = lm1 A).
  { unfold lm2, ghost_upd. cbn [subject] in *. rewrite Ha in *. destruct (list_eq_dec _ _ _); auto.
    unfold upd. destruct (Nat.eqb_spec A B); [congruence|auto]. }
  assert (FA : lm3 A = lm2 A) by (eapply gsteps_unchanged; eauto; apply Forall_forall; auto).
  assert (MB : i <= lm3 B) by (eapply (gsteps_mono c (S i) s2 lm2 ls2 j s3 lm3 B i); eauto; lia).
  (* A was either present after ls1 (ghost < i) or absent; if absent and never touched later it cannot be present at the end *)
  destruct (before_total _ A B HA HB' Hne) as [Hb|Hb]; auto.
  exfalso. specialize (GS B A Hb). rewrite FA, EA in GS. specialize (GI1le A). lia.
Qed.

(* a prefix of the evictable entries in recency order never passes over an earlier evictable entry *)
Lemma In_firstn_In {A} (x : A) n l : In x (firstn n l) -> In x l.
Proof. revert l. induction n; intros [|y t]; cbn; try tauto. intros [->|H]; auto. Qed.

Lemma firstn_reaches (m1 m2 : list key) A B n :
  In B (firstn n (m1 ++ A :: m2)) -> ~ In B m1 -> B <> A -> In A (firstn n (m1 ++ A :: m2)).
Proof.
  revert n. induction m1 as [|z t IH]; intros n HB Hn Hne.
  - destruct n; cbn in *; [destruct HB|]. auto.
  - destruct n; cbn in *; [destruct HB|]. destruct HB as [->|HB]; [tauto|]. right. apply IH; auto.
Qed.

Lemma NoDup_app_disjoint {A} (l1 l2 : list A) x : NoDup (l1 ++ l2) -> In x l1 -> In x l2 -> False.
Proof.
  induction l1 as [|y t IH]; cbn; [tauto|]. intros H [->|H1] H2.
  - inversion H; subst. apply H3. apply in_app_iff. auto.
  - inversion H; subst. auto.
Qed.

Lemma prefix_respects_before (f : key -> bool) l n A B :
  NoDup l -> before l A B -> f A = true -> In B (firstn n (filter f l)) -> In A (firstn n (filter f l)).
Proof.
  intros Hnd Hb HfA HB.
  assert (HfB : f B = true) by (apply In_firstn_In in HB; apply filter_In in HB; tauto).
  destruct Hb as (l1 & l2 & -> & Hy).
  assert (HnB : ~ In B l1 /\ B <> A).
  { split.
    - intros Hin. apply (NoDup_app_disjoint l1 (A :: l2) B Hnd Hin). right; auto.
    - intros ->. apply NoDup_remove_2 in Hnd. apply Hnd. apply in_app_iff. auto. }
  rewrite filter_app in *. cbn in *. rewrite HfA in *.
  apply (firstn_reaches _ _ A B n); [auto| |tauto]. intros Hin. apply filter_In in Hin. tauto.
Qed.
